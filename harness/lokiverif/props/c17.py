"""C17 — cloning a program unit yields an independent, correctly scoped copy.

Cases
-----
* ``clone``       : a generated Fortran source (module with variables / parameters / derived types / imports / module
                    procedures with member procedures, ASSOCIATE blocks, host association, shadowing), parsed with the
                    fparser frontend; one unit of it (the module, a module procedure, a member procedure, a stand-alone
                    routine) is cloned; then a history of *modelled* edits is applied to either copy.
                    The scope graph of the original is extracted from the real objects (every Scope object gets a label;
                    every symbol occurrence of the IR, every symbol inside the attributes of a symbol-table entry, every
                    ProcedureType.procedure / DerivedType.typedef pointer and every parent pointer is recorded by the label
                    of the object it refers to); the Coq model is run by vm_compute on the extracted original and must
                    produce exactly the extracted clone, and after the edits exactly both extracted copies.
* ``clone-leaky`` : same, but the generator uses the constructs for which the real clone keeps pointers into the
                    original (ASSOCIATE over arrays with local shape/kind symbols, CHARACTER(LEN=n), derived types
                    defined inside the cloned unit); tie only (the model reproduces the leaks), the closedness oracle
                    is not applied.
* ``clone-file``  : Sourcefile.clone of a file with several units.
* ``clone-free``  : arbitrary real edits (renaming through SubstituteExpressions, variables setter, Transformer,
                    adding members by clone(name=..)) on either copy; oracle only.

The oracle never uses the model: fgen equality after cloning, no symbol/type/parent pointer of the clone refers to a
scope object of the original, every symbol reads the same type, the original is untouched by clone(), and after every
edit of one copy fgen and scope graph of the OTHER copy are unchanged.
"""
import json, types
from ..framework import Property

D = 1000          # offset of the labels of the clone's scope objects
CTX0 = 100        # labels of the enclosing scopes of the original
FOREIGN0 = 500    # labels of scope objects that belong to neither


# ------------------------------------------------------------------------------------------------------------------
# scope-graph extraction from real Loki objects (shared with C18)
# ------------------------------------------------------------------------------------------------------------------
_SG = None
def sg():
    """late import of loki (LOKI_VERIF_REPO / pool workers decide where it comes from)"""
    global _SG
    if _SG is not None:
        return _SG
    from loki.ir import nodes as ir
    from loki.ir.nodes.abstract_nodes import ScopedNode, Node
    from loki.program_unit import ProgramUnit
    from loki.subroutine import Subroutine
    from loki.module import Module
    from loki.expression import symbols as sym
    from loki.expression.mappers import ExpressionRetriever
    from loki.types import SymbolAttributes, ProcedureType, DerivedType, BasicType, Scope
    from loki.tools import as_tuple, flatten
    import pymbolic.primitives as pmbl

    retr = ExpressionRetriever(lambda e: isinstance(e, sym.TypedSymbol))
    RESCOPED_ATTRS = ('kind', 'initial', 'shape', 'bind_names')

    def kind_of(s):
        if isinstance(s, Module): return 'mod'
        if isinstance(s, Subroutine): return 'fun' if s.is_function else 'sub'
        if isinstance(s, ir.Associate): return 'assoc'
        if isinstance(s, ir.TypeDef): return 'typedef'
        return type(s).__name__

    class Tree:
        """scope tree of one program unit: records in pre-order (scoped nodes before contained units)"""
        def __init__(self, unit):
            self.recs, self.objs = [], []
            self.root = self._unit(unit)

        def _new(self, s):
            r = {'idx': len(self.recs), 'kind': kind_of(s), 'name': str(getattr(s, 'name', '') or '').lower(),
                 'occ': [], 'decl': set(), 'nodes': [], 'members': []}
            self.recs.append(r); self.objs.append(s)
            return r

        def _unit(self, u):
            r = self._new(u)
            for nm in ('docstring', 'spec', 'body'):
                sec = getattr(u, nm, None)
                if sec is not None: self._walk(sec, r)
            members = []
            if getattr(u, 'contains', None) is not None:
                for n in u.contains.body:
                    if isinstance(n, ProgramUnit): members.append(n)
                    else: self._walk(n, r)
            for n in members:
                r['members'].append(self._unit(n))
            return r

        def _walk(self, o, r):
            if o is None or isinstance(o, (str, int, float, bool)): return
            if isinstance(o, ProgramUnit):          # interface bodies
                r['nodes'].append(self._unit(o)); return
            if isinstance(o, (tuple, list)):
                for c in o: self._walk(c, r)
                return
            if isinstance(o, ScopedNode):
                c = self._new(o); r['nodes'].append(c)
                for ch in o.children: self._walk(ch, c)
                return
            if isinstance(o, Node):
                if isinstance(o, (ir.VariableDeclaration, ir.ProcedureDeclaration, ir.Import)):
                    for s in o.symbols: r['decl'].add(str(s.name).lower())
                for ch in o.children: self._walk(ch, r)
                return
            if isinstance(o, pmbl.Expression):
                for s in retr.retrieve(o): r['occ'].append(s)
                return
            if isinstance(o, dict):
                for k, v in o.items():
                    self._walk(k, r); self._walk(v, r)

    def type_syms(t):
        out = []
        for k, v in sorted(t.__dict__.items()):
            if k == 'dtype': continue
            items = flatten(as_tuple(v)) if isinstance(v, (tuple, list)) else [v]
            for e in items:
                if isinstance(e, pmbl.Expression):
                    for s in retr.retrieve(e): out.append((k, s))
        return out

    def canon_type(t):
        if not isinstance(t, SymbolAttributes): return repr(t)
        d = []
        for k, v in sorted(t.__dict__.items()):
            if k == 'dtype':
                dt = v
                if isinstance(dt, ProcedureType): d.append('dtype=proc:%s:%s' % (str(dt.name).lower(), bool(dt.is_function)))
                elif isinstance(dt, DerivedType): d.append('dtype=derived:' + str(dt.name).lower())
                else: d.append('dtype=' + str(dt))
            elif k == 'module': d.append('%s=%s' % (k, getattr(v, 'name', v)))
            elif isinstance(v, (tuple, list)): d.append('%s=(%s)' % (k, ','.join(str(x) for x in v)))
            else: d.append('%s=%s' % (k, v))
        return ';'.join(d)

    class Labeler:
        """object identity -> stable small labels; keeps the objects alive so that id() is never reused"""
        def __init__(self):
            self.lab, self.keep, self.nforeign = {}, [], 0
        def assign(self, obj, label):
            self.lab[id(obj)] = label; self.keep.append(obj)
        def ref(self, obj):
            if obj is None: return None
            if id(obj) not in self.lab:
                self.assign(obj, FOREIGN0 + self.nforeign); self.nforeign += 1
            return self.lab[id(obj)]

    def chain_of(unit):
        out, p = [], unit.parent
        while p is not None:
            out.append(p); p = p.parent
        return out

    def export(tree, lab, types_):
        # reading the type of a derived-type member (re-)creates its table entry (TypedSymbol.variables builds attached
        # symbols): touch every symbol first so that the observation itself does not change what is observed
        for r_ in tree.recs:
            for y in r_['occ']:
                try: y.type
                except Exception: pass
        def tag(t):
            c = canon_type(t)
            if c not in types_: types_[c] = len(types_) + 1
            return types_[c]
        def rec(r):
            s = tree.objs[r['idx']]
            tab, ttypes = [], []
            for k, v in sorted(dict.items(s.symbol_attrs)):
                trefs = []
                if isinstance(v, SymbolAttributes):
                    trefs = [[str(y.name).lower(), lab.ref(y.scope), bool(attr in RESCOPED_ATTRS and k in r['decl'])]
                             for attr, y in type_syms(v)]
                link = None
                dt = getattr(v, 'dtype', None)
                if isinstance(dt, ProcedureType) and isinstance(dt.procedure, Scope): link = ['proc', lab.ref(dt.procedure)]
                elif isinstance(dt, DerivedType) and isinstance(dt.typedef, Scope): link = ['typedef', lab.ref(dt.typedef)]
                tab.append([k, tag(v), link, trefs])
                if isinstance(v, SymbolAttributes):
                    for attr, y in type_syms(v):
                        rf = lab.ref(y.scope)
                        if rf is not None and not (CTX0 <= rf < FOREIGN0):
                            ttypes.append([k, attr, str(y.name).lower(), tag(y.type) if y.type is not None else None])
            par = s.parent
            return {'id': lab.ref(s), 'kind': r['kind'], 'name': r['name'], 'parent': lab.ref(par),
                    'tpar_ok': s.symbol_attrs.parent is (par.symbol_attrs if par is not None else None),
                    'tab': tab, 'occ': [[str(y.name).lower(), lab.ref(y.scope)] for y in r['occ']],
                    # the type a symbol reads THROUGH ITS SCOPE (unattached symbols carry a private type: None here)
                    'types': [tag(y.type) if (y.scope is not None and y.type is not None) else None for y in r['occ']],
                    # types read by the symbols INSIDE the table entries (kind / initial / shape / length ...) that are attached
                    # to a scope of one of the copies: the re-type-leak observer (not part of the model literal)
                    'ttypes': ttypes,
                    'nodes': [rec(c) for c in r['nodes']], 'members': [rec(c) for c in r['members']]}
        return rec(tree.root)

    def ctx_export(chain, lab, types_):
        def tag(t):
            c = canon_type(t)
            if c not in types_: types_[c] = len(types_) + 1
            return types_[c]
        return [{'id': lab.ref(s), 'tab': [[k, tag(v)] for k, v in sorted(dict.items(s.symbol_attrs))]} for s in chain]

    _SG = types.SimpleNamespace(Tree=Tree, Labeler=Labeler, chain_of=chain_of, export=export, ctx_export=ctx_export,
                                canon_type=canon_type, ir=ir, sym=sym, ProgramUnit=ProgramUnit, Subroutine=Subroutine,
                                Module=Module, SymbolAttributes=SymbolAttributes, BasicType=BasicType, Scope=Scope,
                                ProcedureType=ProcedureType, DerivedType=DerivedType)
    return _SG


def flat(t):
    out = [t]
    for c in t['nodes'] + t['members']:
        out += flat(c)
    return out

def graph_ids(t):
    return [x['id'] for x in flat(t)]

def graph_refs(t):
    """(what, scope id, detail, referenced label) for every pointer of the graph"""
    out = []
    for x in flat(t):
        if x['parent'] is not None: out.append(('parent', x['id'], '', x['parent']))
        for n, r in x['occ']:
            if r is not None: out.append(('symbol', x['id'], n, r))
        for k, _, link, trefs in x['tab']:
            if link is not None: out.append((link[0] + '-pointer', x['id'], k, link[1]))
            for n, r, _ in trefs:
                if r is not None: out.append(('symbol-in-type', x['id'], k + ':' + n, r))
    return out

def strip_types(t):
    """graph without the type tags read by the symbols (used for == comparisons of graphs)"""
    return {k: ([strip_types(c) for c in v] if k in ('nodes', 'members') else v) for k, v in t.items() if k not in ('types', 'ttypes')}

def inner_types(t):
    """types read by the IR symbols and by the symbols inside the table entries, per scope; symbols attached to the enclosing
    context (shared by both copies on purpose) are left out"""
    return [[x['id'], [ty for (n, r), ty in zip(x['occ'], x['types']) if not (r is not None and CTX0 <= r < FOREIGN0)], x['ttypes']] for x in flat(t)]

def all_types(t):
    return [ty for x in flat(t) for ty in x['types']]


# ------------------------------------------------------------------------------------------------------------------
# Coq literals (compact constructors of M_C17)
# ------------------------------------------------------------------------------------------------------------------
def q(s):
    assert all(32 <= ord(c) < 127 and c != '"' for c in s), s
    return '"%s"' % s

def oref(r):
    return '(-1)' if r is None else str(int(r))

KIND_C = {'sub': 'KSub', 'fun': 'KFun', 'mod': 'KMod', 'assoc': 'KAssoc', 'typedef': 'KTypedef'}

def entry_lit(tag, link, trefs):
    lk, li = (0, 0) if link is None else ((1, link[1]) if link[0] == 'proc' else (2, link[1]))
    return '(mkE %d %d %s [%s])' % (tag, lk, oref(li), ';'.join('mkT %s %s %s' % (q(n), oref(r), 'true' if b else 'false') for n, r, b in trefs))

def unit_lit(t):
    if t['kind'] not in KIND_C:
        raise ValueError('scope kind %s is outside the model' % t['kind'])
    tab = ';'.join('(%s,%s)' % (q(k), entry_lit(tag, link, trefs)) for k, tag, link, trefs in t['tab'])
    occ = ';'.join('mkO %s %s' % (q(n), oref(r)) for n, r in t['occ'])
    ch = ';'.join(unit_lit(c) for c in t['nodes'] + t['members'])
    return '(mkU %s %s %s %s [%s] [%s] [%s])' % (oref(t['id']), KIND_C[t['kind']], q(t['name']), oref(t['parent']), tab, occ, ch)

def ctx_lit(ctx):
    return '[%s]' % ';'.join('(%d,[%s])' % (c['id'], ';'.join('(%s,mkE %d 0 0 [])' % (q(k), tag) for k, tag in c['tab'])) for c in ctx)

def edit_lit(e):
    k = e[0]
    if k == 'set': return '(ESetEntry %d %s %s)' % (e[1], q(e[2]), entry_lit(e[3], None, []))
    if k == 'del': return '(EDelEntry %d %s)' % (e[1], q(e[2]))
    if k == 'addocc': return '(EAddOcc %d (mkO %s %s))' % (e[1], q(e[2]), oref(e[3]))
    if k == 'delocc': return '(EDelOcc %d %d%%nat)' % (e[1], e[2])
    if k == 'setocc': return '(ESetOcc %d %d%%nat (mkO %s %s))' % (e[1], e[2], q(e[3]), oref(e[4]))
    if k == 'setfull': return '(ESetEntry %d %s %s)' % (e[1], q(e[2]), entry_lit(e[3], e[4], e[5]))
    if k == 'setp': return '(ESetEntry %d %s (mkE %d 1 %d []))' % (e[1], q(e[2]), e[3], e[4])
    if k == 'addchild': return '(EAddChild %d (mkU %d KSub %s %d [] [] []))' % (e[1], e[2], q(e[3]), e[1])
    raise ValueError(e)

def otys_lit(tys):
    return '[%s]' % ';'.join('None' if t is None else 'Some %d' % t for t in tys)


# ------------------------------------------------------------------------------------------------------------------
# generator of Fortran sources
# ------------------------------------------------------------------------------------------------------------------
INTRINSICS2 = ['max', 'min', 'mod']
INTRINSICS1 = ['abs']

class SrcGen:
    """random but well-formed Fortran; `leaky` enables the constructs for which clone() keeps pointers into the original.
    `inside_module`: names declared at module level are *outside* a cloned routine but *inside* a cloned module."""

    def __init__(self, rng, leaky=False, module_is_target=False, raw=False):
        # raw: the parsed unit is used as the frontend delivers it (no rescope_symbols() first); then intrinsic
        # functions are not used inside ASSOCIATE blocks (see notes: the frontend attaches them to the routine scope)
        self.rng, self.leaky, self.module_is_target, self.raw = rng, leaky, module_is_target, raw
        self.cnt = 0
        self.in_assoc = 0
        self.members = True      # member procedures inside module procedures / stand-alone routines
        self.self_shadow = True  # associate(x => x) / associate(x => y, z => x)

    def fresh(self, p):
        self.cnt += 1
        return '%s%d' % (p, self.cnt)

    # -- expressions ---------------------------------------------------------------------------------------------
    def scalar(self, env):
        """a scalar-valued reference"""
        r = self.rng
        cands = list(env.items())
        for _ in range(6):
            n, v = r.choice(cands)
            if v['cat'] == 'scalar': return n
            if v['cat'] == 'array': return '%s(%s)' % (n, self.index(env))
            if v['cat'] == 'derived':
                c = r.choice(v['comps'])
                return '%s%%%s' % (n, c[0]) if c[1] == 'scalar' else '%s%%%s(%d)' % (n, c[0], r.randint(1, 3))
        return str(r.randint(1, 9))

    def index(self, env):
        r = self.rng
        ints = [n for n, v in env.items() if v['cat'] == 'scalar' and v['ty'] == 'integer']
        if ints and r.random() < 0.5: return r.choice(ints)
        return str(r.randint(1, 3))

    def expr(self, env, depth=0):
        r = self.rng
        x = r.random()
        if depth > 1 or x < 0.35: return self.scalar(env)
        if x < 0.5: return str(r.randint(0, 9)) if r.random() < 0.6 else ('%d.0' % r.randint(0, 9))
        if x < 0.75 or (self.raw and self.in_assoc): return '%s %s %s' % (self.expr(env, depth + 1), r.choice(['+', '-', '*']), self.expr(env, depth + 1))
        if x < 0.9: return '%s(%s, %s)' % (r.choice(INTRINSICS2), self.expr(env, depth + 1), self.expr(env, depth + 1))
        return '%s(%s)' % (r.choice(INTRINSICS1), self.expr(env, depth + 1))

    def lhs(self, env):
        r = self.rng
        cands = [(n, v) for n, v in env.items() if v.get('assignable', True)]
        for _ in range(8):
            n, v = r.choice(cands)
            if v['cat'] == 'scalar': return n
            if v['cat'] == 'array': return '%s(%s)' % (n, self.index(env))
            if v['cat'] == 'derived':
                c = r.choice(v['comps'])
                return '%s%%%s' % (n, c[0]) if c[1] == 'scalar' else '%s%%%s(%d)' % (n, c[0], r.randint(1, 3))
        return None

    # -- statements ----------------------------------------------------------------------------------------------
    def stmts(self, env, depth, nmax, ind, calls):
        r = self.rng
        out = []
        for _ in range(r.randint(1, nmax)):
            x = r.random()
            if x < 0.5 or depth >= 2:
                l = self.lhs(env)
                if l: out.append('%s%s = %s' % (ind, l, self.expr(env)))
            elif x < 0.62:
                ints = [n for n, v in env.items() if v['cat'] == 'scalar' and v['ty'] == 'integer' and v.get('assignable', True) and v.get('local')]
                if not ints: continue
                i = r.choice(ints)
                out.append('%sdo %s = 1, %s' % (ind, i, self.index(env)))
                out += self.stmts(env, depth + 1, 2, ind + '  ', calls)
                out.append('%send do' % ind)
            elif x < 0.72:
                out.append('%sif (%s > %s) then' % (ind, self.scalar(env), self.expr(env, 1)))
                out += self.stmts(env, depth + 1, 2, ind + '  ', calls)
                out.append('%send if' % ind)
            elif x < 0.9:
                out += self.associate(env, depth, ind, calls)
            elif calls:
                name, nargs = r.choice(calls)
                out.append('%scall %s(%s)' % (ind, name, ', '.join(self.scalar(env) for _ in range(nargs))))
        return out

    def associate(self, env, depth, ind, calls):
        r = self.rng
        pairs, new, sels, dsels = [], dict(env), [], []
        for _ in range(r.randint(1, 2)):
            cands = [(n, v) for n, v in env.items()]
            n, v = r.choice(cands)
            if v.get('noassoc') and not self.leaky:
                continue     # the type of the associate name copies the initialiser, whose symbols stay attached to the original (F-C17-1 family)
            # the associate name: new, or (sometimes) shadowing a visible name
            an = self.fresh('q') if r.random() < 0.85 else r.choice([m for m in env if env[m]['cat'] != 'proc'] or [self.fresh('q')])
            if an in [p[0] for p in pairs]: continue
            # associate(x => x) / associate(x => y, z => x): rescoping attaches such a selector to the ASSOCIATE itself
            # (known finding); only the normalised stream (where that already happened) uses them
            if (self.raw or not self.self_shadow) and (an == n or an in sels or n in [p[0] for p in pairs]): continue
            if an in dsels: continue      # see below: associate(q => t%c, t => x)
            sels.append(n)
            if v['cat'] == 'scalar':
                pairs.append((an, n)); new[an] = dict(v, assignable=v.get('assignable', True), local=False)
            elif v['cat'] == 'array':
                whole_ok = self.leaky or v.get('plain_shape', False)
                if whole_ok and r.random() < 0.5:
                    pairs.append((an, n)); new[an] = dict(v, local=False)
                else:
                    pairs.append((an, '%s(%d)' % (n, r.randint(1, 3)))); new[an] = {'cat': 'scalar', 'ty': v['ty'], 'assignable': v.get('assignable', True)}
            elif v['cat'] == 'derived':
                c = r.choice(v['comps'])
                if an == n or n in [p[0] for p in pairs]:
                    # associate(t => t%c) / associate(t => x, q => t%c): the parent symbol t of the selector is looked up from the
                    # scope that holds the entry 't%c' while the model looks every symbol up from the innermost scope (same family
                    # as finding F-C17-6)
                    continue
                dsels.append(n)
                if c[1] == 'scalar':
                    pairs.append((an, '%s%%%s' % (n, c[0]))); new[an] = {'cat': 'scalar', 'ty': c[2]}
                elif self.leaky or c[3]:
                    pairs.append((an, '%s%%%s' % (n, c[0]))); new[an] = {'cat': 'array', 'ty': c[2], 'plain_shape': c[3]}
        if not pairs: return []
        out = ['%sassociate(%s)' % (ind, ', '.join('%s => %s' % p for p in pairs))]
        self.in_assoc += 1
        out += self.stmts(new, depth + 1, 3, ind + '  ', calls)
        self.in_assoc -= 1
        out.append('%send associate' % ind)
        return out

    # -- declarations --------------------------------------------------------------------------------------------
    def typedef(self, name, jp):
        """returns (lines, comps); comp = (name, cat, ty, plain_shape)"""
        r = self.rng
        lines, comps = ['  type %s' % name], []
        for k in range(r.randint(1, 3)):
            cn = 'c%d' % (k + 1)
            ty = r.choice(['integer', 'real'])
            kind = '(kind=%s)' % jp if (jp and r.random() < 0.4) else ''
            if r.random() < 0.5:
                lines.append('    %s%s :: %s' % (ty, kind, cn)); comps.append((cn, 'scalar', ty, True))
            else:
                dim = jp if (jp and r.random() < 0.4) else str(r.randint(3, 5))
                lines.append('    %s%s :: %s(%s)' % (ty, kind, cn, dim))
                comps.append((cn, 'array', ty, dim.isdigit() and not kind))
        lines.append('  end type %s' % name)
        return lines, comps

    def routine(self, name, outer, ind, siblings, allow_members, tdefs, jp, jp_inside, is_function=False):
        """outer: environment visible from the enclosing scopes; returns (lines, nargs)"""
        r = self.rng
        env = {n: dict(v, local=False) for n, v in outer.items()}
        decl, args = [], []
        # dummy arguments
        n_int = self.fresh('n'); args.append(n_int)
        decl.append('integer, intent(in) :: %s' % n_int); env[n_int] = {'cat': 'scalar', 'ty': 'integer', 'assignable': False, 'local': True}
        for _ in range(r.randint(1, 2)):
            a = self.fresh('a'); args.append(a)
            ty = r.choice(['real', 'integer'])
            use_kind = jp and (self.leaky or not jp_inside) and r.random() < 0.4
            if r.random() < 0.7:
                dimsym = r.random() < 0.6
                dim = n_int if dimsym else str(r.randint(3, 6))
                # "plain": nothing inside the type of the array refers to a scope of the cloned unit
                plain = (not dimsym) and (not use_kind or not jp_inside)
                decl.append('%s%s, intent(inout) :: %s(%s)' % (ty, '(kind=%s)' % jp if use_kind else '', a, dim))
                env[a] = {'cat': 'array', 'ty': ty, 'plain_shape': plain, 'local': True}
            else:
                decl.append('%s%s, intent(inout) :: %s' % (ty, '(kind=%s)' % jp if use_kind else '', a))
                env[a] = {'cat': 'scalar', 'ty': ty, 'local': True}
        # named constants of the routine and constants derived from them (initialisers referencing symbols of the unit itself)
        consts = [m for m, v in outer.items() if v.get('const')]
        if r.random() < 0.55:
            for _ in range(r.randint(1, 2)):
                c_ = self.fresh('np')
                ini = str(r.randint(2, 6)) if (not consts or r.random() < 0.5) else '%s %s %d' % (r.choice(consts), r.choice(['+', '*', '/']), r.randint(1, 3))
                decl.append('integer, parameter :: %s = %s' % (c_, ini))
                env[c_] = {'cat': 'scalar', 'ty': 'integer', 'assignable': False, 'local': True, 'const': True, 'noassoc': not ini.isdigit()}
                consts.append(c_)
        # locals (sometimes shadowing an outer name)
        for _ in range(r.randint(1, 3)):
            shadow = [m for m, v in outer.items() if v['cat'] in ('scalar', 'array') and m != jp and not v.get('const')]
            v = r.choice(shadow) if (shadow and r.random() < 0.25) else self.fresh('k')
            if v in env and env[v].get('local'): continue
            if r.random() < 0.6:
                init, noassoc = '', False
                if r.random() < 0.45:
                    x_ = r.random()
                    if consts and x_ < 0.7:
                        c_ = r.choice(consts)
                        init = ' = ' + r.choice([c_, '%s + 1' % c_, '2 * %s' % c_, '%s - %d' % (c_, r.randint(1, 2))])
                        noassoc = True
                    else:
                        init = ' = %d' % r.randint(1, 5)
                kd = '(kind=%s)' % jp if (init and jp and (self.leaky or not jp_inside) and r.random() < 0.3) else ''
                decl.append('integer%s :: %s%s' % (kd, v, init)); env[v] = {'cat': 'scalar', 'ty': 'integer', 'local': True, 'noassoc': noassoc}
            else:
                dim = r.choice([str(r.randint(3, 5)), n_int] + ([jp] if jp else []))
                decl.append('real :: %s(%s)' % (v, dim))
                env[v] = {'cat': 'array', 'ty': 'real', 'plain_shape': dim.isdigit() or (dim == jp and not jp_inside), 'local': True}
        if tdefs and r.random() < 0.6:
            tn, comps = r.choice(tdefs)
            v = self.fresh('t')
            decl.append('type(%s) :: %s' % (tn, v)); env[v] = {'cat': 'derived', 'comps': comps, 'local': True}
        if self.leaky and r.random() < 0.4:
            v = self.fresh('s')
            decl.append('character(len=%s) :: %s' % (n_int, v))
        imports = []
        if r.random() < 0.3:
            e = self.fresh('e')
            imports.append('use ext_mod, only: %s' % e); env[e] = {'cat': 'scalar', 'ty': 'real', 'assignable': False}
        result = None
        if is_function:
            result = self.fresh('w')
            decl.append('integer :: %s' % result); env[result] = {'cat': 'scalar', 'ty': 'integer', 'local': True}
        # member procedures
        members, calls = [], list(siblings)
        if allow_members and self.members and r.random() < 0.55:
            for _ in range(r.randint(1, 2)):
                mn = self.fresh('mem')
                inner = dict(env)
                lines, nargs = self.routine(mn, inner, ind + '  ', [], False, tdefs, jp, jp_inside)
                members += lines; calls.append((mn, nargs))
        body = self.stmts(env, 0, 4, ind + '  ', calls)
        if result: body.append('%s  %s = %s' % (ind, result, self.expr(env)))
        head = ('%sfunction %s(%s) result(%s)' % (ind, name, ', '.join(args), result)) if is_function else ('%ssubroutine %s(%s)' % (ind, name, ', '.join(args)))
        out = [head] + ['%s  %s' % (ind, l) for l in imports + decl] + body
        if members:
            out += ['%scontains' % ind] + members
        out.append('%send %s %s' % (ind, 'function' if is_function else 'subroutine', name))
        return out, len(args)

    def module(self, name='m'):
        """returns (source text, names of module procedures with their members)"""
        r = self.rng
        lines = ['module %s' % name]
        env = {}
        if r.random() < 0.4:
            e = self.fresh('e'); lines.append('  use ext_mod, only: %s' % e); env[e] = {'cat': 'scalar', 'ty': 'real', 'assignable': False}
        lines.append('  implicit none')
        jp = None
        if r.random() < 0.7:
            jp = 'jp'; lines.append('  integer, parameter :: jp = 4'); env[jp] = {'cat': 'scalar', 'ty': 'integer', 'assignable': False}
        mconsts = []
        if r.random() < 0.6:
            c_ = self.fresh('nmax'); lines.append('  integer, parameter :: %s = %d' % (c_, r.randint(4, 12)))
            env[c_] = {'cat': 'scalar', 'ty': 'integer', 'assignable': False, 'const': True}; mconsts.append(c_)
            if r.random() < 0.5:
                c2 = self.fresh('nhalf'); lines.append('  integer, parameter :: %s = %s / 2' % (c2, c_))
                env[c2] = {'cat': 'scalar', 'ty': 'integer', 'assignable': False, 'const': True, 'noassoc': True}; mconsts.append(c2)
        for _ in range(r.randint(1, 3)):
            v = self.fresh('mv')
            if r.random() < 0.5:
                init = ' = %s' % r.choice(mconsts + ['%s + 1' % mconsts[0]]) if (mconsts and r.random() < 0.6) else ''
                lines.append('  integer :: %s%s' % (v, init)); env[v] = {'cat': 'scalar', 'ty': 'integer', 'noassoc': bool(init)}
            else:
                dim = jp if (jp and r.random() < 0.4) else str(r.randint(3, 5))
                kind = '(kind=%s)' % jp if (jp and (self.leaky or not self.module_is_target) and r.random() < 0.3) else ''
                lines.append('  real%s :: %s(%s)' % (kind, v, dim))
                env[v] = {'cat': 'array', 'ty': 'real', 'plain_shape': not self.module_is_target or (dim.isdigit() and not kind)}
        tdefs = []
        # a derived type defined in the module is inside the cloned unit when the module itself is cloned: leaky only
        if (self.leaky or not self.module_is_target) and r.random() < 0.6:
            tn = self.fresh('tt')
            tl, comps = self.typedef(tn, jp)
            if not self.leaky and self.module_is_target: comps = [c for c in comps]
            lines += tl; tdefs.append((tn, comps))
            if r.random() < 0.5:
                v = self.fresh('mt'); lines.append('  type(%s) :: %s' % (tn, v)); env[v] = {'cat': 'derived', 'comps': comps}
        routines = []
        nr = r.randint(1, 3)
        names = [self.fresh('r') for _ in range(nr)]
        body = []
        sigs = []
        for k, rn in enumerate(names):
            isf = r.random() < 0.2
            sib = [s for s in sigs if not s[2]]
            rl, nargs = self.routine(rn, env, '  ', [(s[0], s[1]) for s in sib], True, tdefs, jp, self.module_is_target, is_function=isf)
            body += rl; sigs.append((rn, nargs, isf))
        if body:
            lines.append('contains'); lines += body
        lines.append('end module %s' % name)
        return '\n'.join(lines) + '\n', [s[0] for s in sigs]

    def standalone(self, name='s'):
        tdefs = []
        lines, _ = self.routine(name, {}, '', [], True, tdefs, None, False)
        return '\n'.join(lines) + '\n'


def unit_paths(sf):
    """all program units of a Sourcefile as name paths"""
    out = []
    def rec(u, path):
        out.append(path)
        for m in u.subroutines: rec(m, path + [m.name])
    for u in list(sf.modules) + list(sf.routines):
        rec(u, [u.name])
    return out

def find_unit(sf, path):
    u = sf[path[0]]
    for p in path[1:]:
        u = [x for x in u.subroutines if x.name.lower() == p.lower()][0]
    return u


# ------------------------------------------------------------------------------------------------------------------
class C17(Property):
    id = 'C17'
    imports = ['models.M_C17']
    theorem_file = 'theories/props/T_C17.v'
    parallel = True
    shard = 60
    prelude = 'Open Scope string_scope.'
    rule = ('generated Fortran sources (modules with parameters/variables/derived types/imports and 1-3 module procedures with member '
            'procedures, host association, shadowing locals, nested ASSOCIATE blocks, DO/IF, intrinsic and sibling/member calls; stand-alone '
            'routines; multi-unit files) parsed by the fparser frontend; a unit chosen by index (module / module procedure / member / file) is '
            'cloned (optionally with name=) and 0-6 edits (symbol-table assignment, type setter through a symbol occurrence, deletion of an unused '
            'table entry, added declaration, added / removed statement, renaming of a local scalar via SubstituteExpressions, added member '
            'procedure) are applied to either copy; the extracted scope graph of the original is the model input, the '
            'extracted graphs of the clone and of both copies after the edits must equal the model output; a case is non-trivial when the '
            'cloned unit has at least two scope objects or a symbol attached outside the unit; distinct = distinct (source, target, edits)')
    modelled_not_verified = [
        'symbol-table entries are abstracted to (tag of the canonical attribute text, procedure/typedef pointer, symbols inside the attributes with '
        'the flag "re-attached by AttachScopes"); the flag is computed by the harness from the declaration/import statements of the scope',
        'interface bodies and statement functions are outside the model (known findings); Python aliasing of expression objects shared between '
        'SymbolAttributes of the two copies is not modelled beyond the scope each embedded symbol is attached to',
        'the parent scope re-registration done by clone() (the enclosing scope\'s table entry of the unit name is re-pointed to the clone) is '
        'observed by the harness but is not part of the unit model',
        'generated sources come from a fixed grammar (no interfaces, no SELECT TYPE, no procedure pointers); fparser frontend only',
    ]

    # -- generation ------------------------------------------------------------------------------------------------
    def generate(self, rng, tier):
        n = 150 if tier == 'quick' else 1000
        for i in range(n):
            x = rng.random()
            leaky = x > 0.72
            what = rng.choice(['module', 'routine', 'routine', 'member', 'standalone'])
            raw = rng.random() < 0.25
            g = SrcGen(rng, leaky=leaky, module_is_target=(what == 'module'), raw=raw)
            if what == 'standalone':
                src = g.standalone('s')
            else:
                src, _ = g.module('m')
            edits = [[rng.choice(['settab', 'settab', 'settype', 'settype', 'deltab', 'adddecl', 'addstmt', 'delstmt', 'addmember', 'rename']), rng.choice(['o', 'c']),
                      rng.randrange(1 << 20), rng.randrange(1 << 20), rng.randrange(3), 10 + k] for k in range(rng.randint(0, 6))]
            ckw = {'name': 'zz_new'} if (what in ('routine', 'member') and rng.random() < 0.15) else {}
            yield {'kind': 'clone-leaky' if leaky else 'clone', 'src': src, 'what': what, 'sel': rng.randrange(1 << 20), 'ckw': ckw, 'edits': edits,
                   'norm': not raw}
        m = 40 if tier == 'quick' else 200
        for i in range(m):
            g = SrcGen(rng, leaky=False, module_is_target=True)
            src = g.module('m1')[0] + SrcGen(rng, leaky=False).standalone('s1')
            if rng.random() < 0.5: src += SrcGen(rng, leaky=False, module_is_target=True).module('m2')[0]
            yield {'kind': 'clone-file', 'src': src, 'what': 'file', 'sel': 0, 'ckw': {}, 'edits': [], 'norm': True}
        k = 60 if tier == 'quick' else 300
        for i in range(k):
            what = rng.choice(['module', 'routine', 'member', 'standalone'])
            g = SrcGen(rng, leaky=False, module_is_target=(what == 'module'))
            src = g.standalone('s') if what == 'standalone' else g.module('m')[0]
            edits = [[rng.choice(['rename', 'rename', 'dropvar', 'addmember', 'dropstmt', 'prepend', 'retype_decl']), rng.choice(['o', 'c']),
                      rng.randrange(1 << 20), rng.randrange(1 << 20)] for _ in range(rng.randint(1, 5))]
            yield {'kind': 'clone-free', 'src': src, 'what': what, 'sel': rng.randrange(1 << 20), 'ckw': {}, 'edits': edits, 'norm': True}

    # -- implementation side ---------------------------------------------------------------------------------------
    def pick_target(self, sf, what, sel):
        paths = unit_paths(sf)
        if what == 'module': cands = [p for p in paths if len(p) == 1 and p[0] in [m.name for m in sf.modules]]
        elif what == 'standalone': cands = [p for p in paths if len(p) == 1 and p[0] in [r.name for r in sf.routines]]
        elif what == 'routine': cands = [p for p in paths if len(p) == 2 and p[0] in [m.name for m in sf.modules]]
        elif what == 'member': cands = [p for p in paths if len(p) == 3] or [p for p in paths if len(p) == 2]
        else: cands = paths
        cands = cands or paths
        return cands[sel % len(cands)]

    def run_impl(self, case):
        S = sg()
        from loki import Sourcefile
        from loki.frontend import FP
        sf = Sourcefile.from_source(case['src'], frontend=FP)
        if case.get('norm', True):
            # normal form of the scope attachment (idempotent): the frontend attaches an intrinsic function used both in a
            # routine body and inside one of its ASSOCIATE blocks to the routine scope, every later rescoping moves it
            for unit in list(sf.modules) + list(sf.routines):
                unit.rescope_symbols()
        if case['what'] == 'file':
            return self.run_file(case, sf)
        path = self.pick_target(sf, case['what'], case['sel'])
        u = find_unit(sf, path)
        lab, types_ = S.Labeler(), {}
        t0 = S.Tree(u)
        for i, o in enumerate(t0.objs): lab.assign(o, i)
        chain = S.chain_of(u)
        for k, o in enumerate(chain): lab.assign(o, CTX0 + k)
        g0 = S.export(t0, lab, types_)
        ctx = S.ctx_export(chain, lab, types_)
        f0 = u.to_fortran()
        c = u.clone(**case['ckw'])
        tc = S.Tree(c)
        for i, o in enumerate(tc.objs): lab.assign(o, D + i)
        gc = S.export(tc, lab, types_)
        g0b = S.export(S.Tree(u), lab, types_)
        fc = c.to_fortran()
        shared = [[S.Tree(u).recs[i]['kind'], S.Tree(u).recs[i]['name']] for i, o in enumerate(S.Tree(u).objs) if any(o is o2 for o2 in tc.objs)]
        out = {'path': path, 'ctx': ctx, 'orig': g0, 'clone': gc, 'orig_after_clone_same': strip_types(g0b) == strip_types(g0), 'shared': shared,
               'fgen_same': self.same_code(f0, fc, case['ckw'], u.name), 'fgen_orig_same_after_clone': u.to_fortran() == f0,
               'registered': self.registered(chain, c)}
        if case['kind'] == 'clone-free':
            out['edit_log'] = self.free_edits(case, u, c, lab, types_)
            out['retype_probe'] = self.retype_probe(u, c, lab, types_)
            return out
        medits, log = self.model_edits(case, u, c, lab, types_)
        out['medits'], out['edit_log'] = medits, log
        out['orig_final'] = S.export(S.Tree(u), lab, types_)
        out['clone_final'] = S.export(S.Tree(c), lab, types_)
        out['retype_probe'] = self.retype_probe(u, c, lab, types_)      # last: it modifies both copies
        return out

    def retype_probe(self, u, c, lab, types_):
        """re-type, in one copy, the names that symbols INSIDE the table entries of the other copy use (kind / initial / shape /
        length ...) and read all types through the other copy: nothing may change there"""
        S = sg()
        bad = []
        for x, other, wx in ((u, c, 'original'), (c, u, 'clone')):
            g_other = S.export(S.Tree(other), lab, types_)
            names = sorted({t[2] for xo in flat(g_other) for t in xo['ttypes']})[:4]
            tx = S.Tree(x)
            for nm in names:
                for sc in tx.objs:
                    if nm in sc.symbol_attrs and not isinstance(getattr(sc.symbol_attrs[nm], 'dtype', None), S.ProcedureType):
                        before_t = inner_types(S.export(S.Tree(other), lab, types_))
                        sc.symbol_attrs[nm] = S.SymbolAttributes(S.BasicType.LOGICAL, vtag=99)
                        after_t = inner_types(S.export(S.Tree(other), lab, types_))
                        if after_t != before_t:
                            bad.append('re-typing %s in the %s changed the type read by a symbol of the other copy' % (nm, wx))
                        break
        return bad

    @staticmethod
    def same_code(f0, fc, ckw, name):
        if 'name' in ckw:
            import re
            return re.sub(r'\b%s\b' % re.escape(ckw['name']), name, fc, flags=re.I).lower() == f0.lower()
        return f0 == fc

    @staticmethod
    def registered(chain, c):
        """does the enclosing scope's entry of the clone's name point to the clone? (None: no enclosing scope)"""
        S = sg()
        if not chain: return None
        e = chain[0].symbol_attrs.get(c.name)
        return bool(e is not None and isinstance(e.dtype, S.ProcedureType) and e.dtype.procedure is c)

    def run_file(self, case, sf):
        S = sg()
        sf2 = sf.clone()
        units = list(sf.modules) + list(sf.routines)
        units2 = [sf2[u.name] for u in units]
        pairs = []
        trees0 = [S.Tree(u) for u in units]
        trees2 = [S.Tree(u) for u in units2]
        f0 = sf.to_fortran()
        for k, (u, u2) in enumerate(zip(units, units2)):
            lab, types_ = S.Labeler(), {}
            for i, o in enumerate(trees0[k].objs): lab.assign(o, i)
            for i, o in enumerate(trees2[k].objs): lab.assign(o, D + i)
            nf = 0
            for j in range(len(units)):
                if j == k: continue
                for o in trees0[j].objs: lab.assign(o, FOREIGN0 + nf); nf += 1      # scopes of the other ORIGINAL units
            lab.nforeign = nf + 100
            g0 = S.export(trees0[k], lab, types_)
            gc = S.export(trees2[k], lab, types_)
            pairs.append({'orig': g0, 'clone': gc, 'other_orig': [FOREIGN0, FOREIGN0 + nf]})
        return {'pairs': pairs, 'fgen_same': sf2.to_fortran() == f0, 'fgen_orig_same_after_clone': sf.to_fortran() == f0}

    # .. modelled edits ............................................................................................
    def model_edits(self, case, u, c, lab, types_):
        """apply the edits to the real objects; return (primitive model edits, log of oracle observations)"""
        S = sg()
        BT = S.BasicType
        DT = [BT.INTEGER, BT.REAL, BT.LOGICAL]
        medits, log = [], []
        # occurrence lists in the order the MODEL keeps them (added occurrences go to the end), by scope label
        mirror = {}
        for copy_ in (u, c):
            t_ = S.Tree(copy_)
            for o_, r_ in zip(t_.objs, t_.recs):
                mirror[lab.ref(o_)] = [[str(y.name).lower(), lab.ref(y.scope)] for y in r_['occ']]
        def tag(t):
            cc = S.canon_type(t)
            if cc not in types_: types_[cc] = len(types_) + 1
            return types_[cc]
        for e in case['edits']:
            op, which, s1, s2, dt, vt = e
            x, other = (u, c) if which == 'o' else (c, u)
            try:
                before_f = other.to_fortran()
            except Exception:      # an earlier edit of that copy (e.g. a deleted table entry) made it unprintable
                before_f = None
            before_full = S.export(S.Tree(other), lab, types_)
            before_g, before_t = strip_types(before_full), inner_types(before_full)
            tx = S.Tree(x)
            for o in tx.objs: lab.ref(o)          # scope objects created by earlier edits get (foreign) labels
            sc = tx.objs[s1 % len(tx.objs)]
            rec = tx.recs[s1 % len(tx.objs)]
            done = None
            try:
                if op == 'settab':
                    # entries of contained procedures are re-created by Subroutine.procedure_symbol (used by fgen): not edited
                    keys = sorted(k for k, v in dict.items(sc.symbol_attrs) if not isinstance(getattr(v, 'dtype', None), S.ProcedureType))
                    name = keys[s2 % len(keys)] if (keys and s2 % 4) else 'znew%d' % vt
                    ty = S.SymbolAttributes(DT[dt], vtag=vt)
                    sc.symbol_attrs[name] = ty
                    done = ['set', lab.ref(sc), name.lower(), tag(ty)]
                elif op == 'settype':
                    occs = [y for y in rec['occ'] if not isinstance(getattr(y.type, 'dtype', None), S.ProcedureType)]   # see settab
                    if occs:
                        y = occs[s2 % len(occs)]
                        ty = S.SymbolAttributes(DT[dt], vtag=vt)
                        tgt = y.scope
                        y.type = ty
                        if tgt is not None:
                            done = ['set', lab.ref(tgt), str(y.name).lower(), tag(ty)]
                elif op == 'deltab':
                    # only entries no symbol of the IR uses (left over by a renaming / added by a table assignment): a symbol whose
                    # entry is gone re-creates it (as DEFERRED) whenever its expression tree is rebuilt; member entries ('%') on read
                    used_ = {str(y.name).lower() for r_ in tx.recs for y in r_['occ']}
                    keys = sorted(k for k, v in dict.items(sc.symbol_attrs) if '%' not in k and k not in used_
                                  and not isinstance(getattr(v, 'dtype', None), S.ProcedureType))
                    if keys:
                        name = keys[s2 % len(keys)]
                        del sc.symbol_attrs[name]
                        done = ['del', lab.ref(sc), name.lower()]
                elif op == 'adddecl':
                    units_ = [(o, r) for o, r in zip(tx.objs, tx.recs) if isinstance(o, S.ProgramUnit) and o.spec is not None]
                    pu, _ = units_[s1 % len(units_)]
                    name = 'zdecl%d' % vt
                    ty = S.SymbolAttributes(DT[dt])
                    v = S.sym.Variable(name=name, type=ty, scope=pu)
                    pu.spec.append(S.ir.VariableDeclaration(symbols=(v,)))
                    medits.append(['set', lab.ref(pu), name, tag(ty)])
                    done = ['addocc', lab.ref(pu), name, lab.ref(pu)]
                elif op == 'addstmt':
                    units_ = [o for o in tx.objs if isinstance(o, S.Subroutine) and o.body is not None]
                    if units_:
                        pu = units_[s1 % len(units_)]
                        keys = sorted(k for k in dict.keys(pu.symbol_attrs) if '%' not in k)
                        if keys:
                            name = keys[s2 % len(keys)]
                            v = S.sym.Variable(name=name, scope=pu)
                            pu.body.append(S.ir.Assignment(lhs=v, rhs=S.sym.IntLiteral(vt)))
                            done = ['addocc', lab.ref(pu), name.lower(), lab.ref(pu)]
                elif op == 'delstmt':
                    units_ = [(o, r) for o, r in zip(tx.objs, tx.recs) if isinstance(o, S.Subroutine) and o.body is not None]
                    if units_:
                        pu, prec = units_[s1 % len(units_)]
                        nodes = tuple(pu.body.body)
                        if nodes and isinstance(nodes[-1], (S.ir.Assignment, S.ir.CallStatement)):
                            before_ = [[str(y.name).lower(), lab.ref(y.scope)] for y in prec['occ']]
                            pu.body = S.ir.Section(body=nodes[:-1])
                            t2 = S.Tree(x)
                            after_ = [[str(y.name).lower(), lab.ref(y.scope)] for y in t2.recs[tx.objs.index(pu)]['occ']]
                            gone = list(before_)
                            for pair in after_: gone.remove(pair)
                            ml = mirror[lab.ref(pu)]
                            for pair in gone:          # the model removes by position in ITS list
                                j = len(ml) - 1 - ml[::-1].index(pair)
                                medits.append(['delocc', lab.ref(pu), j]); ml.pop(j)
                elif op == 'rename':
                    # rename a local scalar everywhere in spec and body of one routine (SubstituteExpressions)
                    from loki import FindVariables, SubstituteExpressions
                    units_ = [(o, r) for o, r in zip(tx.objs, tx.recs) if isinstance(o, S.Subroutine) and o.body is not None and o.spec is not None]
                    if units_:
                        pu, prec = units_[s1 % len(units_)]
                        def nested(r_):
                            out_ = [r_]
                            for c_ in r_['nodes']:
                                if not isinstance(tx.objs[c_['idx']], S.ProgramUnit): out_ += nested(c_)
                            return out_
                        recs_ = nested(prec)
                        shadow = set()
                        for r_ in recs_[1:]: shadow |= set(dict.keys(tx.objs[r_['idx']].symbol_attrs))
                        args_ = {str(a.name).lower() for a in pu.arguments}
                        vm = pu.variable_map
                        gx = S.export(tx, lab, types_)
                        # a renaming also rewrites the initialisers / shapes of OTHER entries that use the name and leaves a stale entry
                        # whose embedded symbols are no longer re-attachable: only names free of both are renamed in the modelled stream
                        in_types = {t_[0] for x_ in flat(gx) for e_ in x_['tab'] for t_ in e_[3]}
                        with_syms = {e_[0] for x_ in flat(gx) if x_['id'] == lab.ref(pu) for e_ in x_['tab'] if e_[3]}
                        keys = sorted(k for k, v in dict.items(pu.symbol_attrs) if '%' not in k and k not in shadow and k not in args_
                                      and k not in in_types and k not in with_syms
                                      and isinstance(vm.get(k), S.sym.Scalar) and not isinstance(getattr(v, 'dtype', None), (S.ProcedureType, S.DerivedType)))
                        if keys:
                            k_ = keys[s2 % len(keys)]
                            new_name = '%s_rn%d' % (k_, vt)
                            ent_ = [t_ for x_ in flat(gx) if x_['id'] == lab.ref(pu) for t_ in x_['tab'] if t_[0] == k_][0]
                            vmap = {w: w.clone(name=new_name) for w in FindVariables(unique=False).visit((pu.spec, pu.body)) if str(w.name).lower() == k_}
                            pu.spec = SubstituteExpressions(vmap).visit(pu.spec)
                            pu.body = SubstituteExpressions(vmap).visit(pu.body)
                            medits.append(['setfull', lab.ref(pu), new_name, ent_[1], ent_[2], ent_[3]])
                            for r_ in recs_:
                                rid = lab.ref(tx.objs[r_['idx']])
                                for j, pair in enumerate(mirror[rid]):
                                    if pair == [k_, lab.ref(pu)]:
                                        medits.append(['setocc', rid, j, new_name, lab.ref(pu)]); mirror[rid][j] = [new_name, lab.ref(pu)]
                elif op == 'addmember':
                    units_ = [o for o in tx.objs if isinstance(o, S.Subroutine) and not isinstance(o.parent, S.Subroutine)]
                    if units_:
                        pu = units_[s1 % len(units_)]
                        name = 'zmem%d' % vt
                        new_ = S.Subroutine(name=name, parent=pu)
                        if pu.contains is None: pu.contains = S.ir.Section(body=(S.ir.ContainsStmt(), new_))
                        else: pu.contains.append(new_)
                        medits.append(['setp', lab.ref(pu), name, tag(pu.symbol_attrs[name]), lab.ref(new_)])
                        done = ['addchild', lab.ref(pu), lab.ref(new_), name]
            except Exception as ex:       # an edit the implementation refuses leaves no trace in the model
                log.append({'edit': e, 'raised': type(ex).__name__})
                done = None
            if done: medits.append(done)
            for me in medits[mirror.setdefault('_seen', 0):]:
                if me[0] == 'addocc': mirror.setdefault(me[1], []).append([me[2], me[3]])
                elif me[0] == 'addchild': mirror.setdefault(me[2], [])
            mirror['_seen'] = len(medits)
            entry = {'edit': e}
            if before_f is not None:
                try:
                    entry['other_fgen_same'] = other.to_fortran() == before_f
                except Exception as ex:
                    entry['other_fgen_same'] = 'raised ' + type(ex).__name__
            after_full = S.export(S.Tree(other), lab, types_)
            entry['other_graph_same'] = strip_types(after_full) == before_g
            entry['other_types_same'] = inner_types(after_full) == before_t
            log.append(entry)
        return medits, log

    # .. free edits (oracle only) ..................................................................................
    def free_edits(self, case, u, c, lab, types_):
        S = sg()
        from loki import FindVariables, SubstituteExpressions, Transformer, FindNodes
        log = []
        for e in case['edits']:
            op, which, s1, s2 = e
            x, other = (u, c) if which == 'o' else (c, u)
            try:
                before_f = other.to_fortran()
            except Exception:
                before_f = None
            before_full = S.export(S.Tree(other), lab, types_)
            before_g, before_t = strip_types(before_full), inner_types(before_full)
            tx = S.Tree(x)
            for o in tx.objs: lab.ref(o)
            subs = [o for o in tx.objs if isinstance(o, S.Subroutine)]
            entry = {'edit': e}
            try:
                if op == 'rename' and subs:
                    r = subs[s1 % len(subs)]
                    vs = sorted({str(v.name).lower(): v for v in FindVariables().visit(r.body) if '%' not in str(v.name)}.items())
                    if vs:
                        _, v = vs[s2 % len(vs)]
                        vmap = {w: w.clone(name=str(v.name) + '_rn') for w in FindVariables(unique=False).visit(r.body) if str(w.name).lower() == str(v.name).lower()}
                        r.body = SubstituteExpressions(vmap).visit(r.body)
                        decls = {w: w.clone(name=str(v.name) + '_rn') for w in r.variables if str(w.name).lower() == str(v.name).lower()}
                        if decls: r.spec = SubstituteExpressions(decls).visit(r.spec)
                elif op == 'dropvar' and subs:
                    r = subs[s1 % len(subs)]
                    used = {str(v.name).lower() for v in FindVariables().visit(r.body)}
                    loc = [v for v in r.variables if v not in r.arguments]
                    if loc:
                        v = loc[s2 % len(loc)]
                        r.variables = tuple(w for w in r.variables if w is not v)
                elif op == 'addmember' and subs:
                    r = subs[s1 % len(subs)]
                    mem = [m for m in r.members]
                    if mem:
                        m = mem[s2 % len(mem)]
                        new = m.clone(name=m.name + '_cp', parent=r)
                        r.contains.append(new)
                elif op == 'dropstmt' and subs:
                    r = subs[s1 % len(subs)]
                    st = FindNodes((S.ir.Assignment, S.ir.CallStatement)).visit(r.body)
                    if st:
                        r.body = Transformer({st[s2 % len(st)]: None}).visit(r.body)
                elif op == 'prepend' and subs:
                    r = subs[s1 % len(subs)]
                    ints = [v for v in r.variables if getattr(v, 'type', None) is not None and v.type.dtype == S.BasicType.INTEGER and not getattr(v.type, 'parameter', False) and getattr(v.type, 'intent', None) != 'in' and not getattr(v, 'shape', None)]
                    if ints:
                        v = ints[s2 % len(ints)]
                        r.body.prepend(S.ir.Assignment(lhs=v.clone(), rhs=S.sym.IntLiteral(7)))
                elif op == 'retype_decl' and subs:
                    r = subs[s1 % len(subs)]
                    loc = [v for v in r.variables if v not in r.arguments and isinstance(v, S.sym.Scalar)]
                    if loc:
                        v = loc[s2 % len(loc)]
                        v.type = v.type.clone(dtype=S.BasicType.LOGICAL)
            except Exception as ex:
                entry['raised'] = type(ex).__name__
            try:
                entry['other_fgen_same'] = (other.to_fortran() == before_f) if before_f is not None else True
            except Exception as ex:
                entry['other_fgen_same'] = 'raised ' + type(ex).__name__
            after_full = S.export(S.Tree(other), lab, types_)
            entry['other_graph_same'] = strip_types(after_full) == before_g
            entry['other_types_same'] = inner_types(after_full) == before_t
            log.append(entry)
        return log

    # -- model side --------------------------------------------------------------------------------------------------
    def model_term(self, case, out):
        if '__exception__' in out:
            raise ValueError('implementation raised %s: %s' % (out['__exception__'], out.get('msg')))
        if case['kind'] == 'clone-free':
            return None
        if 'pairs' in out:
            terms = []
            for p in out['pairs']:
                terms.append('(let u := %s in chk_clone %d [] u %s && chk_class true %d [] u && chk_types [] u %s && chk_types [] (clone %d [] u) %s)'
                             % (unit_lit(p['orig']), D, unit_lit(p['clone']), D, otys_lit(all_types(p['orig'])), D, otys_lit(all_types(p['clone']))))
            return ' && '.join(terms)
        inclass = 'true' if case['kind'] == 'clone' else 'false'
        closed = 'true' if not self.leaks(out['orig'], out['clone']) else 'false'
        u0, ctx = unit_lit(out['orig']), ctx_lit(out['ctx'])
        exp_clone = out['clone']
        if 'name' in case['ckw']:
            exp_clone = dict(exp_clone, name=out['orig']['name'])       # the model does not rename
        t = ('(let u := %s in let ctx := %s in chk_clone %d ctx u %s && chk_class %s %d ctx u && chk_closed %d ctx u %s '
             '&& chk_types ctx u %s' % (u0, ctx, D, unit_lit(exp_clone), inclass, D, D, closed, otys_lit(all_types(out['orig']))))
        if 'name' not in case['ckw']:
            t += ' && chk_types ctx (clone %d ctx u) %s' % (D, otys_lit(all_types(out['clone'])))
            t += ' && chk_history %d ctx u [%s] %s %s' % (D, ';'.join(edit_lit(e) for e in out['medits']),
                                                        unit_lit(out['orig_final']), unit_lit(out['clone_final']))
        return t + ')'

    @staticmethod
    def leaks(g0, gc):
        own = set(graph_ids(g0))
        return [r for r in graph_refs(gc) if r[3] in own]

    # -- oracle --------------------------------------------------------------------------------------------------------
    def oracle(self, case, out):
        if '__exception__' in out:
            return 'implementation raised %s: %s' % (out['__exception__'], out.get('msg'))
        if not out['fgen_same']:
            return 'the clone generates different code than the original'
        if not out['fgen_orig_same_after_clone']:
            return 'clone() changed the code generated for the ORIGINAL'
        if out.get('shared'):
            return 'scope objects are SHARED between the original and the clone: %s' % (out['shared'][:4],)
        pairs = out.get('pairs') or [out]
        for p in pairs:
            g0, gc = p['orig'], p['clone']
            if [x['kind'] for x in flat(g0)] != [x['kind'] for x in flat(gc)] or [x['name'] for x in flat(g0)][1:] != [x['name'] for x in flat(gc)][1:]:
                return 'the scope tree of the clone has a different shape: %s vs %s' % ([x['kind'] for x in flat(g0)], [x['kind'] for x in flat(gc)])
            if case['kind'] != 'clone-leaky':
                lk = self.leaks(g0, gc)
                if lk:
                    return 'the clone still refers to scope objects of the original: %s' % (lk[:4],)
            for x0, xc in zip(flat(g0), flat(gc)):
                t0_, tc_ = [(e[0], e[1]) for e in x0['tab']], [(e[0], e[1]) for e in xc['tab']]
                if t0_ != tc_:
                    dd = sorted(set(t0_) ^ set(tc_))
                    return 'symbol table of clone scope %d (%s %s) differs from the original\'s: %s' % (xc['id'], xc['kind'], xc['name'], dd[:4])
            if 'other_orig' in p:
                lo, hi = p['other_orig']
                lk = [r for r in graph_refs(gc) if lo <= r[3] < hi]
                if lk:
                    return 'a unit of the cloned file still refers to scope objects of ORIGINAL sibling units: %s' % (lk[:4],)
            own0, ownc = graph_ids(g0), graph_ids(gc)
            if set(own0) & set(ownc) or len(set(ownc)) != len(ownc):
                return 'scope objects are shared between the copies: %s' % sorted(set(own0) & set(ownc))
            for x in flat(gc):
                if not x['tpar_ok']:
                    return 'symbol table of clone scope %d does not chain to the table of its parent scope' % x['id']
            # parents follow the tree
            def par_ok(t, par):
                if t['parent'] != par: return 'scope %d has parent %r, the tree says %r' % (t['id'], t['parent'], par)
                for ch in t['nodes'] + t['members']:
                    m = par_ok(ch, t['id'])
                    if m: return m
                return None
            m = par_ok(gc, g0['parent'])
            if m: return 'clone: ' + m
            if 'name' not in case.get('ckw', {}) and all_types(g0) != all_types(gc):
                bad = [(a, b) for a, b in zip(all_types(g0), all_types(gc)) if a != b]
                return 'symbols of the clone read other types than the corresponding symbols of the original (%d differ)' % len(bad)
        if 'orig_after_clone_same' in out and not out['orig_after_clone_same']:
            return 'clone() changed the scope graph of the original'
        for entry in out.get('edit_log', []):
            if 'other_fgen_same' in entry and entry['other_fgen_same'] is not True:
                return 'edit %s on one copy changed the code of the other copy (%s)' % (entry['edit'], entry['other_fgen_same'])
            if 'other_graph_same' in entry and not entry['other_graph_same']:
                return 'edit %s on one copy changed the scope graph of the other copy' % (entry['edit'],)
            if case['kind'] != 'clone-leaky' and entry.get('other_types_same') is False:
                return 'edit %s on one copy changed a type read by a symbol (IR or inside a table entry) of the other copy' % (entry['edit'],)
        if case['kind'] != 'clone-leaky' and out.get('retype_probe'):
            return out['retype_probe'][0]
        return None

    def nontrivial_key(self, case, out):
        if '__exception__' in out: return None
        pairs = out.get('pairs') or [out]
        big = any(len(flat(p['orig'])) >= 2 or any(r[3] >= CTX0 for r in graph_refs(p['orig'])) for p in pairs)
        if not big: return None
        return json.dumps([case['src'], case['what'], case['sel'], case['edits'], case['ckw']], sort_keys=True)

    def show_model(self, case, out):
        if 'orig' not in out: return []
        return ['clone %d %s %s' % (D, ctx_lit(out['ctx']), unit_lit(out['orig']))]

PROP = C17
