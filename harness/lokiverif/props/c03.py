"""C03 — conservative output reproduces unmodified source verbatim (harness).

Bridge: Loki IR (with Source objects) <-> the JSON tree used by the Coq model M_C03.

JSON node = [kind, uid, label, src, tm, grp, lits, alt, slots]
  kind  : 'leaf' | 'comment' | 'section' | 'loop' | 'cond' | 'condei' | 'sub' | 'mod' | 'func' | 'other'
  src   : None | [l0, l1, [lines], status]      status in 'V' (VALID), 'N' (INVALID_NODE), 'C' (INVALID_CHILDREN)
  tm    : 'n' Transformer._rebuild applies | 's' ScopedNode (source untouched) | 'p' program unit / section over units (user protocol)
          | 'x' not traversed (opaque program unit) | 'o' opaque node with children (one-line IF ...): rebuilt, regenerated text = lits
  grp   : number of leading slots that sit in one nested tuple (MultiConditional.bodies ...): emptied ones are stripped
  alt   : for non-inline Conditionals: the template printed when the handler receives is_elseif=True (ELSE IF header)
  lits  : structural template, len(slots)+1 blocks of lines (what the non-conservative handler prints around the slots)
  slots : list of lists of nodes
"""
import os, json
from ..framework import Property
from ..coqlit import coq, C, Nat, Some, Raw, coq_string

ST = {'VALID': 'V', 'INVALID_NODE': 'N', 'INVALID_CHILDREN': 'C'}
SLOT_FIELDS = ('body', 'else_body', 'default')
GROUP_FIELDS = ('bodies',)
# node classes whose VALID source text is emitted by FortranCodegenConservative (read from fgencon.py)
HANDLED = ('Assignment', 'CallStatement', 'Comment', 'Conditional', 'VariableDeclaration', 'Import', 'Loop', 'Section',
           'Subroutine', 'Module')


def _imports():
    from loki.ir import nodes as ir
    from loki.ir import Node
    from loki.subroutine import Subroutine
    from loki.function import Function
    from loki.module import Module
    from loki.backend.fgen import FortranCodegen
    from loki.backend.fgencon import FortranCodegenConservative
    from loki.backend.style import FortranStyle
    return ir, Node, Subroutine, Function, Module, FortranCodegen, FortranCodegenConservative, FortranStyle


def is_unit(o):
    ir, Node, Subroutine, Function, Module, *_ = _imports()
    return isinstance(o, (Subroutine, Module))


def node_slots(o):
    """(slots, grp): the tuples of child nodes of `o` in printing/traversal order"""
    ir, Node, Subroutine, Function, Module, *_ = _imports()
    if isinstance(o, Module):
        return [list(o.docstring or ()), [o.spec] if o.spec is not None else [], [o.contains] if o.contains is not None else []], 0
    if isinstance(o, Subroutine):
        return [list(o.docstring or ()), [o.spec] if o.spec is not None else [], [o.body] if o.body is not None else [],
                [o.contains] if o.contains is not None else []], 0
    slots, grp = [], 0
    for f in o._traversable:
        v = getattr(o, f)
        if f in GROUP_FIELDS:
            for b in v:
                slots.append(list(b)); grp += 1
        elif f in SLOT_FIELDS:
            slots.append(list(v) if v is not None else [])
    return slots, grp


def slot_objects(o):
    """the python objects the code generator visits for each slot (same order as node_slots)"""
    ir, Node, Subroutine, Function, Module, *_ = _imports()
    if isinstance(o, Module):
        return [o.docstring, o.spec, o.contains]
    if isinstance(o, Subroutine):
        return [o.docstring, o.spec, o.body, o.contains]
    objs = []
    for f in o._traversable:
        v = getattr(o, f)
        if f in GROUP_FIELDS:
            objs.extend(v)
        elif f in SLOT_FIELDS:
            objs.append(v)
    return objs


def handler_of(o):
    """(name, conservative?) of the visit method FortranCodegenConservative dispatches to"""
    ir, Node, Subroutine, Function, Module, FCG, FCC, Style = _imports()
    m = _CG().lookup_method(o)
    return m.__name__, m.__func__.__qualname__.startswith('FortranCodegenConservative')


_cg = None
def _CG():
    global _cg
    if _cg is None:
        ir, Node, Subroutine, Function, Module, FCG, FCC, Style = _imports()
        _cg = FCC(style=Style())
    return _cg


def kind_of(o):
    ir, Node, Subroutine, Function, Module, *_ = _imports()
    name, cons = handler_of(o)
    if not cons:
        return 'func' if isinstance(o, Function) else 'other'
    if name == 'visit_Comment': return 'comment'
    if name == 'visit_Section': return 'section'
    if name == 'visit_Loop': return 'loop'
    if name == 'visit_Conditional':
        if o.inline: return 'other'
        return 'condei' if o.has_elseif else 'cond'
    if name == 'visit_Subroutine': return 'sub'
    if name == 'visit_Module': return 'mod'
    return 'leaf'      # visit_Assignment / visit_CallStatement / visit_Import / visit_VariableDeclaration / visit_Node


def tmode(o, parent_is_unit_section=False):
    ir, Node, Subroutine, Function, Module, *_ = _imports()
    from loki.ir.nodes import ScopedNode
    if is_unit(o): return 'p'
    if isinstance(o, ir.Section) and type(o) is ir.Section and any(is_unit(c) for c in o.body): return 'p'
    if isinstance(o, ScopedNode): return 's'
    return 'n'


def src_json(s):
    if s is None or not hasattr(s, 'status'):
        return None
    st = s.string if s.string is not None else ''
    return [int(s.lines[0]), int(s.lines[1] if s.lines[1] is not None else s.lines[0]), st.split('\n'), ST[s.status.name]]


class _Depths:
    """one non-conservative pass that records the indentation depth at which every node is printed"""
    def __init__(self, root, depth=0):
        ir, Node, Subroutine, Function, Module, FCG, FCC, Style = _imports()
        outer = self
        self.depth = {}
        class Rec(FCG):
            def visit(self, o, *a, **kw):
                if isinstance(o, Node) or is_unit(o):
                    outer.depth.setdefault(id(o), self.depth)
                return super().visit(o, *a, **kw)
        try:
            Rec(style=Style(), depth=depth).visit(root)
            self.ok = True
        except Exception as e:      # pragma: no cover - structural printer crashed (corrupted IR)
            self.ok = False; self.err = '%s: %s' % (type(e).__name__, e)


MARK = '\x01%d\x01'

def struct_template(o, depth, is_elseif=False):
    """lits of node `o`: the REAL non-conservative handler is run on `o` with every slot replaced by a marker line;
    returns None when the slots are not printed as whole lines (inline IF ...) -> the node is exported as opaque"""
    ir, Node, Subroutine, Function, Module, FCG, FCC, Style = _imports()
    objs = slot_objects(o)
    marks = {}
    for k, ob in enumerate(objs):
        if ob is None or (isinstance(ob, tuple) and len(ob) == 0):
            continue
        marks[id(ob)] = MARK % k
    class Probe(FCC):
        def visit(self, x, *a, **kw):
            m = marks.get(id(x))
            if m is not None and x is not o:
                return m
            return super().visit(x, *a, **kw)
    p = Probe(style=Style(), depth=depth)
    name = FCG(style=Style()).lookup_method(o).__name__
    out = getattr(FCG, name)(p, o, is_elseif=True) if is_elseif else getattr(FCG, name)(p, o)
    lines = [] if out is None else out.split('\n')
    lits, cur, k = [], [], 0
    present = [i for i, ob in enumerate(objs) if id(ob) in marks and marks[id(ob)] == MARK % i]
    for ln in lines:
        if ln.startswith('\x01') and ln.endswith('\x01') and len(ln) > 2:
            i = int(ln[1:-1])
            lits.append(cur); cur = []; k += 1
            while k <= i:          # empty slots before this one print nothing; the text sticks to the first of them
                lits.append([]); k += 1
        elif '\x01' in ln:
            return None
        else:
            cur.append(ln)
    while k < len(objs):           # trailing empty slots: the remaining text is the last block (footer)
        lits.append([]); k += 1
    lits.append(cur)
    seen = sum(1 for ln in lines if ln.startswith('\x01') and ln.endswith('\x01') and len(ln) > 2)
    if seen != len(present) or len(lits) != len(objs) + 1:
        return None
    return lits


def real_print(o, depth):
    ir, Node, Subroutine, Function, Module, FCG, FCC, Style = _imports()
    out = FCC(style=Style(), depth=depth).visit(o)
    return [] if out is None else out.split('\n')


class Exporter:
    """export a (sub)tree; uid = equivalence class of the node under == / hash (what a Transformer mapper sees); a rebuilt
    node inherits the uid of the node it was rebuilt from (Transformer.rebuilt)"""
    def __init__(self):
        self.uids = {}
        self.id2uid = {}
        self.keep = []
        self.byid = {}
        self.j2o = {}
        self.real = {}
        self.notes = []

    def inherit(self, new, old):
        u = self.id2uid.get(id(old))
        if u is not None and id(new) not in self.id2uid:
            self.id2uid[id(new)] = u; self.keep.append(new)

    def uid(self, o):
        u = self.id2uid.get(id(o))
        if u is not None:
            return u
        key = ('unit', id(o)) if is_unit(o) else o
        try:
            u = self.uids.get(key)
            if u is None:
                u = self.uids[key] = len(self.uids) + 1
        except TypeError:          # unhashable node content
            u = self.uids[('id', id(o))] = len(self.uids) + 1
        self.id2uid[id(o)] = u; self.keep.append(o)
        return u

    def export(self, root, depth=0):
        d = _Depths(root, depth)
        if not d.ok:
            self.notes.append('structural printer failed: ' + d.err)
        self.depth = d.depth
        node = self._node(root, depth)
        # the text of the file section ends with the final newline of the file; texts are compared modulo that newline
        # (Sourcefile.to_file re-adds it)
        if node[0] == 'section' and node[3] is not None and len(node[3][2]) > 1 and node[3][2][-1] == '':
            node[3] = [node[3][0], node[3][1], node[3][2][:-1], node[3][3]]
        return node

    def _node(self, o, dflt_depth):
        ir, Node, Subroutine, Function, Module, FCG, FCC, Style = _imports()
        depth = self.depth.get(id(o), dflt_depth)
        kind = kind_of(o)
        src = src_json(getattr(o, 'source', None))
        label = getattr(o, 'label', None)
        tm = tmode(o)
        slots, grp = node_slots(o)
        lits = None
        alt = []
        opaque = False
        if any(slots) or is_unit(o):
            try:
                lits = struct_template(o, depth)
                if kind in ('cond', 'condei') and lits is not None:
                    alt = struct_template(o, depth, is_elseif=True)
                    if alt is None: lits = None
            except Exception as e:
                self.notes.append('template of %s failed: %s' % (type(o).__name__, e))
                lits = None
            if lits is None:
                opaque = True; alt = []
        if isinstance(o, ir.Conditional) and o.name:
            opaque = True; alt = []       # named constructs: the name kwarg is threaded as well (not modelled)
        if isinstance(o, ir.Loop) and (o.pragma or o.pragma_post):
            opaque = True
        if opaque or not any(slots) and not is_unit(o):
            # slotless / opaque: the structural text is whatever the real backend prints for this node as it is
            needs = not (src is not None and src[3] == 'V' and kind in ('leaf', 'section', 'loop', 'cond', 'condei', 'sub', 'mod'))
            if kind == 'comment': needs = True
            restore = None
            if opaque:
                # an opaque block: VALID -> its text if the class has a conservative handler (kind 'leaf'), else regenerated;
                # the Transformer rebuilds it like any node with node children (tm 'o'); the template is what is printed
                # once it is no longer VALID
                kind = 'leaf' if handler_of(o)[1] and not is_unit(o) else 'other'
                tm = 'x' if is_unit(o) else 'o'
                needs = True
                so = getattr(o, 'source', None)
                if tm == 'o' and so is not None and so.status.name == 'VALID':
                    # what _rebuild does: the node gets an invalidated CLONE of its source (children may share the object)
                    restore = so; o._update(source=so.clone().invalidate(children=True))
            try:
                lits = [real_print(o, depth)] if needs else [[]]
            except Exception as e:
                lits = [['<%s>' % type(e).__name__]]
                self.notes.append('print of %s raised %s' % (type(o).__name__, type(e).__name__))
            finally:
                if restore is not None:
                    o._update(source=restore)
            if opaque:
                slots, grp = [], 0
            else:
                lits = lits + [[] for _ in slots]
        u = self.uid(o)
        self.real.setdefault(u, o)
        node = [kind, u, label, src, tm, grp, lits, alt, [[self._node(c, depth) for c in sl] for sl in slots]]
        self.byid[id(o)] = node
        self.j2o[id(node)] = o
        return node


# ---------------------------------------------------------------------------------------------------------
# Python mirror of the Coq model (M_C03.v).  Used to compute class membership / expected statuses that the
# correspondence term then checks against the model itself, and for diagnostics.  Never used as the oracle.
# ---------------------------------------------------------------------------------------------------------
WS = '\t\n\x0b\x0c\r\x1c\x1d\x1e\x1f '
K, U, LB, SR, TM, GR, LI, AL, SL = range(9)
CKINDS = ('loop', 'cond', 'condei', 'sub', 'mod')      # kinds with an INVALID_CHILDREN rule
UNITS = ('sub', 'func', 'mod')

class ModelError(Exception):
    pass

def m_lstrip(s):
    i = 0
    while i < len(s) and s[i] in WS: i += 1
    return s[i:]

def m_strip(s):
    s = m_lstrip(s)
    j = len(s)
    while j > 0 and s[j - 1] in WS: j -= 1
    return s[:j]

def m_upper(s):
    return ''.join(chr(ord(c) - 32) if 'a' <= c <= 'z' else c for c in s)

def m_isspace(s):
    return len(s) > 0 and all(c in WS for c in s)

def m_apply_label(lbl, lines):
    if lbl is None: return lines
    if not lines: raise ModelError('TypeError')
    first = lines[0]
    if m_lstrip(first) == '': raise ModelError('label on blank first line')
    indent = max(1, len(first) - len(m_lstrip(first)) - 1)
    return [lbl + ' ' * (indent - len(lbl)) + ' ' + m_lstrip(first)] + lines[1:]

def m_comment_rule(txt):
    s = '\n'.join(txt)
    k = s.find('!')
    if k < 0: return txt
    pre, rest = s[:k], s[k + 1:]
    if pre != '' and not m_isspace(pre):
        n = 0
        while n < len(pre) and pre[len(pre) - 1 - n] == ' ': n += 1
        return (' ' * n + '!' + rest).split('\n')
    return txt

def m_last_else(txt):
    r = None
    for s in txt:
        if m_strip(m_upper(s)) == 'ELSE': r = s
    return r

def m_interleave(lits, ps):
    out = []
    for i in range(max(len(lits), len(ps))):
        if i < len(lits): out += lits[i]
        if i < len(ps): out += ps[i]
    return out

def m_nonblank(t):
    return t != [] and t != ['']

def m_line(txt, i):
    if i < 0 or i >= len(txt): raise ModelError('IndexError')
    if txt[-1] == '': raise ModelError('splitlines differs')
    return txt[i]

def m_slot_l0(sl, must_exist):
    """start line of the source of the single Section in a unit slot; None = it has no source"""
    if not sl:
        if must_exist: raise ModelError('AttributeError')
        return None
    return sl[0][SR][0] if sl[0][SR] is not None else None

def m_unit_header(node):
    kind, src, lits, slots = node[K], node[SR], node[LI], node[SL]
    l0, l1, txt, st = src
    if kind == 'sub':
        v = m_slot_l0(slots[2], True)
        h_end = v if v is not None else l1
        v = m_slot_l0(slots[1], True)
        if v is not None: h_end = min(h_end, v)
        if slots[0]:
            if slots[0][0][SR] is None: raise ModelError('AttributeError')
            h_end = min(h_end, slots[0][0][SR][0])
    else:
        v = m_slot_l0(slots[2], False)
        h_end = v if v is not None else l1
        v = m_slot_l0(slots[1], True)
        if v is not None: h_end = min(h_end, v)
    if h_end < l1:
        n = h_end - l0
        if n < 1 or n > len(txt) or txt[-1] == '': raise ModelError('header slice')
        return txt[:n]
    return lits[0] if lits else []

def m_unit_footer(node):
    l0, l1, txt, st = node[SR]
    foot = m_line(txt, l1 - l0)
    return [foot] if 'END ' in m_upper(foot) else (node[LI][-1] if node[LI] else [])

def m_assemble(node, ps, mode, ei):
    """mode 'C': the INVALID_CHILDREN rule of the kind, 'S': structural; ps = printed slots"""
    kind, src, lits, alt, slots = node[K], node[SR], node[LI], node[AL], node[SL]
    if mode == 'C':
        l0, l1, txt, st = src
        if kind == 'loop':
            return [m_line(txt, 0)] + ps[0] + [m_line(txt, l1 - l0)]
        if kind == 'cond':
            out = [m_line(txt, 0)] + ps[0]
            if slots[1]:
                e = m_last_else(txt)
                if e is None: raise ModelError('IndexError')
                out = out + [e]
            return out + ps[1] + [m_line(txt, l1 - l0)]
        if kind == 'condei':
            return [m_line(txt, 0)] + ps[0] + ps[1]
        if kind == 'sub':
            return m_unit_header(node) + ps[0] + ps[1] + ps[2] + (ps[3] if m_nonblank(ps[3]) else []) + m_unit_footer(node)
        if kind == 'mod':
            return m_unit_header(node) + ps[1] + (ps[2] if m_nonblank(ps[2]) else []) + m_unit_footer(node)
        raise ModelError('no C rule')
    if kind in ('sub', 'func') and len(ps) == 4:
        ps = ps[:3] + [ps[3] if m_nonblank(ps[3]) else []]
    if kind in ('cond', 'condei') and ei:
        return m_interleave(alt, ps)
    return m_interleave(lits, ps)

def m_pslot(slot, f, direct=False):
    """visit_tuple: labels applied, None results skipped, '' when every item printed None"""
    if direct:
        out = []
        for c in slot: out += f(c)
        return out
    if not slot: return []
    out = []
    for c in slot:
        out += m_apply_label(c[LB], f(c))
    return out if out else ['']

def m_mode(node):
    """'T' own text, 'C' children rule, 'S' structural"""
    kind, src = node[K], node[SR]
    if src is None or kind in ('other', 'func'): return 'S'
    st = src[3]
    if st == 'V': return 'T'
    if st == 'C' and kind in CKINDS: return 'C'
    return 'S'

def m_child_ei(node, mode, ei, i):
    """is_elseif present in the kwargs handed to slot i"""
    kind = node[K]
    if kind in ('cond', 'condei'):
        if mode == 'S':
            return kind == 'condei' and i == 1
        if kind == 'condei' and i == 1:
            if ei: raise ModelError('TypeError')
            return True
    return ei

def m_cp(node, ei=False):
    kind, src, slots = node[K], node[SR], node[SL]
    mode = m_mode(node)
    if mode == 'T':
        return m_comment_rule(src[2]) if kind == 'comment' else src[2]
    ps = [m_pslot(sl, (lambda c, e=m_child_ei(node, mode, ei, i): m_cp(c, e)), direct=(kind in UNITS and i > 0))
          for i, sl in enumerate(slots)]
    return m_assemble(node, ps, mode, ei)

def m_cons_print(node):
    try:
        return m_cp(node)
    except ModelError as e:
        return None

def m_text(c):
    if c[SR] is None: raise ModelError('no source')
    return c[SR][2]

def m_tiled1(node):
    """the node's text is what its rule assembles from the children's texts"""
    kind, src, slots = node[K], node[SR], node[SL]
    if src is None: return False
    if kind == 'leaf': return True
    if kind == 'comment': return m_comment_rule(src[2]) == src[2]
    try:
        ts = [m_pslot(sl, m_text, direct=(kind in UNITS and i > 0)) for i, sl in enumerate(slots)]
        mode = 'C' if kind in CKINDS else 'S'
        return m_assemble(node, ts, mode, False) == src[2]
    except ModelError:
        return False

def m_tiled(node):
    return m_tiled1(node) and all(m_tiled(c) for sl in node[SL] for c in sl)

def m_unlabelled(node):
    return all(c[LB] is None and m_unlabelled(c) for sl in node[SL] for c in sl)

def m_walk(node):
    yield node
    for sl in node[SL]:
        for c in sl:
            yield from m_walk(c)


# ----- mirror of the Transformer model ---------------------------------------------------------------------
def m_set_status(src, st):
    return None if src is None else [src[0], src[1], src[2], st]

def m_has_sel(node, sel):
    return any(c[U] in sel or m_has_sel(c, sel) for sl in node[SL] for c in sl)

def m_trn(node, M):
    """Transformer.visit_Node / visit_ScopedNode on a node that is not replaced"""
    kind, u, lb, src, tm, grp, lits, alt, slots = node
    if tm == 'o':
        if src is not None and src[3] == 'V':
            src = m_set_status(src, 'C')
        return [kind, u, lb, src, tm, grp, lits, alt, slots]
    if tm not in ('n', 's'):
        return node
    new = [m_trslot(sl, M) for sl in slots]
    keep = [i for i in range(len(new)) if not (i < grp and not new[i])]
    nslots = [new[i] for i in keep]
    nlits = [lits[0]] + [lits[i + 1] for i in keep] if len(lits) == len(slots) + 1 else lits
    ngrp = len([i for i in keep if i < grp])
    if tm == 'n' and src is not None and src[3] == 'V' and any(nslots):
        src = m_set_status(src, 'C')          # is_source_valid(child NODE) is always False: any node child invalidates
    return [kind, u, lb, src, tm, ngrp, nlits, alt, nslots]

def m_trslot(sl, M):
    out = []
    for c in sl:
        a = M.get(c[U])
        if a is None:
            out.append(m_trn(c, M))
        elif a[0] == 'drop':
            pass
        elif a[0] == 'one':
            out.append(a[1])
        else:
            for r in a[1]:
                out.append(m_trn(c, M) if r[U] == c[U] else m_trn(r, M))
    return out

def m_tr(node, M, sel):
    """user protocol above the transformed sections: Transformer(M).visit(section) for the selected sections, every
    enclosing program unit / section of units is marked INVALID_CHILDREN"""
    kind, u, lb, src, tm, grp, lits, alt, slots = node
    if u in sel:
        return m_trn(node, M)
    if not m_has_sel(node, sel):
        return node
    nslots = [[m_tr(c, M, sel) for c in sl] for sl in slots]
    return [kind, u, lb, m_set_status(src, 'C'), tm, grp, lits, alt, nslots]

def m_skel(node):
    kind, u, lb, src, tm, grp, lits, alt, slots = node
    if tm == 'x' and src is not None:
        src = src[:3] + ['-']          # not traversed in the model: the status of an opaque node is never looked at
    return [kind, u, lb, src, [[m_skel(c) for c in sl] for sl in slots]]

def m_touched(node, M):
    return any(c[U] in M or m_touched(c, M) for sl in node[SL] for c in sl)


# ----- running the real code -----------------------------------------------------------------------------------
def parse_source(src):
    from loki import Sourcefile
    from loki.frontend import FP
    return Sourcefile.from_source(src, frontend=FP)

def all_units(sf):
    """every routine of the file with the chain of enclosing objects (outermost first)"""
    from loki.module import Module
    from loki.subroutine import Subroutine
    out = []
    def rec(u, chain):
        if isinstance(u, Subroutine):
            out.append((u, chain))
        for c in (u.contains.body if getattr(u, 'contains', None) is not None else ()):
            if isinstance(c, (Subroutine, Module)):
                rec(c, chain + [u])
    for c in sf.ir.body:
        if isinstance(c, (Subroutine, Module)):
            rec(c, [])
    return out

def mark_path(sf, unit, chain):
    """what a user has to do after assigning a transformed section back (cf. loki/backend/tests/test_conservative.py,
    loki/lint/utils.py): the unit, the enclosing contains-sections/units and the file section are INVALID_CHILDREN"""
    from loki.frontend.source import SourceStatus
    C = SourceStatus.INVALID_CHILDREN
    if unit.source is not None: unit.source.status = C
    for p in chain:
        if p.contains is not None and p.contains.source is not None: p.contains.source.status = C
        if p.source is not None: p.source.status = C
    if sf.ir.source is not None: sf.ir.source.status = C

def candidates(ex, jsec):
    """(json, real) of every exported node strictly below the section, in pre-order"""
    out = []
    def rec(n):
        for i, sl in enumerate(n[SL]):
            for c in sl:
                if not (n[K] == 'condei' and i == 1):      # the ELSE IF itself is not an item one can replace or pad
                    out.append((c, ex.j2o[id(c)]))
                rec(c)
    rec(jsec)
    return out

def build_edit(ex, e, cands, serial, prints):
    """-> (real key, real handle, model action) or None"""
    from loki.ir import nodes as ir
    from loki.backend.fgencon import FortranCodegenConservative as FCC
    from loki.backend.style import FortranStyle as Style
    from loki.expression import symbols as sym
    from loki.frontend.source import SourceStatus
    op = e['op']
    if op in ('rhs', 'rhsN', 'split'):
        el = [(j, o) for j, o in cands if type(o).__name__ == 'Assignment']
    elif op == 'fresh':
        el = [(j, o) for j, o in cands if type(o).__name__ in ('Loop', 'Conditional', 'WhileLoop') and j[TM] not in ('x', 'o')]
    else:
        el = list(cands)
    if not el:
        return None
    j, o = el[e['idx'] % len(el)]
    depth = ex.depth.get(id(o), 0)
    plist = []
    def exp(r):
        j = ex._node(r, depth)
        try:
            out = FCC(style=Style(), depth=depth).visit((r,))       # as an item of the enclosing tuple (label applied)
            plist.append([] if out is None else out.split('\n'))
        except Exception as e:                                      # the backend raises on this replacement
            plist.append(None)
        return j
    if op == 'del':
        return o, None, ['drop']
    def done(key, handle, act):
        # printed text of the new elements, by position in the handle (None for the node itself)
        if act[0] == 'one':
            prints[str(ex.uid(key))] = [plist[0]]
        else:
            it = iter(plist)
            prints[str(ex.uid(key))] = [None if r is j else next(it) for r in act[1]]
        return key, handle, act
    if op in ('rhs', 'rhsN'):
        src = None
        if op == 'rhsN' and o.source is not None:
            src = o.source.clone(); src.invalidate()
        r = o.clone(rhs=sym.Sum((o.rhs, sym.IntLiteral(0))), source=src)
        return done(o, r, ['one', exp(r)])
    if op == 'fresh':
        r = o.clone(source=None)
        return done(o, r, ['one', exp(r)])
    if op in ('cmtb', 'cmta'):
        c = ir.Comment(text='! lv-edit %d' % serial)
        h = (c, o) if op == 'cmtb' else (o, c)
        return done(o, h, ['many', [exp(c), j] if op == 'cmtb' else [j, exp(c)]])
    if op == 'split':
        r1 = o.clone(rhs=sym.Sum((o.rhs, sym.IntLiteral(0))), source=None)
        r2 = ir.Assignment(lhs=o.lhs, rhs=o.lhs)
        return done(o, (r1, r2), ['many', [exp(r1), exp(r2)]])
    raise ValueError(op)

def run_history(src, unit_idx, passes):
    """parse, apply the passes through the real Transformer, print conservatively.  Returns a dict with the exported
    trees, the model-side description of every pass, and the real output"""
    from loki.ir import Transformer
    sf = parse_source(src)
    res = {'orig_out': None, 'steps': []}
    res['orig_out'] = sf.to_fortran(conservative=True)
    ex = Exporter()
    pre = ex.export(sf.ir)
    res['pre'] = pre
    res['notes'] = ex.notes
    units = all_units(sf)
    serial = 0
    cur = pre
    for p in passes:
        if not units:
            break
        unit, chain = units[(unit_idx + p.get('unit', 0)) % len(units)]
        secname = p.get('sec', 'body')
        section = getattr(unit, secname)
        if section is None or id(section) not in ex.byid:
            continue
        jsec = ex.byid[id(section)]
        if jsec[TM] != 'n':
            continue
        cands = candidates(ex, jsec)
        mapper, M, prints = {}, {}, {}
        for e in p['edits']:
            serial += 1
            b = build_edit(ex, e, cands, serial, prints)
            if b is None: continue
            o, h, act = b
            mapper[o] = h
            M[ex.uid(o)] = act
        T = Transformer(mapper)
        err = None
        try:
            new = T.visit(section)
        except Exception as e:       # the Transformer itself raised
            res['steps'].append({'sel': jsec[U], 'M': M, 'error': type(e).__name__, 'prints': prints})
            res['transform_error'] = type(e).__name__
            break
        for o, n in T.rebuilt.items():
            h = mapper.get(o, o) if o in mapper else o
            if o in mapper and not (isinstance(h, tuple) and o in h):
                continue
            ex.inherit(n, o)
        setattr(unit, secname, new)
        mark_path(sf, unit, chain)
        post = ex.export(sf.ir)
        res['steps'].append({'sel': jsec[U], 'M': M, 'post': post, 'prints': prints})
        cur = post
    res['final'] = cur
    res['sf'] = sf
    try:
        res['out'] = sf.to_fortran(conservative=True)
    except Exception as e:
        res['out'] = None; res['out_error'] = type(e).__name__
    try:
        from loki import fgen
        res['struct_out'] = fgen(sf)
    except Exception as e:
        res['struct_out'] = None
    res['notes'] = ex.notes
    return res


# ----- Coq literals ----------------------------------------------------------------------------------------------
KC = {'leaf': 'KLeaf', 'comment': 'KComment', 'section': 'KSection', 'loop': 'KLoop', 'cond': 'KCond', 'condei': 'KCondEI',
      'sub': 'KSub', 'mod': 'KMod', 'func': 'KFunc', 'other': 'KOther'}
TMC = {'n': 'TN', 's': 'TS', 'p': 'TP', 'x': 'TX', 'o': 'TO'}
STC = {'V': 'VALID', 'N': 'INVALID_NODE', 'C': 'INVALID_CHILDREN'}

class Lits:
    """one string table per case (file lines first); texts are runs of table entries; the table is one packed blob"""
    def __init__(self, lines):
        self.L = []
        self.idx = {}
        for x in lines:
            self.L.append(x); self.idx.setdefault(x, len(self.L) - 1)
    def _i(self, x, hint=None):
        if hint is not None and 0 <= hint < len(self.L) and self.L[hint] == x:
            return hint
        i = self.idx.get(x)
        if i is None:
            self.L.append(x); i = self.idx[x] = len(self.L) - 1
        return i
    def text(self, lines, at=None):
        segs = []
        for k, x in enumerate(lines):
            i = self._i(x, None if at is None else at + k)
            if segs and segs[-1][0] + segs[-1][1] == i:
                segs[-1][1] += 1
            else:
                segs.append([i, 1])
        if not segs: return '[]'
        return '(tx L [%s])' % ';'.join('(%d,%d)' % (o, n) for o, n in segs)
    def segs(self, lines, at=None):
        t = self.text(lines, at)
        return t
    def one_run(self, lines, at=None):
        """(o, n) when the text is one run of the table"""
        t = self.text(lines, at)
        if t.startswith('(tx L [(') and t.count('(') == 2:
            o, n = t[len('(tx L [('):-3].split(',')
            return int(o), int(n)
        return None
    def string(self, x):
        return '(g L %d)' % self._i(x)
    def table(self):
        b = '\n'.join(self.L).encode('latin-1', 'replace')
        ws = [len(b)]
        for i in range(0, len(b), 7):
            n = 0
            for ch in b[i:i + 7][::-1]:
                n = n * 256 + ch
            ws.append(n)
        return '(dtab [%s]%%uint63)' % ';'.join(map(str, ws))

def coq_opt(x, f):
    return 'None' if x is None else '(Some %s)' % f(x)

def coq_tree(n, lt):
    kind, u, lb, src, tm, grp, lits, alt, slots = n
    run = None
    if src is None:
        s = 'None'
    else:
        run = lt.one_run(src[2], src[0] - 1)
        if run is not None:
            s = '(src1 L %d %d %d %d %s)' % (src[0], src[1], run[0], run[1], STC[src[3]])
        else:
            s = '(Some (mkSrc %d %d %s %s))' % (src[0], src[1], lt.text(src[2], src[0] - 1), STC[src[3]])
    if run is not None and lb is None and tm == 'n' and grp == 0 and not alt and not slots and lits == [[]]:
        return '(lf L %s %d %d %d %d %d %s)' % (KC[kind], u, src[0], src[1], run[0], run[1], STC[src[3]])
    return '(T %s %d %s %s %s %d %s %s [%s])' % (
        KC[kind], u, coq_opt(lb, lt.string), s, TMC[tm], grp,
        '[%s]' % '; '.join(lt.text(x) for x in lits), '[%s]' % '; '.join(lt.text(x) for x in alt),
        '; '.join('[%s]' % '; '.join(coq_tree(c, lt) for c in sl) for sl in slots))

def coq_action(a, lt):
    if a[0] == 'drop': return 'ADrop'
    if a[0] == 'one': return '(AOne %s)' % coq_tree(a[1], lt)
    return '(AMany [%s])' % '; '.join(coq_tree(r, lt) for r in a[1])

def coq_pass(st, lt):
    return '([%d], [%s])' % (st['sel'], '; '.join('(%d, %s)' % (u, coq_action(a, lt)) for u, a in sorted(st['M'].items())))

def coq_otext(lines, lt):
    return 'None' if lines is None else '(Some %s)' % lt.text(lines, 0)

def coq_bool(b):
    return 'true' if b else 'false'


# ----- mirror of verb / nt / in_class -------------------------------------------------------------------------------
def m_cmode(kind):
    return 'C' if kind in CKINDS else 'S'

def m_fmode(node):
    return 'S' if node[SR] is None else m_cmode(node[K])

def m_child_ei_opt(node, mode, ei, i):
    try:
        return m_child_ei(node, mode, ei, i)
    except ModelError:
        return None

def m_verb(node, ei=False):
    kind, src, slots = node[K], node[SR], node[SL]
    mode = m_mode(node)
    if mode == 'T':
        return (m_comment_rule(src[2]) == src[2]) if kind == 'comment' else True
    if kind in ('leaf', 'comment') or mode != m_cmode(kind) or not m_tiled1(node):
        return False
    for i, sl in enumerate(slots):
        e = m_child_ei_opt(node, mode, ei, i)
        if e is None or not all(m_verb(c, e) for c in sl):
            return False
    return True

def m_nt(node, M, ei, strong):
    kind, u, lb, src, tm, grp, lits, alt, slots = node
    if tm == 'o':
        return m_verb(m_trn(node, M), ei) if strong else True
    if tm not in ('n', 's'):
        return m_verb(node, ei) if strong else True
    if grp != 0:
        return False
    if not any(slots):
        return m_verb(node, ei) if strong else True
    after = m_trn(node, M)
    if m_mode(after) != m_fmode(node):
        return False
    if strong and (kind in ('leaf', 'comment') or not m_tiled1(node)):
        return False
    for i, sl in enumerate(slots):
        e = m_child_ei_opt(node, m_fmode(node), ei, i)
        if e is None:
            if strong: return False
            continue
        for c in sl:
            a = M.get(c[U])
            if a is None:
                if not m_nt(c, M, e, strong): return False
            elif a[0] == 'many' and any(r[U] == c[U] for r in a[1]):
                if not m_nt(c, M, e, strong): return False
    return True

def m_ntp(node, M, sel, strong):
    kind, u, lb, src, tm, grp, lits, alt, slots = node
    if u in sel:
        return m_nt(node, M, False, strong)
    if m_has_sel(node, sel):
        tmp = list(node); tmp[SR] = m_set_status(src, 'C')
        if m_mode(tmp) != m_fmode(node):
            return False
        if strong and (kind in ('leaf', 'comment') or not m_tiled1(node)):
            return False
        for i, sl in enumerate(slots):
            e = m_child_ei_opt(node, m_fmode(node), False, i)
            if e is not False or not all(m_ntp(c, M, sel, strong) for c in sl):
                return False
        return True
    return m_verb(node, False) if strong else True

def m_region_ok(pre, steps):
    """oracle gating: every section a pass selects, and the path above it, is in the strong class of the ORIGINAL tree under an
    empty mapper (its texts tile, statements are VALID/plain/unlabelled, no kwarg trap); a source-less copy of an IF is not put
    into a section that holds an ELSE IF"""
    for st in steps:
        sel = {st['sel']}
        if not m_ntp(pre, {}, sel, True):
            return False
        fresh_cond = any(a[0] == 'one' and a[1][K] in ('cond', 'condei') for a in st['M'].values())
        if fresh_cond:
            for n in m_walk(pre):
                if n[U] in sel and any(d[K] == 'condei' for d in m_walk(n)):
                    return False
    return True

def m_in_class(pre, steps, strong=False):
    cur = pre
    for st in steps:
        sel = {st['sel']}
        if not m_ntp(cur, st['M'], sel, strong):
            return False
        cur = m_tr(cur, st['M'], sel)
    return True


def m_region_ok_flag(out):
    return bool(out.get('region_ok')) or not out.get('steps')

def strip_nl(lines):
    """texts are compared modulo empty lines at the very end of the file"""
    if lines is None: return None
    lines = list(lines)
    while len(lines) > 1 and lines[-1] == '':
        lines.pop()
    return lines


# ----- direct oracles on the implementation (independent of the model) ------------------------------------------------
def p2_check(final_root_obj, out_lines):
    """every node whose source is still VALID (class with a conservative handler, no statement label, reached by the printer)
    must be emitted with exactly its original text, in order.  Works on the real IR objects."""
    ir, Node, Subroutine, Function, Module, FCG, FCC, Style = _imports()
    from loki.frontend.source import SourceStatus
    blocks = []
    def rec(o, reached):
        src = getattr(o, 'source', None)
        cname = type(o).__name__
        handled = cname in HANDLED and not (cname == 'Conditional' and o.inline)
        valid = src is not None and hasattr(src, 'status') and src.status == SourceStatus.VALID
        if reached and handled and valid:
            if getattr(o, 'label', None) is None:
                txt = src.string.split('\n')
                if cname == 'Comment':
                    k = src.string.find('!')
                    if k > 0 and src.string[:k].strip() != '':
                        return          # inline comment of a block line: only the comment part is emitted (by design)
                blocks.append((cname, src.lines[0], txt))
            return
        if cname == 'Conditional' and o.inline:
            return              # the statement of a one-line IF is embedded into the regenerated line, not an item of its own
        if isinstance(o, Module) and src is not None and src.status == SourceStatus.INVALID_CHILDREN:
            slots = [[o.spec] if o.spec is not None else [], [o.contains] if o.contains is not None else []]
        else:
            slots, _ = node_slots(o)
        for sl in slots:
            for c in sl:
                rec(c, reached)
    rec(final_root_obj, True)
    pos = 0
    for cname, l0, txt in blocks:
        if txt == ['']:
            continue
        found = None
        for i in range(pos, len(out_lines) - len(txt) + 1):
            if out_lines[i:i + len(txt)] == txt:
                found = i; break
        if found is None:
            return 'the still-VALID %s of line %d is not emitted with its original text %r (in order)' % (cname, l0, '\n'.join(txt)[:80])
        pos = found + len(txt)
    return None


def expected_after(src_lines, pre, st):
    """text-level reference for ONE pass: the file's lines with exactly the line spans of the mapped nodes replaced by the
    real printout of their replacements.  None = not defined for this edit (slot emptied, spans missing/overlapping)"""
    M, prints = st['M'], st['prints']
    sel = st['sel']
    sec = [n for n in m_walk(pre) if n[U] == sel]
    if len(sec) != 1 or sec[0][SR] is None:
        return None
    sec = sec[0]
    class Undefined(Exception): pass
    def block(c):
        a = M.get(c[U])
        if a is None: return expect(c)
        if a[0] == 'drop': return []
        pl = prints[str(c[U])]
        if any(p is None for p, r in zip(pl, [a[1]] if a[0] == 'one' else a[1]) if a[0] == 'one' or r[U] != c[U]):
            raise Undefined()
        if a[0] == 'one': return list(pl[0])
        out = []
        for r, p in zip(a[1], pl):
            out += expect(c) if r[U] == c[U] else list(p)
        return out
    def expect(n):
        if n[SR] is None: raise Undefined()
        l0, l1 = n[SR][0], n[SR][1]
        kids = [c for sl in n[SL] for c in sl]
        if n[TM] not in ('n', 's') or not kids:
            return src_lines[l0 - 1:l1]
        for sl in n[SL]:
            if sl and not any(block(c) for c in sl) and all(M.get(c[U]) is not None for c in sl):
                raise Undefined()            # a slot is emptied: the ELSE line (or the stale text) is a separate matter
        out, pos = [], l0
        for c in kids:
            if c[SR] is None or c[SR][0] < pos or c[SR][1] > l1: raise Undefined()
            out += src_lines[pos - 1:c[SR][0] - 1]
            out += block(c)
            pos = c[SR][1] + 1
        out += src_lines[pos - 1:l1]
        return out
    try:
        mid = expect(sec)
    except (Undefined, KeyError):
        return None
    return src_lines[:sec[SR][0] - 1] + mid + src_lines[sec[SR][1]:]


def normalise_fortran(text):
    """structural regeneration of a text: parse with the frontend, print with the plain backend, drop comments/blank lines"""
    from loki import fgen
    sf = parse_source(text)
    out = fgen(sf)
    return [l.rstrip() for l in out.split('\n') if l.strip() and not l.lstrip().startswith('!')]


# ----- program generator -----------------------------------------------------------------------------------------------
def _case(rng, w):
    """random letter case of a keyword / name"""
    r = rng.random()
    if r < 0.5: return w
    if r < 0.75: return w.upper()
    return ''.join(ch.upper() if rng.random() < 0.5 else ch for ch in w)

def _sp(rng, lo=0, hi=3):
    return ' ' * rng.randint(lo, hi)

class Gen:
    """free-form Fortran with comments, blank lines, continuation lines, odd spacing and letter case, inline comments;
    `wild` adds what the conservative path is known not to reproduce (labels, several statements per line, ELSE IF chains,
    DO WHILE / SELECT CASE / one-line IF, comments on block lines, lower-case IMPLICIT NONE ...)"""
    def __init__(self, rng, wild):
        self.rng, self.wild = rng, wild
        self.label = 10

    def expr(self, depth=0, arr=True):
        r = self.rng
        atoms = ['x', 'y', 'a(i)', 'b(i)', 'a(1)', 'b(n)', '1.0', '2.5', '0.5', 'real(k)', 'real(i)'] if arr else ['k', 'j', 'n', '1', '2', '3']
        if depth > 1 or r.random() < 0.4:
            return _case(r, r.choice(atoms))
        op = r.choice([' + ', ' - ', '*', ' * ', '+'])
        e = self.expr(depth + 1, arr) + op + self.expr(depth + 1, arr)
        return '(' + e + ')' if r.random() < 0.3 else e

    def assign(self, ind, in_loop):
        r = self.rng
        if r.random() < 0.3:
            lhs, rhs = r.choice(['k', 'j']), self.expr(0, False)
        else:
            lhs = r.choice(['x', 'y', 'a(i)', 'b(i)'] if in_loop else ['x', 'y', 'a(1)', 'b(n)', 'a(n)'])
            rhs = self.expr()
            if not in_loop: rhs = rhs.replace('(i)', '(1)').replace('(I)', '(1)').replace('real(1)', 'real(n)').replace('REAL(1)', 'real(n)')
        lhs = _case(r, lhs)
        eq = r.choice([' = ', '=', '  =  ', ' =', '= '])
        lines = [ind + lhs + eq + rhs]
        if r.random() < 0.2 and (' + ' in rhs or ' - ' in rhs):     # continuation line
            k = max(rhs.rfind(' + '), rhs.rfind(' - '))
            lines = [ind + lhs + eq + rhs[:k] + ' &', ind + _sp(r, 1, 4) + ('& ' if r.random() < 0.5 else '') + rhs[k + 1:]]
        if r.random() < 0.2:
            lines[-1] += _sp(r, 1, 3) + '! ' + r.choice(['note', 'set value', "it's", 'x = y ; z'])
        return lines

    def block(self, ind, depth, in_loop, n, noei=False, noelse=False):
        r, out = self.rng, []
        for _ in range(n):
            q = r.random()
            step = _sp(r, 1, 4)
            if q < 0.45 or depth >= 3:
                if self.wild and r.random() < 0.15:              # several statements on one line
                    a, b = self.assign('', in_loop)[0], self.assign('', in_loop)[0]
                    if '!' not in a and '&' not in a and '&' not in b:
                        out.append(ind + a + r.choice([' ; ', ';', '; ']) + b); continue
                if self.wild and r.random() < 0.1:               # statement label
                    a = self.assign('', in_loop)
                    if len(a) == 1:
                        self.label += 10
                        out.append(('%d ' % self.label) + a[0].lstrip()); continue
                out += self.assign(ind, in_loop)
            elif q < 0.6 and not in_loop:
                var = r.choice(['i'])
                hdr = ind + _case(r, 'do') + _sp(r, 1, 2) + var + r.choice(['=', ' = ']) + '1' + r.choice([',', ', ']) + 'n'
                ftr = ind + _case(r, r.choice(['end do', 'enddo', 'END DO']))
                if self.wild and r.random() < 0.2: hdr += '  ! loop over all'
                if self.wild and r.random() < 0.2: ftr += ' ! done'
                out += [hdr] + self.block(ind + step, depth + 1, True, r.randint(1, 3), noei, noelse) + [ftr]
            elif q < 0.8:
                cond = r.choice(['x > y', 'k < 2', 'x>0.5', 'a(1) > b(n)', 'k == j', '(x < 1.0) .and. (k > 0)'])
                if in_loop and r.random() < 0.5: cond = r.choice(['a(i) > 0.5', 'b(i) < x', 'i > 1'])
                if self.wild and r.random() < 0.25:             # one-line IF
                    a = self.assign('', in_loop)
                    if len(a) == 1:
                        out.append(ind + _case(r, 'if') + ' (' + cond + ') ' + a[0]); continue
                hdr = ind + _case(r, 'if') + _sp(r, 0, 2) + '(' + _sp(r, 0, 1) + cond + ')' + _sp(r, 1, 2) + _case(r, 'then')
                if self.wild and r.random() < 0.2: hdr += ' ! check'
                nei = 0
                if r.random() < 0.3 and not (noei and not self.wild):
                    nei = 1 if not self.wild else r.choice([1, 1, 2])
                # the kwargs of an ELSE IF are handed down to everything below it: in the class no ELSE IF below an ELSE IF
                sub_noei = noei or nei > 0
                out += [hdr] + self.block(ind + step, depth + 1, in_loop, r.randint(1, 2), sub_noei, noelse)
                for _e in range(nei):
                    out += [ind + _case(r, r.choice(['else if', 'elseif'])) + ' (' + r.choice(['k > 5', 'x < -1.0', 'j == 3']) + ') ' + _case(r, 'then')]
                    out += self.block(ind + step, depth + 1, in_loop, r.randint(1, 2), sub_noei, noelse)
                if r.random() < 0.5 and not (noelse and not self.wild):
                    e = ind + _case(r, 'else')
                    if self.wild and r.random() < 0.15: e += '  ! otherwise'
                    # the ELSE line of an invalidated IF is looked up by spelling (last line that reads ELSE): in the class no
                    # other ELSE below an ELSE branch
                    out += [e] + self.block(ind + step, depth + 1, in_loop, r.randint(1, 2), sub_noei, True)
                out += [ind + _case(r, r.choice(['end if', 'endif', 'END IF']))]
            elif q < 0.88:
                out.append(ind + r.choice(['! ', '!', '!  ']) + r.choice(['a comment', 'another: x = 1', 'TODO', '----']))
                if r.random() < 0.3: out.append(_sp(r, 0, 8) + '! second comment line')
            elif q < 0.93:
                out.append('')
            elif self.wild and q < 0.97:
                if r.random() < 0.5:
                    out += [ind + _case(r, 'do while') + ' (k < 3)', ind + step + 'k = k + 1', ind + _case(r, 'end do')]
                else:
                    out += [ind + _case(r, 'select case') + ' (j)', ind + _case(r, 'case') + ' (1)', ind + step + 'x = 1.0']
                    if r.random() < 0.3: out += [ind + _case(r, 'case') + ' (2)']          # empty CASE body
                    out += [ind + _case(r, 'case default'), ind + step + 'x = 2.0', ind + _case(r, 'end select')]
            else:
                out += self.assign(ind, in_loop)
        return out

    def routine(self, name, ind0, canonical_implicit):
        r = self.rng
        ind = ind0 + _sp(r, 1, 4)
        args = r.choice(['n, a, b, k', 'n,a,b,k', ' n , a , b, k '])
        out = [ind0 + _case(r, 'subroutine') + _sp(r, 1, 2) + _case(r, name) + r.choice(['(', ' (']) + args + ')']
        if r.random() < 0.4:
            out += [ind + '! ' + r.choice(['computes things', 'docstring line']) ]
            if r.random() < 0.4: out += [ind + '!   second docstring line']
        if canonical_implicit:
            # IMPLICIT NONE has no conservative handler: it is only reproduced when it is written as fgen writes it
            out += [ind0 + '  IMPLICIT NONE']
        else:
            out += [ind + _case(r, 'implicit none')]
        decls = [_case(r, 'integer') + r.choice([', intent(in) :: ', ',intent(in)::', ', INTENT(IN)  ::  ']) + 'n',
                 _case(r, 'real') + r.choice([', intent(inout) :: ', ',intent(inout) :: ']) + r.choice(['a(n), b(n)', 'a( n ),b(n)']),
                 _case(r, 'integer') + ', intent(inout) :: k',
                 _case(r, 'integer') + r.choice([' :: i, j', '::i,j', ' :: i,  j   ! counters']),
                 _case(r, 'real') + r.choice([' :: x, y', ' :: x, &\n' + ind + '   &  y'])]
        for d in decls:
            out += [(ind + d).replace('\n', '\n')] if '\n' not in d else (ind + d).split('\n')
        if r.random() < 0.3: out += ['']
        out += [ind + 'x = 0.25', ind + 'y = 1.5', ind + 'j = 2']
        body = self.block(ind, 0, False, r.randint(2, 6))
        while body and body[-1] == '' and not self.wild:
            body.pop()          # the text of the body section is stripped of trailing newlines
        out += body
        out += [ind0 + _case(r, r.choice(['end subroutine', 'END SUBROUTINE'])) + _sp(r, 1, 2) + _case(r, name)]
        return out

    def program(self):
        r = self.rng
        shape = r.choice(['sub', 'sub', 'two', 'mod'])
        ci = (not self.wild) or r.random() < 0.5
        lines = []
        if r.random() < 0.3: lines += ['! file header comment', '']
        if shape == 'sub':
            lines += self.routine('work', '', ci)
        elif shape == 'two':
            lines += self.routine('work', '', ci) + ([''] if r.random() < 0.7 else []) + self.routine('more', '', ci)
        else:
            lines += [_case(r, 'module') + ' ' + _case(r, 'cmod'), '  IMPLICIT NONE', '  ' + _case(r, 'integer') + ' :: shared_count']
            # CONTAINS is regenerated as soon as the module is invalidated: written the way fgen writes it
            lines += ['  CONTAINS' if not self.wild else _case(r, 'contains')]
            lines += self.routine('work', '  ', ci)
            if r.random() < 0.5: lines += [''] + self.routine('more', '  ', ci)
            lines += [_case(r, 'end module') + ' ' + _case(r, 'cmod')]
        if r.random() < 0.2: lines += ['', '! trailing comment']
        return '\n'.join(lines) + ('\n' if r.random() < 0.9 else '')

OPS_W = ['rhs', 'rhs', 'rhsN', 'del', 'cmtb', 'cmta', 'split', 'fresh']

def gen_passes(rng, allow_fresh=True, max_passes=3):
    ps = []
    for _ in range(rng.randint(1, max_passes)):
        ne = rng.choice([0, 1, 1, 1, 2, 2, 3])
        ops = OPS_W if allow_fresh else [o for o in OPS_W if o != 'fresh']
        ps.append({'unit': rng.randrange(3), 'sec': 'body' if rng.random() < 0.85 else 'spec',
                   'edits': [{'op': rng.choice(ops), 'idx': rng.randrange(60)} for _ in range(ne)]})
    return ps


def repo_files():
    root = os.environ.get('LOKI_VERIF_REPO', '/repo')
    out = []
    for sub in ('loki/tests/sources', 'example'):
        for dp, dn, fn in os.walk(os.path.join(root, sub)):
            for f in fn:
                if f.lower().endswith(('.f90', '.f', '.f95', '.f03', '.f77', '.for')):
                    out.append(os.path.relpath(os.path.join(dp, f), root))
    return sorted(out)


# ----- the property ------------------------------------------------------------------------------------------------------
MAIN_PROGRAM = """
program lv_main
  %s
  implicit none
  integer, parameter :: n = 4
  real :: a(n), b(n)
  integer :: k, r
  do r = 1, 3
    a = (/ 0.5, 1.5, -0.25, 2.0 /) * real(r)
    b = (/ 1.0, -2.0, 0.75, 0.125 /)
    k = r - 1
    %s
    print '(8F14.5,I8)', a, b, k
  end do
end program lv_main
"""

def gfortran_run(text, uses_module, routines):
    import subprocess, tempfile, shutil
    d = tempfile.mkdtemp(prefix='lv_c03_')
    try:
        main = MAIN_PROGRAM % ('use cmod' if uses_module else '', '\n    '.join('call %s(n, a, b, k)' % r for r in routines))
        open(os.path.join(d, 'p.f90'), 'w').write(text + '\n' + main)
        r = subprocess.run(['timeout', '300', 'gfortran', '-O0', '-ffree-line-length-none', '-o', 'p.x', 'p.f90'], cwd=d,
                           stdout=subprocess.PIPE, stderr=subprocess.STDOUT, text=True)
        if r.returncode != 0:
            return 'compile error: ' + r.stdout[-400:]
        r = subprocess.run(['timeout', '20', './p.x'], cwd=d, stdout=subprocess.PIPE, stderr=subprocess.STDOUT, text=True)
        return 'rc=%d\n%s' % (r.returncode, r.stdout)
    finally:
        shutil.rmtree(d, ignore_errors=True)


class C03(Property):
    id = 'C03'
    imports = ['models.M_C03']
    theorem_file = 'theories/props/T_C03.v'
    parallel = True
    shard = 40
    prelude = 'From Coq Require Import Uint63.\n'
    rule = ('programs: generated free-form Fortran (1-2 subroutines, optionally in a module; comments, blank lines, continuation '
            'lines, odd spacing and letter case, inline comments; a "wild" stream adds labels, several statements per line, ELSE IF '
            'chains, DO WHILE, SELECT CASE, one-line IF, comments on block lines) and every Fortran file under loki/tests/sources and '
            'example that the fparser frontend accepts. unmod: conservative output of the untouched parse vs the file text (whole file '
            'and per program unit). edit: 1-3 Transformer passes (replace an assignment by a regenerated one with source=None or an '
            'INVALID_NODE source, delete a node, insert a comment before/after, replace by two statements, replace a loop/IF by a '
            'source-less copy) on the body/spec of a routine, the enclosing units marked INVALID_CHILDREN as the callers of the '
            'conservative backend do. Model tie on every case: structure+statuses after every pass, printed text, class verdicts. '
            'A case is non-trivial when at least one edit was applied and at least one node kept a VALID source; distinct = distinct '
            '(text, history).')
    modelled_not_verified = [
        'the structural (non-conservative) handlers of fgen are abstract: the text they print around the child slots of a node is '
        'obtained from the real handler (children replaced by marker lines) and passed to the model as the node\'s template',
        'fparser\'s span bookkeeping (which lines a node owns) is observed, not modelled: tiling is evaluated on the exported tree',
        'Assignment/VariableDeclaration with an INVALID_NODE source (partial re-use of the old text) are opaque regenerated leaves',
        'attached pragmas of loops, named IF constructs, one-line IF: exported as opaque blocks; NestedTransformer, inplace and '
        'rebuild_scopes modes, tuple keys and one-to-many replacements whose new elements have children are not modelled',
        'texts are compared modulo one final newline of the file (Sourcefile.to_file re-adds it); str.splitlines is modelled as '
        'split on "\\n" (form feeds etc. inside a source make the case fall out of the class)',
    ]

    # -- cases ---------------------------------------------------------------------------------------------------------
    def generate(self, rng, tier):
        quick = tier == 'quick'
        files = repo_files()
        for f in files:
            yield {'kind': 'unmod-file', 'file': f}
        nfile_hist = 1 if quick else 3
        for f in files:
            for _ in range(nfile_hist):
                yield {'kind': 'edit-file', 'file': f, 'unit': rng.randrange(4), 'passes': gen_passes(rng)}
        n_class, n_wild = (90, 40) if quick else (300, 120)
        for i in range(n_class):
            src = Gen(rng, False).program()
            yield {'kind': 'unmod', 'src': src}
            has_ei = 'else if' in src.lower() or 'elseif' in src.lower()
            for _ in range(2):
                yield {'kind': 'edit', 'src': src, 'unit': rng.randrange(3), 'passes': gen_passes(rng, allow_fresh=not has_ei, max_passes=1 if rng.random() < 0.6 else 3),
                       'gf': (not quick) and i % 3 == 0}
        for i in range(n_wild):
            src = Gen(rng, True).program()
            yield {'kind': 'unmod', 'src': src}
            yield {'kind': 'edit-wild', 'src': src, 'unit': rng.randrange(3), 'passes': gen_passes(rng)}

    def _src(self, case):
        if 'src' in case:
            return case['src']
        root = os.environ.get('LOKI_VERIF_REPO', '/repo')
        with open(os.path.join(root, case['file']), errors='replace') as f:
            return f.read()

    # -- implementation ------------------------------------------------------------------------------------------------
    def run_impl(self, case):
        src = self._src(case)
        try:
            sf = parse_source(src)
        except Exception as e:
            return {'parse_error': type(e).__name__}
        if case['kind'].startswith('unmod'):
            out = sf.to_fortran(conservative=True)
            units = []
            file_lines = src.split('\n')
            from loki.function import Function
            for u, chain in all_units(sf):
                if u.source is None: continue
                l0, l1 = u.source.lines
                units.append({'name': u.name, 'function': isinstance(u, Function),
                              'same': u.to_fortran(conservative=True) == '\n'.join(file_lines[l0 - 1:l1])})
            ex = Exporter()
            tree = ex.export(sf.ir)
            return {'out': out.split('\n'), 'same': out == src, 'units': units, 'tree': tree,
                    'tiled': m_tiled(tree), 'verb': m_verb(tree, False), 'notes': ex.notes[:3]}
        r = run_history(src, case.get('unit', 0), case['passes'])
        steps = [st for st in r['steps'] if 'post' in st]
        out = r['out'].split('\n') if r['out'] is not None else None
        res = {'out': out, 'out_error': r.get('out_error'), 'transform_error': r.get('transform_error'),
               'pre': r['pre'], 'steps': [{'sel': st['sel'], 'M': {str(k): v for k, v in st['M'].items()}} for st in steps],
               'final': r['final'], 'notes': r['notes'][:3], 'orig_same': r['orig_out'] == src,
               'nedits': sum(len(st['M']) for st in steps)}
        res['cls'] = m_in_class(r['pre'], steps, False)
        res['scls'] = m_in_class(r['pre'], steps, True)
        res['region_ok'] = m_region_ok(r['pre'], steps) and len(steps) == len(case['passes'])
        res['nvalid'] = sum(1 for n in m_walk(r['final']) if n[SR] is not None and n[SR][3] == 'V')
        # direct checks on the implementation (the verdicts are judged in oracle())
        if out is not None:
            try:
                res['p2'] = p2_check(r['sf'].ir, out)
            except Exception as e:
                res['p2'] = 'p2 check raised %s: %s' % (type(e).__name__, e)
            res['expected'] = None
            if len(steps) == 1 and len(case['passes']) == 1:
                res['expected'] = expected_after(src.split('\n'), r['pre'], steps[0])
            if res['expected'] is None and res['nedits'] == 0:
                res['expected'] = src.split('\n')          # nothing was replaced at all
            strict = bool(case.get('strict'))
            behav = strict or res['scls'] or (res['cls'] and res['region_ok'])
            if behav and r.get('struct_out') is not None:
                try:
                    a = normalise_fortran(r['out'])
                except Exception as e:
                    a = ['<conservative output does not parse: %s>' % type(e).__name__]
                try:
                    b = normalise_fortran(r['struct_out'])
                except Exception as e:
                    b = None      # the plain backend's own output does not re-parse: not a C03 matter
                res['reparse'] = None if b is None or a == b else {'cons': a[:60], 'struct': b[:60]}
            if case.get('gf') and behav and r.get('struct_out') is not None:
                uses_mod = 'module' in src.lower().split('subroutine')[0]
                names = [u.name for u, _ in all_units(r['sf'])]
                ga = gfortran_run(r['out'], uses_mod, names)
                gb = gfortran_run(r['struct_out'], uses_mod, names)
                both_rejected = ga.startswith('compile error') and gb.startswith('compile error')   # e.g. a declaration was deleted
                res['gfortran'] = None if ga == gb or both_rejected else {'cons': ga[-300:], 'struct': gb[-300:]}
                if not both_rejected and not any(e['op'] == 'del' for p in case['passes'] for e in p['edits']):
                    go = gfortran_run(src, uses_mod, names)
                    # the original is only a reference when it compiles and runs itself (a compiler that was killed by the
                    # time limit on a loaded machine says nothing)
                    if go.startswith('rc=0') and go != ga:
                        res['gfortran'] = {'cons': ga[-300:], 'orig': go[-300:]}
        return res

    # -- model -----------------------------------------------------------------------------------------------------------
    def model_term(self, case, out):
        if 'parse_error' in out or '__exception__' in out:
            return None
        lt = Lits(self._src(case).split('\n'))
        if case['kind'].startswith('unmod'):
            body = 'chk_print %s %s %s %s' % (coq_tree(out['tree'], lt), coq_otext(strip_nl(out['out']), lt),
                                             coq_bool(out['tiled']), coq_bool(out['verb']))
        else:
            steps = [{'sel': st['sel'], 'M': {int(k): v for k, v in st['M'].items()}} for st in out['steps']]
            body = 'chk_edit %s [%s] %s %s %s %s' % (coq_tree(out['pre'], lt), '; '.join(coq_pass(st, lt) for st in steps),
                                                    coq_tree(out['final'], lt), coq_otext(strip_nl(out['out']), lt),
                                                    coq_bool(out['cls']), coq_bool(out['scls']))
        return '(let L := %s in %s)' % (lt.table(), body)

    # -- oracle ----------------------------------------------------------------------------------------------------------
    def oracle(self, case, out):
        if '__exception__' in out:
            return 'harness/implementation raised %s: %s' % (out['__exception__'], out.get('msg'))
        if 'parse_error' in out:
            return None if case['kind'].endswith('file') else 'generated program rejected by the frontend (%s)' % out['parse_error']
        if case['kind'].startswith('unmod'):
            if not out['same']:
                return 'conservative output of the unmodified file differs from the file text'
            for u in out['units']:
                if not u['same'] and (case.get('strict') or not u['function']):
                    return 'conservative output of the unmodified program unit %s differs from its text' % u['name']
            if case['kind'] == 'unmod' and not case.get('wild_ok') and 'expect_tiled' in case and case['expect_tiled'] and not out['verb']:
                return 'frontend sources of an in-class program do not tile'
            return None
        strict = bool(case.get('strict'))
        if not out['orig_same']:
            return 'conservative output of the unmodified file differs from the file text'
        if out.get('transform_error'):
            return 'Transformer raised %s' % out['transform_error'] if (strict or case['kind'] == 'edit') else None
        if out['out'] is None:
            # outside the strong class a crash is one of the recorded defects (ELSE IF chains, modules without spec, ELSE with a
            # comment ...) as long as the model predicts it; the witnesses are listed as known findings
            return ('conservative backend raised %s after a local edit' % out.get('out_error')) if (strict or out['scls'] or case['kind'] == 'edit') else None
        if out.get('p2'):
            return out['p2']
        if (out['scls'] or strict or (out['cls'] and out['region_ok'] and out['nedits'] == 0)) and out.get('expected') is not None:
            if strip_nl(out['out']) != strip_nl(out['expected']):
                import difflib
                d = [l for l in difflib.unified_diff(strip_nl(out['expected']), strip_nl(out['out']), 'expected', 'output', lineterm='', n=0)][2:8]
                return 'output differs from the file text with the edited spans replaced: ' + ' | '.join(d)[:400]
        if out.get('reparse'):
            ca, sa = out['reparse']['cons'], out['reparse']['struct']
            return 'conservative output is not equivalent to the edited IR (%d vs %d statements after regeneration): only cons=%r only struct=%r' % (
                len(ca), len(sa), [l for l in ca if ca.count(l) > sa.count(l)][:4], [l for l in sa if sa.count(l) > ca.count(l)][:4])
        if out.get('gfortran'):
            return 'compiled behaviour differs: %r' % (out['gfortran'],)
        if case['kind'] == 'edit' and not m_region_ok_flag(out):
            return 'the frontend sources of an in-class generated program do not tile (or the generator drifted out of the class)'
        return None

    def nontrivial_key(self, case, out):
        if case['kind'].startswith('unmod'):
            return ('u', hash(self._src(case))) if out.get('same') else None
        if out.get('nedits', 0) >= 1 and out.get('nvalid', 0) >= 1 and out.get('out') is not None:
            return ('e', hash(self._src(case)), json.dumps(case['passes'], sort_keys=True))
        return None

    def search(self, rng, bad_cases):
        for c in bad_cases:
            if 'passes' not in c: continue
            d = dict(c); d['strict'] = True; d['kind'] = 'edit-search'
            yield d
            for p in c['passes']:
                for e in p['edits']:
                    yield {'kind': 'edit-search', 'strict': True, **({'src': c['src']} if 'src' in c else {'file': c['file']}),
                           'unit': c.get('unit', 0), 'passes': [{'unit': p.get('unit', 0), 'sec': p.get('sec', 'body'), 'edits': [e]}]}

    def show_model(self, case, out):
        if 'parse_error' in out or '__exception__' in out: return []
        lt = Lits(self._src(case).split('\n'))
        if case['kind'].startswith('unmod'):
            t = coq_tree(out['tree'], lt)
            return ['let L := %s in cons_print %s' % (lt.table(), t)]
        steps = [{'sel': st['sel'], 'M': {int(k): v for k, v in st['M'].items()}} for st in out['steps']]
        fin, pre, ps = coq_tree(out['final'], lt), coq_tree(out['pre'], lt), '; '.join(coq_pass(st, lt) for st in steps)
        return ['let L := %s in (cons_print %s, in_class false [%s] %s, in_class true [%s] %s)' % (lt.table(), fin, ps, pre, ps, pre)]

PROP = C03
