"""C23 — batch processing does not depend on the letter case of names.

Differential runs of the REAL scheduler on case variants of one generated project (project generator,
renderer and probe runner are shared with C22): every occurrence of every routine/module/type/variable name in
the sources gets its own random letter case; config keys, seeds, block/ignore/disable/generated entries,
file suffixes and name-valued transformation options (duplicate_kernels, suffixes) are re-spelled too.
Item set, dependency edges, processing order (probe transformations), targets and - for
DependencyTransformation / DuplicateKernel - the generated code must agree after lower-casing.

Model tie: the C22 model must reproduce every variant (``visit_term``), the extracted graphs of the variants must
be similar up to case (``chk_variants``, hypothesis of the equivariance theorem), plus unit-level ties for
Item.__eq__/__hash__/membership, ItemFactory names, DuplicateKernel._get_new_item_name, the clone lookup of
ItemFactory.get_or_create_item_from_item and SchedulerConfig.match_item_keys.
"""
import os, re, json, copy, random, hashlib

from ..framework import Property
from ..coqlit import coq, C, Nat, Some, Raw
from . import c22 as P

Casing = P.Casing

# --------------------------------------------------------------------------------------------------
# re-spelling of configuration / options
# --------------------------------------------------------------------------------------------------

NAME_LISTS = ('block', 'ignore', 'disable', 'generated', 'enrich')

def perm_config(cfg, seeds, N, keep=()):
    c = copy.deepcopy(cfg)
    NAME_LISTS = tuple(k for k in globals()['NAME_LISTS'] if k not in keep)
    for k in NAME_LISTS:
        if k in c['default']:
            c['default'][k] = [N(x) for x in c['default'][k]]
    routines = {}
    for name, ent in c['routines'].items():
        e = dict(ent)
        for k in NAME_LISTS:
            if k in e:
                e[k] = [N(x) for x in e[k]]
        routines[N(name)] = e
    c['routines'] = routines
    return c, [N(s) for s in seeds]

def perm_sources(src, N, rng_suffix):
    """file SUFFIX case only (.f90/.F90); the path itself is not a Fortran name"""
    out = {}
    for rel, text in src.items():
        stem, ext = os.path.splitext(rel)
        if rng_suffix is not None and ext.lower() == '.f90':
            ext = rng_suffix.choice(['.f90', '.F90'])
        out[stem + ext] = text
    return out

def variant_inputs(case, vi):
    """sources, config, seeds of variant vi (0 = as generated)"""
    proj = case['proj']
    if vi == 0:
        return P.render(proj, None), copy.deepcopy(case['config']), list(case['seeds']), (lambda s: s)
    seed = case['casings'][vi - 1]
    N = Casing('%s/cfg' % seed)
    src = perm_sources(P.render(proj, seed), N, random.Random('sfx/%s' % seed))
    # known finding F-C23-3: the spelling of `ignore` entries changes what DependencyTransformation blocks afterwards
    keep = () if case.get('perm_ignore', case['kind'] != 'dependency') else ('ignore',)
    cfg, seeds = perm_config(case['config'], case['seeds'], N, keep)
    return src, cfg, seeds, Casing('%s/opt' % seed)

# --------------------------------------------------------------------------------------------------
# canonical (lower-cased) view of a run
# --------------------------------------------------------------------------------------------------

def low(x):
    if isinstance(x, str): return x.lower()
    if isinstance(x, list): return [low(y) for y in x]
    if isinstance(x, dict): return {low(k): low(v) for k, v in x.items()}
    return x

def fold_suffix(name):
    """file item names: only the suffix case may differ between variants"""
    return name.lower()

def canon_graph(g):
    return {'items': [dict(d, name=d['name'].lower(), file=d['file'].lower()) for d in g['items']],
            'edges': low(g['edges']), 'order': low(g['order'])}

def canon_runs(runs):
    out = []
    for r in runs:
        out.append({'outcome': low(r['outcome'][:2]),
                    'apps': [[a['name'].lower(), a['disp'], a['role'], a['mode'], sorted(low(a['targets'])),
                              None if a['succ'] is None else low(a['succ']), None if a['items'] is None else low(a['items'])] for a in r['apps']],
                    'calls': [[c[0], c[1], c[2], low(c[3]), low(c[4]), c[5], sorted(low(c[6]))] for c in r['calls']],
                    'fg': None if r.get('fg') is None else {'nodes': low(r['fg']['nodes']), 'edges': low(r['fg']['edges']),
                                                              'order': low(r['fg'].get('order'))}})
    return out

def first_diff(a, b, path=''):
    if type(a) != type(b):
        return '%s: %r vs %r' % (path, a, b)
    if isinstance(a, dict):
        for k in sorted(set(a) | set(b), key=str):
            if k not in a or k not in b:
                return '%s.%s: only in one variant' % (path, k)
            d = first_diff(a[k], b[k], '%s.%s' % (path, k))
            if d: return d
        return None
    if isinstance(a, list):
        if len(a) != len(b):
            return '%s: lengths %d vs %d (%r vs %r)' % (path, len(a), len(b), a[:6], b[:6])
        for i, (x, y) in enumerate(zip(a, b)):
            d = first_diff(x, y, '%s[%d]' % (path, i))
            if d: return d
        return None
    return None if a == b else '%s: %r vs %r' % (path, a, b)

def norm_code(text):
    return re.sub(r'[ \t]+', ' ', text.lower()).strip()

# --------------------------------------------------------------------------------------------------

class C23(Property):
    id = 'C23'
    title = 'Batch processing does not depend on the letter case of names'
    imports = ['models.M_C22', 'models.M_C23']
    theorem_file = 'theories/props/T_C23.v'
    parallel = True
    shard = 40
    rule = ('C22-style generated projects, each run in 3 spellings (as generated + 2 random per-occurrence case permutations of all names in the '
            'sources, of config keys / seeds / block, ignore, disable, generated entries, of .f90/.F90 suffixes and of name-valued transformation '
            'options): probe transformations, DependencyTransformation(suffix) and DuplicateKernel(kernels, suffix) must give the same items, edges, '
            'order, targets and generated code after lower-casing; unit streams: Item ==/hash/membership on name pairs, ItemFactory item names, '
            'DuplicateKernel._get_new_item_name, the clone lookup of get_or_create_item_from_item, SchedulerConfig.match_item_keys under key/name '
            're-spelling. Non-trivial = a project with >= 4 items whose variants really differ in spelling, or a unit case with a mixed-case name.')
    modelled_not_verified = [
        'Python str hash abstracted to the string itself (collisions ignored)',
        'the frontends\' own case handling (symbol tables, fgen) is covered only through the differential runs, see C12/C03',
        'match_item_keys: fnmatch patterns and 3-part names are not modelled (C21); DependencyTransformation/DuplicateKernel are compared differentially only',
        'file PATH case (directory/stem) is outside the property; only the suffix case is varied',
    ]

    # ---- generation --------------------------------------------------------------------------------
    def _proj_case(self, rng, kind, nmax=14):
        feats = {'tb': rng.random() < 0.6, 'iface': rng.random() < 0.5, 'types': rng.random() < 0.6, 'globs': rng.random() < 0.6,
                 'ext': rng.random() < 0.3, 'xmod': rng.random() < 0.25, 'block': True, 'ignore': True, 'disable': True}
        if kind != 'variants':
            feats.update({'ext': False, 'xmod': False})
        if kind == 'dependency':
            # DependencyTransformation aborts (AttributeError in transform_module) on modules with generic interfaces whose
            # InterfaceItem is in the graph - unrelated to letter case; keep the differential runs meaningful
            feats['iface'] = False
        proj = P.gen_project(rng, 4, nmax, feats, contiguous=True)
        cfg, seeds = P.gen_config(rng, proj, feats)
        case = {'kind': kind, 'proj': proj, 'config': cfg, 'seeds': seeds, 'full_parse': True,
                'casings': [rng.randrange(10 ** 6), rng.randrange(10 ** 6)], 'succ_filters': []}
        if kind == 'variants':
            case['runs'] = P.gen_runs(rng, proj, 3, True, cfg['default']['enable_imports'])
            names = [r['name'] for r in proj['routines']] + [u['mod'] for u in proj['units'] if u['mod']]
            case['lookups'] = [rng.choice(names) for _ in range(4)]
        else:
            case['runs'] = []
            cfg['default']['strict'] = False
        return case

    def generate(self, rng, tier):
        import loki.batch   # import once in the parent of the fork pool
        q = tier == 'quick'
        for _ in range(14 if q else 300):
            yield self._proj_case(rng, 'variants')
        for _ in range(6 if q else 100):
            c = self._proj_case(rng, 'dependency', 10)
            c['suffix'] = rng.choice(['_test', '_lk', '_x'])
            c['module_suffix'] = rng.choice([None, None, '_mod'])
            yield c
        for _ in range(6 if q else 100):
            c = self._proj_case(rng, 'duplicate', 10)
            proj = c['proj']
            cand = [r for r in proj['routines'] if r['id'] > 0 and r['kind'] == 'plain']
            ks = rng.sample(cand, min(len(cand), rng.randint(1, 2))) if cand else []
            c['kernels'] = [r['name'] for r in ks]
            c['suffix'] = rng.choice(['_dup', '_two'])
            c['module_suffix'] = rng.choice([None, '_dm'])
            # upper-case suffixes only where the code is right (known finding F-C23-2): all duplicated kernels live in modules
            c['perm_suffix'] = all(P.mod_of(proj, r['id']) is not None for r in ks)
            c['plan'] = rng.random() < 0.3
            yield c
        # unit streams
        base = ['kernel', 'mod_a#kernel', '#driver', 'tmod#tt%bp', 'some_mod', 'x', 'a_b#c_d', 'm1#t%a%b']
        for _ in range(60 if q else 600):
            n = rng.choice(base)
            N = Casing(rng.randrange(10 ** 6))
            k = rng.randrange(4)
            if k == 0:   a, b = n, n                      # same spelling
            elif k == 1: a = N(n); b = a                  # same mixed spelling
            elif k == 2: a, b = n, rng.choice(base)       # lower vs lower
            else:        a, b = N(n), N(rng.choice([x for x in base if x != n]))   # different names, any case
            yield {'kind': 'eq-hash', 'a': a, 'b': b, 'others': [rng.choice(base) for _ in range(2)]}
        scopes = ['', 'mod_a', 'tmod', 'some_mod']
        locs = ['kernel', 'driver', 'tt', 'rt1', 'comp_x']
        for _ in range(60 if q else 600):
            sc, lo = rng.choice(scopes), rng.choice(locs)
            keys = []
            for _k in range(rng.randint(0, 4)):
                t = rng.randrange(4)
                keys.append([rng.choice(locs), rng.choice(scopes[1:]), '%s#%s' % (rng.choice(scopes), rng.choice(locs)), '%s#%s' % (sc, lo)][t])
            yield {'kind': 'match-keys', 'scope': sc, 'local': lo, 'keys': keys, 'parents': rng.random() < 0.5, 'casing': rng.randrange(10 ** 6)}
        for _ in range(40 if q else 400):
            yield {'kind': 'new-item-name', 'scope': rng.choice(scopes), 'local': rng.choice(locs), 'suffix': rng.choice(['_dup', 'duplicated', '_X2']),
                   'module_suffix': rng.choice([None, '_dm', 'M']), 'casing': rng.randrange(10 ** 6)}
        for _ in range(30 if q else 300):
            yield {'kind': 'factory-name', 'mod': rng.choice(scopes[1:]), 'proc': rng.choice(locs), 'type': 'ty_' + rng.choice(locs),
                   'bind': 'b_' + rng.choice(locs), 'casing': rng.randrange(10 ** 6)}

    # ---- implementation side ---------------------------------------------------------------------
    def run_impl(self, case):
        k = case['kind']
        if k == 'eq-hash': return self._run_eq_hash(case)
        if k == 'match-keys': return self._run_match_keys(case)
        if k == 'new-item-name': return self._run_new_item_name(case)
        if k == 'factory-name': return self._run_factory_name(case)
        return self._run_project_variants(case)

    def _run_eq_hash(self, case):
        from loki.batch import Item
        import networkx as nx
        a, b = Item(case['a'], source=None), Item(case['b'], source=None)
        others = [Item(o, source=None) for o in case.get('others', [])]
        g = nx.DiGraph(); g.add_nodes_from([b] + others)
        return {'eq': a == b, 'eq_str': a == case['b'], 'same_hash': hash(a) == hash(b),
                'in_set': a in {b, *others}, 'in_dict': a in {b: 1, **{o: 2 for o in others}}, 'in_graph': a in g,
                'in_list': a in [b] + others}

    def _run_match_keys(self, case):
        from loki.batch import SchedulerConfig
        N = Casing(case['casing'])
        name = '%s#%s' % (case['scope'], case['local'])
        res = []
        for v in range(3):
            n = name if v == 0 else N(name)
            keys = case['keys'] if v == 0 else [N(x) for x in case['keys']]
            res.append({'name': n, 'keys': keys, 'out': list(SchedulerConfig.match_item_keys(n, keys, match_item_parents=case['parents']))})
        return {'res': res}

    def _run_new_item_name(self, case):
        from loki.batch import ProcedureItem
        from loki.transformations.dependency import DuplicateKernel
        N = Casing(case['casing'])
        res = []
        for v in range(3):
            f = (lambda s: s) if v == 0 else N
            sc, lo = f(case['scope']), f(case['local'])
            su = f(case['suffix']); ms = None if case['module_suffix'] is None else f(case['module_suffix'])
            t = DuplicateKernel(duplicate_kernels=[lo], duplicate_suffix=su, duplicate_module_suffix=ms)
            it = ProcedureItem('%s#%s' % (sc, lo), source=None)
            s_, l_, n_ = t._get_new_item_name(it)
            res.append({'scope': sc, 'local': lo, 'suffix': su, 'msuffix': ms if ms is not None else su, 'out': [s_ or '', l_, n_]})
        return {'res': res}

    def _run_factory_name(self, case):
        """item names the factory derives from differently spelled sources"""
        from loki import Sourcefile
        from loki.frontend import REGEX
        from loki.batch import ItemFactory, FileItem, SchedulerConfig
        N = Casing(case['casing'])
        res = []
        for v in range(2):
            f = (lambda s: s) if v == 0 else N
            m, p, t, b = case['mod'], case['proc'], case['type'], case['bind']
            src = ('module %s\n implicit none\n type %s\n  integer :: a\n contains\n  procedure :: %s => %s\n end type %s\ncontains\n'
                   ' subroutine %s(self)\n  class(%s) :: self\n end subroutine %s\nend module %s\n'
                   % (f(m), f(t), f(b), f(p), f(t), f(p), f(t), f(p), f(m)))
            sf = Sourcefile.from_source(src, frontend=REGEX)
            sf.path = __import__('pathlib').Path('/lv/%s.F90' % m)
            fac = ItemFactory()
            fi = FileItem(str(sf.path).lower(), source=sf)
            fac.item_cache[fi.name] = fi
            names = []
            for it in fi.create_definition_items(item_factory=fac, config=None):
                names.append(it.name)
                for it2 in it.create_definition_items(item_factory=fac, config=None):
                    names.append(it2.name)
                    for it3 in it2.create_definition_items(item_factory=fac, config=None):
                        names.append(it3.name)
            res.append({'spelled': [f(m), f(p), f(t), f(b)], 'names': names,
                        'cache_hit': [N(n) in fac.item_cache for n in names]})
        return {'res': res}

    def _run_project_variants(self, case):
        kind = case['kind']
        outs = []
        for vi in range(1 + len(case['casings'])):
            src, cfg, seeds, OptN = variant_inputs(case, vi)
            extra = None
            if kind == 'variants':
                looks = [OptN(n) for n in case.get('lookups', [])]
                def extra(sched, root, looks=looks):
                    cache = sched.item_factory.item_cache
                    d = {'lookups': []}
                    for n in looks:
                        hits = sorted(k for k in cache if k == n.lower() or k.endswith('#' + n.lower()))
                        got = []
                        for h in hits:
                            spelled = h[:len(h) - len(n)] + n
                            it = sched[spelled]
                            in_graph = any(i.name == h for i in sched.items)
                            got.append([h, spelled in cache, (None if it is None else it.name) if in_graph else h,
                                        (cache[spelled].name if spelled in cache else None)])
                        d['lookups'].append([n.lower(), got])
                    d['all_names'] = sorted(P.canon(root, k) for k in cache.keys())
                    d['names_match_keys'] = all(k == v.name for k, v in cache.items())
                    return d
            elif kind == 'dependency':
                sfx = OptN(case['suffix']); msfx = None if case['module_suffix'] is None else OptN(case['module_suffix'])
                def extra(sched, root, sfx=sfx, msfx=msfx):
                    from loki.transformations.build_system.dependency import DependencyTransformation
                    d = {}
                    try:
                        sched.process(DependencyTransformation(suffix=sfx, module_suffix=msfx))
                        d['exc'] = None
                    except Exception as e:
                        d['exc'] = [type(e).__name__, type(getattr(e, '__cause__', None)).__name__]
                    try:
                        d['graph'] = canon_graph(P.extract_graph(sched, root))
                    except Exception as e:     # a transformation that aborted half-way leaves renamed (re-hashed) nodes behind
                        d['graph'] = {'exc': type(e).__name__}
                    code = {}
                    try:
                        for it in sched.file_graph.items:
                            code[os.path.splitext(P.canon(root, it.name))[0]] = norm_code(it.source.to_fortran())
                    except Exception as e:
                        code['<exc>'] = type(e).__name__
                    d['code'] = code
                    return d
            elif kind == 'duplicate':
                kernels = [OptN(k) for k in case['kernels']]
                psfx = case.get('perm_suffix')
                sfx = OptN(case['suffix']) if psfx else case['suffix']
                msfx = case['module_suffix'] if (case['module_suffix'] is None or not psfx) else OptN(case['module_suffix'])
                if case.get('force_suffix') is not None and vi > 0:
                    sfx = case['force_suffix']
                def extra(sched, root, kernels=kernels, sfx=sfx, msfx=msfx):
                    from loki.transformations.dependency import DuplicateKernel
                    from loki.batch import ProcessingStrategy, ProcedureItem
                    d = {'suffix': sfx}
                    try:
                        sched.process(DuplicateKernel(duplicate_kernels=kernels, duplicate_suffix=sfx, duplicate_module_suffix=msfx),
                                      proc_strategy=ProcessingStrategy.PLAN if case.get('plan') else ProcessingStrategy.DEFAULT)
                        d['exc'] = None
                    except Exception as e:
                        d['exc'] = [type(e).__name__, str(getattr(e, '__cause__', None) or e)[:120].replace(root, '<root>')]
                    try:
                        g = canon_graph(P.extract_graph(sched, root))
                        d['graph'] = {'items': sorted(json.dumps(x, sort_keys=True) for x in g['items']), 'edges': sorted(map(tuple, g['edges']))}
                    except Exception as e:
                        d['graph'] = {'exc': type(e).__name__}
                    code = {}
                    for it in sched.items:
                        if isinstance(it, ProcedureItem):
                            try: code[it.name] = norm_code(it.ir.to_fortran())
                            except Exception as e: code[it.name] = '<%s>' % type(e).__name__
                    d['code'] = code
                    # unit tie: the clone lookup for a free-standing routine
                    clones = []
                    for it in list(sched.items):
                        if isinstance(it, ProcedureItem) and not it.scope_name and it.local_name != 'driver' and len(clones) < 2:
                            nl = it.local_name + 'C' + sfx
                            try:
                                new = sched.item_factory.get_or_create_item_from_item('#' + nl, it, config=sched.config)
                                clones.append(['#' + nl, nl, new.name])
                            except RuntimeError as e:
                                clones.append(['#' + nl, nl, None])
                    d['clones'] = clones
                    return d
            sub = {'proj': case['proj'], 'config': cfg, 'seeds': seeds, 'runs': case['runs'], 'full_parse': case.get('full_parse', True),
                   'succ_filters': []}
            o = P.run_project(sub, sources=src, config=cfg, seeds=seeds, extra=extra)
            o['_cfg'] = cfg
            o['_spelling_differs'] = (vi > 0 and src != P.render(case['proj'], None))
            outs.append(o)
        return {'variants': outs}

    # ---- model tie ---------------------------------------------------------------------------------
    def model_term(self, case, out):
        k = case['kind']
        if k == 'eq-hash':
            return '(%s && %s && %s && %s && %s)' % (
                coq(C('chk_item_eq', case['a'], case['b'], bool(out['eq']))),
                coq(C('chk_item_eq', case['a'], case['b'], bool(out['eq_str']))),
                coq(C('chk_item_hash', case['a'], case['b'], bool(out['same_hash']))),
                coq(C('chk_py_mem', case['a'], [case['b']] + case.get('others', []), bool(out['in_set']))),
                coq(C('chk_py_mem', case['a'], [case['b']] + case.get('others', []), bool(out['in_graph']))))
        if k == 'match-keys':
            parts = []
            for r in out['res']:
                sc, lo = r['name'].split('#')
                parts.append(coq(C('chk_match_keys', sc, lo, r['keys'], bool(case['parents']), r['out'])))
            return '(%s)' % ' && '.join(parts)
        if k == 'new-item-name':
            parts = [coq(C('chk_new_item_name', r['scope'], r['local'], r['suffix'], r['msuffix'], tuple(r['out']))) for r in out['res']]
            return '(%s)' % ' && '.join(parts)
        if k == 'factory-name':
            parts = []
            for r in out['res']:
                m, p, t, b = r['spelled']
                want = {coq(C('chk_module_name', m, n)) for n in r['names'] if '#' not in n}
                parts += sorted(want)
                for n in r['names']:
                    if '%' in n: parts.append(coq(C('chk_binding_name', m, t, b, n)))
                    elif n.endswith('#' + p.lower()): parts.append(coq(C('chk_scoped_name', m, p, n)))
                    elif n.endswith('#' + t.lower()): parts.append(coq(C('chk_scoped_name', m, t, n)))
                parts.append(coq(C('chk_names_lower', r['names'])))
            return '(%s)' % ' && '.join(parts)
        # project variants
        vs = out['variants']
        parts = []
        ok = [v for v in vs if v.get('construct') == 'ok']
        for v in ok:
            t = P.visit_term({'config': v['_cfg'], 'runs': case['runs'], 'succ_filters': []}, v)
            if t: parts.append(t)
            parts.append(coq(C('chk_names_lower', [d['name'] for d in v['graph']['items']])))
        for v in ok[1:]:
            parts.append(coq(C('chk_variants', P.q_graph(ok[0]['graph']), P.q_graph(v['graph']), ok[0]['graph']['order'], v['graph']['order'])))
        if k == 'duplicate':
            for v in ok:
                for nn, nl, got in (v.get('extra') or {}).get('clones', []):
                    parts.append(coq(C('chk_clone_free', [], nn, nl, None if got is None else Some(got))))
        return '(%s)' % ' && '.join(parts) if parts else None

    # ---- oracle ------------------------------------------------------------------------------------
    def oracle(self, case, out):
        k = case['kind']
        if k == 'eq-hash':
            if out['eq'] != out['eq_str']:
                return 'Item == Item and Item == str disagree for %r / %r' % (case['a'], case['b'])
            if out['eq'] != (case['a'].lower() == case['b'].lower()):
                return 'Item(%r) == Item(%r) is %s' % (case['a'], case['b'], out['eq'])
            if out['eq']:
                if not out['same_hash']:
                    return 'Item(%r) == Item(%r) but their hashes differ' % (case['a'], case['b'])
                for w in ('in_set', 'in_dict', 'in_graph', 'in_list'):
                    if not out[w]:
                        return 'Item(%r) equals Item(%r) but is not found by %s' % (case['a'], case['b'], w)
            return None
        if k == 'match-keys':
            base = out['res'][0]['out']
            for r in out['res'][1:]:
                if r['out'] != base:
                    return 'match_item_keys(%r, %r) = %r but %r for the lower-case spelling' % (r['name'], r['keys'], r['out'], base)
            return None
        if k == 'new-item-name':
            base = low(out['res'][0]['out'])
            for r in out['res'][1:]:
                if low(r['out']) != base:
                    return '_get_new_item_name differs beyond case: %r vs %r' % (r['out'], out['res'][0]['out'])
            return None
        if k == 'factory-name':
            base = out['res'][0]['names']
            for r in out['res']:
                if any(n != n.lower() for n in r['names']):
                    return 'factory created a non-lower-case item name: %r' % (r['names'],)
                if r['names'] != base:
                    return 'item names depend on the source spelling: %r vs %r' % (r['names'], base)
                if not all(r['cache_hit']):
                    return 'item cache lookup is case sensitive'
            return None
        vs = out['variants']
        b = vs[0]
        for vi, v in enumerate(vs[1:], 1):
            if v.get('construct') != b.get('construct'):
                return 'variant %d: scheduler construction %s (%s) vs %s for the original spelling' % (vi, v.get('construct'), v.get('msg', ''), b.get('construct'))
        if b.get('construct') != 'ok':
            return None if case.get('expect_construct') == b.get('construct') else 'Scheduler construction failed: %s %s' % (b.get('construct'), b.get('msg', ''))
        cb = canon_graph(b['graph'])
        for d in b['graph']['items']:
            if d['name'] != d['name'].lower():
                return 'item name %r is not lower case' % d['name']
        for vi, v in enumerate(vs[1:], 1):
            for d in v['graph']['items']:
                if d['name'] != d['name'].lower():
                    return 'variant %d: item name %r is not lower case' % (vi, d['name'])
            d = first_diff(cb, canon_graph(v['graph']), 'graph')
            if d:
                return 'variant %d: dependency graph / order differs beyond letter case: %s' % (vi, d)
            d = first_diff(canon_runs(b['runs']), canon_runs(v['runs']), 'runs')
            if d:
                return 'variant %d: processing differs beyond letter case: %s' % (vi, d)
            eb, ev = b.get('extra'), v.get('extra')
            if k == 'variants':
                d = first_diff({'l': eb['lookups'], 'n': eb['all_names']}, {'l': ev['lookups'], 'n': ev['all_names']}, 'lookups')
                if d:
                    return 'variant %d: item cache differs: %s' % (vi, d)
            elif k == 'dependency':
                d = first_diff(eb, ev, 'dependency')
                if d:
                    return 'variant %d: DependencyTransformation result differs beyond letter case: %s' % (vi, d)
            elif k == 'duplicate':
                d = first_diff({x: eb[x] for x in ('exc', 'graph', 'code')}, {x: ev[x] for x in ('exc', 'graph', 'code')}, 'duplicate')
                if d:
                    return 'variant %d (suffix %r vs %r): DuplicateKernel result differs beyond letter case: %s' % (vi, ev.get('suffix'), eb.get('suffix'), d)
        if k == 'variants':
            for n, got in b['extra']['lookups']:
                for h, incache, byname, bycache in got:
                    if not incache or byname != h or bycache != h:
                        return 'lookup of %r with another spelling fails (cache hit %s, scheduler[...] -> %s)' % (h, incache, byname)
            if not b['extra']['names_match_keys']:
                return 'item cache keys and item names disagree'
        return None

    def nontrivial_key(self, case, out):
        k = case['kind']
        if k in ('variants', 'dependency', 'duplicate'):
            vs = out['variants']
            if vs[0].get('construct') != 'ok' or len(vs[0]['graph']['items']) < 4 or not any(v.get('_spelling_differs') for v in vs):
                return None
            return hashlib.sha1(json.dumps([case['proj'], case['config'], case['casings'], k], sort_keys=True).encode()).hexdigest()[:12]
        s = json.dumps({x: y for x, y in case.items() if not x.startswith('_')}, sort_keys=True)
        if s == s.lower():
            return None
        return s

    def show_model(self, case, out):
        if case['kind'] == 'eq-hash':
            return ['item_eqb %s %s' % (coq(case['a']), coq(case['b'])), 'py_mem %s %s' % (coq(case['a']), coq([case['b']]))]
        return []

    def search(self, rng, bad_cases):
        for c in bad_cases[:6]:
            if c['kind'] in ('variants', 'dependency', 'duplicate'):
                for s in range(4):
                    d = json.loads(json.dumps({k: v for k, v in c.items() if not k.startswith('_')}))
                    d['casings'] = [rng.randrange(10 ** 6), rng.randrange(10 ** 6)]
                    yield d

PROP = C23
