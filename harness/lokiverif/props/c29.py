"""C29 — ASSOCIATE resolution and merging preserve program behaviour.

Source programs: MiniF JSON statements (see minif.py) plus
  ['assoc', [[name, SEL], ...], [S..]]
  SEL = ['name', y] | ['sec', a, [DIM..]] | ['val', E]       DIM = ['fix', E] | ['free', off, lo|None, hi|None]
(`off` = bound shift of the range = effective lower bound - 1; lo/hi only serve the Fortran printer.)

Flow of one case: JSON program -> Fortran text (own printer) -> Loki (fparser frontend) -> the REAL
do_resolve_associates / do_merge_associates -> IR converted back to JSON -> compared with the Coq model's output
(structurally, by vm_compute); oracle: reference interpreter for the source language (mirror of M_C29.aexec, itself
compared with aexec in Coq and with gfortran) on original vs transformed program, and gfortran on the original source
vs fgen of the transformed routine."""
import itertools, json, hashlib
from ..framework import Property
from ..coqlit import coq, C, Nat, Some, Raw
from .. import minif as MF
from .. import bridge_expr as B
from ..evalz import tdiv

INTR = MF.INTRINSICS
LIMIT = 2 ** 30

# ------------------------------------------------------------------------------------ printing
def fx(s):
    """fully parenthesised Fortran text; unlike minif.fexpr, (-1)*X is printed as (-X) so that the text parses back to the same tree"""
    k = s[0]
    if k in ('py', 'int'): return str(s[1]) if s[1] >= 0 else '(%d)' % s[1]
    if k == 'log': return '.true.' if s[1] else '.false.'
    if k == 'var': return s[1]
    if k == 'prod' and len(s) == 4 and s[2] == ['py', -1]: return '(-%s)' % fx(s[3])
    if k == 'sum': return '(' + ' + '.join(fx(c) for c in s[2:]) + ')'
    if k == 'prod': return '(' + ' * '.join(fx(c) for c in s[2:]) + ')'
    if k == 'quot': return '(%s / %s)' % (fx(s[2]), fx(s[3]))
    if k == 'pow': return '(%s ** %s)' % (fx(s[2]), fx(s[3]))
    if k == 'cmp': return '(%s %s %s)' % (fx(s[2]), {'!=': '/='}.get(s[1], s[1]), fx(s[3]))
    if k == 'and': return '(' + ' .and. '.join(fx(c) for c in s[1:]) + ')'
    if k == 'or': return '(' + ' .or. '.join(fx(c) for c in s[1:]) + ')'
    if k == 'not': return '(.not. %s)' % fx(s[1])
    if k == 'call': return '%s(%s)' % (s[1], ', '.join(fx(c) for c in s[2:]))
    raise ValueError(s)

def fsel(sl):
    if sl[0] == 'name': return sl[1]
    if sl[0] == 'val': return fx(sl[1])
    ds = []
    for d in sl[2]:
        if d[0] == 'fix': ds.append(fx(d[1]))
        else: ds.append('%s:%s' % ('' if d[2] is None else d[2], '' if d[3] is None else d[3]))
    return '%s(%s)' % (sl[1], ', '.join(ds))

def afstmts(ss, ind=2, flatten_empty=False):
    out = []
    pad = ' ' * ind
    for s in ss:
        k = s[0]
        if k == 'assoc':
            if flatten_empty and not s[1]:
                out += afstmts(s[2], ind, flatten_empty); continue
            out.append('%sassociate (%s)' % (pad, ', '.join('%s => %s' % (n, fsel(sl)) for n, sl in s[1])))
            out += afstmts(s[2], ind + 2, flatten_empty); out.append(pad + 'end associate')
        elif k == 'do':
            hdr = '%sdo %s = %s, %s' % (pad, s[1], fx(s[2]), fx(s[3]))
            if s[4] is not None: hdr += ', %s' % fx(s[4])
            out.append(hdr); out += afstmts(s[5], ind + 2, flatten_empty); out.append(pad + 'end do')
        elif k == 'if':
            out.append('%sif (%s) then' % (pad, fx(s[1]))); out += afstmts(s[2], ind + 2, flatten_empty)
            if s[3]:
                out.append(pad + 'else'); out += afstmts(s[3], ind + 2, flatten_empty)
            out.append(pad + 'end if')
        elif k == 'assign': out.append('%s%s = %s' % (pad, s[1], fx(s[2])))
        elif k == 'store': out.append('%s%s(%s) = %s' % (pad, s[1], ', '.join(fx(i) for i in s[2]), fx(s[3])))
        elif k == 'skip': out.append('%s! %s' % (pad, s[1]))
        else: raise ValueError(s)
    return out

def aunit_to_fortran(u, body=None, flatten_empty=False):
    args = u.get('args', [])
    lines = ['subroutine %s(%s)' % (u['name'], ', '.join(args)), '  implicit none']
    for x in u.get('scalars', []): lines.append('  integer, intent(inout) :: %s' % x)
    for a, dims in u.get('arrays', {}).items():
        lines.append('  integer, intent(inout) :: %s(%s)' % (a, ', '.join('%s:%s' % (l, h) for l, h in dims)))
    lines += afstmts(u['body'] if body is None else body, 2, flatten_empty)
    lines.append('end subroutine %s' % u['name'])
    return '\n'.join(lines)

def erase(x):
    """paren flags of sums/products/... erased (the frontend sets them from the fully parenthesised text)"""
    if isinstance(x, list):
        if x and x[0] in ('sum', 'prod', 'quot', 'pow') and len(x) > 1 and isinstance(x[1], bool):
            return [x[0], False] + [erase(c) for c in x[2:]]
        return [erase(c) for c in x]
    return x

# ------------------------------------------------------------------------------------ Loki IR -> JSON
def sel_of_loki(e, lb=None):
    """lb: declared lower bounds of the base arrays (a bare `:` on a base array starts at its declared lower bound)"""
    from loki.expression import symbols as sym
    lb = lb or {}
    if isinstance(e, sym.Array) and e.dimensions:
        ds = []
        for d in e.dimensions:
            if isinstance(d, sym.RangeIndex):
                if d.step is not None: raise MF.Unsupported('strided section')
                lo = None if d.lower is None else B.structure(d.lower)
                hi = None if d.upper is None else B.structure(d.upper)
                if lo is not None and lo[0] != 'int': raise MF.Unsupported('non-literal section bound')
                if hi is not None and hi[0] != 'int': raise MF.Unsupported('non-literal section bound')
                lo = None if lo is None else lo[1]; hi = None if hi is None else hi[1]
                dlb = lb.get(e.name.lower())
                base = dlb[len(ds)] if dlb and len(ds) < len(dlb) else 1
                ds.append(['free', (base if lo is None else lo) - 1, lo, hi])
            else:
                ds.append(['fix', B.structure(d)])
        return ['sec', e.name.lower(), ds]
    if isinstance(e, (sym.MetaSymbol, sym.TypedSymbol, sym.DeferredTypeSymbol)) and not getattr(e, 'parent', None):
        return ['name', e.name.lower()]
    return ['val', B.structure(e)]

def afrom_loki(nodes, lb=None):
    from loki import ir
    out = []
    for n in nodes:
        if isinstance(n, ir.Associate):
            out.append(['assoc', [[str(nm.name).lower(), sel_of_loki(e, lb)] for e, nm in n.associations], afrom_loki(n.body, lb)])
        elif isinstance(n, ir.Section):
            out += afrom_loki(n.body, lb)
        elif isinstance(n, ir.Loop):
            b = n.bounds
            out.append(['do', n.variable.name.lower(), B.structure(b.start), B.structure(b.stop),
                        None if b.step is None else B.structure(b.step), afrom_loki(n.body, lb)])
        elif isinstance(n, ir.Conditional):
            out.append(['if', B.structure(n.condition), afrom_loki(n.body, lb), afrom_loki(n.else_body or (), lb)])
        elif isinstance(n, (ir.WhileLoop, ir.CallStatement)):
            raise MF.Unsupported(type(n).__name__)
        else:
            out += MF.from_loki((n,))
    return out

# ------------------------------------------------------------------------------------ JSON -> Coq
def dim_model(d):
    return C('DFix', B.model_of_structure(d[1])) if d[0] == 'fix' else C('DFree', int(d[1]))

def sel_model(sl):
    if sl[0] == 'name': return C('SName', sl[1])
    if sl[0] == 'val': return C('SVal', B.model_of_structure(sl[1]))
    return C('SSec', sl[1], [dim_model(d) for d in sl[2]])

def astmt_model(s):
    k = s[0]
    E = B.model_of_structure
    if k == 'assign': return C('AAssign', s[1], E(s[2]))
    if k == 'store': return C('AStore', s[1], [E(i) for i in s[2]], E(s[3]))
    if k == 'do': return C('ADo', s[1], E(s[2]), E(s[3]), None if s[4] is None else Some(E(s[4])), [astmt_model(x) for x in s[5]])
    if k == 'if': return C('AIf', E(s[1]), [astmt_model(x) for x in s[2]], [astmt_model(x) for x in s[3]])
    if k == 'skip': return C('ASkip', s[1])
    if k == 'assoc': return C('AAssoc', [(n, sel_model(sl)) for n, sl in s[1]], [astmt_model(x) for x in s[2]])
    raise ValueError(s)

def astmts_model(ss): return [astmt_model(s) for s in ss]

def has_assoc(ss):
    for s in ss:
        if s[0] == 'assoc': return True
        if s[0] == 'do' and has_assoc(s[5]): return True
        if s[0] == 'if' and (has_assoc(s[2]) or has_assoc(s[3])): return True
    return False

def has_empty_assoc(ss):
    for s in ss:
        if s[0] == 'assoc' and (not s[1] or has_empty_assoc(s[2])): return True
        if s[0] == 'do' and has_empty_assoc(s[5]): return True
        if s[0] == 'if' and (has_empty_assoc(s[2]) or has_empty_assoc(s[3])): return True
    return False

# ------------------------------------------------------------------------------------ reference interpreter (mirror of aexec)
Stuck = MF.Stuck

def _lookup(env, x):
    for k, b in env:
        if k == x: return b
    return None

def _fillz(bds, args):
    out, args = [], list(args)
    for d in bds:
        if d[0] == 'fix': out.append(d[1])
        else:
            if not args: return None
            out.append(args.pop(0) + d[1])
    return None if args else tuple(out)

def _compose(bds0, bds):
    out, bds = [], list(bds)
    for d in bds0:
        if d[0] == 'fix': out.append(d)
        else:
            if not bds: return None
            e = bds.pop(0)
            out.append((e[0], e[1] + d[1]))
    return None if bds else out

def _arr(st, a):
    v = st.get(a)
    if v is None: v = st[a] = {}
    if not isinstance(v, dict): raise Stuck('scalar as array')
    return v

def _sc(st, x):
    v = st.get(x, 0)
    if isinstance(v, dict): raise Stuck('array as scalar')
    return v

def aev(s, st, env):
    k = s[0]
    if k in ('py', 'int'): return s[1]
    if k == 'var':
        b = _lookup(env, s[1])
        if b is None: return _sc(st, s[1])
        if b[0] == 'name': return _sc(st, b[1])
        if b[0] == 'val': return b[1]
        i = _fillz(b[2], ())
        if i is None: raise Stuck('section as scalar')
        return _arr(st, b[1]).get(i, 0)
    if k == 'sum': return sum(aev(c, st, env) for c in s[2:])
    if k == 'prod':
        r = 1
        for c in s[2:]: r *= aev(c, st, env)
        return r
    if k == 'quot':
        a, b = aev(s[2], st, env), aev(s[3], st, env)
        if b == 0: raise Stuck('div0')
        return tdiv(a, b)
    if k == 'pow':
        a, n = aev(s[2], st, env), aev(s[3], st, env)
        if n >= 0: return a ** n
        if a == 0: raise Stuck('0**neg')
        return tdiv(1, a ** (-n))
    if k == 'call':
        args = [aev(c, st, env) for c in s[2:]]
        f = s[1]
        if f == 'mod':
            if len(args) != 2 or args[1] == 0: raise Stuck('mod')
            return args[0] - args[1] * tdiv(args[0], args[1])
        if f == 'modulo':
            if len(args) != 2 or args[1] == 0: raise Stuck('modulo')
            return args[0] % args[1]
        if f == 'abs':
            if len(args) != 1: raise Stuck('abs')
            return abs(args[0])
        if f in ('min', 'max'):
            if not args: raise Stuck(f)
            return min(args) if f == 'min' else max(args)
        b = _lookup(env, f)
        if b is None: return _arr(st, f).get(tuple(args), 0)
        if b[0] == 'name': return _arr(st, b[1]).get(tuple(args), 0)
        if b[0] == 'val': raise Stuck('subscripted value')
        i = _fillz(b[2], args)
        if i is None: raise Stuck('rank')
        return _arr(st, b[1]).get(i, 0)
    raise Stuck('int expr ' + k)

def aevb(s, st, env):
    k = s[0]
    if k == 'log': return s[1]
    if k == 'cmp':
        l, r = aev(s[2], st, env), aev(s[3], st, env)
        return {'==': l == r, '!=': l != r, '<': l < r, '<=': l <= r, '>': l > r, '>=': l >= r}[s[1]]
    if k == 'and': return all([aevb(c, st, env) for c in s[1:]])
    if k == 'or': return any([aevb(c, st, env) for c in s[1:]])
    if k == 'not': return not aevb(s[1], st, env)
    raise Stuck('logical expr ' + k)

def bind_of(sl, st, env):
    if sl[0] == 'name':
        b = _lookup(env, sl[1])
        return ('name', sl[1]) if b is None else b
    if sl[0] == 'val':
        return ('val', aev(sl[1], st, env))
    bds = [('fix', aev(d[1], st, env)) if d[0] == 'fix' else ('free', d[1]) for d in sl[2]]
    b = _lookup(env, sl[1])
    if b is None: return ('sec', sl[1], bds)
    if b[0] == 'name': return ('sec', b[1], bds)
    if b[0] == 'val': raise Stuck('section of a value')
    c = _compose(b[2], bds)
    if c is None: raise Stuck('rank')
    return ('sec', b[1], c)

def _chk(v):
    if abs(v) >= LIMIT: raise Stuck('overflow')
    return v

def _wscalar(st, env, x, v):
    b = _lookup(env, x)
    if b is None: _sc(st, x); st[x] = v
    elif b[0] == 'name': _sc(st, b[1]); st[b[1]] = v
    elif b[0] == 'val': raise Stuck('assignment to an expression selector')
    else:
        i = _fillz(b[2], ())
        if i is None: raise Stuck('rank')
        _arr(st, b[1])[i] = v

def ainterp(ss, st, env=(), budget=None):
    """mirror of M_C29.aexec (plus an overflow guard: values stay below 2^30 so that gfortran's 32-bit integers agree)"""
    budget = budget if budget is not None else [100000]
    for s in ss:
        budget[0] -= 1
        if budget[0] < 0: raise Stuck('budget')
        k = s[0]
        if k == 'assign':
            _wscalar(st, env, s[1], _chk(aev(s[2], st, env)))
        elif k == 'store':
            idx = tuple(aev(i, st, env) for i in s[2]); v = _chk(aev(s[3], st, env))
            b = _lookup(env, s[1])
            if b is None: _arr(st, s[1])[idx] = v
            elif b[0] == 'name': _arr(st, b[1])[idx] = v
            elif b[0] == 'val': raise Stuck('store to an expression selector')
            else:
                i = _fillz(b[2], idx)
                if i is None: raise Stuck('rank')
                _arr(st, b[1])[i] = v
        elif k == 'do':
            b = _lookup(env, s[1])
            if b is None: v = s[1]
            elif b[0] == 'name': v = b[1]
            else: raise Stuck('do variable')
            lo, hi = aev(s[2], st, env), aev(s[3], st, env)
            d = 1 if s[4] is None else aev(s[4], st, env)
            if d == 0: raise Stuck('zero step')
            n = max(0, tdiv(hi - lo + d, d))
            i = lo
            for _ in range(n):
                st[v] = i
                ainterp(s[5], st, env, budget)
                i += d
            st[v] = i
        elif k == 'if':
            ainterp(s[2] if aevb(s[1], st, env) else s[3], st, env, budget)
        elif k == 'skip': pass
        elif k == 'assoc':
            beta = tuple((n, bind_of(sl, st, env)) for n, sl in s[1])
            ainterp(s[2], st, beta + tuple(env), budget)
        else: raise ValueError(s)
    return st

def copy_store(st): return {k: (dict(v) if isinstance(v, dict) else v) for k, v in st.items()}

def run_obs(prog, store, spec):
    try:
        return MF.observe(ainterp(prog, copy_store(store)), spec)
    except Stuck as e:
        return 'stuck:' + str(e)

# ------------------------------------------------------------------------------------ gfortran
def main_for(unit, stores, spec):
    lines = ['program lv_main', '  implicit none']
    for x in unit['scalars']: lines.append('  integer :: %s' % x)
    for a, dims in unit['arrays'].items(): lines.append('  integer :: %s(%s)' % (a, ', '.join('%s:%s' % (l, h) for l, h in dims)))
    sc, cells = spec
    for st in stores:
        for x in unit['args']:
            v = st.get(x, 0)
            if isinstance(v, dict):
                lines.append('  %s = 0' % x)
                for idx, val in sorted(v.items()): lines.append('  %s(%s) = %d' % (x, ', '.join(str(i) for i in idx), val))
            else: lines.append('  %s = %d' % (x, v))
        lines.append('  call %s(%s)' % (unit['name'], ', '.join(unit['args'])))
        for x in sc: lines.append("  print '(I0)', %s" % x)
        for a, i in cells: lines.append("  print '(I0)', %s(%s)" % (a, ', '.join(str(j) for j in i)))
    lines.append('end program lv_main')
    return '\n'.join(lines)

# ------------------------------------------------------------------------------------ generator
SCAL_W = ['a', 'b', 'c', 'y']
SCAL_R = ['n', 'k']
LOOPV = ['i', 'j']
ARRS = {'arr': [[1, 4]], 'brr': [[1, 4]], 'm': [[1, 4], [1, 4]]}
POOL = ['x', 'z', 'w', 'e', 's', 'q', 'p', 'u', 'v', 'g', 'h', 't1', 't2', 't3', 't4', 't5', 't6', 't7', 't8']
BOUND = 4

def base_unit(body, arrays=None):
    arrays = arrays or ARRS
    sc = SCAL_W + SCAL_R + LOOPV
    return {'name': 'lv_t', 'args': sc + list(arrays), 'scalars': sc, 'arrays': arrays, 'body': body}

class N:
    """a visible name: rank; base = base variable written through it (None: not definable); deps = base names its value
    depends on; ix = value known to lie in 1..BOUND; pure = chain of plain name aliases of a base scalar"""
    def __init__(self, name, rank, base, deps, assoc=False, ix=False, pure=False, val=False):
        self.name, self.rank, self.base, self.deps, self.assoc, self.ix, self.pure, self.val = name, rank, base, frozenset(deps), assoc, ix, pure, val

def base_scope():
    sc = [N(x, 0, x, [x], pure=True) for x in SCAL_W] + [N(x, 0, None, [x], ix=True) for x in SCAL_R]
    return sc + [N(a, len(d), a, [a]) for a, d in ARRS.items()]

def vis(scope):
    seen, out = set(), []
    for n in reversed(scope):
        if n.name not in seen:
            seen.add(n.name); out.append(n)
    return out

class Gen:
    """programs inside the class: the dynamic parts (subscripts, expression selectors) of every selector only use names
    whose value does not depend on anything the block body may write (`wb` = write budget of the block)"""
    def __init__(self, rng, mode='resolve', p_shadow=0.3, nointr=False):
        self.rng, self.mode, self.p_shadow, self.nointr = rng, mode, p_shadow, nointr
        self.reset()

    def reset(self):
        self.fresh = list(POOL); self.rng.shuffle(self.fresh)
        self.nassoc = 0; self.maxnest = 0; self.features = set()
        self.outer_dyn = []; self.outer_wb = frozenset()

    # -- expressions in statement bodies -------------------------------------------------
    def idx(self, scope):
        rng = self.rng
        r = rng.random()
        c = [n for n in vis(scope) if n.rank == 0 and n.ix]
        ca = [n for n in c if n.assoc]
        if ca and r < 0.35: return ['var', rng.choice(ca).name]
        if c and r < 0.55: return ['var', rng.choice(c).name]
        if r < 0.9 or self.nointr: return ['int', rng.randint(1, BOUND)]
        c = [n for n in vis(scope) if n.rank == 0]
        return ['sum', False, ['call', 'mod', ['call', 'abs', ['var', rng.choice(c).name]], ['int', BOUND]], ['int', 1]]

    def leaf(self, scope):
        rng = self.rng
        if rng.random() < 0.25: return ['int', rng.randint(0, 5)]
        v = vis(scope)
        if rng.random() < 0.6:
            a = [n for n in v if n.assoc]
            if a: v = a
        n = rng.choice(v)
        if n.rank == 0: return ['var', n.name]
        return ['call', n.name] + [self.idx(scope) for _ in range(n.rank)]

    def ex(self, d, scope):
        rng = self.rng
        r = rng.random()
        if d <= 0 or r < 0.3: return self.leaf(scope)
        if r < 0.58: return ['sum', False, self.ex(d - 1, scope), self.ex(d - 1, scope)]
        if r < 0.72: return ['sum', False, self.ex(d - 1, scope), ['prod', False, ['py', -1], self.ex(d - 1, scope)]]
        if r < 0.86: return ['prod', False, self.leaf(scope), self.leaf(scope)]
        if r < 0.93 and not self.nointr: return ['call', rng.choice(['max', 'min']), self.ex(d - 1, scope), self.ex(d - 1, scope)]
        den = self.leaf(scope)
        return ['quot', False, self.ex(d - 1, scope), ['sum', False, ['prod', False, den, den], ['int', 1]]]

    def cond(self, scope):
        return ['cmp', self.rng.choice(['<', '<=', '>', '>=', '==', '!=']), self.ex(1, scope), self.ex(1, scope)]

    # -- selectors ---------------------------------------------------------------------------
    def sidx(self, dyn, avoid):
        rng = self.rng
        c = [n for n in vis(dyn) if n.rank == 0 and n.ix and not (n.deps & avoid)]
        if c and rng.random() < 0.6:
            n = rng.choice(c); return ['var', n.name], set(n.deps)
        return ['int', rng.randint(1, BOUND)], set()

    def sval(self, d, dyn, avoid):
        """sums / products of scalars and non-negative literals (what Loki's frontend accepts as an expression selector)"""
        rng = self.rng
        r = rng.random()
        if d <= 0 or r < 0.35:
            # (an expression selector that mentions another expression-selector name breaks the frontend's shape derivation)
            c = [n for n in vis(dyn) if n.rank == 0 and not n.val and not (n.deps & avoid)]
            if c and rng.random() < 0.7:
                n = rng.choice(c); return ['var', n.name], set(n.deps)
            return ['int', rng.randint(0, 5)], set()
        a, da = self.sval(d - 1, dyn, avoid); b, db = self.sval(d - 1, dyn, avoid)
        return [rng.choice(['sum', 'sum', 'prod']), False, a, b], da | db

    def new_name(self, scope, taken):
        rng = self.rng
        shadowable = [n.name for n in vis(scope) if n.assoc and n.name not in taken]
        if self.mode == 'resolve' and shadowable and rng.random() < self.p_shadow:
            self.features.add('shadow'); return rng.choice(shadowable)
        while self.fresh:
            x = self.fresh.pop()
            if x not in taken: return x
        return None

    def selector(self, x, scope, wb, nested):
        rng = self.rng
        v = vis(scope)
        if self.mode == 'merge' and nested:
            dyn, avoid = self.outer_dyn, wb | self.outer_wb
        else:
            dyn, avoid = scope, wb
        allow_val = not (self.mode == 'merge' and nested)
        arrs = [n for n in v if n.rank >= 1]
        r = rng.random()
        if r < 0.08:
            c = [n for n in v if n.rank == 0 and n.ix and not n.val and not (n.deps & avoid)
                 and (not (self.mode == 'merge' and nested) or n in self.outer_dyn)]
            if c:
                n = rng.choice(c); self.features.add('index-alias')
                return ['name', n.name], N(x, 0, n.base, n.deps, True, True, n.pure, n.val)
        if r < 0.22:
            n = rng.choice([n for n in v if n.rank == 0])
            self.features.add('alias-of-assoc' if n.assoc else 'scalar')
            return ['name', n.name], N(x, 0, n.base, n.deps, True, n.ix, n.pure, n.val)
        if r < 0.36:
            n = rng.choice(arrs); self.features.add('array-of-assoc' if n.assoc else 'array')
            return ['name', n.name], N(x, n.rank, n.base, n.deps, True)
        if r < 0.58:
            n = rng.choice(arrs)
            deps, ds = set(n.deps), []
            for _ in range(n.rank):
                i, d = self.sidx(dyn, avoid); ds.append(['fix', i]); deps |= d
            self.features.add('element-of-assoc' if n.assoc else 'element')
            return ['sec', n.name, ds], N(x, 0, n.base, deps, True)
        if r < 0.80 or not allow_val:
            n = rng.choice(arrs)
            ds, deps, rank = [], set(n.deps), 0
            freepos = set(rng.sample(range(n.rank), rng.randint(1, n.rank)))
            for p in range(n.rank):
                if p in freepos:
                    ds.append(['free', 0, None, None] if rng.random() < 0.75 else ['free', 0, 1, BOUND]); rank += 1
                else:
                    i, d = self.sidx(dyn, avoid); ds.append(['fix', i]); deps |= d
            self.features.add('section-of-assoc' if n.assoc else 'section')
            return ['sec', n.name, ds], N(x, rank, n.base, deps, True)
        e, deps = self.sval(2, dyn, avoid)
        if e[0] == 'var': e = ['sum', False, e, ['int', rng.randint(0, 3)]]
        self.features.add('value')
        return ['val', e], N(x, 0, None, deps, True, ix=(e[0] == 'int' and 1 <= e[1] <= BOUND), val=True)

    def assoc(self, depth, scope, wb, nest, nloops):
        rng = self.rng
        wbi = frozenset(x for x in sorted(wb) if rng.random() < 0.65)
        if not wbi and wb: wbi = frozenset([rng.choice(sorted(wb))])
        if not any(x in SCAL_W for x in wbi):
            c = [x for x in SCAL_W if x in wb]
            if c: wbi = wbi | {rng.choice(c)}
        if nest == 0:
            self.outer_wb = wbi
            self.outer_dyn = [n for n in vis(scope) if n.rank == 0 and n.base is None and not n.assoc]
        pairs, new, taken = [], [], set()
        for _ in range(rng.choice([1, 1, 2, 2, 3])):
            x = self.new_name(scope, taken)
            if x is None: break
            sl, d = self.selector(x, scope, wbi, nest > 0)
            taken.add(x); pairs.append([x, sl]); new.append(d)
        if not pairs: return None
        self.nassoc += 1; self.maxnest = max(self.maxnest, nest + 1)
        body = self.stmts(depth - 1, rng.randint(1, 3), scope + new, wbi, nest + 1, nloops)
        return ['assoc', pairs, body]

    # -- statements -------------------------------------------------------------------------
    def stmts(self, depth, n, scope, wb, nest, nloops):
        rng = self.rng
        out = []
        p_assoc = 0.45 if (self.mode == 'merge' and nest > 0) else 0.30
        for _ in range(n):
            r = rng.random()
            v = vis(scope)
            if depth > 0 and r < p_assoc and nest < 3 and len(self.fresh) > 3:
                a = self.assoc(depth, scope, wb, nest, nloops)
                if a is not None: out.append(a); continue
            if depth > 0 and r < p_assoc + 0.13 and nloops < len(LOOPV):
                lv = LOOPV[nloops]
                hi = rng.randint(1, BOUND)
                st = None if rng.random() < 0.75 else ['int', rng.choice([1, 2])]
                cand = [x for x in v if x.assoc and x.rank == 0 and x.pure and x.base in wb]
                if cand and rng.random() < 0.25:
                    x = rng.choice(cand); self.features.add('do-variable')
                    inner = scope + [N(x.name, 0, None, x.deps, True, ix=True)]
                    out.append(['do', x.name, ['int', 1], ['int', hi], st, self.stmts(depth - 1, rng.randint(1, 2), inner, wb - {x.base}, nest, nloops + 1)])
                else:
                    inner = scope + [N(lv, 0, None, [lv], ix=True)]
                    out.append(['do', lv, ['int', 1], ['int', hi], st, self.stmts(depth - 1, rng.randint(1, 2), inner, wb, nest, nloops + 1)])
                continue
            if depth > 0 and r < p_assoc + 0.24:
                out.append(['if', self.cond(scope), self.stmts(depth - 1, rng.randint(1, 2), scope, wb, nest, nloops),
                            self.stmts(depth - 1, rng.randint(0, 2), scope, wb, nest, nloops)])
                continue
            lhs0 = [x for x in v if x.rank == 0 and x.base in wb]
            lhsa = [x for x in v if x.rank >= 1 and x.base in wb]
            if lhsa and (r < 0.75 or not lhs0):
                c = [x for x in lhsa if x.assoc] if rng.random() < 0.7 else lhsa
                x = rng.choice(c or lhsa)
                out.append(['store', x.name, [self.idx(scope) for _ in range(x.rank)], self.ex(rng.choice([1, 1, 2]), scope)])
            elif lhs0:
                c = [x for x in lhs0 if x.assoc] if rng.random() < 0.6 else lhs0
                x = rng.choice(c or lhs0)
                out.append(['assign', x.name, self.ex(rng.choice([1, 1, 2]), scope)])
            else:
                out.append(['if', self.cond(scope), [], []])
        return out

    def program(self, nstmt=4, depth=3):
        wb = frozenset(SCAL_W) | frozenset(ARRS)
        body = []
        for _ in range(40):
            self.reset()
            body = self.stmts(depth, nstmt, base_scope(), wb, 0, 0)
            if self.nassoc >= 1 and (self.mode != 'merge' or self.maxnest >= 2): return body
        return body

def gen_store(rng, arrays=None):
    st = {x: rng.randint(-3, 5) for x in SCAL_W}
    for x in SCAL_R: st[x] = rng.randint(1, BOUND)
    for x in LOOPV: st[x] = rng.randint(1, BOUND)
    for a, dims in (arrays or ARRS).items():
        st[a] = {idx: rng.randint(-3, 5) for idx in itertools.product(*[range(l, h + 1) for l, h in dims])}
    return st

def store_json(st):
    return {k: ([[list(i), v] for i, v in sorted(d.items())] if isinstance(d, dict) else d) for k, d in st.items()}

def store_of_json(js):
    return {k: ({tuple(i): v for i, v in d} if isinstance(d, list) else d) for k, d in js.items()}

def gen_rebind(rng, variant):
    """the same statement texts under different bindings of the same names (sibling blocks, nested shadowing with a
    different selector, associate names equal to routine variables that are also used outside the block).  All selectors are
    static (names, elements/sections with literal or read-only subscripts), so every program is in selectors_stable."""
    g = Gen(rng, mode='resolve')
    wb = frozenset(SCAL_W) | frozenset(ARRS)
    def sel0():
        r = rng.random()
        if r < 0.45:
            b = rng.choice(SCAL_W); return ['name', b], b
        a = rng.choice(['arr', 'brr'])
        if r < 0.8: return ['sec', a, [['fix', rng.choice([I(rng.randint(1, BOUND)), V(rng.choice(SCAL_R))])]]], a
        return ['sec', 'm', [['fix', I(rng.randint(1, BOUND))], ['fix', rng.choice([I(rng.randint(1, BOUND)), V(rng.choice(SCAL_R))])]]], 'm'
    def sel1():
        r = rng.random()
        if r < 0.4:
            a = rng.choice(['arr', 'brr']); return ['name', a], a
        if r < 0.6:
            a = rng.choice(['arr', 'brr']); return ['sec', a, [['free', 0, None, None]]], a
        fixd = ['fix', rng.choice([I(rng.randint(1, BOUND)), V(rng.choice(SCAL_R))])]
        return ['sec', 'm', [['free', 0, None, None], fixd] if rng.random() < 0.5 else [fixd, ['free', 0, None, None]]], 'm'
    def two(f):
        a = f()
        for _ in range(20):
            b = f()
            if b[0] != a[0]: return a, b
        return a, b
    if variant == 'basevar':
        x, z = rng.choice(SCAL_W), rng.choice(['arr', 'brr'])
    else:
        x, z = 'x', 'z'
    (s0a, b0a), (s0b, b0b) = two(sel0)
    (s1a, b1a), (s1b, b1b) = two(sel1)
    if variant == 'basevar':
        # the selector must not be the shadowed variable itself
        for _ in range(20):
            if s0a != ['name', x] and s1a != ['name', z]: break
            (s0a, b0a), (s0b, b0b) = two(sel0); (s1a, b1a), (s1b, b1b) = two(sel1)
    scope = base_scope() + [N(x, 0, b0a, [b0a], True), N(z, 1, b1a, [b1a], True)]
    def block():
        return g.stmts(1, rng.randint(2, 3), scope, wb, 3, 0)
    B = block()
    # make sure the repeated text mentions the rebound names on both sides of an assignment
    B = [['store', z, [V('k')], ['sum', False, ['call', z, V('k')], V(x)]], ['assign', x, ['sum', False, V(x), ['call', z, V('n')]]]] + B
    A1 = [[x, s0a], [z, s1a]]; A2 = [[x, s0b], [z, s1b]]
    if variant == 'keptsub':
        # partial-depth resolution: a kept outer array name subscripted with names of a resolved inner block
        e1, e2 = 'e', 'g'
        inner = [[e1, ['name', rng.choice(SCAL_R)]], [e2, rng.choice([['val', I(rng.randint(1, BOUND))], ['name', rng.choice(SCAL_R)]])]]
        sc2 = scope + [N(e1, 0, None, ['n', 'k'], True, ix=True), N(e2, 0, None, ['n', 'k'], True, ix=True)]
        C = [['store', z, [V(e1)], ['sum', False, ['call', z, V(e2)], V(x)]], ['assign', x, ['call', z, V(e1)]]] + g.stmts(1, rng.randint(1, 2), sc2, wb, 3, 0)
        return [['assoc', A1, B[:2] + [['assoc', inner, C]]]]
    if variant == 'sibling':
        body = [['assoc', A1, B], ['assoc', A2, B]]
    elif variant == 'nested':
        body = [['assoc', A1, B + [['assoc', A2, B]] + B[:2]]]
    else:
        body = B[:2] + [['assoc', A1, B]] + B
    return body

# ------------------------------------------------------------------------------------ fixed witnesses of the defects
V = lambda x: ['var', x]
I = lambda n: ['int', n]
W_F17 = [['assoc', [['s', ['val', ['sum', False, V('a'), V('b')]]]], [['assign', 'a', I(10)], ['assign', 'y', V('s')]]]]
W_F17B = [['assoc', [['x', ['sec', 'arr', [['fix', V('k')]]]]], [['assign', 'k', I(2)], ['assign', 'x', I(5)]]]]
W_SHIFT = [['assoc', [['q', ['sec', 'arr', [['free', 1, 2, 4]]]]], [['store', 'q', [I(1)], I(7)]]]]
W_SHIFT0 = [['assoc', [['q', ['sec', 'zrr', [['free', -1, None, None]]]]], [['store', 'q', [I(1)], I(7)]]]]
W_MERGE_A = [['assoc', [['p', ['name', 'b']]], [['assign', 'k', I(2)], ['assoc', [['x', ['sec', 'arr', [['fix', V('k')]]]]], [['assign', 'x', I(5)]]]]]]
W_MERGE_B = [['assoc', [['j', ['name', 'k']]], [['assoc', [['x', ['sec', 'arr', [['fix', V('j')]]]]], [['assign', 'x', I(5)]]]]]]
W_MERGE_D = [['assoc', [['p', ['name', 'b']]], [['assign', 'c', I(1)], ['assoc', [['c', ['name', 'a']]], [['assign', 'c', I(2)]]]]]]
W_MERGE_E = [['assoc', [['p', ['name', 'b']]], [['do', 'i', I(1), I(3), None, [['assoc', [['x', ['sec', 'arr', [['fix', V('i')]]]]], [['assign', 'x', I(5)]]]]]]]]
ZARR = dict(ARRS); ZARR['zrr'] = [[0, 3]]

def fixed_case(kind, body, op, sd=0, arrays=None, seed=7):
    import random
    rng = random.Random(seed)
    u = base_unit(body, arrays)
    stores = [store_json(gen_store(rng, arrays)) for _ in range(3)]
    return {'kind': kind, 'op': op, 'sd': sd, 'unit': u, 'stores': stores, 'gf': True, 'cls': False}

WITNESSES = {
    'F17': lambda: fixed_case('witness-expr-selector', W_F17, 'resolve'),
    'F17b': lambda: fixed_case('witness-subscript', W_F17B, 'resolve'),
    'F18': lambda: fixed_case('witness-bounds-shift', W_SHIFT, 'resolve'),
    'F18b': lambda: fixed_case('witness-bounds-shift-lbound', W_SHIFT0, 'resolve', arrays=ZARR),
    'F19a': lambda: fixed_case('witness-merge-between', W_MERGE_A, 'merge'),
    'F19b': lambda: fixed_case('witness-merge-parent-name', W_MERGE_B, 'merge'),
    'F19d': lambda: fixed_case('witness-merge-capture', W_MERGE_D, 'merge'),
    'F19e': lambda: fixed_case('witness-merge-loop', W_MERGE_E, 'merge'),
}

# ------------------------------------------------------------------------------------ the property
class C29(Property):
    id = 'C29'
    imports = ['Base.Expr', 'Base.MiniF', 'models.M_C29']
    theorem_file = 'theories/props/T_C29.v'
    parallel = True
    shard = 40
    rule = ('generated integer routines with (nested, up to 3 deep) ASSOCIATE blocks inside/around DO and IF: selectors = scalar variables, whole arrays, '
            'array elements, array sections (free ranges `:`/`1:4`, 1-D and 2-D), expression selectors (sums/products of scalars and literals), '
            'selectors built from enclosing associate names (alias of alias, element/section of a section), shadowing of enclosing associate names, '
            'associate names as DO variables; streams with textually identical statements under different bindings of the same names (sibling blocks, nested '
            'shadowing with other selectors, associate names equal to routine variables used outside the block, kept outer names subscripted by inner '
            'names under start_depth=1); selectors drawn from the class `selectors_stable` by construction (dynamic parts of a selector only use '
            'names the block body does not write) and the class membership is re-checked in Coq for every case; operations: do_resolve_associates '
            '(start_depth 0/1/2), do_merge_associates (unique names, nested selectors over names fixed at the outermost block; class membership '
            'merge_ok evaluated in Coq), merge followed by resolve, and a small stream where merge raises; a case is non-trivial when the '
            'transformation changed the program; distinctness = hash of program + operation')
    modelled_not_verified = [
        'derived-type components (a%b) and therefore max_parents (no selector of the modelled fragment has a parent) are not modelled',
        'partial-depth resolution (start_depth > 0) is modelled and tied/oracle-tested but has no Coq theorem',
        'merging: the Coq theorem is a validated one (hypothesis merge_ok is computed per program, and is evaluated in Coq for every generated merge case)',
        'Fortran semantics of ASSOCIATE is the hand-written interpreter aexec (mirrored in Python; both compared on every case, and with gfortran on a sample / all cases in the thorough tier)',
        'call statements, WHERE, pointers, character/real selectors are outside the modelled fragment',
    ]

    # -- generation ---------------------------------------------------------------------
    def generate(self, rng, tier):
        import random
        # the witnesses of the known findings also go through the correspondence (the model reproduces the defective output);
        # their oracle failure is reported through the known-finding replay of the exact cases in findings.d, not here
        for k in ('F17', 'F17b', 'F18', 'F18b', 'F19a', 'F19b', 'F19d', 'F19e', 'F22'):
            c = WITNESSES[k](); c['tie_only'] = True; c['gf'] = False
            yield c
        n = 160 if tier == 'quick' else 600
        ngf = 12 if tier == 'quick' else n // 2
        for i in range(n):
            r = i % 20
            if r < 6: kind, op, sd = 'resolve', 'resolve', 0
            elif r < 9: kind, op, sd = 'rebind-' + ('sibling', 'nested', 'basevar')[r - 6], 'resolve', (0, 0, 0, 1)[(i // 20) % 4]
            elif r < 11: sd = 1 + (i // 20) % 2; kind, op = 'resolve-sd%d' % sd, 'resolve'
            elif r < 12: kind, op, sd = 'rebind-keptsub', 'resolve', 1
            elif r < 16: kind, op, sd = 'merge', 'merge', 0
            elif r < 19: sd = (i // 20) % 2; kind, op = 'merge+resolve-sd%d' % sd, 'merge+resolve'
            else: kind, op, sd = 'merge-crash', 'merge', 0
            sub = random.Random(rng.getrandbits(64))
            # (merge followed by full resolution raises IndexError as soon as an intrinsic is called inside a nested block: finding F20)
            g = Gen(sub, mode='merge' if op.startswith('merge') else 'resolve', nointr=(op == 'merge+resolve' and sd == 0))
            if kind.startswith('rebind'):
                body = gen_rebind(sub, kind[7:]); g.features = {kind}
            else:
                body = g.program(nstmt=sub.randint(2, 3))
            if kind == 'merge-crash':
                body = [['assoc', [['p', ['name', 'b']]], [['assoc', [['s', ['val', ['sum', False, V('n'), I(sub.randint(0, 5))]]]], body + [['assign', 'y', V('s')]]]]]]
            stores = [store_json(gen_store(sub)) for _ in range(3)]
            yield {'kind': kind, 'op': op, 'sd': sd, 'unit': base_unit(body), 'stores': stores,
                   'gf': i * ngf // n != (i + 1) * ngf // n, 'cls': kind != 'merge-crash', 'feat': sorted(g.features)}

    # -- implementation -----------------------------------------------------------------
    def run_impl(self, case):
        from loki import Subroutine, fgen
        from loki.frontend import FP
        from loki.transformations.sanitise import do_resolve_associates, do_merge_associates
        unit = case['unit']
        routine = Subroutine.from_source(aunit_to_fortran(unit), frontend=FP)
        lb = {a: [l for l, h in dims] for a, dims in unit['arrays'].items()}
        out = {'src': afrom_loki(routine.body.body, lb)}
        if erase(out['src']) != erase(unit['body']):
            out['frontend'] = 'mismatch'
            return out
        op = case['op']
        try:
            if op.startswith('merge'):
                do_merge_associates(routine, max_parents=case.get('mp'))
            if op.endswith('resolve'):
                do_resolve_associates(routine, start_depth=case['sd'])
        except AttributeError:
            out['error'] = 'AttributeError'
            return out
        out['body'] = afrom_loki(routine.body.body, lb)
        if case.get('gf'):
            out['fgen'] = fgen(routine)
        return out

    # -- model ------------------------------------------------------------------------------
    def model_term(self, case, out):
        if 'src' not in out or 'frontend' in out: return None
        src = astmts_model(out['src'])
        op, sd = case['op'], case['sd']
        terms = []
        if 'error' in out:
            if op != 'merge': raise ValueError('unexpected error from the implementation: %r' % (out,))
            terms.append(coq(C('chk_merge', src, None)))
        else:
            impl = out['body']
            if op == 'resolve' and sd == 0:
                if has_assoc(impl): raise ValueError('associate left after full resolution')
                terms.append(coq(C('chk_resolve_cls' if case.get('cls') else 'chk_resolve', src, MF.stmts_model(impl))))
            elif op == 'resolve':
                terms.append(coq(C('chk_resolve_sd', Nat(sd), src, astmts_model(impl))))
            elif op == 'merge':
                terms.append(coq(C('chk_merge', src, Some(astmts_model(impl)))))
                if case.get('cls'): terms.append(coq(C('merge_ok', src)))
            else:
                terms.append('(match merge_list %s with Some m => astmts_eqb (resolve_sd %s m) %s | None => false end)'
                             % (coq(src), coq(Nat(sd)), coq(astmts_model(impl))))
        # the Python reference interpreter agrees with aexec on the first store
        st = store_of_json(case['stores'][0])
        spec = MF.observe_spec(st)
        res = run_obs(out['src'], st, spec)
        if not (isinstance(res, str) and res in ('stuck:overflow', 'stuck:budget')):
            sc, cells = MF.store_model(st)
            terms.append(coq(C('chk_run', Nat(80), src, sc, cells, spec[0], spec[1], None if isinstance(res, str) else Some(res))))
        return '(' + ' && '.join(terms) + ')'

    def show_model(self, case, out):
        src = coq(astmts_model(out.get('src', case['unit']['body'])))
        return ['resolve %s' % src, 'resolve_sd %d %s' % (case['sd'], src), 'merge_list %s' % src, 'selectors_stable %s' % src, 'merge_ok %s' % src]

    # -- oracle -----------------------------------------------------------------------------
    def oracle(self, case, out):
        if case.get('tie_only'): return None
        if '__exception__' in out:
            return 'implementation raised %s: %s' % (out['__exception__'], out.get('msg'))
        if 'frontend' in out:
            return 'the frontend did not reproduce the generated program (harness problem): %s' % json.dumps(out['src'])[:300]
        if 'error' in out:
            return None if case['kind'] == 'merge-crash' else 'transformation raised %s' % out['error']
        src, impl = case['unit']['body'], out['body']
        stores = [store_of_json(s) for s in case['stores']]
        spec = MF.observe_spec(stores[0])
        names = spec[0] + ['%s%s' % (a, tuple(i)) for a, i in spec[1]]
        ref = []
        for st in stores:
            r0 = run_obs(src, st, spec); ref.append(r0)
            if isinstance(r0, str): continue          # the original program hits a run-time error / overflow on this store
            r1 = run_obs(impl, st, spec)
            if r1 != r0:
                diff = [r1] if isinstance(r1, str) else [(n, a, b) for n, a, b in zip(names, r0, r1) if a != b][:4]
                return 'behaviour changed by %s (start_depth=%s): (name, original, transformed) = %s on store %s' % (
                    case['op'], case['sd'], diff, {k: v for k, v in st.items() if not isinstance(v, dict)})
        if case.get('gf') and 'fgen' in out:
            good = [st for st, r in zip(stores, ref) if not isinstance(r, str)]
            if good:
                main = main_for(case['unit'], good, spec)
                ok0, o0 = MF.gfortran_run([aunit_to_fortran(case['unit'])], main, timeout=300)
                if not ok0 and o0 == 'timeout': return None     # overloaded machine: inconclusive, the interpreter comparison above stands
                if not ok0: return 'gfortran on the ORIGINAL source failed (harness problem): ' + o0[:300]
                exp = [str(v) for r in ref if not isinstance(r, str) for v in r]
                if o0.split() != exp:
                    return 'reference interpreter disagrees with gfortran on the original source (harness problem)'
                tsrc = out['fgen']
                if has_empty_assoc(impl):
                    tsrc = aunit_to_fortran(case['unit'], impl, flatten_empty=True)
                ok1, o1 = MF.gfortran_run([tsrc], main, timeout=300)
                if not ok1 and o1 == 'timeout': return None
                if not ok1: return 'gfortran rejects / fails on the transformed routine: ' + o1[:300]
                if o1.split() != o0.split():
                    return 'gfortran: output of the transformed routine differs from the original'
        return None

    def nontrivial_key(self, case, out):
        if 'body' not in out or erase(out['body']) == erase(case['unit']['body']): return None
        return hashlib.sha1(json.dumps([case['op'], case['sd'], case['unit']['body']], sort_keys=True).encode()).hexdigest()[:16]

    def search(self, rng, bad_cases):
        import random
        for i in range(240):
            sub = random.Random(rng.getrandbits(64))
            op = 'resolve' if i % 5 < 3 else 'merge'
            g = Gen(sub, mode=op, p_shadow=0.4)
            body = g.program(nstmt=sub.randint(2, 4))
            yield {'kind': 'search', 'op': op, 'sd': 0, 'unit': base_unit(body), 'stores': [store_json(gen_store(sub)) for _ in range(5)],
                   'gf': False, 'cls': True}

PROP = C29

# extra witnesses (crashes)
W_F20 = [['assoc', [['p', ['name', 'b']]], [['assoc', [['x', ['sec', 'arr', [['fix', V('k')]]]]], [['assign', 'x', ['call', 'max', V('p'), I(3)]]]]]]]
W_F21 = [['assoc', [['t6', ['val', ['prod', False, I(4), V('k')]]]], [['assoc', [['t3', ['val', ['sum', False, I(4), V('t6')]]]], [['assign', 'y', V('t3')]]]]]]
W_F22 = [['assoc', [['p', ['name', 'b']]], [['assoc', [['s', ['val', ['sum', False, V('a'), I(1)]]]], [['assign', 'y', V('s')]]]]]]
WITNESSES.update({
    'F20': lambda: fixed_case('witness-merge-resolve-crash', W_F20, 'merge+resolve'),
    'F21': lambda: fixed_case('witness-resolve-nested-expr-crash', W_F21, 'resolve'),
    'F22': lambda: fixed_case('witness-merge-expr-crash', W_F22, 'merge'),
})

FINDING_TEXT = {
    'F17': 'do_resolve_associates substitutes an expression selector textually: associate(s => a + b); a = 10; y = s  becomes  a = 10; y = a + b (reads the new a; the selector value is captured at block entry)',
    'F17b': 'do_resolve_associates: associate(x => arr(k)); k = 2; x = 5  becomes  k = 2; arr(k) = 5 (the subscript of a variable selector is evaluated once at entry)',
    'F18': 'do_resolve_associates drops the bound shift of a section selector: associate(q => arr(2:4)); q(1) = 7  becomes  arr(1) = 7 instead of arr(2) (the code only warns)',
    'F18b': 'do_resolve_associates: associate(q => zrr(:)) on zrr(0:3); q(1) = 7  becomes  zrr(1) = 7 instead of zrr(0) (a section starts at 1; no warning)',
    'F19a': 'do_merge_associates moves x => arr(k) to the parent block although the parent body assigns k before the inner block',
    'F19b': 'do_merge_associates moves x => arr(j) next to the parent association j => k: only the head symbol of the selector is tested, the subscript now denotes the routine variable j',
    'F19d': 'do_merge_associates moves c => a to the parent block whose body assigns the routine variable c before the inner block (name capture)',
    'F19e': 'do_merge_associates moves x => arr(i) out of the DO loop over i in the parent body',
    'F20': 'do_merge_associates followed by do_resolve_associates(start_depth=0) raises IndexError when a nested block calls an intrinsic (the rebuilt outermost Associate loses its parent scope)',
    'F21': 'do_resolve_associates raises AttributeError (Sum has no clone) for associate(t6 => 4*k); associate(t3 => 4 + t6); y = t3',
    'F22': 'do_merge_associates raises AttributeError (Sum has no scope) for an expression selector in a nested block',
}

def write_findings(path):
    fs = [{'property': 'C29', 'status': 'known', 'id': k if k == 'F17' else 'C29-' + k, 'what': FINDING_TEXT[k], 'case': WITNESSES[k]()} for k in FINDING_TEXT]
    json.dump({'findings': fs}, open(path, 'w'), indent=1)
