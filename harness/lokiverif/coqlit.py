"""Python value -> Coq literal text (used to write cases.v files)."""

class Raw:
    def __init__(self, text): self.text = text
class Nat:
    def __init__(self, n): self.n = int(n)
class NN:
    """binary natural N"""
    def __init__(self, n): self.n = int(n)
class Some:
    def __init__(self, v): self.v = v
class C:
    """constructor / function application"""
    def __init__(self, head, *args): self.head, self.args = head, args

_SAFE = set(range(32, 127)) - {ord('"')}

def coq_string(s):
    if all(ord(ch) in _SAFE for ch in s):
        return '"%s"%%string' % s
    # generic: build from code points
    parts = []
    for ch in s:
        o = ord(ch)
        if o > 255:
            o = 63  # '?': models are byte/ASCII based; generators stay in ASCII
        parts.append(str(o))
    return '(str_of_codes [%s]%%nat)' % '; '.join(parts)

def coq(v):
    if isinstance(v, Raw): return v.text
    if isinstance(v, bool): return 'true' if v else 'false'
    if isinstance(v, int): return '(%d)%%Z' % v
    if isinstance(v, Nat): return '%d%%nat' % v.n
    if isinstance(v, NN): return '%d%%N' % v.n
    if isinstance(v, str): return coq_string(v)
    if v is None: return 'None'
    if isinstance(v, Some): return '(Some %s)' % coq(v.v)
    if isinstance(v, list): return '[%s]' % '; '.join(coq(x) for x in v)
    if isinstance(v, tuple):
        if len(v) == 0: return 'tt'
        return '(%s)' % ', '.join(coq(x) for x in v)
    if isinstance(v, C):
        if not v.args: return v.head
        return '(%s %s)' % (v.head, ' '.join(coq(a) for a in v.args))
    raise TypeError('no Coq literal for %r' % (v,))
