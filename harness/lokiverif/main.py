import sys, os, argparse, importlib
def main():
    ap = argparse.ArgumentParser()
    ap.add_argument('prop')
    ap.add_argument('--tier', default=os.environ.get('VERIF_TIER', 'quick'))
    ap.add_argument('--seed', type=int, default=int(os.environ.get('VERIF_SEED', '0') or 0))
    ap.add_argument('--replay')
    a = ap.parse_args()
    from . import framework
    mod = importlib.import_module('lokiverif.props.%s' % a.prop.lower())
    prop = mod.PROP()
    sys.exit(framework.run_check(prop, a.tier, a.seed, a.replay))
if __name__ == '__main__':
    main()
