"""Reference evaluator of Loki expression trees under Fortran integer / logical semantics.
Mirrors the Coq definitions (Z.quot truncating division, ** with non-negative exponent).
Returns None when undefined (division by zero, negative exponent, unknown name)."""
from fractions import Fraction
import pymbolic.primitives as pmbl
from loki.expression import symbols as sym

class Undefined(Exception):
    pass

def tdiv(a, b):
    if b == 0: raise Undefined('div0')
    q = abs(a) // abs(b)
    return q if (a >= 0) == (b >= 0) else -q

def tmod(a, b):
    if b == 0: raise Undefined('mod0')
    return a - b * tdiv(a, b)

def ev(e, env):
    """env: lower-case name -> int (or bool).  Arrays: env[name] is a dict tuple->int"""
    if isinstance(e, bool): return e
    if isinstance(e, int): return e
    if isinstance(e, sym.IntLiteral): return int(e.value)
    if isinstance(e, sym.LogicLiteral): return bool(e.value)
    if isinstance(e, sym.FloatLiteral):
        f = Fraction(str(e.value).lower().replace('d', 'e').split('_')[0])
        if f.denominator != 1: raise Undefined('non-integer float')
        return int(f)
    if isinstance(e, pmbl.Sum): return sum(ev(c, env) for c in e.children)
    if isinstance(e, pmbl.Product):
        r = 1
        for c in e.children: r *= ev(c, env)
        return r
    if isinstance(e, pmbl.Quotient): return tdiv(ev(e.numerator, env), ev(e.denominator, env))
    if isinstance(e, pmbl.Power):
        b, x = ev(e.base, env), ev(e.exponent, env)
        if x < 0: raise Undefined('negative exponent')
        return b ** x
    if isinstance(e, pmbl.Comparison):
        l, r = ev(e.left, env), ev(e.right, env)
        return {'==': l == r, '!=': l != r, '<': l < r, '<=': l <= r, '>': l > r, '>=': l >= r}[e.operator]
    if isinstance(e, pmbl.LogicalAnd): return all([ev(c, env) for c in e.children])
    if isinstance(e, pmbl.LogicalOr): return any([ev(c, env) for c in e.children])
    if isinstance(e, pmbl.LogicalNot): return not ev(e.child, env)
    if isinstance(e, sym.InlineCall):
        name = str(e.function.name if hasattr(e.function, 'name') else e.function).lower()
        args = [ev(a, env) for a in e.parameters]
        if name == 'mod': return tmod(args[0], args[1])
        if name == 'modulo':
            if args[1] == 0: raise Undefined('mod0')
            return args[0] % args[1]
        if name == 'min': return min(args)
        if name == 'max': return max(args)
        if name == 'abs': return abs(args[0])
        if name == 'int': return args[0]
        raise Undefined('call ' + name)
    if isinstance(e, sym.Array) and e.dimensions:
        arr = env.get(e.name.lower())
        idx = tuple(ev(d, env) for d in e.dimensions)
        if not isinstance(arr, dict) or idx not in arr: raise Undefined('array ' + e.name)
        return arr[idx]
    if isinstance(e, (sym.TypedSymbol, sym.DeferredTypeSymbol, pmbl.Variable)):
        n = e.name.lower()
        if n not in env: raise Undefined('unbound ' + n)
        return env[n]
    raise Undefined('node %s' % type(e).__name__)

def evalz(e, env):
    try:
        return ev(e, env)
    except Undefined:
        return None
