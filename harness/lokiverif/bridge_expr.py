"""Loki expression trees <-> the Coq [expr] type of coq/theories/Base/Expr.v, plus a seeded random
generator of Loki trees built programmatically (the way transformations build them)."""
import pymbolic.primitives as pmbl
from loki.expression import symbols as sym
from loki.expression import operations as op
from .coqlit import C, coq

CMP = {'==': 'Ceq', '!=': 'Cne', '<': 'Clt', '<=': 'Cle', '>': 'Cgt', '>=': 'Cge'}

class NotRepresentable(Exception):
    pass

def to_model(e):
    """Loki expression -> coqlit value of type expr"""
    if isinstance(e, bool): raise NotRepresentable('python bool')
    if isinstance(e, int): return C('EPy', int(e))
    if isinstance(e, sym.IntLiteral): return C('EInt', int(e.value))
    if isinstance(e, sym.LogicLiteral): return C('ELog', bool(e.value))
    if isinstance(e, pmbl.Sum): return C('ESum', isinstance(e, op.ParenthesisedAdd), [to_model(c) for c in e.children])
    if isinstance(e, pmbl.Product): return C('EProd', isinstance(e, op.ParenthesisedMul), [to_model(c) for c in e.children])
    if isinstance(e, pmbl.Quotient): return C('EQuot', isinstance(e, op.ParenthesisedDiv), to_model(e.numerator), to_model(e.denominator))
    if isinstance(e, pmbl.Power): return C('EPow', isinstance(e, op.ParenthesisedPow), to_model(e.base), to_model(e.exponent))
    if isinstance(e, pmbl.Comparison): return C('ECmp', C(CMP[e.operator]), to_model(e.left), to_model(e.right))
    if isinstance(e, pmbl.LogicalAnd): return C('EAnd', [to_model(c) for c in e.children])
    if isinstance(e, pmbl.LogicalOr): return C('EOr', [to_model(c) for c in e.children])
    if isinstance(e, pmbl.LogicalNot): return C('ENot', to_model(e.child))
    if isinstance(e, sym.InlineCall):
        if e.kw_parameters: raise NotRepresentable('kwargs')
        return C('ECall', str(e.function.name).lower(), [to_model(a) for a in e.parameters])
    if isinstance(e, sym.Array) and e.dimensions:
        return C('ECall', e.name.lower(), [to_model(d) for d in e.dimensions])
    if isinstance(e, (sym.TypedSymbol, sym.DeferredTypeSymbol, pmbl.Variable)):
        return C('EVar', e.name.lower())
    raise NotRepresentable(type(e).__name__)

def env_model(env):
    """dict name->int  ->  Coq (env_of [...])"""
    return C('env_of', [(k, int(v)) for k, v in sorted(env.items()) if isinstance(v, int) and not isinstance(v, bool)])

def structure(e):
    """canonical JSON-able structure of a Loki expression (for replay files / distinctness keys)"""
    if isinstance(e, int): return ['py', e]
    if isinstance(e, sym.IntLiteral): return ['int', int(e.value)]
    if isinstance(e, sym.LogicLiteral): return ['log', bool(e.value)]
    if isinstance(e, pmbl.Sum): return ['sum', isinstance(e, op.ParenthesisedAdd)] + [structure(c) for c in e.children]
    if isinstance(e, pmbl.Product): return ['prod', isinstance(e, op.ParenthesisedMul)] + [structure(c) for c in e.children]
    if isinstance(e, pmbl.Quotient): return ['quot', isinstance(e, op.ParenthesisedDiv), structure(e.numerator), structure(e.denominator)]
    if isinstance(e, pmbl.Power): return ['pow', isinstance(e, op.ParenthesisedPow), structure(e.base), structure(e.exponent)]
    if isinstance(e, pmbl.Comparison): return ['cmp', e.operator, structure(e.left), structure(e.right)]
    if isinstance(e, pmbl.LogicalAnd): return ['and'] + [structure(c) for c in e.children]
    if isinstance(e, pmbl.LogicalOr): return ['or'] + [structure(c) for c in e.children]
    if isinstance(e, pmbl.LogicalNot): return ['not', structure(e.child)]
    if isinstance(e, sym.InlineCall): return ['call', str(e.function.name).lower()] + [structure(a) for a in e.parameters]
    if isinstance(e, sym.Array) and e.dimensions: return ['call', e.name.lower()] + [structure(d) for d in e.dimensions]
    if hasattr(e, 'name'): return ['var', e.name.lower()]
    return ['?', type(e).__name__, str(e)]

def build(s, scope=None):
    """inverse of structure(): JSON structure -> Loki expression (so cases are replayable from JSON)"""
    k = s[0]
    if k == 'py': return int(s[1])
    if k == 'int': return sym.IntLiteral(s[1])
    if k == 'log': return sym.LogicLiteral(s[1])
    if k == 'var': return sym.Variable(name=s[1], scope=scope)
    if k == 'sum': return (op.ParenthesisedAdd if s[1] else sym.Sum)(tuple(build(c, scope) for c in s[2:]))
    if k == 'prod': return (op.ParenthesisedMul if s[1] else sym.Product)(tuple(build(c, scope) for c in s[2:]))
    if k == 'quot': return (op.ParenthesisedDiv if s[1] else sym.Quotient)(build(s[2], scope), build(s[3], scope))
    if k == 'pow': return (op.ParenthesisedPow if s[1] else sym.Power)(build(s[2], scope), build(s[3], scope))
    if k == 'cmp': return sym.Comparison(build(s[2], scope), s[1], build(s[3], scope))
    if k == 'and': return sym.LogicalAnd(tuple(build(c, scope) for c in s[1:]))
    if k == 'or': return sym.LogicalOr(tuple(build(c, scope) for c in s[1:]))
    if k == 'not': return sym.LogicalNot(build(s[1], scope))
    if k == 'call':
        return sym.InlineCall(sym.ProcedureSymbol(s[1], scope=scope), parameters=tuple(build(a, scope) for a in s[2:]))
    raise ValueError(s)

def model_of_structure(s):
    k = s[0]
    if k == 'py': return C('EPy', s[1])
    if k == 'int': return C('EInt', s[1])
    if k == 'log': return C('ELog', s[1])
    if k == 'var': return C('EVar', s[1])
    if k == 'sum': return C('ESum', s[1], [model_of_structure(c) for c in s[2:]])
    if k == 'prod': return C('EProd', s[1], [model_of_structure(c) for c in s[2:]])
    if k == 'quot': return C('EQuot', s[1], model_of_structure(s[2]), model_of_structure(s[3]))
    if k == 'pow': return C('EPow', s[1], model_of_structure(s[2]), model_of_structure(s[3]))
    if k == 'cmp': return C('ECmp', C(CMP[s[1]]), model_of_structure(s[2]), model_of_structure(s[3]))
    if k == 'and': return C('EAnd', [model_of_structure(c) for c in s[1:]])
    if k == 'or': return C('EOr', [model_of_structure(c) for c in s[1:]])
    if k == 'not': return C('ENot', model_of_structure(s[1]))
    if k == 'call': return C('ECall', s[1], [model_of_structure(c) for c in s[2:]])
    raise NotRepresentable(str(s))

# ---------------------------------------------------------------------------------------------
# random generation of JSON structures (build() turns them into Loki trees)

DEFAULT_VARS = ['a', 'b', 'c', 'n', 'k']

def gen_arith(rng, depth, vars=DEFAULT_VARS, opts=None):
    """random integer-valued expression structure.
    opts: dict with probabilities / switches:
      paren (prob. of using a Parenthesised* class), neg_lit (allow negative IntLiteral), pow (allow powers),
      quot (allow quotients), minus (allow (-1)*x encodings), int_m1 (use IntLiteral(-1) instead of python -1 sometimes)"""
    o = {'paren': 0.25, 'neg_lit': 0.1, 'pow': True, 'quot': True, 'minus': True, 'int_m1': 0.0, 'call': 0.0, 'maxlit': 9}
    o.update(opts or {})
    def lit():
        v = rng.randint(0, o['maxlit'])
        if rng.random() < o['neg_lit']: v = -rng.randint(1, o['maxlit'])
        return ['int', v]
    def leaf():
        return lit() if rng.random() < 0.4 else ['var', rng.choice(vars)]
    def go(d):
        if d <= 0 or rng.random() < 0.15:
            return leaf()
        kinds = ['sum', 'sum', 'prod', 'prod']
        if o['quot']: kinds += ['quot', 'quot']
        if o['pow']: kinds += ['pow']
        if o['minus']: kinds += ['neg', 'sub']
        if o['call']: kinds += ['call']
        k = rng.choice(kinds)
        p = rng.random() < o['paren']
        if k == 'sum':
            n = rng.choice([2, 2, 3])
            cs = [go(d - 1) for _ in range(n)]
            return ['sum', p] + cs
        if k == 'sub':
            n = rng.choice([2, 2, 3])
            cs = [go(d - 1)]
            for _ in range(n - 1):
                x = go(d - 1)
                if rng.random() < 0.7:
                    m1 = ['int', -1] if rng.random() < o['int_m1'] else ['py', -1]
                    x = ['prod', False, m1, x]
                cs.append(x)
            return ['sum', p] + cs
        if k == 'prod':
            n = rng.choice([2, 2, 3])
            return ['prod', p] + [go(d - 1) for _ in range(n)]
        if k == 'neg':
            m1 = ['int', -1] if rng.random() < o['int_m1'] else ['py', -1]
            return ['prod', p, m1, go(d - 1)]
        if k == 'quot':
            return ['quot', p, go(d - 1), go(d - 1)]
        if k == 'pow':
            return ['pow', p, go(d - 1), ['int', rng.randint(0, 3)] if rng.random() < 0.8 else go(d - 2)]
        if k == 'call':
            f = rng.choice(['mod', 'min', 'max', 'abs'])
            n = 1 if f == 'abs' else 2
            return ['call', f] + [go(d - 1) for _ in range(n)]
    return go(depth)

def gen_logic(rng, depth, vars=DEFAULT_VARS, opts=None):
    def go(d):
        if d <= 0 or rng.random() < 0.3:
            r = rng.random()
            if r < 0.15: return ['log', rng.random() < 0.5]
            return ['cmp', rng.choice(list(CMP)), gen_arith(rng, max(0, d - 1), vars, opts), gen_arith(rng, max(0, d - 1), vars, opts)]
        k = rng.choice(['and', 'or', 'not'])
        if k == 'not': return ['not', go(d - 1)]
        return [k] + [go(d - 1) for _ in range(rng.choice([2, 2, 3]))]
    return go(depth)

def gen_env(rng, vars=DEFAULT_VARS, lo=-6, hi=6):
    return {v: rng.randint(lo, hi) for v in vars}

def eval_structure(s, env):
    """reference Fortran-integer evaluation of a JSON structure (mirrors Base/Expr.v evalZ/evalB); None = undefined"""
    from .evalz import tdiv, tmod
    class U(Exception): pass
    def z(s):
        k = s[0]
        if k in ('py', 'int'): return s[1]
        if k == 'var': return env[s[1]]
        if k == 'sum': return sum(z(c) for c in s[2:])
        if k == 'prod':
            r = 1
            for c in s[2:]: r *= z(c)
            return r
        if k == 'quot':
            a, b = z(s[2]), z(s[3])
            if b == 0: raise U()
            return tdiv(a, b)
        if k == 'pow':
            a, n = z(s[2]), z(s[3])
            if n >= 0: return a ** n
            if a == 0: raise U()
            return tdiv(1, a ** (-n))
        if k == 'call':
            args = [z(c) for c in s[2:]]
            f = s[1]
            if f == 'mod':
                if args[1] == 0: raise U()
                return tmod(args[0], args[1])
            if f == 'abs': return abs(args[0])
            if f == 'min': return min(args)
            if f == 'max': return max(args)
            raise U()
        raise U()
    def b(s):
        k = s[0]
        if k == 'log': return s[1]
        if k == 'cmp':
            l, r = z(s[2]), z(s[3])
            return {'==': l == r, '!=': l != r, '<': l < r, '<=': l <= r, '>': l > r, '>=': l >= r}[s[1]]
        if k == 'and': return all([b(c) for c in s[1:]])
        if k == 'or': return any([b(c) for c in s[1:]])
        if k == 'not': return not b(s[1])
        raise U()
    try:
        return b(s) if s[0] in ('log', 'cmp', 'and', 'or', 'not') else z(s)
    except U:
        return None
