"""MiniF on the Python side: JSON programs <-> Fortran text <-> Loki IR <-> Coq literals, a reference
interpreter mirroring coq/theories/Base/MiniF.v, a seeded generator, and a gfortran runner.

JSON statements:
  ['assign', x, E] | ['store', a, [E..], E] | ['do', v, Elo, Ehi, Estep|None, [S..]] | ['while', E, [S..]]
  | ['if', E, [S..], [S..]] | ['call', f, [E..]] | ['skip', label]
E = expression structure of bridge_expr (array element reads are ['call', name, idx...]).
A unit: {'name': str, 'args': [names], 'scalars': [names], 'arrays': {name: [[lo,hi],..]}, 'body': [S..], 'intents': {name: 'in'|'inout'|'out'}}"""
import os, subprocess, tempfile, shutil
import pymbolic.primitives as pmbl
from . import bridge_expr as B
from .coqlit import C, Nat, Some
from .evalz import tdiv

INTRINSICS = ('mod', 'modulo', 'abs', 'min', 'max')

# ------------------------------------------------------------------------------------ printing
def fexpr(s):
    """fully parenthesised Fortran text of an expression structure (independent of Loki's printer)"""
    k = s[0]
    if k in ('py', 'int'): return str(s[1]) if s[1] >= 0 else '(%d)' % s[1]
    if k == 'log': return '.true.' if s[1] else '.false.'
    if k == 'var': return s[1]
    if k == 'sum': return '(' + ' + '.join(fexpr(c) for c in s[2:]) + ')'
    if k == 'prod': return '(' + ' * '.join(fexpr(c) for c in s[2:]) + ')'
    if k == 'quot': return '(%s / %s)' % (fexpr(s[2]), fexpr(s[3]))
    if k == 'pow': return '(%s ** %s)' % (fexpr(s[2]), fexpr(s[3]))
    if k == 'cmp': return '(%s %s %s)' % (fexpr(s[2]), {'!=': '/='}.get(s[1], s[1]), fexpr(s[3]))
    if k == 'and': return '(' + ' .and. '.join(fexpr(c) for c in s[1:]) + ')'
    if k == 'or': return '(' + ' .or. '.join(fexpr(c) for c in s[1:]) + ')'
    if k == 'not': return '(.not. %s)' % fexpr(s[1])
    if k == 'call': return '%s(%s)' % (s[1], ', '.join(fexpr(c) for c in s[2:]))
    raise ValueError(s)

def fstmts(ss, ind=2):
    out = []
    pad = ' ' * ind
    for s in ss:
        k = s[0]
        if k == 'assign': out.append('%s%s = %s' % (pad, s[1], fexpr(s[2])))
        elif k == 'store': out.append('%s%s(%s) = %s' % (pad, s[1], ', '.join(fexpr(i) for i in s[2]), fexpr(s[3])))
        elif k == 'do':
            hdr = '%sdo %s = %s, %s' % (pad, s[1], fexpr(s[2]), fexpr(s[3]))
            if s[4] is not None: hdr += ', %s' % fexpr(s[4])
            out.append(hdr); out += fstmts(s[5], ind + 2); out.append(pad + 'end do')
        elif k == 'while':
            out.append('%sdo while (%s)' % (pad, fexpr(s[1]))); out += fstmts(s[2], ind + 2); out.append(pad + 'end do')
        elif k == 'if':
            out.append('%sif (%s) then' % (pad, fexpr(s[1]))); out += fstmts(s[2], ind + 2)
            if s[3]:
                out.append(pad + 'else'); out += fstmts(s[3], ind + 2)
            out.append(pad + 'end if')
        elif k == 'call': out.append('%scall %s(%s)' % (pad, s[1], ', '.join(fexpr(a) for a in s[2])))
        elif k == 'skip': out.append('%s! %s' % (pad, s[1]))
        else: raise ValueError(s)
    return out

def unit_to_fortran(u, contains=()):
    args = u.get('args', [])
    lines = ['subroutine %s(%s)' % (u['name'], ', '.join(args)), '  implicit none']
    intents = u.get('intents', {})
    for x in u.get('scalars', []):
        it = ', intent(%s)' % intents[x] if x in args and x in intents else ''
        lines.append('  integer%s :: %s' % (it, x))
    for a, dims in u.get('arrays', {}).items():
        it = ', intent(%s)' % intents[a] if a in args and a in intents else ''
        lines.append('  integer%s :: %s(%s)' % (it, a, ', '.join('%s:%s' % (fexpr(l) if isinstance(l, list) else l, fexpr(h) if isinstance(h, list) else h) for l, h in dims)))
    lines += fstmts(u['body'])
    if contains:
        lines.append('contains')
        for c in contains: lines += ['  ' + l for l in unit_to_fortran(c).split('\n')]
    lines.append('end subroutine %s' % u['name'])
    return '\n'.join(lines)

# ------------------------------------------------------------------------------------ Loki IR -> JSON
class Unsupported(Exception):
    pass

def from_loki(nodes, arrays=()):
    """Loki IR body (tuple of nodes) -> JSON statements.  Comments/pragmas become skips only if keep_comments."""
    from loki import ir
    from loki.expression import symbols as sym
    out = []
    for n in nodes:
        if isinstance(n, (ir.Comment, ir.CommentBlock, ir.Pragma)):
            continue
        if isinstance(n, ir.Section):
            out += from_loki(n.body, arrays); continue
        if isinstance(n, ir.Assignment):
            lhs = n.lhs
            if isinstance(lhs, sym.Array) and lhs.dimensions:
                out.append(['store', lhs.name.lower(), [B.structure(d) for d in lhs.dimensions], B.structure(n.rhs)])
            else:
                out.append(['assign', lhs.name.lower(), B.structure(n.rhs)])
        elif isinstance(n, ir.Loop):
            b = n.bounds
            out.append(['do', n.variable.name.lower(), B.structure(b.start), B.structure(b.stop),
                        None if b.step is None else B.structure(b.step), from_loki(n.body, arrays)])
        elif isinstance(n, ir.WhileLoop):
            out.append(['while', B.structure(n.condition), from_loki(n.body, arrays)])
        elif isinstance(n, ir.Conditional):
            out.append(['if', B.structure(n.condition), from_loki(n.body, arrays), from_loki(n.else_body or (), arrays)])
        elif isinstance(n, ir.CallStatement):
            if n.kwarguments: raise Unsupported('kwargs in call')
            out.append(['call', str(n.name).lower(), [B.structure(a) for a in n.arguments]])
        elif isinstance(n, (ir.VariableDeclaration, ir.ProcedureDeclaration, ir.Import, ir.Intrinsic)):
            continue
        else:
            raise Unsupported(type(n).__name__)
    return out

# ------------------------------------------------------------------------------------ JSON -> Coq
def stmt_model(s):
    k = s[0]
    if k == 'assign': return C('SAssign', s[1], B.model_of_structure(s[2]))
    if k == 'store': return C('SStore', s[1], [B.model_of_structure(i) for i in s[2]], B.model_of_structure(s[3]))
    if k == 'do': return C('SDo', s[1], B.model_of_structure(s[2]), B.model_of_structure(s[3]),
                           None if s[4] is None else Some(B.model_of_structure(s[4])), [stmt_model(x) for x in s[5]])
    if k == 'while': return C('SWhile', B.model_of_structure(s[1]), [stmt_model(x) for x in s[2]])
    if k == 'if': return C('SIf', B.model_of_structure(s[1]), [stmt_model(x) for x in s[2]], [stmt_model(x) for x in s[3]])
    if k == 'call': return C('SCall', s[1], [B.model_of_structure(a) for a in s[2]])
    if k == 'skip': return C('SSkip', s[1])
    raise ValueError(s)

def stmts_model(ss): return [stmt_model(s) for s in ss]

def store_model(store):
    """python store {'x': 3, 'a': {(1,): 4}} -> (scalars assoc, cells assoc) Coq literals"""
    sc = [(k, int(v)) for k, v in sorted(store.items()) if not isinstance(v, dict)]
    cells = [((k, [int(i) for i in idx]), int(v)) for k, d in sorted(store.items()) if isinstance(d, dict) for idx, v in sorted(d.items())]
    return sc, cells

def observe_spec(store):
    sc = [k for k, v in sorted(store.items()) if not isinstance(v, dict)]
    cells = [(k, [int(i) for i in idx]) for k, d in sorted(store.items()) if isinstance(d, dict) for idx in sorted(d)]
    return sc, cells

def observe(store, spec):
    sc, cells = spec
    return [store.get(x, 0) for x in sc] + [store.get(a, {}).get(tuple(i), 0) for a, i in cells]

# ------------------------------------------------------------------------------------ interpreter
class Stuck(Exception):
    pass

def _ev(s, st):
    k = s[0]
    if k in ('py', 'int'): return s[1]
    if k == 'var':
        v = st.get(s[1], 0)
        if isinstance(v, dict): raise Stuck('array as scalar')
        return v
    if k == 'sum': return sum(_ev(c, st) for c in s[2:])
    if k == 'prod':
        r = 1
        for c in s[2:]: r *= _ev(c, st)
        return r
    if k == 'quot':
        a, b = _ev(s[2], st), _ev(s[3], st)
        if b == 0: raise Stuck('div0')
        return tdiv(a, b)
    if k == 'pow':
        a, n = _ev(s[2], st), _ev(s[3], st)
        if n >= 0: return a ** n
        if a == 0: raise Stuck('0**neg')
        return tdiv(1, a ** (-n))
    if k == 'call':
        args = [_ev(c, st) for c in s[2:]]
        f = s[1]
        if f == 'mod':
            if args[1] == 0: raise Stuck('mod0')
            return args[0] - args[1] * tdiv(args[0], args[1])
        if f == 'modulo':
            if args[1] == 0: raise Stuck('mod0')
            return args[0] % args[1]
        if f == 'abs': return abs(args[0])
        if f == 'min': return min(args)
        if f == 'max': return max(args)
        arr = st.get(f, {})
        if not isinstance(arr, dict): raise Stuck('scalar as array')
        return arr.get(tuple(args), 0)
    raise Stuck('int expr ' + k)

def _evb(s, st):
    k = s[0]
    if k == 'log': return s[1]
    if k == 'cmp':
        l, r = _ev(s[2], st), _ev(s[3], st)
        return {'==': l == r, '!=': l != r, '<': l < r, '<=': l <= r, '>': l > r, '>=': l >= r}[s[1]]
    if k == 'and':
        vs = [_evb(c, st) for c in s[1:]]; return all(vs)
    if k == 'or':
        vs = [_evb(c, st) for c in s[1:]]; return any(vs)
    if k == 'not': return not _evb(s[1], st)
    raise Stuck('logical expr ' + k)

def interp(ss, st, procs=None, budget=None):
    """execute statements on store `st` (mutated and returned); raises Stuck on run-time errors / budget exhaustion"""
    budget = budget if budget is not None else [200000]
    procs = procs or {}
    for s in ss:
        budget[0] -= 1
        if budget[0] < 0: raise Stuck('budget')
        k = s[0]
        if k == 'assign': st[s[1]] = _ev(s[2], st)
        elif k == 'store':
            idx = tuple(_ev(i, st) for i in s[2]); v = _ev(s[3], st)
            st.setdefault(s[1], {})
            if not isinstance(st[s[1]], dict): raise Stuck('scalar as array')
            st[s[1]][idx] = v
        elif k == 'do':
            a, b = _ev(s[2], st), _ev(s[3], st)
            d = 1 if s[4] is None else _ev(s[4], st)
            if d == 0: raise Stuck('zero step')
            n = max(0, tdiv(b - a + d, d))
            i = a
            for _ in range(n):
                st[s[1]] = i
                interp(s[5], st, procs, budget)
                i += d
            st[s[1]] = i
        elif k == 'while':
            while _evb(s[1], st):
                budget[0] -= 1
                if budget[0] < 0: raise Stuck('budget')
                interp(s[2], st, procs, budget)
        elif k == 'if':
            interp(s[2] if _evb(s[1], st) else s[3], st, procs, budget)
        elif k == 'call':
            p = procs.get(s[1])
            if p is None: raise Stuck('unknown proc ' + s[1])
            params = p['params']
            if len(params) != len(s[2]): raise Stuck('arity')
            callee = {}
            for (d, isarr), a in zip(params, s[2]):
                if isarr:
                    if a[0] != 'var': raise Stuck('array actual')
                    callee[d] = dict(st.get(a[1], {}))
                else:
                    callee[d] = _ev(a, st)
            interp(p['body'], callee, procs, budget)
            for (d, isarr), a in zip(params, s[2]):
                if a[0] == 'var':
                    st[a[1]] = dict(callee.get(d, {})) if isarr else callee.get(d, 0)
        elif k == 'skip': pass
        else: raise ValueError(s)
    return st

def procs_model(procs):
    return [(name, C('Build_proc', [(d, bool(a)) for d, a in p['params']], stmts_model(p['body']))) for name, p in procs.items()]

# ------------------------------------------------------------------------------------ gfortran
def gfortran_run(sources, main, timeout=60, flags=('-O0', '-fcheck=bounds', '-ffree-line-length-none')):
    """compile the given Fortran source texts + main program text, run, return (ok, stdout or error text)"""
    d = tempfile.mkdtemp(prefix='lv_gf_')
    try:
        files = []
        for i, src in enumerate(list(sources) + [main]):
            p = os.path.join(d, 'f%d.f90' % i); open(p, 'w').write(src + '\n'); files.append(p)
        exe = os.path.join(d, 'a.out')
        r = subprocess.run(['gfortran'] + list(flags) + ['-o', exe] + files, cwd=d, stdout=subprocess.PIPE, stderr=subprocess.STDOUT, text=True, timeout=timeout)
        if r.returncode != 0: return False, 'compile: ' + r.stdout[-2000:]
        r = subprocess.run([exe], cwd=d, stdout=subprocess.PIPE, stderr=subprocess.STDOUT, text=True, timeout=timeout)
        if r.returncode != 0: return False, 'run: ' + r.stdout[-2000:]
        return True, r.stdout
    except subprocess.TimeoutExpired:
        return False, 'timeout'
    finally:
        shutil.rmtree(d, ignore_errors=True)

def main_program(unit, store, spec):
    """a main program that declares the unit's arguments, initialises them from `store`, calls the unit and prints the observation"""
    lines = ['program lv_main', '  implicit none']
    for x in unit.get('scalars', []):
        if x in unit['args']: lines.append('  integer :: %s' % x)
    for a, dims in unit.get('arrays', {}).items():
        if a in unit['args']:
            lines.append('  integer :: %s(%s)' % (a, ', '.join('%s:%s' % (l, h) for l, h in dims)))
    for x in unit['args']:
        v = store.get(x, 0)
        if isinstance(v, dict):
            lines.append('  %s = 0' % x)
            for idx, val in sorted(v.items()): lines.append('  %s(%s) = %d' % (x, ', '.join(str(i) for i in idx), val))
        else:
            lines.append('  %s = %d' % (x, v))
    lines.append('  call %s(%s)' % (unit['name'], ', '.join(unit['args'])))
    sc, cells = spec
    for x in sc: lines.append("  print '(I0)', %s" % x)
    for a, i in cells: lines.append("  print '(I0)', %s(%s)" % (a, ', '.join(str(j) for j in i)))
    lines.append('end program lv_main')
    return '\n'.join(lines)

# ------------------------------------------------------------------------------------ generator
def gen_body(rng, scalars, arrays, depth=2, nstmt=5, opts=None, loopvars=('i', 'j'), bound=4):
    """random well-behaved statements: all array indices stay within 1..bound (arrays declared 1:bound or larger),
    loop variables are not assigned in bodies, divisors are made non-zero by construction (x*x+1 style) unless opts['div_raw']"""
    o = {'while': False, 'if': 0.25, 'do': 0.3, 'store': 0.25, 'quot': 0.15, 'neg_step': 0.2}
    o.update(opts or {})
    def idx(free):
        # an index expression guaranteed in 1..bound: a loop variable in scope, a literal, or mod(abs(x), bound)+1
        ch = rng.random()
        if free and ch < 0.6: return ['var', rng.choice(free)]
        if ch < 0.8: return ['int', rng.randint(1, bound)]
        return ['sum', False, ['call', 'mod', ['call', 'abs', ['var', rng.choice(scalars)]], ['int', bound]], ['int', 1]]
    def ex(d, free):
        r = rng.random()
        if d <= 0 or r < 0.3:
            c = rng.random()
            if c < 0.35: return ['int', rng.randint(0, 5)]
            if c < 0.8 or not arrays: return ['var', rng.choice(scalars + list(free))]
            a = rng.choice(sorted(arrays)); return ['call', a] + [idx(free) for _ in arrays[a]]
        if r < 0.55: return ['sum', False, ex(d - 1, free), ex(d - 1, free)]
        if r < 0.7: return ['sum', False, ex(d - 1, free), ['prod', False, ['py', -1], ex(d - 1, free)]]
        if r < 0.9 or rng.random() > o['quot']: return ['prod', False, ex(d - 1, free), ex(d - 1, free)]
        den = ex(d - 1, free)
        return ['quot', False, ex(d - 1, free), ['sum', True, ['prod', False, den, den], ['int', 1]]]
    def cond(free):
        return ['cmp', rng.choice(['<', '<=', '>', '>=', '==', '!=']), ex(1, free), ex(1, free)]
    def stmts(d, n, free):
        out = []
        for _ in range(n):
            r = rng.random()
            if d > 0 and r < o['do'] and len(free) < len(loopvars):
                v = loopvars[len(free)]
                if rng.random() < o['neg_step']:
                    lo, hi, st = ['int', rng.randint(1, bound)], ['int', 1], ['prod', False, ['py', -1], ['int', 1]] if rng.random() < 0.5 else ['int', -1]
                else:
                    lo, hi, st = ['int', 1], ['int', rng.randint(1, bound)], (None if rng.random() < 0.7 else ['int', rng.choice([1, 2])])
                out.append(['do', v, lo, hi, st, stmts(d - 1, rng.randint(1, 3), free + [v])])
            elif d > 0 and r < o['do'] + o['if']:
                out.append(['if', cond(free), stmts(d - 1, rng.randint(1, 2), free), stmts(d - 1, rng.randint(0, 2), free)])
            elif arrays and r < o['do'] + o['if'] + o['store']:
                a = rng.choice(sorted(arrays))
                out.append(['store', a, [idx(free) for _ in arrays[a]], ex(2, free)])
            else:
                out.append(['assign', rng.choice(scalars), ex(2, free)])
        return out
    return stmts(depth, nstmt, [])

def gen_store(rng, scalars, arrays, bound=4, lo=-3, hi=5):
    import itertools
    st = {x: rng.randint(lo, hi) for x in scalars}
    for a, dims in arrays.items():
        st[a] = {idx: rng.randint(lo, hi) for idx in itertools.product(*[range(l, h + 1) for l, h in dims])}
    return st
