"""Generic check flow: proof obligations, correspondence (model vs implementation), direct oracle,
known findings, verdict and evidence.  See DESIGN.md section 2.3."""
import os, sys, json, time, random, hashlib, traceback, importlib
from . import coqrun

VERIF = coqrun.VERIF
EVID = os.path.join(VERIF, 'evidence')
REPLAYS = os.path.join(VERIF, 'replays')
KNOWN = os.path.join(VERIF, 'known_findings.json')

BASE_TRUST = [
    'Coq 8.16.1 kernel (coqc); vm_compute used in proofs of finite sweeps/witness lemmas and to evaluate the model on the generated cases; native_compute not used',
    'hand-written Gallina model of the anchored code; tied to /repo working tree by the correspondence run of this check (same inputs through model and implementation)',
    'Python harness: generators, Loki-IR -> Coq-literal bridge, canonicalisers, direct oracles (trusted for the correspondence/search only, never for a theorem)',
]

class Property:
    id = None
    title = ''
    imports = []            # Coq modules (under LV.) needed by the case terms
    theorem_file = None     # theories/props/T_Cnn.v
    prelude = ''            # extra Coq text for case files
    parallel = False        # run implementation side in a process pool
    allowed_axioms = set()
    rule = ''
    modelled_not_verified = []
    level_text = ''
    shard = 300

    # -- to be provided by subclasses ------------------------------------------------
    def generate(self, rng, tier):
        """yield cases: JSON-serialisable dicts with at least 'kind'"""
        raise NotImplementedError
    def run_impl(self, case):
        """run the real Loki code; return a JSON-serialisable canonical output"""
        raise NotImplementedError
    def model_term(self, case, out):
        """Coq boolean term: does the model produce `out` on `case`?  None = no model tie for this case"""
        return None
    def oracle(self, case, out):
        """direct check of the property on the implementation's behaviour; None = ok, str = what fails"""
        return None
    def nontrivial_key(self, case, out):
        return json.dumps(case, sort_keys=True, default=str)
    def search(self, rng, bad_cases):
        """intensified search for a concrete failing input around disagreeing cases; yields extra cases"""
        return []
    def extra_obligations(self, tier):
        """additional machine-checked obligations (e.g. regenerated tables); returns list of (name, ok, detail)"""
        return []
    def show_model(self, case, out):
        """Coq terms whose value helps to diagnose a disagreement"""
        return []

def load_known(pid):
    """known findings of a property: the committed known_findings.json is authoritative; while a property is still
    being built (not yet listed in manifest.d/_ready.txt, hence not assembled) its findings.d fragment is used"""
    out = []
    if os.path.exists(KNOWN):
        data = json.load(open(KNOWN))
        out = [f for f in data.get('findings', []) if f.get('property') == pid]
    try:
        ready = set(open(os.path.join(VERIF, 'manifest.d', '_ready.txt')).read().split())
    except OSError:
        ready = set()
    frag = os.path.join(VERIF, 'findings.d', pid + '.json')
    if pid not in ready and os.path.exists(frag):
        out = [f for f in json.load(open(frag)).get('findings', []) if f.get('property') == pid]
    return out

def _case_key(case):
    c = {k: v for k, v in case.items() if not k.startswith('_')}
    return json.dumps(c, sort_keys=True, default=str)

def _impl_and_oracle(args):
    prop, case = args
    try:
        out = prop.run_impl(case)
    except Exception as e:  # the implementation raised where the harness did not expect it
        out = {'__exception__': type(e).__name__, 'msg': str(e)[:300], 'tb': traceback.format_exc()[-1500:]}
    try:
        fail = prop.oracle(case, out)
    except Exception as e:
        fail = 'oracle raised %s: %s' % (type(e).__name__, str(e)[:300])
    return out, fail

_POOL_PROP = None
def _pool_init(modname, clsname):
    global _POOL_PROP
    mod = importlib.import_module(modname)
    _POOL_PROP = getattr(mod, clsname)()
def _pool_run(case):
    return _impl_and_oracle((_POOL_PROP, case))

def run_cases(prop, cases):
    if prop.parallel and len(cases) > 8:
        import multiprocessing as mp
        ctx = mp.get_context('fork')
        with ctx.Pool(min(coqrun.njobs(14), os.cpu_count() or 4), initializer=_pool_init,
                      initargs=(type(prop).__module__, type(prop).__name__)) as pool:
            return pool.map(_pool_run, cases, chunksize=max(1, len(cases) // 64))
    return [_impl_and_oracle((prop, c)) for c in cases]

def write_replay(pid, payload):
    os.makedirs(REPLAYS, exist_ok=True)
    h = hashlib.sha1(json.dumps(payload, sort_keys=True, default=str).encode()).hexdigest()[:10]
    p = os.path.join(REPLAYS, '%s_%s.json' % (pid, h))
    json.dump(payload, open(p, 'w'), indent=1, default=str)
    return p

def run_check(prop, tier='quick', seed=0, replay=None):
    t0 = time.time()
    pid = prop.id
    rng = random.Random(('%s/%s' % (pid, seed)))
    violations = []      # (replay_path, suffix)
    notes = []

    if replay:
        payload = json.load(open(replay))
        case = payload.get('case')
        if case is None:
            print('replay names no concrete input: %s' % payload.get('broken'))
            return 1
        out, fail = _impl_and_oracle((prop, case))
        print(json.dumps({'case': case, 'impl_output': out, 'oracle_failure': fail}, indent=1, default=str))
        return 1 if fail else 0

    # ---- 1. proof obligations ---------------------------------------------------------
    th = coqrun.check_theorems(prop.theorem_file)
    forb = coqrun.scan_forbidden()
    obligations = len(th['theorems'])
    discharged = 0
    axioms_used = set()
    proof_broken = []
    if not th['ok']:
        proof_broken.append('Coq build of %s failed: %s' % (prop.theorem_file, th['log'][-1500:]))
    else:
        for nm in th['theorems']:
            if nm not in th['assumptions']:
                proof_broken.append('theorem %s has no Print Assumptions' % nm)
                continue
            ax = set(th['assumptions'][nm])
            bad = {a for a in ax if a.split('.')[-1] not in {x.split('.')[-1] for x in (coqrun.STDLIB_AXIOMS | set(prop.allowed_axioms))}}
            if bad:
                proof_broken.append('theorem %s depends on undeclared axioms %s' % (nm, sorted(bad)))
            else:
                discharged += 1
                axioms_used |= ax
        if obligations == 0:
            proof_broken.append('no theorem found in %s' % prop.theorem_file)
    if forb:
        proof_broken.append('forbidden constructs in the development: %s' % forb[:5])
    chk_note = None
    if tier == 'thorough' and th['ok']:
        okc, outc = coqrun.coqchk(prop.theorem_file)
        chk_note = outc[-1200:]
        obligations += 1
        if okc: discharged += 1
        else: proof_broken.append('coqchk failed on %s: %s' % (prop.theorem_file, outc[-800:]))
    for name, ok, detail in prop.extra_obligations(tier):
        obligations += 1
        if ok: discharged += 1
        else: proof_broken.append('obligation %s failed: %s' % (name, detail))

    # ---- 2. cases: corpus (fixed findings, minimised past disagreements) then generated ----
    known = load_known(pid)
    cases = []
    seen = set()
    for f in known:
        if f.get('status') == 'fixed' and f.get('case') is not None:
            c = dict(f['case']); c.setdefault('kind', 'corpus'); c['_origin'] = 'fixed-finding'
            cases.append(c); seen.add(_case_key(c))
    cdir = os.path.join(VERIF, 'corpus', pid)
    if os.path.isdir(cdir):
        for n in sorted(os.listdir(cdir)):
            if n.endswith('.json'):
                c = json.load(open(os.path.join(cdir, n))); c['_origin'] = 'corpus:' + n
                if _case_key(c) not in seen:
                    cases.append(c); seen.add(_case_key(c))
    for c in prop.generate(rng, tier):
        cases.append(c)
    known_keys = {}
    for f in known:
        if f.get('status') == 'known' and f.get('case') is not None:
            known_keys[_case_key(f['case'])] = f

    # ---- 3/4. implementation, oracle, model ------------------------------------------
    results = run_cases(prop, cases)
    terms, term_idx = [], []
    dist = {}
    nontriv = set()
    oracle_fail = []
    for i, (c, (out, fail)) in enumerate(zip(cases, results)):
        dist[c.get('kind', '?')] = dist.get(c.get('kind', '?'), 0) + 1
        if isinstance(out, dict) and '__exception__' in out:
            dist['impl-exception:' + out['__exception__']] = dist.get('impl-exception:' + out['__exception__'], 0) + 1
        try:
            k = prop.nontrivial_key(c, out)
        except Exception:
            k = None
        if k is not None:
            nontriv.add(k if isinstance(k, str) else json.dumps(k, sort_keys=True, default=str))
        if fail:
            oracle_fail.append((i, fail))
        try:
            t = prop.model_term(c, out)
        except Exception as e:
            t = None
            notes.append('model_term raised %s on case %d' % (e, i))
            oracle_fail.append((i, 'implementation output not representable for the model: %s' % e)) if False else None
            proof_broken.append('correspondence: case %d not expressible for the model (%s: %s)' % (i, type(e).__name__, str(e)[:200]))
        if t is not None:
            terms.append(t); term_idx.append(i)
    bad, err = coqrun.eval_bool_terms(prop.imports, terms, shard=prop.shard, prelude=prop.prelude)
    disagreements = sorted(term_idx[j] for j in bad)
    if err:
        notes.append('coqc error while evaluating cases: ' + err[-800:])

    # ---- 5. known findings -------------------------------------------------------------
    for f in known:
        if f.get('status') != 'known' or f.get('case') is None:
            continue
        out, fail = _impl_and_oracle((prop, f['case']))
        if fail:
            print('KNOWN-FINDING: property=%s %s [%s]' % (pid, f.get('what', ''), fail[:160]))
        else:
            notes.append('known finding %s no longer reproduces' % f.get('id', f.get('what', ''))[:120])

    # ---- 6. verdict ----------------------------------------------------------------------
    new_fail = []
    for i, fail in oracle_fail:
        if _case_key(cases[i]) in known_keys:
            continue
        new_fail.append((i, fail))
    if (disagreements or proof_broken) and not new_fail:
        # intensified search for a concrete failing input
        extra = list(prop.search(rng, [cases[i] for i in disagreements[:20]]))
        if extra:
            for c, (out, fail) in zip(extra, run_cases(prop, extra)):
                if fail and _case_key(c) not in known_keys:
                    cases.append(c); results.append((out, fail)); new_fail.append((len(cases) - 1, fail))
    for i, fail in new_fail[:5]:
        p = write_replay(pid, {'property': pid, 'case': cases[i], 'impl_output': results[i][0], 'failure': fail,
                               'how': './check %s --replay <this file>' % pid})
        violations.append((p, ''))
    if not new_fail and disagreements:
        i = disagreements[0]
        try:
            shown = coqrun.eval_terms_show(prop.imports, prop.show_model(cases[i], results[i][0]), prelude=prop.prelude)[-3000:]
        except Exception as e:
            shown = 'n/a (%s)' % e
        p = write_replay(pid, {'property': pid, 'broken': 'correspondence model<->implementation for %s' % pid,
                               'disagreeing_case': cases[i], 'impl_output': results[i][0], 'model_term': terms[term_idx.index(i)][:4000],
                               'model_shows': shown, 'n_disagreements': len(disagreements), 'coqc_error': err})
        violations.append((p, ' no-failing-input-found'))
    elif not new_fail and proof_broken:
        p = write_replay(pid, {'property': pid, 'broken': proof_broken})
        violations.append((p, ' no-failing-input-found'))

    # ---- evidence -----------------------------------------------------------------------
    samples = []
    for c, (out, _) in list(zip(cases, results))[:: max(1, len(cases) // 4)][:4]:
        samples.append({'case': {k: v for k, v in c.items() if not k.startswith('_')}, 'impl_output': out})
    trusted = list(BASE_TRUST)
    trusted.append('axioms reported by Print Assumptions under the property theorems: %s' % (sorted(axioms_used) or 'none (closed under the global context)'))
    trusted += ['modelled, not verified: ' + m for m in prop.modelled_not_verified]
    ev = {
        'property_id': pid, 'tier': tier, 'seed': int(seed), 'level': 'proof',
        'coverage': {
            'obligations': obligations, 'discharged': discharged if not forb else 0,
            'checker_cmd': 'cd /verif/coq && make %s.vo && coqc -Q theories LV %s  (Print Assumptions under every theorem)' % (prop.theorem_file[:-2], prop.theorem_file),
            'trusted_base': trusted,
            'theorems': th['theorems'],
            'coqchk': chk_note,
            'evaluations': len(cases), 'distinct_nontrivial': len(nontriv),
            'rule': prop.rule,
            'samples': json.loads(json.dumps(samples, default=str)),
            'traces_validated_against_impl': len(terms),
            'model_impl_disagreements': len(disagreements),
            'oracle_failures_known': len(oracle_fail) - len([1 for i, _ in oracle_fail if _case_key(cases[i]) not in known_keys]),
            'oracle_failures_new': len(new_fail),
            'input_distribution': dist,
            'exhaustive': bool(getattr(prop, 'exhaustive', False)),
        },
        'assumptions': prop.modelled_not_verified + notes[:10],
        'wall_s': round(time.time() - t0, 2),
        'violations': len(violations),
    }
    if not os.environ.get('LOKI_VERIF_NO_EVIDENCE'):
        # experiments against a scratch copy (tools/run_seeded.sh) must not overwrite the evidence of /repo
        os.makedirs(EVID, exist_ok=True)
        json.dump(ev, open(os.path.join(EVID, pid + '.json'), 'w'), indent=1, default=str)

    print('%s tier=%s seed=%s: %d/%d obligations discharged, %d cases (%d distinct non-trivial), %d model/impl disagreements, %d oracle failures (%d new) in %.1fs'
          % (pid, tier, seed, discharged, obligations, len(cases), len(nontriv), len(disagreements), len(oracle_fail), len(new_fail), time.time() - t0))
    for nline in notes[:5]:
        print('note: ' + nline[:300])
    for p, suffix in violations:
        print('VIOLATION property=%s replay=%s%s' % (pid, p, suffix))
    return 1 if violations else 0
