"""Build the Coq development and evaluate generated case files with vm_compute."""
import os, re, subprocess, fcntl, shutil, time, tempfile
from concurrent.futures import ThreadPoolExecutor

VERIF = os.path.dirname(os.path.dirname(os.path.dirname(os.path.abspath(__file__))))
COQDIR = os.path.join(VERIF, 'coq')
FORBIDDEN = re.compile(r'\b(Admitted|admit|Axiom|Axioms|Parameter|Parameters|Conjecture|Conjectures|Admit Obligations|bypass_check|native_compute)\b|Unset\s+Guard|Unset\s+Positivity|Unset\s+Universe|type-in-type|impredicative-set')
# axioms of the standard library that a theorem may depend on (named in the trusted base when present)
STDLIB_AXIOMS = {
    'functional_extensionality_dep', 'FunctionalExtensionality.functional_extensionality_dep',
    'Eqdep.Eq_rect_eq.eq_rect_eq', 'eq_rect_eq', 'JMeq.JMeq_eq', 'JMeq_eq',
    'Classical_Prop.classic', 'classic', 'ProofIrrelevance.proof_irrelevance', 'proof_irrelevance',
    'propositional_extensionality', 'PropExtensionality.propositional_extensionality',
}

class CoqError(Exception):
    pass

def njobs(default=14):
    """parallelism: env LOKI_VERIF_JOBS, else the untracked file /verif/.jobs (used to throttle while many
    builders share the machine), else `default`"""
    v = os.environ.get('LOKI_VERIF_JOBS')
    if not v:
        try: v = open(os.path.join(VERIF, '.jobs')).read().strip()
        except OSError: v = ''
    try: return max(1, min(default, int(v)))
    except ValueError: return default

def _lock():
    f = open(os.path.join(COQDIR, '.lock'), 'w')
    fcntl.flock(f, fcntl.LOCK_EX)
    return f

def gen_project():
    files = []
    for root, _, names in os.walk(os.path.join(COQDIR, 'theories')):
        for n in names:
            if n.endswith('.v'):
                files.append(os.path.relpath(os.path.join(root, n), COQDIR))
    files.sort()
    text = '-Q theories LV\n' + '\n'.join(files) + '\n'
    p = os.path.join(COQDIR, '_CoqProject')
    old = open(p).read() if os.path.exists(p) else None
    if old != text or not os.path.exists(os.path.join(COQDIR, 'Makefile')):
        open(p, 'w').write(text)
        subprocess.run(['coq_makefile', '-f', '_CoqProject', '-o', 'Makefile'], cwd=COQDIR,
                       check=True, stdout=subprocess.DEVNULL, stderr=subprocess.DEVNULL)

def make(targets=None, jobs=None, timeout=1500):
    """Full .vo build of the given targets (or everything). Returns (ok, log)."""
    lk = _lock()
    try:
        gen_project()
        jobs = jobs or njobs(8)
        cmd = ['timeout', str(timeout), 'make', '-j%d' % jobs] + (targets or [])
        r = subprocess.run(cmd, cwd=COQDIR, stdout=subprocess.PIPE, stderr=subprocess.STDOUT, text=True)
        if r.returncode != 0 and ('No rule to make target' in r.stdout or 'No such file' in r.stdout):
            # a source file appeared/vanished between project generation and the build: regenerate once and retry
            try: os.unlink(os.path.join(COQDIR, '_CoqProject'))
            except OSError: pass
            for d in ('.Makefile.d', 'Makefile.conf'):
                try: os.unlink(os.path.join(COQDIR, d))
                except OSError: pass
            gen_project()
            r = subprocess.run(cmd, cwd=COQDIR, stdout=subprocess.PIPE, stderr=subprocess.STDOUT, text=True)
        return r.returncode == 0, r.stdout
    finally:
        lk.close()

def scan_forbidden(files=None):
    """grep the development for constructs that would weaken the kernel's verdict"""
    hits = []
    for root, _, names in os.walk(os.path.join(COQDIR, 'theories')):
        for n in names:
            if not n.endswith('.v'): continue
            p = os.path.join(root, n)
            txt = strip_comments(open(p).read())
            depth = 0
            for i, line in enumerate(txt.split('\n'), 1):
                if FORBIDDEN.search(line):
                    hits.append('%s:%d: %s' % (os.path.relpath(p, COQDIR), i, line.strip()))
                # Variable / Hypothesis / Context outside a Section declare axioms
                if re.match(r'\s*(Section|Module\s+Type)\s+\w+', line): depth += 1
                elif re.match(r'\s*End\s+\w+\s*\.', line) and depth > 0: depth -= 1
                elif depth == 0 and re.match(r'\s*(Variable|Variables|Hypothesis|Hypotheses|Context)\b', line):
                    hits.append('%s:%d: %s (outside a Section)' % (os.path.relpath(p, COQDIR), i, line.strip()))
    return hits

def strip_comments(txt):
    out, depth, i, n = [], 0, 0, len(txt)
    instr = False
    while i < n:
        if not instr and txt.startswith('(*', i):
            depth += 1; i += 2; continue
        if not instr and depth and txt.startswith('*)', i):
            depth -= 1; i += 2; continue
        ch = txt[i]
        if depth == 0:
            if ch == '"': instr = not instr
            out.append(ch)
        elif ch == '\n':
            out.append(ch)
        i += 1
    return ''.join(out)

def check_theorems(tfile, timeout=600):
    """(Re)compile the property-theorem file, return dict with theorem names and their assumptions."""
    rel = os.path.relpath(tfile, COQDIR) if os.path.isabs(tfile) else tfile
    ok, log = make([rel[:-2] + '.vo'])
    res = {'ok': ok, 'log': log[-4000:], 'theorems': [], 'assumptions': {}, 'closed': 0}
    if not ok:
        return res
    lk = _lock()
    try:
        tmpd = tempfile.mkdtemp(prefix='lv_t_')
        try:
            r = subprocess.run(['timeout', str(timeout), 'coqc', '-Q', 'theories', 'LV', '-o', os.path.join(tmpd, os.path.basename(rel)[:-2] + '.vo'), rel],
                               cwd=COQDIR, stdout=subprocess.PIPE, stderr=subprocess.STDOUT, text=True)
        finally:
            shutil.rmtree(tmpd, ignore_errors=True)
    finally:
        lk.close()
    if r.returncode != 0:
        res['ok'] = False; res['log'] = r.stdout[-4000:]
        return res
    src = strip_comments(open(os.path.join(COQDIR, rel)).read())
    names = re.findall(r'^\s*Theorem\s+([A-Za-z0-9_\']+)', src, re.M)
    printed = re.findall(r'Print\s+Assumptions\s+([A-Za-z0-9_\']+)\s*\.', src)
    res['theorems'] = names
    # split output into blocks, one per Print Assumptions in order
    blocks = re.split(r'(?=Closed under the global context|^Axioms:)', r.stdout, flags=re.M)
    blocks = [b for b in blocks if b.startswith('Closed under') or b.startswith('Axioms:')]
    for nm, b in zip(printed, blocks):
        if b.startswith('Closed under'):
            res['assumptions'][nm] = []
        else:
            ax = re.findall(r'^([A-Za-z_][A-Za-z0-9_\.\']*)\s*:', b[len('Axioms:'):], re.M)
            res['assumptions'][nm] = ax
    res['n_blocks'] = len(blocks)
    res['printed'] = printed
    return res

CASE_HEADER = """From Coq Require Import ZArith List Bool String Ascii.
Import ListNotations.
Open Scope Z_scope.
%s
Definition str_of_codes (l : list nat) : string :=
  fold_right (fun c s => String (ascii_of_nat c) s) EmptyString l.
Fixpoint lv_falses (i : nat) (l : list bool) : list nat :=
  match l with [] => [] | b :: r => if b then lv_falses (S i) r else i :: lv_falses (S i) r end.
"""

def eval_bool_terms(imports, terms, shard=300, jobs=None, timeout=900, prelude=''):
    """Evaluate Coq boolean terms with vm_compute.  Returns (set of indices that are false, error_or_None)."""
    if not terms:
        return set(), None
    jobs = jobs or njobs(12)
    work = tempfile.mkdtemp(prefix='lv_cases_')
    header = CASE_HEADER % ('\n'.join('From LV Require Import %s.' % m for m in imports) + '\n' + prelude)
    shards = [(i, terms[i:i + shard]) for i in range(0, len(terms), shard)]
    def run(sh):
        base, ts = sh
        name = 'cases_%d' % base
        p = os.path.join(work, name + '.v')
        with open(p, 'w') as f:
            f.write(header)
            f.write('Definition lv_cases : list bool := [\n')
            f.write(';\n'.join(ts))
            f.write('\n].\nEval vm_compute in (lv_falses 0%nat lv_cases).\n')
        r = subprocess.run(['timeout', str(timeout), 'coqc', '-Q', os.path.join(COQDIR, 'theories'), 'LV', p],
                           cwd=work, stdout=subprocess.PIPE, stderr=subprocess.STDOUT, text=True)
        if r.returncode != 0:
            return base, None, r.stdout[-3000:]
        m = re.search(r'=\s*\[(.*?)\]\s*(%nat)?\s*:\s*list nat', r.stdout, re.S)
        if not m:
            return base, None, 'unparsable coqc output: ' + r.stdout[-1000:]
        idx = [int(x) for x in re.findall(r'\d+', m.group(1))]
        return base, idx, None
    bad, err = set(), None
    try:
        with ThreadPoolExecutor(max_workers=jobs) as ex:
            for base, idx, e in ex.map(run, shards):
                if e is not None:
                    err = e if err is None else err
                    # find the individual failing term(s) later if needed
                    bad.update(range(base, base + len(dict(shards)[base])))
                else:
                    bad.update(base + i for i in idx)
    finally:
        shutil.rmtree(work, ignore_errors=True)
    return bad, err

def eval_terms_show(imports, terms, timeout=300, prelude=''):
    """Evaluate arbitrary Coq terms and return coqc's raw output (diagnostics for replays)."""
    work = tempfile.mkdtemp(prefix='lv_show_')
    try:
        p = os.path.join(work, 'show.v')
        with open(p, 'w') as f:
            f.write(CASE_HEADER % ('\n'.join('From LV Require Import %s.' % m for m in imports) + '\n' + prelude))
            for t in terms:
                f.write('Eval vm_compute in (%s).\n' % t)
        r = subprocess.run(['timeout', str(timeout), 'coqc', '-Q', os.path.join(COQDIR, 'theories'), 'LV', p],
                           cwd=work, stdout=subprocess.PIPE, stderr=subprocess.STDOUT, text=True)
        return r.stdout
    finally:
        shutil.rmtree(work, ignore_errors=True)

def coqchk(tfile, timeout=1500):
    rel = os.path.relpath(tfile, COQDIR) if os.path.isabs(tfile) else tfile
    mod = 'LV.' + rel[len('theories/'):-2].replace('/', '.')
    r = subprocess.run(['timeout', str(timeout), 'coqchk', '-silent', '-o', '-Q', 'theories', 'LV', mod],
                       cwd=COQDIR, stdout=subprocess.PIPE, stderr=subprocess.STDOUT, text=True)
    return r.returncode == 0, r.stdout[-3000:]
