#!/bin/bash
# Offline build of the whole Coq development (full .vo build, never -vos).
set -e
# -k: a file that fails to build must not prevent the other properties' files from being built;
# every check re-builds (and re-checks) its own theorem file and reports a broken proof itself.
HERE="$(cd "$(dirname "$0")" && pwd)"
cd "$HERE/coq"
(echo "-Q theories LV"; find theories -name '*.v' | sort) > _CoqProject
coq_makefile -f _CoqProject -o Makefile > /dev/null
timeout 3000 make -k -j16 || echo 'setup: some Coq files failed to build (the affected checks will report it)'
