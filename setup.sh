#!/bin/bash
# Offline build of the whole Coq development (full .vo build, never -vos).
set -e
HERE="$(cd "$(dirname "$0")" && pwd)"
cd "$HERE/coq"
(echo "-Q theories LV"; find theories -name '*.v' | sort) > _CoqProject
coq_makefile -f _CoqProject -o Makefile > /dev/null
timeout 3000 make -j16
