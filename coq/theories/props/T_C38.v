(** C38 — property theorems only (temporaries: stack / pool allocation and hoisting). *)
From Coq Require Import ZArith List Bool String.
From LV Require Import Base.Expr Base.MiniF models.M_C38 proofs.P_C38_expr proofs.P_C38 proofs.P_C38_more proofs.P_C38_hoist proofs.P_C38_hclass.
Import ListNotations.
Open Scope Z_scope.

(** Enough storage on every call path: for every call tree whose size expressions and actual arguments only mention
    the dummies of the kernel they occur in, and every valuation on which the allocation protocol runs (all sizes
    defined and non-negative), the highest value the stack pointer reaches is EXACTLY start + the value of the size
    expression [_determine_stack_size] builds ([dbl = true], the FtrPtr/DirectIdx variant, only for idempotent calls). *)
Theorem C38_highwater_eq_size : forall dbl g k rho p live d h sn,
  closed_tree k = true -> (dbl = true -> idem_tree k = true) -> funeq rho g ->
  sim g k rho p live = Some (d, h, sn) ->
  evalZ rho (ssize dbl k) = Some (h - p) /\ p <= h.
Proof. exact highwater_eq_size. Qed.
Print Assumptions C38_highwater_eq_size.

Theorem C38_highwater_le_size : forall g k rho p live d h sn v,
  closed_tree k = true -> funeq rho g ->
  sim g k rho p live = Some (d, h, sn) -> evalZ rho (ssize false k) = Some v -> h <= p + v.
Proof. exact highwater_le_size. Qed.
Print Assumptions C38_highwater_le_size.

(** At every kernel activation the live temporaries (its own and those of all its callers) are pairwise disjoint and
    lie inside [base, base + computed size). *)
Theorem C38_allocations_disjoint : forall dbl g k rho base d h sn v,
  closed_tree k = true -> (dbl = true -> idem_tree k = true) -> funeq rho g ->
  sim g k rho base [] = Some (d, h, sn) -> evalZ rho (ssize dbl k) = Some v ->
  Forall (fun s => ForallOrdPairs disjoint s /\
                   Forall (fun iv => base <= fst iv /\ fst iv <= snd iv /\ snd iv <= base + v) s) sn.
Proof. exact allocations_disjoint. Qed.
Print Assumptions C38_allocations_disjoint.

(** After any sequence of calls the caller's stack pointer is what it was before (the callee copies the dummy and
    never assigns it). *)
Theorem C38_stack_reset_after_call : forall g cs rho pl live pl' h sn,
  simcs g cs rho pl live = Some (pl', h, sn) -> pl' = pl.
Proof. exact stack_reset_after_call. Qed.
Print Assumptions C38_stack_reset_after_call.

(** A size/shape expression of the callee with the dummies replaced by the call's actuals has, in the caller, the
    value it has in the callee; and so along a whole call path down from the driver. *)
Theorem C38_hoist_size_subst_correct : forall g rho ps acts rc e,
  call_env g rho ps acts = Some rc -> closedb ps e = true -> funeq rho g ->
  evalZ rho (subst (combine ps acts) e) = evalZ rc e.
Proof. exact hoist_size_subst_correct. Qed.
Print Assumptions C38_hoist_size_subst_correct.

Theorem C38_hoist_path_subst_correct : forall g cur rho path rl e,
  closed_path cur path e = true -> funeq rho g -> env_path g rho path = Some rl ->
  evalZ rho (subst_path path e) = evalZ rl e.
Proof. exact hoist_path_subst_correct. Qed.
Print Assumptions C38_hoist_path_subst_correct.

(** The per-block slices of the driver's stack do not overlap and stay inside the allocation. *)
Theorem C38_block_ranges_disjoint : forall size nb b1 b2,
  0 <= size -> 1 <= b1 -> b1 < b2 -> b2 <= nb ->
  block_base size b1 + size <= block_base size b2 /\ 0 <= block_base size b1 /\ block_base size b2 + size <= nb * size.
Proof. exact block_ranges_disjoint. Qed.
Print Assumptions C38_block_ranges_disjoint.

(** Pool allocator units: ISHFT(bytes + 7, -3) 8-byte words cover the bytes of the temporary (and waste < 8). *)
Theorem C38_pool_words_cover_bytes : forall n b, 0 <= n -> 0 <= b -> n * b <= 8 * ((n * b + 7) / 2 ^ 3) < n * b + 8.
Proof. exact pool_words_cover_bytes. Qed.
Print Assumptions C38_pool_words_cover_bytes.

Theorem C38_pool_units_value : forall rho t ds,
  omap_list (evalZ rho) (t_dims t) = Some ds -> 0 <= prodz ds * t_bytes t ->
  (forall f a, ev_fun rho f a = cfun f a) ->
  evalZ rho (units MPool t) = Some ((prodz ds * t_bytes t + 7) / 2 ^ 3).
Proof. exact evalZ_pool_units. Qed.
Print Assumptions C38_pool_units_value.

(** FtrPtr addressing: every element of every live temporary is an index inside 1..size. *)
Theorem C38_ftr_indices_in_bounds : forall dbl g k rho d h sn v,
  closed_tree k = true -> (dbl = true -> idem_tree k = true) -> funeq rho g ->
  sim g k rho 1 [] = Some (d, h, sn) -> evalZ rho (ssize dbl k) = Some v ->
  Forall (fun s => Forall (fun iv => forall i, 1 <= i <= snd iv - fst iv ->
                                               1 <= addr_ftr (fst iv) i <= v) s) sn.
Proof. exact ftr_indices_in_bounds. Qed.
Print Assumptions C38_ftr_indices_in_bounds.

(** Refutations of the unconditional statements (defects of the current code, witnesses computed by vm_compute). *)
(** DirectIdx: the last element of the topmost temporary has index size + 1. *)
Theorem C38_idx_off_by_one_refuted :
  exists k rho iv v,
    sim (cenv []) k rho 1 [] = Some (1, 1 + v, [[iv]]) /\ evalZ rho (ssize true k) = Some v /\
    addr_idx (fst iv) (snd iv - fst iv) > v.
Proof. exact idx_off_by_one_refuted. Qed.
Print Assumptions C38_idx_off_by_one_refuted.

Theorem C38_idx_top_index_exceeds_stack : forall lo hi v,
  hi = 1 + v -> lo < hi -> addr_idx lo (hi - lo) = v + 1.
Proof. exact idx_top_index_exceeds_stack. Qed.
Print Assumptions C38_idx_top_index_exceeds_stack.

(** FtrPtr/DirectIdx size computation: substituting twice under-estimates when an actual names another dummy. *)
Theorem C38_dbl_subst_refuted :
  exists k rho h v,
    closed_tree k = true /\
    highwater (sim (cenv []) k rho 1 []) = Some h /\
    evalZ rho (ssize true k) = Some v /\ 1 + v < h.
Proof. exact dbl_subst_refuted. Qed.
Print Assumptions C38_dbl_subst_refuted.

(** Hoisting: with two calls of one kernel the hoisted array gets the size of the LAST call. *)
Theorem C38_hoist_last_call_refuted : exists k rho, hoist_enough (cenv []) k rho = Some false.
Proof. exact hoist_last_call_refuted. Qed.
Print Assumptions C38_hoist_last_call_refuted.

(** ... while on proper call trees (pairwise distinct callees in every kernel, all hoisted names of the unfolded tree
    distinct, shapes and actuals closed over the dummies) the driver's declarations evaluate exactly to what every
    activation of every temporary needs: the hoisted storage is sufficient on every path. *)
Theorem C38_hoist_enough_on_class : forall g nm ps ts cs rho d n,
  hclosed_cs ps cs = true -> uniq_cs cs -> NoDup (call_names cs) -> NoDup (hnames_cs cs) -> funeq rho g ->
  hoist_decl (Kern nm ps ts cs) rho = Some d -> needs_cs g cs rho = Some n ->
  d = n /\ hoist_enough g (Kern nm ps ts cs) rho = Some true.
Proof. exact hoist_enough_on_class. Qed.
Print Assumptions C38_hoist_enough_on_class.

(** Hoisting preserves behaviour of one call (MiniF), PARTIAL: for a kernel body whose effect outside the local array
    [t] does not depend on the initial contents of [t] (written before read, semantic hypothesis), calling the original
    kernel and calling the kernel with [t] as extra dummy bound to ANY caller array [t'] give the same result up to [t']. *)
Theorem C38_hoist_preserves_partial : forall ps ps' k P B t t' args f s,
  find_proc ps k = Some {| p_params := P; p_body := B |} ->
  find_proc ps' k = Some {| p_params := P ++ [(t, true)]; p_body := B |} ->
  (forall f0 s0, exec ps' f0 B s0 = exec ps f0 B s0) ->
  init_insensitive ps t B ->
  ~ In t (map fst P) ->
  List.length P = List.length args ->
  orel (fun a b => exists a', store_eq a a' /\ agree_except_arr t' a' b)
       (exec1 ps f (SCall k args) s) (exec1 ps' f (SCall k (args ++ [EVar t'])) s).
Proof. exact hoist_call_preserves. Qed.
Print Assumptions C38_hoist_preserves_partial.
