(** C04 — property theorems only.
    Model: M_C04 (JoinableStringList, Stringifier.format_line).  [str_of fuel (IJ p items)] is [str(JoinableStringList(items, ...))];
    [Brk p content text]: [text] is [content] with copies of the continuation [c0 p ++ c1 p] inserted and nothing else changed;
    [atoms p ss]: the chunks (as cut by the splitter of [_add_item_to_line]) of every non-empty item followed by its separator;
    [renderb p line m]: the lines obtained from the atoms [map snd m] when a break is made before the atoms marked [true]. *)
From Coq Require Import ZArith List Bool Ascii.
From LV Require Import models.M_C04 proofs.P_C04 proofs.P_C04_wit proofs.P_C04_nested proofs.P_C04_lit.
Import ListNotations.
Open Scope Z_scope.

(** (0) the chunk splitter loses and invents nothing *)
Theorem C04_chunks_partition : forall s, concat (chunk_list s) = s.
Proof. exact chunk_list_concat. Qed.
Print Assumptions C04_chunks_partition.

(** (1) content preservation, lists of strings, any separator / width / continuation, any fuel:
    removing the inserted continuations gives back the joined items *)
Theorem C04_content_preserved : forall fuel p ss text,
  str_of fuel (IJ p (map IStr ss)) = Ok text -> Brk p (flat_skip p ss) text.
Proof. exact content_preserved. Qed.
Print Assumptions C04_content_preserved.

Theorem C04_content_is_sep_join : forall fuel p ss text,
  Forall (fun s => s <> []) ss ->
  str_of fuel (IJ p (map IStr ss)) = Ok text -> Brk p (join (sep p) ss) text.
Proof. exact content_preserved_join. Qed.
Print Assumptions C04_content_is_sep_join.

(** (2) every break is at an item boundary or at a chunk boundary of the splitter *)
Theorem C04_breaks_at_boundaries : forall fuel p ss text,
  str_of fuel (IJ p (map IStr ss)) = Ok text ->
  exists m, map snd m = atoms p ss /\ text = text_of (renderb p [] m).
Proof. exact breaks_at_boundaries. Qed.
Print Assumptions C04_breaks_at_boundaries.

(** (3) every line, with its end-of-line marker, is within the width unless it consists of the start-of-line marker
    and a single chunk; the last line leaves room for a marker under the same exception *)
Theorem C04_line_width : forall fuel p ss text,
  len (c0 p) <= width p ->
  str_of fuel (IJ p (map IStr ss)) = Ok text ->
  exists lines last, text = concat lines ++ last /\
    Forall (fun l => len l <= width p \/ exists ch, In ch ([] :: atoms p ss) /\ l = c1 p ++ ch ++ c0 p) lines /\
    (len last + len (c0 p) <= width p \/ exists ch, In ch ([] :: atoms p ss) /\ last = c1 p ++ ch).
Proof. exact line_width. Qed.
Print Assumptions C04_line_width.

(** format_line on string items: the indented, wrapped text with only trailing white space removed;
    the constructor has checked that each continuation marker is shorter than the width *)
Theorem C04_format_line_strings : forall w indent cont ss out,
  format_line w indent cont (map RStr ss) None false false true = Ok out ->
  exists a b ws, norm_cont cont w = Some (a, b) /\ len a < w /\ len b < w /\
    text_of (wrap_lines (mkP [] w a b true) (indent :: ss) []) = out ++ ws /\
    Forall (fun c => is_space c = true) ws.
Proof.
  intros w indent cont ss out H. destruct (format_line_flat _ _ _ _ _ H) as (a & b & ws & H1 & H2 & H3).
  destruct (norm_cont_ok _ _ _ _ H1). exists a, b, ws. repeat split; assumption.
Qed.
Print Assumptions C04_format_line_strings.

(** F13: the unconditional "no token is altered" is false: the splitter cuts a character literal at a doubled quote *)
Theorem C04_quoted_split_refuted :
  exists p ss pre post,
    text_of (wrap_lines p ss []) = pre ++ c0 p ++ c1 p ++ post /\
    flat_skip p ss = pre ++ post /\ cut_in_literal pre post = true.
Proof. exists (fstyle 132 4), f13_items, f13_pre, f13_post. exact f13_witness. Qed.
Print Assumptions C04_quoted_split_refuted.

(** content preservation is false for deeper nesting and for empty items inside nested lists (current behaviour) *)
Theorem C04_nested_rewrap_refuted :
  exists fuel q its text, str_of fuel (IJ q its) = Ok text /\ ~ Brk q (flatsk (IJ q its)) text.
Proof. destruct nested_rewrap_refuted as (t & H1 & H2). unfold nested_bad in *. do 3 eexists. exists t. split; [exact H1 | exact H2]. Qed.
Print Assumptions C04_nested_rewrap_refuted.

Theorem C04_empty_item_refuted :
  exists fuel q its text, str_of fuel (IJ q its) = Ok text /\ ~ Brk q (flatsk (IJ q its)) text.
Proof. destruct empty_item_refuted as (t & H1 & H2). unfold empty_bad in *. do 3 eexists. exists t. split; [exact H1 | exact H2]. Qed.
Print Assumptions C04_empty_item_refuted.

(** (1') content preservation for the shape built by format_line + join_items: items are strings or lists of non-empty strings,
    all lists with the same width and continuation markers ([d1_top]); [flatsk] = what is printed when nothing is wrapped *)
Theorem C04_content_preserved_nested_on_class : forall fuel q its text,
  Forall (d1_top q) its -> str_of fuel (IJ q its) = Ok text -> Brk q (flatsk (IJ q its)) text.
Proof. exact content_nested_d1. Qed.
Print Assumptions C04_content_preserved_nested_on_class.

(** (2') F13 cannot happen on the class: if every item (with its separator) and the joined text have terminated literals without
    doubled quotes ([lit_clean]), no place where a break may be made lies inside a character literal *)
Theorem C04_no_break_inside_literal_on_class : forall p ss l1 l2,
  Forall (fun x => lit_clean x = true) (pieces p ss) -> lit_clean (flat_skip p ss) = true ->
  atoms p ss = l1 ++ l2 -> cut_in_literal (concat l1) (concat l2) = false.
Proof. exact no_cut_in_literal. Qed.
Print Assumptions C04_no_break_inside_literal_on_class.

Theorem C04_chunks_respect_literals_on_class : forall s l1 l2,
  lit_clean s = true -> chunk_list s = l1 ++ l2 -> cut_in_literal (concat l1) (concat l2) = false.
Proof. exact chunks_respect_literals. Qed.
Print Assumptions C04_chunks_respect_literals_on_class.
