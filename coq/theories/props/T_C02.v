(** C02 — property theorems only. *)
From Coq Require Import ZArith List Bool String.
From LV Require Import Base.Expr Base.MiniF models.M_C06 models.M_C01 models.M_C02 proofs.P_C01 proofs.P_C02.
Import ListNotations.
Open Scope Z_scope.
Open Scope string_scope.

(** The normalisation hidden in the round trip (the unit loop step that is not printed) is idempotent ... *)
Theorem C02_norm_idem : forall p, norm_list (norm_list p) = norm_list p.
Proof. exact norm_idem_list. Qed.
Print Assumptions C02_norm_idem.

(** ... and invisible in the text. *)
Theorem C02_print_norm : forall p, print_stmts (norm_list p) = print_stmts p.
Proof. exact print_norm. Qed.
Print Assumptions C02_print_norm.

(** Statement level, expression slots kept as trees: the re-read IR is identical on normal forms ... *)
Theorem C02_reread_identical_on_class : forall p, wf_list p = true -> nf_list p = true ->
  read_lines (fuel_for p) (print_stmts p) = Some p.
Proof. exact roundtrip_stmts. Qed.
Print Assumptions C02_reread_identical_on_class.

(** ... the unconditional statement is refuted by [DO i=1,n,1] (re-read without step; the text is the same) ... *)
Theorem C02_reread_identical_refuted :
  wf_list w_unit_step = true /\
  exists q, read_lines (fuel_for w_unit_step) (print_stmts w_unit_step) = Some q /\ q <> w_unit_step /\
            print_stmts q = print_stmts w_unit_step.
Proof. exact reread_refuted_unit_step. Qed.
Print Assumptions C02_reread_identical_refuted.

(** ... and the text is a fixpoint for every well-formed program: print (reparse (print p)) = print p. *)
Theorem C02_text_fixpoint_stmts : forall p q, wf_list p = true ->
  read_lines (fuel_for p) (print_stmts p) = Some q -> print_stmts q = print_stmts p.
Proof. exact text_fixpoint_stmts. Qed.
Print Assumptions C02_text_fixpoint_stmts.

(** Statement and expression level together (partial: the expression-level facts are hypotheses per slot, decidable by
    evaluation): for ANY expression reader [r], if every expression slot is re-read to a tree that prints the same
    tokens, the printed lines - every slot re-read by [r] - are read back to a program that prints the same token lines. *)
Theorem C02_text_fixpoint_lifted : forall r p, wf_list p = true -> slots_all_list (fix_with r) p = true ->
  exists q, reparse_with r p = Some q /\ map render (print_stmts q) = map render (print_stmts p).
Proof. exact text_fixpoint_with. Qed.
Print Assumptions C02_text_fixpoint_lifted.

(** If every slot is re-read to the identical tree and no loop has a unit step, the re-read program is identical. *)
Theorem C02_reread_identical_lifted : forall r p, wf_list p = true -> nf_list p = true ->
  slots_all_list (id_with r) p = true -> reparse_with r p = Some p.
Proof. exact reread_identical_with. Qed.
Print Assumptions C02_reread_identical_lifted.

(** Instances for the model of the frontend's expression reader. *)
Theorem C02_text_fixpoint_on_class : forall p, wf_list p = true -> slots_all_list fe_fix p = true ->
  exists q, reparse_fe p = Some q /\ map render (print_stmts q) = map render (print_stmts p).
Proof. intros p. exact (text_fixpoint_with reread_fe p). Qed.
Print Assumptions C02_text_fixpoint_on_class.

Theorem C02_reread_identical_fe_on_class : forall p, wf_list p = true -> nf_list p = true ->
  slots_all_list fe_id p = true -> reparse_fe p = Some p.
Proof. intros p. exact (reread_identical_with reread_fe p). Qed.
Print Assumptions C02_reread_identical_fe_on_class.

(** the classes are inhabited by non-trivial trees / programs *)
Theorem C02_class_inhabited :
  fe_id ex_fe = true /\ fe_id ex_fe_logic = true /\
  wf_list ex_prog_fe = true /\ nf_list ex_prog_fe = true /\ slots_all_list fe_id ex_prog_fe = true.
Proof. destruct ex_fe_id as [A B]. destruct ex_prog_fe_in_class as [C [D E]]. repeat split; assumption. Qed.
Print Assumptions C02_class_inhabited.

(** Expression level, outside the classes (all reproduced on the real code):
    [a - (+2)] prints "a - (2)", is re-read as [a - 2] and printed "a - 2": the TEXT is not a fixpoint *)
Theorem C02_expr_text_refuted_paren_plus :
  print_f w_paren_plus PREC_NONE = [TVar "a"; TMinus; TLP; TInt 2; TRP] /\
  exists e', reread_fe w_paren_plus = Some e' /\ print_f e' PREC_NONE = [TVar "a"; TMinus; TInt 2] /\ fe_fix w_paren_plus = false.
Proof. exact expr_text_refuted_paren_plus. Qed.
Print Assumptions C02_expr_text_refuted_paren_plus.

(** [+a] (one-child Sum) prints "a" and is re-read as the variable: same text, different IR *)
Theorem C02_expr_ir_refuted_unary_plus :
  reread_fe w_unary_plus = Some (EVar "a") /\ fe_fix w_unary_plus = true /\ fe_id w_unary_plus = false.
Proof. exact expr_ir_refuted_unary_plus. Qed.
Print Assumptions C02_expr_ir_refuted_unary_plus.

(** [p .and. (q .and. r)]: same text, re-associated IR *)
Theorem C02_expr_ir_refuted_and_right :
  fe_fix w_and_right = true /\ fe_id w_and_right = false /\
  reread_fe w_and_right = Some (EAnd [EAnd [ECmp Clt (EVar "a") (EInt 1); ECmp Clt (EVar "b") (EInt 1)]; ECmp Clt (EVar "c") (EInt 1)]).
Proof. exact expr_ir_refuted_and_right. Qed.
Print Assumptions C02_expr_ir_refuted_and_right.

(** [.not. (.not. p)] prints ".not..not.(a < 1)", which cannot be read back *)
Theorem C02_expr_reread_fails_not_not :
  print_f w_not_not PREC_NONE = [TNot; TNot; TLP; TVar "a"; TRel Clt; TInt 1; TRP] /\ reread_fe w_not_not = None.
Proof. exact expr_reread_fails_not_not. Qed.
Print Assumptions C02_expr_reread_fails_not_not.
