(** C23 — property theorems only.  Models: models/M_C23.v (+ the processing model of C22),
    proofs: proofs/P_C23.v.  [sim_*]: "equal up to the letter case of names". *)
From Coq Require Import String Ascii List Bool Arith.
From LV Require Import Base.Strings models.M_C22 proofs.P_C22 models.M_C23 proofs.P_C23.
Import ListNotations.
Open Scope string_scope.

(** The processing model (selection, order, file graph, externals) gives the same result, up to letter
    case, on inputs that agree up to letter case: every name comparison goes through [lower]. *)
Theorem C23_case_equivariance : forall g g' files files' o o' of of' m strict mode plan,
  sim_graph g g' -> Forall2 sim_item files files' -> Forall2 sim_name o o' -> Forall2 sim_name of of' ->
  Forall2 sim_item (fst (process g files o of m strict mode plan)) (fst (process g' files' o' of' m strict mode plan)) /\
  sim_outcome (snd (process g files o of m strict mode plan)) (snd (process g' files' o' of' m strict mode plan)).
Proof. exact case_equivariance. Qed.
Print Assumptions C23_case_equivariance.

(** ... in particular under arbitrary case renamings (a different one for every place names occur),
    and so is the validity of the topological order. *)
Theorem C23_case_renaming_invariance : forall rn rf ra rb ro rof g files o of m strict mode plan,
  case_renaming rn -> case_renaming rf -> case_renaming ra -> case_renaming rb ->
  case_renaming ro -> case_renaming rof ->
  let p  := process g files o of m strict mode plan in
  let p' := process (rename_graph rn rf ra rb g) (map (rename_item rf rf) files) (map ro o) (map rof of) m strict mode plan in
  map fname (fst p') = map fname (fst p) /\ sim_outcome (snd p) (snd p') /\
  is_topo (rename_graph rn rf ra rb g) (map ro o) = is_topo g o.
Proof. exact case_renaming_invariance. Qed.
Print Assumptions C23_case_renaming_invariance.

Theorem C23_is_topo_case_invariant : forall g g' o o',
  sim_graph g g' -> Forall2 sim_name o o' -> is_topo g o = is_topo g' o'.
Proof. exact is_topo_sim. Qed.
Print Assumptions C23_is_topo_case_invariant.

(** what a successful [chk_variants] on two real case variants of a project entails for the model *)
Theorem C23_variants_agree : forall g g' files files' o o' of of' m strict mode plan,
  chk_variants g g' o o' = true ->
  Forall2 sim_item files files' -> Forall2 sim_name of of' ->
  map fname (fst (process g files o of m strict mode plan)) =
  map fname (fst (process g' files' o' of' m strict mode plan)).
Proof. exact variants_agree. Qed.
Print Assumptions C23_variants_agree.

(** Items: equal (up to case) does NOT imply equal hash (known finding F8) ... *)
Theorem C23_item_hash_refuted :
  exists a b, item_eqb a b = true /\ item_hash a <> item_hash b.
Proof. exact item_hash_refuted. Qed.
Print Assumptions C23_item_hash_refuted.

Theorem C23_membership_refuted :
  exists x l, mem_name x l = true /\ py_mem x l = false.
Proof. exact py_mem_refuted. Qed.
Print Assumptions C23_membership_refuted.

(** ... but it does on lower-case names, where hash-based membership is the case-insensitive one, ... *)
Theorem C23_item_eq_hash_on_class : forall a b,
  is_lower a = true -> is_lower b = true -> item_eqb a b = true -> item_hash a = item_hash b.
Proof. exact item_eq_hash_on_lower. Qed.
Print Assumptions C23_item_eq_hash_on_class.

Theorem C23_membership_on_class : forall x l,
  is_lower x = true -> forallb is_lower l = true -> py_mem x l = mem_name x l.
Proof. exact py_mem_on_lower. Qed.
Print Assumptions C23_membership_on_class.

(** ... and every name the ItemFactory creates is lower case and independent of the source spelling
    (so the defect is not reachable through the scheduler). *)
Theorem C23_factory_names_lower :
  (forall m, is_lower (module_item_name m) = true) /\
  (forall s l, is_lower (scoped_item_name s l) = true) /\
  (forall s t r, is_lower (binding_item_name s t r) = true) /\
  (forall p, is_lower (file_item_name p) = true).
Proof. exact factory_names_lower. Qed.
Print Assumptions C23_factory_names_lower.

Theorem C23_factory_names_case_invariant : forall s s' l l',
  lower s = lower s' -> lower l = lower l' ->
  scoped_item_name s l = scoped_item_name s' l' /\ module_item_name s = module_item_name s'.
Proof. exact factory_names_case_invariant. Qed.
Print Assumptions C23_factory_names_case_invariant.

(** the case-insensitive cache / config dictionary *)
Theorem C23_cache_lookup_case_insensitive : forall (k k' : string) (v : nat) d,
  lower k = lower k' -> ci_get k (ci_set k' v d) = Some v /\ ci_get k d = ci_get k' d.
Proof. exact cache_lookup_case_insensitive. Qed.
Print Assumptions C23_cache_lookup_case_insensitive.

(** DuplicateKernel._get_new_item_name commutes with lower-casing ... *)
Theorem C23_suffix_commutes_with_lower : forall scope local suffix msuffix,
  match new_item_name scope local suffix msuffix with
  | (s, l, n) => (lower s, lower l, lower n)
  end = new_item_name (lower scope) (lower local) (lower suffix) (lower msuffix).
Proof. exact suffix_commutes_with_lower. Qed.
Print Assumptions C23_suffix_commutes_with_lower.

(** ... but the clone lookup behind it is case sensitive (known finding), except for lower-case suffixes;
    with a folded lookup it is case invariant. *)
Theorem C23_clone_refuted :
  exists cached nn nl nn' nl',
    lower nn = lower nn' /\ lower nl = lower nl' /\
    clone_free cached nn nl = None /\ clone_free cached nn' nl' <> None.
Proof. exact clone_free_refuted. Qed.
Print Assumptions C23_clone_refuted.

Theorem C23_clone_on_class : forall cached nl,
  is_lower nl = true -> clone_free cached ("#" +++ nl) nl = Some (lower ("#" +++ nl)).
Proof. exact clone_free_on_class. Qed.
Print Assumptions C23_clone_on_class.

Theorem C23_clone_fixed_case_invariant : forall cached nn nn' nl nl',
  lower nn = lower nn' -> lower nl = lower nl' ->
  clone_free_fixed cached nn nl = clone_free_fixed cached nn' nl'.
Proof. exact clone_free_fixed_case_invariant. Qed.
Print Assumptions C23_clone_fixed_case_invariant.

(** config key matching (pattern-free keys) *)
Theorem C23_match_keys_case_invariant : forall s s' l l' keys keys' p,
  lower s = lower s' -> lower l = lower l' -> Forall2 sim_name keys keys' ->
  match_keys s l keys p = match_keys s' l' keys' p.
Proof. exact match_keys_case_invariant. Qed.
Print Assumptions C23_match_keys_case_invariant.
