(** C39 — property theorems only: parametrisation preserves behaviour for matching inputs. *)
From Coq Require Import ZArith List Bool String.
From LV Require Import Base.Expr Base.MiniF Base.MiniFFacts models.M_C39 proofs.P_C39.
Import ListNotations.
Open Scope Z_scope.

(** replacing the variables of a dictionary by their literals preserves integer and logical evaluation in
    every environment that gives these variables these values (the other environment may give them anything) *)
Theorem C39_subst_const_sound : forall D r r', env_rel D r r' ->
  (forall e, evalZ r e = evalZ r' (subst D e)) /\ (forall e, evalB r e = evalB r' (subst D e)).
Proof. intros D r r' H. split; [exact (subst_evalZ D r r' H)|exact (subst_evalB D r r' H)]. Qed.
Print Assumptions C39_subst_const_sound.

(** statements and whole call trees, any depth: for dictionaries [A] satisfying the class predicate, related
    stores are taken to related stores by the original body and its transformed version, in both directions
    (so a run-time error or divergence of one is one of the other) *)
Theorem C39_subst_stmts_sound : forall m abort A, wf_assigned A = true ->
  forall D ss s s', forallb (wf_stmt A D) ss = true -> R m D s s' ->
    (forall s1, runs (procs_orig A) ss s s1 ->
       exists s1', runs (procs_trans m abort A) (tstmts (succ_of A) m D ss) s' s1' /\ R m D s1 s1') /\
    (forall s1', runs (procs_trans m abort A) (tstmts (succ_of A) m D ss) s' s1' ->
       exists s1, runs (procs_orig A) ss s s1 /\ R m D s1 s1').
Proof.
  intros m abort A Hwf D ss s s' Hw HR. split.
  - intros s1 [f E]. exact (sim_fwd m abort A Hwf f D ss s s' s1 Hw HR E).
  - intros s1' [f E]. exact (sim_bwd m abort A Hwf f D ss s s' s1' Hw HR E).
Qed.
Print Assumptions C39_subst_stmts_sound.

(** the transformation as the Scheduler applies it ([assign_dicts] = flow of trafo_data, [param_tree] = output):
    on a tree with uniform calls, for an input [s] in which the parametrised dummies have the fixed values, the
    transformed entry point started from [s'] (equal to [s] outside the parametrised names, [parametrised_x = v])
    terminates iff the original does, with equal arrays and equal scalars outside the parametrised names *)
Theorem C39_param_preserves : forall m abort us entries D0,
  uniform_calls us entries D0 = true ->
  forall a, In a (assign_dicts us entries D0) -> a_entry a = true ->
  forall s s', Rpre D0 s s' -> guards_pass (guards_of D0 (u_params (a_unit a))) s' ->
    let A := assign_dicts us entries D0 in
    let t := transform_aunit A m abort a in
    (forall s1, runs (procs_orig A) (u_body (a_unit a)) s s1 ->
       exists s1', runs (procs_trans m abort A) (tunit_stmts t) s' s1' /\ R m D0 s1 s1') /\
    (forall s1', runs (procs_trans m abort A) (tunit_stmts t) s' s1' ->
       exists s1, runs (procs_orig A) (u_body (a_unit a)) s s1 /\ R m D0 s1 s1').
Proof. exact param_preserves. Qed.
Print Assumptions C39_param_preserves.

(** what [R] gives for the observable part of the final stores *)
Theorem C39_related_observables : forall m D s s', R m D s s' ->
  (forall y, lookup D y = None -> sv s y = sv s' y) /\ av s = av s'.
Proof. exact R_obs. Qed.
Print Assumptions C39_related_observables.

(** the procedure table used above is the table of the routines [param_tree] returns, and entry points carry dic2p *)
Theorem C39_model_output_is_param_tree : forall m abort us entries D0,
  procs_trans m abort (assign_dicts us entries D0) =
  map (fun t => (t_name t, proc_trans t)) (param_tree m abort us entries D0) /\
  (forall a, In a (assign_dicts us entries D0) -> a_entry a = true -> a_dict a = D0).
Proof.
  intros. split; [apply procs_trans_param_tree|intros a; apply assign_entry_dict].
Qed.
Print Assumptions C39_model_output_is_param_tree.

(** without [uniform_calls] the statement is false: same kernel called with the two parametrised variables at
    swapped positions; the transformed tree runs and computes another array *)
Theorem C39_param_preserves_refuted :
  exists us entries D0 a s,
    uniform_calls us entries D0 = false /\
    In a (assign_dicts us entries D0) /\ a_entry a = true /\
    Rpre D0 s s /\ guards_pass (guards_of D0 (u_params (a_unit a))) s /\
    exists s1 s1',
      runs (procs_orig (assign_dicts us entries D0)) (u_body (a_unit a)) s s1 /\
      runs (procs_trans MDecl [] (assign_dicts us entries D0))
           (tunit_stmts (transform_aunit (assign_dicts us entries D0) MDecl [] a)) s s1' /\
      av s1 "a"%string [1] <> av s1' "a"%string [1].
Proof. exact param_preserves_refuted. Qed.
Print Assumptions C39_param_preserves_refuted.

(** non-matching input: the first guard whose dummy differs from the fixed value evaluates its condition to
    true and executes exactly the abort branch; the guards before it are no-ops *)
Theorem C39_guard_triggers : forall ps abort gs s k v,
  first_fail gs s = Some (k, v) ->
  sv s (pname k) <> v /\
  exists pre post, guard_stmts abort gs = pre ++ guard_stmt abort (pname k) v :: post /\
    runs ps pre s s /\
    evalB (env_st s) (guard_cond (pname k) v) = Some true /\
    (forall s1, runs1 ps (guard_stmt abort (pname k) v) s s1 <-> runs ps abort s s1).
Proof. exact guard_triggers_gen. Qed.
Print Assumptions C39_guard_triggers.

(** a guard fires exactly when some guarded dummy differs; matching inputs pass all guards unchanged *)
Theorem C39_guard_fires_iff : forall gs s,
  (first_fail gs s = None <-> guards_pass gs s) /\
  (forall ps abort, guards_pass gs s -> runs ps (guard_stmts abort gs) s s).
Proof. intros gs s. split; [apply first_fail_none|intros ps abort; apply guards_noop]. Qed.
Print Assumptions C39_guard_fires_iff.

(** declaring the constants and replacing by value give equivalent programs (same start store, same arrays and
    same scalars outside the parametrised names, termination included) *)
Theorem C39_replace_by_value_eq_parameter_decl : forall abort A a,
  wf_assigned A = true -> In a A -> a_entry a = true ->
  forall s', guards_pass (guards_of (a_dict a) (u_params (a_unit a))) s' ->
  forall m1 m2 t1,
    runs (procs_trans m1 abort A) (tunit_stmts (transform_aunit A m1 abort a)) s' t1 ->
    exists t2, runs (procs_trans m2 abort A) (tunit_stmts (transform_aunit A m2 abort a)) s' t2 /\
               (forall y, lookup (a_dict a) y = None -> sv t1 y = sv t2 y) /\ av t1 = av t2.
Proof. exact replace_eq_decl. Qed.
Print Assumptions C39_replace_by_value_eq_parameter_decl.

(** declare_fixed_value_scalars_as_constants (model [dfv_transform]): on bodies without CALL in which no selected
    variable is a DO variable, the routine with the selected assignments removed behaves like the original started
    with the selected variables holding their constants (what the PARAMETER attribute provides); partial: bodies
    with CALL statements are covered by the differential runs only *)
Theorem C39_declare_constants_sound_partial : forall ps params decls body s s',
  let cs := fst (dfv_transform params decls body) in
  let body' := snd (dfv_transform params decls body) in
  forallb (dfv_wf (dfv_dict cs)) body = true -> ext_eq s s' -> Inv (dfv_dict cs) s ->
  (forall s1, runs ps body s s1 -> exists s1', runs ps body' s' s1' /\ ext_eq s1 s1') /\
  (forall s1', runs ps body' s' s1' -> exists s1, runs ps body s s1 /\ ext_eq s1 s1').
Proof. exact dfv_transform_sound_partial. Qed.
Print Assumptions C39_declare_constants_sound_partial.

(** the side condition is needed: a loop variable initialised once by a literal becomes a constant that the DO
    statement of the output still writes (invalid Fortran) *)
Theorem C39_declare_constants_invalid_witness :
  exists params decls body,
    let r := dfv_transform params decls body in
    fst r <> [] /\ dfv_valid (fst r) (snd r) = false.
Proof.
  exists ["n"; "a"]%string, ["n"; "i"]%string,
    [SAssign "i"%string (EInt 0); SDo "i"%string (EInt 1) (EVar "n"%string) None [SStore "a"%string [EVar "i"%string] (EVar "i"%string)]].
  destruct dfv_invalid_witness as [H1 H2]. split; [rewrite H1; discriminate|exact H2].
Qed.
Print Assumptions C39_declare_constants_invalid_witness.
