(** C26 — property theorems only.  [exec_tr] is the instrumented MiniF interpreter of models.M_C26:
    [exec_tr ps fuel ss s = Some (s', (W, R))] : the run of [ss] from [s] ends in [s'], writes the
    locations [W] and reads the locations [R] before writing them.  [defines_of]/[uses_of]/
    [annot_routine] are the model of Loki's DataflowAnalysisAttacher (tied to the code on every run). *)
From Coq Require Import ZArith List Bool String.
From LV Require Import Base.Expr Base.MiniF models.M_C26
     proofs.P_C26 proofs.P_C26_def proofs.P_C26_frame proofs.P_C26_use proofs.P_C26_live proofs.P_C26_sel.
Import ListNotations.
Open Scope Z_scope.

(** the instrumentation does not change the semantics of the shared MiniF interpreter *)
Theorem C26_exec_tr_erase : forall ps fuel ss s, option_map fst (exec_tr ps fuel ss s) = exec ps fuel ss s.
Proof. exact exec_tr_erase. Qed.
Print Assumptions C26_exec_tr_erase.

(** the written set of the instrumentation is complete: everything else keeps its value *)
Theorem C26_frame_locs : forall mw ps sg, sigs_ok mw ps sg = true ->
  forall f ss s s' t, exec_tr ps f ss s = Some (s', t) -> forall l, ~ In l (fst t) -> val s' l = val s l.
Proof. exact frame_locs. Qed.
Print Assumptions C26_frame_locs.

(** defines: every variable written while a statement list executes is in its defines, or is a DO
    variable of a loop in it (the attacher removes those: [C26_defines_refuted_do_variable]); calls:
    on the class [dsafe] with callees that respect their declared intents ([sigs_ok]) *)
Theorem C26_defines_sound : forall mw ps sg, sigs_ok mw ps sg = true ->
  forall f ss s s' t, exec_tr ps f ss s = Some (s', t) -> dsafe sg ss = true ->
  forall l, In l (fst t) -> In (lname l) (defines_of sg ss) \/ In (lname l) (dovars ss).
Proof. exact defines_sound. Qed.
Print Assumptions C26_defines_sound.

(** the consumers' form: a variable outside defines (and not a DO variable) keeps its value *)
Theorem C26_frame_vars : forall mw ps sg, sigs_ok mw ps sg = true ->
  forall f ss s s' x, exec ps f ss s = Some s' -> dsafe sg ss = true ->
  ~ In x (defines_of sg ss) -> ~ In x (dovars ss) ->
  sv s' x = sv s x /\ (forall i, av s' x i = av s x i).
Proof. exact frame_vars. Qed.
Print Assumptions C26_frame_vars.

(** uses: on the class [definite] every variable read before being written is in uses *)
Theorem C26_uses_sound_on_class : forall mw ps sg, sigs_ok mw ps sg = true ->
  forall f ss s s' t, exec_tr ps f ss s = Some (s', t) -> definite mw ps sg ss = true ->
  forall l, In l (snd t) -> In (lname l) (uses_of sg ss).
Proof. exact uses_sound_on_class. Qed.
Print Assumptions C26_uses_sound_on_class.

(** live: for a node that is not inside a loop, whatever was live at the entry of the body or has
    been written before control enters the node is in the node's live set (up to DO variables) *)
Theorem C26_live_sound_on_class : forall mw ps sg L ss pre lv st f s s' t,
  sigs_ok mw ps sg = true -> dsafe sg ss = true ->
  at_node sg L ss pre lv st ->
  exec_tr ps f pre s = Some (s', t) ->
  (forall x, In x L -> In x lv) /\
  (forall l, In l (fst t) -> In (lname l) lv \/ In (lname l) (dovars pre)).
Proof. exact live_sound_on_class. Qed.
Print Assumptions C26_live_sound_on_class.

(** ... and that live set is the one the model's annotation (compared with Loki's) carries *)
Theorem C26_live_node_is_annotated : forall sg L ss pre lv st,
  at_node sg L ss pre lv st ->
  In (fst (du_stmt sg st), snd (du_stmt sg st), lv) (annot_body sg L ss).
Proof. exact at_node_annot. Qed.
Print Assumptions C26_live_node_is_annotated.

(** counterexamples to the unconditional statements (F9 and relatives), checked by evaluation *)
Theorem C26_uses_refuted :
  exists ss s s' t l, exec_tr [] 5 ss s = Some (s', t) /\ In l (snd t) /\ ~ In (lname l) (uses_of [] ss).
Proof. exact uses_refuted. Qed.
Print Assumptions C26_uses_refuted.

Theorem C26_uses_refuted_zero_trip :
  exists s s' t l, exec_tr [] 5 wit_zero s = Some (s', t) /\ In l (snd t) /\ ~ In (lname l) (uses_of [] wit_zero).
Proof. exact uses_refuted_zero_trip. Qed.
Print Assumptions C26_uses_refuted_zero_trip.

Theorem C26_uses_refuted_partial_array :
  exists s s' t l, exec_tr [] 5 wit_part s = Some (s', t) /\ In l (snd t) /\ ~ In (lname l) (uses_of [] wit_part).
Proof. exact uses_refuted_partial_array. Qed.
Print Assumptions C26_uses_refuted_partial_array.

Theorem C26_uses_refuted_do_bounds :
  exists s s' t l, exec_tr [] 5 wit_bounds s = Some (s', t) /\ In l (snd t) /\ ~ In (lname l) (uses_of [] wit_bounds).
Proof. exact uses_refuted_do_bounds. Qed.
Print Assumptions C26_uses_refuted_do_bounds.

Theorem C26_defines_refuted_do_variable :
  exists s s' t, exec_tr [] 5 wit_dovar s = Some (s', t) /\ In (LS "i") (fst t) /\
                 ~ In "i"%string (defines_of [] wit_dovar) /\ sv s' "i" <> sv s "i".
Proof. exact defines_refuted_do_variable. Qed.
Print Assumptions C26_defines_refuted_do_variable.

Theorem C26_call_refuted_no_intent :
  exists s s' t, exec_tr ps_noint 5 wit_noint s = Some (s', t) /\
    In (LS "y") (fst t) /\ ~ In "y"%string (defines_of sg_noint wit_noint) /\ sv s' "y" <> sv s "y" /\
    In (LS "y") (snd t) /\ ~ In "y"%string (uses_of sg_noint wit_noint).
Proof. exact call_refuted_no_intent. Qed.
Print Assumptions C26_call_refuted_no_intent.

Theorem C26_call_refuted_out_actual_in_subscript :
  exists s s' t, exec_tr ps_subscr 5 wit_subscr s = Some (s', t) /\
    In (LS "n") (fst t) /\ ~ In "n"%string (defines_of sg_subscr wit_subscr) /\ sv s' "n" <> sv s "n".
Proof. exact call_refuted_out_actual_in_subscript. Qed.
Print Assumptions C26_call_refuted_out_actual_in_subscript.

Theorem C26_live_refuted :
  (exists d u lv, nth_error (annot_routine [] [("y"%string, IOut)] wit_live) 3 = Some (d, u, lv) /\
                  d = fst (du_stmt [] wit_if) /\ set_eqb lv ["i"%string; "y"%string] = true /\ ~ In "x"%string lv) /\
  (exists s' t, exec_tr [] 10 wit_live_pre2 (st0 [] []) = Some (s', t) /\ In (LS "x") (fst t)) /\
  run_observe [] 10 (wit_live_pre2 ++ wit_live_rest2) [] [] ["x"%string; "y"%string; "i"%string] [] =
  run_observe [] 10 wit_live [] [] ["x"%string; "y"%string; "i"%string] [] /\
  ~ In "x"%string (dovars wit_live).
Proof. exact live_refuted. Qed.
Print Assumptions C26_live_refuted.

(** the classes are inhabited by a program with a call, a loop and branches *)
Theorem C26_class_nonempty :
  sigs_ok ex_mw ex_ps ex_sg = true /\ dsafe ex_sg ex_prog = true /\
  definite ex_mw ex_ps ex_sg (firstn 3 ex_prog) = true /\ definite ex_mw ex_ps ex_sg ex_prog = false /\
  exists s' t, exec_tr ex_ps 10 ex_prog (st0 [] []) = Some (s', t).
Proof. exact class_nonempty. Qed.
Print Assumptions C26_class_nonempty.

(** SELECT CASE: the IF/ELSE-IF chain that encodes it (and is its semantics: first CASE whose values
    contain the selector, CASE DEFAULT last) carries, at the SELECT node, exactly the sets that
    visit_MultiConditional computes; so all theorems above apply to routines with SELECT CASE *)
Theorem C26_select_chain_sets : forall sg sel cases dflt st,
  cases <> [] -> (forall cb, In cb cases -> fst cb <> []) ->
  sel_chain sel cases dflt = [st] ->
  forall x, (In x (fst (du_stmt sg st)) <-> In x (fst (select_du sg sel cases dflt))) /\
            (In x (snd (du_stmt sg st)) <-> In x (snd (select_du sg sel cases dflt))).
Proof. exact select_chain_sets. Qed.
Print Assumptions C26_select_chain_sets.

(** the tags that mark the links of the chain change neither value nor symbols of the conditions *)
Theorem C26_select_tags_neutral : forall rho c,
  evalB rho (sel_head c) = evalB rho c /\ evalB rho (sel_cont c) = evalB rho c /\
  (forall x, In x (evars (sel_head c)) <-> In x (evars c)) /\ (forall x, In x (evars (sel_cont c)) <-> In x (evars c)).
Proof.
  intros rho c. split; [apply evalB_sel_head|]. split; [apply evalB_sel_cont|].
  split; intros x; [apply evars_sel_head|apply evars_sel_cont].
Qed.
Print Assumptions C26_select_tags_neutral.
