(** C27 — property theorems only.  [lcd] / [raw] model loop_carried_dependencies and
    read_after_write_vars (models.M_C27, tied to Loki on every run); the ground truth ([carried],
    [raw_dep]) comes from the instrumented interpreter [exec_tr] of models.M_C26. *)
From Coq Require Import ZArith List Bool String.
From LV Require Import Base.Expr Base.MiniF models.M_C26 models.M_C27
     proofs.P_C26 proofs.P_C26_def proofs.P_C26_live proofs.P_C27 proofs.P_C27_raw.
Import ListNotations.
Open Scope Z_scope.

(** the iterations inspected by [carried] are those of the run of the DO statement *)
Theorem C27_loop_iters_of_run : forall ps f v lo hi stp body s s' t,
  step_tr ps (exec_tr ps f) (SDo v lo hi stp body) s = Some (s', t) ->
  exists its, loop_iters ps f v lo hi stp body s = Some its /\
              (forall l, In l (fst t) <-> l = LS v \/ exists ti, In ti its /\ In l (fst ti)).
Proof. exact loop_iters_of_run. Qed.
Print Assumptions C27_loop_iters_of_run.

(** a value written in one iteration and read in a later one is reported by
    loop_carried_dependencies — on the class [definite] (C26), DO variables of inner loops excepted *)
Theorem C27_lcd_complete_on_class : forall mw ps sg, sigs_ok mw ps sg = true ->
  forall f v lo hi stp body s its x,
  loop_iters ps f v lo hi stp body s = Some its ->
  definite_stmt mw ps sg (SDo v lo hi stp body) = true -> dsafe sg body = true ->
  carried x its -> ~ In x (dovars body) ->
  In x (lcd sg (SDo v lo hi stp body)).
Proof. exact lcd_complete_on_class. Qed.
Print Assumptions C27_lcd_complete_on_class.

(** with the inspection marker directly in the inspected body, read_after_write_vars is FindWrites over
    what precedes it followed by an active FindReads over what follows *)
Theorem C27_raw_split : forall sg pre post, nomark pre = true ->
  raw sg (pre ++ SSkip MARK :: post) = fd (fr_body sg post (true, snd (fw_body sg pre (true, [])), [])).
Proof. exact raw_split. Qed.
Print Assumptions C27_raw_split.

(** a location written before the inspection point and read after it (before being overwritten)
    makes read_after_write_vars report its variable — on the class [raw_class], DO variables excepted *)
Theorem C27_raw_complete_on_class : forall mw ps sg, sigs_ok mw ps sg = true ->
  forall pre post f1 f2 s s1 t1 s2 t2 l,
  raw_class mw ps sg pre post = true ->
  exec_tr ps f1 pre s = Some (s1, t1) -> exec_tr ps f2 post s1 = Some (s2, t2) ->
  In l (fst t1) -> In l (snd t2) ->
  ~ In (lname l) (dovars pre) -> ~ In (lname l) (dovars post) ->
  In (lname l) (raw sg (pre ++ SSkip MARK :: post)).
Proof. exact raw_complete_on_class. Qed.
Print Assumptions C27_raw_complete_on_class.

Theorem C27_raw_dep_reported : forall mw ps sg, sigs_ok mw ps sg = true ->
  forall pre post s x,
  raw_class mw ps sg pre post = true -> raw_dep ps x pre post s ->
  ~ In x (dovars pre) -> ~ In x (dovars post) ->
  In x (raw sg (pre ++ SSkip MARK :: post)).
Proof. exact raw_dep_reported. Qed.
Print Assumptions C27_raw_dep_reported.

(** counterexamples to the unconditional statements *)
Theorem C27_lcd_refuted :
  exists its, loop_iters [] 5 "i" (EInt 1) (EInt 2) None wit_lcd_body (st0 [] []) = Some its /\
              carried "x" its /\ ~ In "x"%string (lcd [] (SDo "i" (EInt 1) (EInt 2) None wit_lcd_body)).
Proof. exact lcd_refuted. Qed.
Print Assumptions C27_lcd_refuted.

Theorem C27_lcd_refuted_do_variable :
  exists its, loop_iters [] 6 "i" (EInt 1) (EInt 2) None wit_lcd_inner (st0 [] []) = Some its /\
              carried "c" its /\ ~ In "c"%string (lcd [] (SDo "i" (EInt 1) (EInt 2) None wit_lcd_inner)).
Proof. exact lcd_refuted_do_variable. Qed.
Print Assumptions C27_lcd_refuted_do_variable.

Theorem C27_raw_partial_write_refuted :
  raw_dep [] "a" wit_raw_pre wit_raw_post (st0 [] []) /\
  ~ In "a"%string (raw [] (wit_raw_pre ++ SSkip MARK :: wit_raw_post)).
Proof. exact raw_partial_write_refuted. Qed.
Print Assumptions C27_raw_partial_write_refuted.

Theorem C27_raw_zero_trip_refuted :
  raw_dep [] "x" wit_raw0_pre wit_raw0_post (st0 [] []) /\
  ~ In "x"%string (raw [] (wit_raw0_pre ++ SSkip MARK :: wit_raw0_post)).
Proof. exact raw_zero_trip_refuted. Qed.
Print Assumptions C27_raw_zero_trip_refuted.

Theorem C27_raw_do_variable_refuted :
  raw_dep [] "i" wit_rawv_pre wit_rawv_post (st0 [] []) /\
  ~ In "i"%string (raw [] (wit_rawv_pre ++ SSkip MARK :: wit_rawv_post)).
Proof. exact raw_do_variable_refuted. Qed.
Print Assumptions C27_raw_do_variable_refuted.

(** the class of the read-after-write theorem is inhabited (branches, a loop, an array) *)
Theorem C27_raw_class_nonempty :
  raw_class [] [] [] ex_pre ex_post = true /\ sigs_ok [] [] [] = true /\
  set_eqb (raw [] (ex_pre ++ SSkip MARK :: ex_post)) ["x"%string; "a"%string] = true.
Proof. exact raw_class_nonempty. Qed.
Print Assumptions C27_raw_class_nonempty.
