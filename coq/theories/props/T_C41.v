(** C41 — built-in transformations leave a well-formed IR: the property theorems (statements only; proofs in proofs/P_C41_*.v).
    [well_scoped] (models/M_C41.v): no duplicate declaration, every dummy declared, every occurrence in the body / in a
    declared shape / in an internal procedure resolves (own declarations first, then imported / host names) and is used
    the way it is declared. *)
From Coq Require Import ZArith List Bool String Ascii.
From LV Require Import Base.Expr Base.MiniF models.M_C41.
From LV Require models.M_C28 models.M_C29 models.M_C30 models.M_C31 models.M_C32 models.M_C39.
From LV Require Import proofs.P_C41_base proofs.P_C41_vec proofs.P_C41_inline proofs.P_C41_rm proofs.P_C41_assoc
                       proofs.P_C41_param proofs.P_C41_same proofs.P_C41_alias.
Import ListNotations.

(** the decidable check evaluated on the real units is the property *)
Theorem C41_well_scopedb_spec : forall (B : Type) (uses : B -> list use) (u : unit B),
  well_scopedb uses u = true <-> well_scoped uses u.
Proof. exact (@well_scopedb_spec). Qed.
Print Assumptions C41_well_scopedb_spec.

(** generic: a transformation that leaves the declarations alone and introduces no new occurrence *)
Theorem C41_body_only_preserves_well_scoped : forall (B C : Type) (uses : B -> list use) (uses' : C -> list use)
    (f : B -> C) (u : unit B),
  incl (uses' (f (u_body u))) (uses (u_body u)) ->
  well_scoped uses u -> well_scoped uses' (T_body f u).
Proof. exact (@T_body_preserves). Qed.
Print Assumptions C41_body_only_preserves_well_scoped.

(** resolve_vector_notation: the synthesized / reused loop variables are declared *)
Theorem C41_vec_preserves_well_scoped : forall (u : unit (list M_C30.vstmt)) (u' : unit (list stmt)),
  well_scoped uses_vstmts u ->
  vec_class u = true ->
  T_vec u = Some u' ->
  well_scoped uses_stmts u'.
Proof. exact T_vec_preserves_well_scoped. Qed.
Print Assumptions C41_vec_preserves_well_scoped.

Theorem C41_vec_class_inhabited :
  exists u u', well_scoped uses_vstmts u /\ vec_class u = true /\ T_vec u = Some u' /\ u_decls u' <> u_decls u.
Proof. exact T_vec_class_inhabited. Qed.
Print Assumptions C41_vec_class_inhabited.

(** outside the class: a name of the form i_<array>_<k> that is already declared as an array *)
Theorem C41_vec_array_clash_refuted :
  exists u u', well_scoped uses_vstmts u /\ T_vec u = Some u' /\ ~ well_scoped uses_stmts u'.
Proof. exact T_vec_array_clash_refuted. Qed.
Print Assumptions C41_vec_array_clash_refuted.

(** inlining one callee: the hoisted (renamed) callee locals are declared, actuals and host names still resolve *)
Theorem C41_inline_preserves_well_scoped : forall lbc lr ce (u u' : unit (list stmt)),
  well_scoped uses_stmts u ->
  well_scoped uses_stmts (callee_unit lr (u_env u) ce) ->
  inline_class lr ce u = true ->
  T_inline lbc lr ce u = Some u' ->
  well_scoped uses_stmts u'.
Proof. exact T_inline_preserves_well_scoped. Qed.
Print Assumptions C41_inline_preserves_well_scoped.

(** several callees: the per-step hypotheses are stated on the intermediate units ([all_steps_ok]) *)
Theorem C41_inline_all_preserves_well_scoped_partial : forall lbc ces lrs (u u' : unit (list stmt)),
  well_scoped uses_stmts u ->
  all_steps_ok lbc lrs ces u ->
  T_inline_all lbc lrs ces u = Some u' ->
  well_scoped uses_stmts u'.
Proof. exact T_inline_all_preserves_well_scoped_partial. Qed.
Print Assumptions C41_inline_all_preserves_well_scoped_partial.

(** inlining with [allowed_aliases]: an alias that the caller declares is shared, one that it does not declare is hoisted
    under its own name; non-alias locals as before *)
Theorem C41_inline_alias_preserves_well_scoped : forall al lbc lr ce (u u' : unit (list stmt)),
  well_scoped uses_stmts u ->
  well_scoped uses_stmts (callee_unit lr (u_env u) ce) ->
  inline_class_al al lr ce u = true ->
  T_inline_al al lbc lr ce u = Some u' ->
  well_scoped uses_stmts u'.
Proof. exact T_inline_al_preserves_well_scoped. Qed.
Print Assumptions C41_inline_alias_preserves_well_scoped.

Theorem C41_inline_alias_nil : forall lbc lr ce (u : unit (list stmt)), T_inline_al [] lbc lr ce u = T_inline lbc lr ce u.
Proof. exact T_inline_al_nil. Qed.
Print Assumptions C41_inline_alias_nil.

(** if the aliases that the caller does NOT declare were not hoisted either, the inlined unit would use an undeclared name *)
Theorem C41_inline_alias_unhoisted_refuted :
  exists al lbc lr ce (u : unit (list stmt)) b',
    well_scoped uses_stmts u
    /\ inline_class_al al lr ce u = true
    /\ M_C28.inline_body (cvars_al al (map fst (u_decls u))) lbc ce (u_body u) = Some b'
    /\ ~ well_scoped uses_stmts
         (mkUnit (u_args u)
                 (u_decls u ++ filter (fun d => negb (mem (fst d) al))
                                      (hoisted_decls_al al (map fst (u_decls u)) lr ce))%list
                 (u_shapes u) (u_ext u) (u_inner u) b').
Proof. exact T_inline_al_unhoisted_refuted. Qed.
Print Assumptions C41_inline_alias_unhoisted_refuted.

(** a hoisted scalar that shadows an imported array of the same name breaks the caller *)
Theorem C41_inline_capture_refuted :
  exists lbc lr ce (u u' : unit (list stmt)),
    well_scoped uses_stmts u
    /\ well_scoped uses_stmts (callee_unit lr (u_env u) ce)
    /\ T_inline lbc lr ce u = Some u'
    /\ inline_class lr ce u = false
    /\ ~ well_scoped uses_stmts u'.
Proof. exact T_inline_capture_refuted. Qed.
Print Assumptions C41_inline_capture_refuted.

(** do_remove_unused_vars: right exactly when no removed name is still referenced *)
Theorem C41_rmunused_preserves_on_class : forall only (u : unit (list stmt)),
  well_scoped uses_stmts u -> rm_class only u = true -> well_scoped uses_stmts (T_rmunused only u).
Proof. exact T_rmunused_preserves_well_scoped. Qed.
Print Assumptions C41_rmunused_preserves_on_class.

(** sufficient syntactic condition for the body part of the class: every name is reported by the dataflow analysis *)
Theorem C41_rmunused_lv_live : forall only (u : unit (list stmt)),
  lv_live (u_body u) = true ->
  forallb (fun x => negb (mem x (removed_vars only u))) (use_names (uses_stmts (u_body u))) = true.
Proof. exact lv_live_body_class. Qed.
Print Assumptions C41_rmunused_lv_live.

Theorem C41_rmunused_class_inhabited :
  well_scoped uses_stmts rm_good /\ rm_class false rm_good = true /\ lv_live (u_body rm_good) = true
  /\ map fst (u_decls (T_rmunused false rm_good)) = ["n"; "j"; "b"]%string
  /\ map fst (u_decls (T_rmunused true rm_good)) = ["n"; "j"; "b"; "z"]%string.
Proof. exact T_rmunused_class_inhabited. Qed.
Print Assumptions C41_rmunused_class_inhabited.

(** the declaration of a DO variable that only lives inside its loop is removed (remove_only_arrays=False) *)
Theorem C41_rmunused_loopvar_refuted :
  exists u, well_scoped uses_stmts u /\ ~ well_scoped uses_stmts (T_rmunused false u).
Proof. exact T_rmunused_loopvar_refuted. Qed.
Print Assumptions C41_rmunused_loopvar_refuted.

(** the declaration of an array that only an internal procedure uses is removed (default options) *)
Theorem C41_rmunused_host_refuted :
  exists u, well_scoped uses_stmts u /\ ~ well_scoped uses_stmts (T_rmunused true u).
Proof. exact T_rmunused_host_refuted. Qed.
Print Assumptions C41_rmunused_host_refuted.

(** do_resolve_associates: after resolution every name is a name of the enclosing unit, used with its kind *)
Theorem C41_assoc_preserves_well_scoped : forall (u : unit (list M_C29.astmt)),
  well_scoped_a u ->
  M_C29.valid (u_body u) = true ->
  well_scoped uses_stmts (T_assoc u).
Proof. exact T_assoc_preserves_well_scoped. Qed.
Print Assumptions C41_assoc_preserves_well_scoped.

Theorem C41_assoc_unresolved_refuted :
  exists u, well_scoped_a u /\ ~ well_scoped uses_stmts (T_assoc u).
Proof. exact T_assoc_unresolved_refuted. Qed.
Print Assumptions C41_assoc_unresolved_refuted.

(** ParametriseTransformation on one routine: removed / renamed dummies are no longer referenced *)
Theorem C41_param_preserves_well_scoped : forall succ m abort entry D ext (u : M_C39.unit),
  well_scoped uses_stmts (unit_of_c39 ext u) ->
  param_class m abort entry D ext u = true ->
  param_extra entry D u = true ->
  well_scoped uses_stmts (T_param succ m abort entry D ext u).
Proof. exact T_param_preserves_well_scoped. Qed.
Print Assumptions C41_param_preserves_well_scoped.

Theorem C41_param_assigned_key_refuted :
  exists succ abort D ext u,
    well_scoped uses_stmts (unit_of_c39 ext u)
    /\ ~ well_scoped uses_stmts (T_param succ M_C39.MReplace abort false D ext u).
Proof. exact T_param_assigned_key_refuted. Qed.
Print Assumptions C41_param_assigned_key_refuted.

(** body-only transformations of C31 / C32 *)
Theorem C41_unroll_preserves_well_scoped : forall (u : unit (list stmt)),
  well_scoped uses_stmts u -> well_scoped uses_stmts (T_unroll u).
Proof. exact T_unroll_preserves_well_scoped. Qed.
Print Assumptions C41_unroll_preserves_well_scoped.

Theorem C41_dce_preserves_well_scoped : forall simp (u u' : unit (list stmt)),
  well_scoped uses_stmts u -> T_dce simp u = Some u' -> well_scoped uses_stmts u'.
Proof. exact T_dce_preserves_well_scoped. Qed.
Print Assumptions C41_dce_preserves_well_scoped.

Theorem C41_constprop_preserves_well_scoped : forall n (u u' : unit (list stmt)),
  well_scoped uses_stmts u -> T_body_opt (M_C32.constprop n) u = Some u' -> well_scoped uses_stmts u'.
Proof. exact T_constprop_preserves_well_scoped. Qed.
Print Assumptions C41_constprop_preserves_well_scoped.
