(** C21 — property theorems only. *)
From Coq Require Import String Ascii List Bool Arith.
From LV Require Import Base.Strings models.M_C21 proofs.P_C21 proofs.P_C21_fuel proofs.P_C21_match.
Import ListNotations.
Open Scope string_scope.
Open Scope list_scope.

(** Nodes of the populated graph are exactly the items reachable from the (resolved) seeds through
    [R x y := exists l, children inp x = Ok l /\ In y l]  (expanded parent, child kept after pruning):
    soundness and completeness of the FIFO worklist of SGraph._populate. *)
Theorem C21_populate_nodes_closure : forall inp s,
  populate inp = Ok s -> forall x, In x (nodes s) <-> reach inp x.
Proof. exact populate_nodes_closure. Qed.
Print Assumptions C21_populate_nodes_closure.

(** One edge per kept dependency of a node, self references suppressed. *)
Theorem C21_populate_edges_exact : forall inp s,
  populate inp = Ok s ->
  forall x y, In (x, y) (edges s) <-> In x (nodes s) /\ R inp x y /\ x <> y.
Proof. exact populate_edges_exact. Qed.
Print Assumptions C21_populate_edges_exact.

(** [R] spelled out: the parent has a config with expand = true and the child is in [kept] ... *)
Theorem C21_R_spec : forall inp x y,
  R inp x y <->
  exists c ds l, lookup x (i_table inp) = Some (c, ds) /\ c_expand c = true /\
                 kept (i_strict inp) (i_gdisable inp) c ds = Ok l /\ In y l.
Proof. exact R_spec. Qed.
Print Assumptions C21_R_spec.

(** ... and [kept] is: produced by some dependency node (after the _is_ignored test of the item factory),
    not matched by the parent's [disable] nor [block] list under default matching. *)
Theorem C21_kept_spec : forall strict g c ds l,
  kept strict g c ds = Ok l ->
  forall y, In y l <->
    (exists d l0, In d ds /\ emit strict g c d = Ok l0 /\ In y l0) /\
    matchb false false y (c_disable c) = false /\ matchb false false y (c_block c) = false.
Proof. exact kept_In. Qed.
Print Assumptions C21_kept_spec.

Theorem C21_emit_item_spec : forall strict g c n l,
  emit strict g c (DItem n) = Ok l -> forall y, In y l <-> y = n /\ early g c n = false.
Proof. exact emit_item. Qed.
Print Assumptions C21_emit_item_spec.

(** The worklist terminates within |seed items| + |distinct dependency names| + 1 iterations;
    more fuel does not change the result. *)
Theorem C21_fuel_suffices : forall inp ign0,
  populate_from inp ign0 <> ErrFuel /\
  forall fuel, fuel_bound inp <= fuel -> run inp fuel (init_st inp ign0) = populate_from inp ign0.
Proof. exact fuel_suffices. Qed.
Print Assumptions C21_fuel_suffices.

Theorem C21_scheduler_graph_no_fuel_error : forall inp, scheduler_graph inp <> ErrFuel.
Proof. exact scheduler_graph_no_fuel_err. Qed.
Print Assumptions C21_scheduler_graph_no_fuel_error.

(** The graph handed out (after _break_cycles): same nodes; *)
Theorem C21_graph_nodes_closure : forall inp g,
  scheduler_graph inp = Ok g -> forall x, In x (g_nodes g) <-> reach inp x.
Proof. exact graph_nodes_closure. Qed.
Print Assumptions C21_graph_nodes_closure.

(** edges are kept dependencies between nodes, and exactly those when no node is a RECURSIVE procedure.
    Partial: that _break_cycles leaves no cycle below a RECURSIVE procedure is not proved (the executable
    model of networkx.find_cycle is tied to the code and the oracle checks acyclicity on every run). *)
Theorem C21_break_cycles_partial : forall inp g,
  scheduler_graph inp = Ok g ->
  (forall x y, In (x, y) (g_edges g) -> In x (g_nodes g) /\ In y (g_nodes g) /\ R inp x y /\ x <> y) /\
  ((forall x, In x (g_nodes g) -> is_recursive inp x = false) ->
   forall x y, In (x, y) (g_edges g) <-> In x (g_nodes g) /\ R inp x y /\ x <> y).
Proof. intros inp g H. split; [now apply graph_edges_sound|now apply graph_edges_exact_no_recursive]. Qed.
Print Assumptions C21_break_cycles_partial.

(** is_ignored only originates from an ignore-list hit (parent scopes included) on a kept dependency of a
    reachable item and travels down dependency chains. *)
Theorem C21_ignored_propagates : forall inp g,
  scheduler_graph inp = Ok g -> forall y, In y (g_ignored g) ->
  exists z w, reach inp z /\ R inp z w /\ matchb false true w (cfg_ignore inp z) = true /\ star inp w y.
Proof. exact ignored_propagates. Qed.
Print Assumptions C21_ignored_propagates.

(** Matching of names against config keys *)
Theorem C21_match_keys_case_insensitive : forall pat par nm nm' keys keys',
  lower nm = lower nm' -> map lower keys = map lower keys' ->
  match_keys pat par nm keys = match_keys pat par nm' keys'.
Proof. exact match_keys_case_insensitive. Qed.
Print Assumptions C21_match_keys_case_insensitive.

Theorem C21_match_keys_spec : forall scope local keys,
  has_char "#" scope = false -> has_char "#" local = false ->
  exists l, match_keys false false (scope +++ "#" +++ local) keys = Some l /\
    forall k, In k l <-> In k (map lower keys) /\
                         (k = lower scope +++ "#" +++ lower local \/ k = lower local).
Proof. exact match_keys_spec. Qed.
Print Assumptions C21_match_keys_spec.

Theorem C21_match_keys_parent_scope : forall pat scope local keys,
  has_char "#" scope = false -> has_char "#" local = false -> scope <> "" ->
  In (lower scope) (map lower keys) ->
  matchb pat true (scope +++ "#" +++ local) keys = true.
Proof. exact match_keys_parent_scope. Qed.
Print Assumptions C21_match_keys_parent_scope.

Theorem C21_glob_spec : forall p s, glob p s = true <-> gmatch p s.
Proof. exact glob_spec. Qed.
Print Assumptions C21_glob_spec.

Theorem C21_glob_literal : forall p s, no_wild p = true -> glob p s = String.eqb p s.
Proof. exact glob_literal. Qed.
Print Assumptions C21_glob_literal.

(** Pruning under the pattern and scope rules: holds on the class of inputs without calls resolved
    through an unqualified USE, and is refuted outside of it (two concrete witnesses). *)
Theorem C21_edges_respect_pruning_on_class : forall inp s,
  (forall x c ds d, lookup x (i_table inp) = Some (c, ds) -> In d ds -> checked d = true) ->
  populate inp = Ok s ->
  forall x y, In (x, y) (edges s) ->
    exists c ds, lookup x (i_table inp) = Some (c, ds) /\ c_expand c = true /\
                 early (i_gdisable inp) c y = false /\
                 matchb false false y (c_disable c) = false /\ matchb false false y (c_block c) = false.
Proof. exact edges_respect_pruning_on_class. Qed.
Print Assumptions C21_edges_respect_pruning_on_class.

Theorem C21_blocked_pattern_escapes_refuted :
  exists inp s x y c ds,
    populate inp = Ok s /\ In (x, y) (edges s) /\ lookup x (i_table inp) = Some (c, ds) /\
    early (i_gdisable inp) c y = true.
Proof. exact blocked_pattern_escapes_refuted. Qed.
Print Assumptions C21_blocked_pattern_escapes_refuted.

Theorem C21_disabled_callee_phantom_refuted :
  exists inp s x c ds p m,
    populate inp = Ok s /\ lookup x (i_table inp) = Some (c, ds) /\ In x (nodes s) /\
    In (DCallUnq p [m] false) ds /\ gdis inp (m +++ "#" +++ p) = true /\ In ("#" +++ p) (nodes s).
Proof. exact disabled_callee_phantom_refuted. Qed.
Print Assumptions C21_disabled_callee_phantom_refuted.
