(** C29 — property theorems only. *)
From Coq Require Import ZArith List Bool String.
From LV Require Import Base.Expr Base.MiniF Base.MiniFFacts models.M_C29
  proofs.P_C29 proofs.P_C29_fwd proofs.P_C29_bwd proofs.P_C29_more.
Import ListNotations.
Open Scope Z_scope.
Open Scope string_scope.

(** do_resolve_associates (start_depth = 0) on the class [selectors_stable]: every error-free run of the
    routine with ASSOCIATE blocks is a run of the resolved routine with the same final store *)
Theorem C29_resolve_preserves_on_class : forall ss, selectors_stable ss = true ->
  forall s s', aruns [] ss s s' -> runs [] (resolve ss) s s'.
Proof. exact resolve_preserves_on_class. Qed.
Print Assumptions C29_resolve_preserves_on_class.

(** ... and conversely when no selector evaluation can fail (the resolved code no longer evaluates unused selectors) *)
Theorem C29_resolve_preserves_iff_on_class : forall ss, selectors_stable ss = true -> selectors_safe ss = true ->
  forall s s', aruns [] ss s s' <-> runs [] (resolve ss) s s'.
Proof. exact resolve_preserves_iff_on_class. Qed.
Print Assumptions C29_resolve_preserves_iff_on_class.

(** ... or, without that side condition, on every store on which the original does not go wrong *)
Theorem C29_resolve_preserves_no_error : forall ss, selectors_stable ss = true ->
  forall s s', (exists t, aruns [] ss s t) -> (aruns [] ss s s' <-> runs [] (resolve ss) s s').
Proof. exact resolve_preserves_no_error. Qed.
Print Assumptions C29_resolve_preserves_no_error.

(** F17: outside the class the code changes behaviour (expression selector captured at entry) *)
Theorem C29_resolve_expr_selector_refuted :
  exists ss s s1 s2, valid ss = true /\ aruns [] ss s s1 /\ runs [] (resolve ss) s s2 /\ sv s1 "y" <> sv s2 "y".
Proof. exact resolve_expr_selector_refuted. Qed.
Print Assumptions C29_resolve_expr_selector_refuted.

(** ... (variable selector whose subscript is modified in the block) *)
Theorem C29_resolve_subscript_refuted :
  exists ss s s1 s2, valid ss = true /\ aruns [] ss s s1 /\ runs [] (resolve ss) s s2 /\ av s1 "arr" [1] <> av s2 "arr" [1].
Proof. exact resolve_subscript_refuted. Qed.
Print Assumptions C29_resolve_subscript_refuted.

(** ... (array section with a bound shift) *)
Theorem C29_resolve_bounds_shift_refuted :
  exists ss s s1 s2, valid ss = true /\ aruns [] ss s s1 /\ runs [] (resolve ss) s s2 /\ av s1 "arr" [2] <> av s2 "arr" [2].
Proof. exact resolve_bounds_shift_refuted. Qed.
Print Assumptions C29_resolve_bounds_shift_refuted.

(** resolving a resolved routine changes nothing (feeds C40) *)
Theorem C29_resolve_idempotent : forall ss, resolve (embed (resolve ss)) = resolve ss.
Proof. exact resolve_idempotent. Qed.
Print Assumptions C29_resolve_idempotent.

(** the general transformer with start_depth = 0 is the function the theorems above are about *)
Theorem C29_resolve_sd_zero : forall ss, resolve_sd 0 ss = embed (resolve ss).
Proof. exact resolve_sd_zero. Qed.
Print Assumptions C29_resolve_sd_zero.

(** shadowing: inside a block re-associating [x] the enclosing association of [x] plays no role *)
Theorem C29_shadowing_inner_wins : forall x v2 v1 sg body,
  resolve_list ((x, v2) :: (x, v1) :: sg) body = resolve_list ((x, v2) :: sg) body.
Proof. exact shadowing_inner_wins. Qed.
Print Assumptions C29_shadowing_inner_wins.

(** do_merge_associates preserves behaviour on the validated class [merge_ok] (computed per routine) *)
Theorem C29_merge_preserves_on_class_partial : forall ss, merge_ok ss = true ->
  forall s s', aruns [] ss s s' <-> aruns [] (merge ss) s s'.
Proof. exact merge_preserves_on_class. Qed.
Print Assumptions C29_merge_preserves_on_class_partial.

(** ... and the code's own test for moving an association is not sufficient *)
Theorem C29_merge_refuted :
  exists ss m s s1 s2, merge_list ss = Some m /\ selectors_stable ss = true /\
    aruns [] ss s s1 /\ aruns [] m s s2 /\ av s1 "arr" [2] <> av s2 "arr" [2].
Proof. exact merge_refuted. Qed.
Print Assumptions C29_merge_refuted.
