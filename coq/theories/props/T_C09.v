(** C09 — property theorems only. *)
From Coq Require Import ZArith List Bool String.
From LV Require Import Base.Expr models.M_C08 models.M_C09 proofs.P_C09.
Import ListNotations.
Open Scope Z_scope.

(** A definite answer that the model marks as proven (the simplification run of the difference took no unsafe
    step and ended in a literal c) is right for EVERY valuation defining both operands, for all six operators. *)
Theorem C09_symop_sound : forall a op b v c g, symbolic_op a op b = (Answer v, Some c, g) ->
  forall rho x y, evalZ rho a = Some x -> evalZ rho b = Some y -> x - y = c /\ cmp_z op x y = v.
Proof. exact symop_sound. Qed.
Print Assumptions C09_symop_sound.

(** <, <=, >, >= never answer by comparing a non-literal node with 0 (they raise TypeError instead). *)
Theorem C09_symop_order_never_guesses : forall a op b, is_eqne op = false -> guessed_of (symbolic_op a op b) = false.
Proof. exact symop_order_never_guesses. Qed.
Print Assumptions C09_symop_order_never_guesses.

(** every definite answer is proven, or a guess, or comes after a literal reached through an unsafe run / a negation *)
Theorem C09_answer_unproven_cases : forall op ch b g, decide op ch = (Answer b, None, g) ->
  g = true \/ (exists v, ch = CLit v false) \/ (exists inner s, ch = CNeg inner s).
Proof. exact decide_unproven. Qed.
Print Assumptions C09_answer_unproven_cases.

(** F4 (refutation of "raises rather than guessing"): a == b for unrelated variables is answered False
    although a = b = 1 satisfies it; a != b is answered True; a < b raises. *)
Theorem C09_symop_eq_guess_refuted :
  symbolic_op va Ceq vb = (Answer false, None, true) /\ evalZ rho_eq va = Some 1 /\ evalZ rho_eq vb = Some 1.
Proof. exact wit_guess_eq. Qed.
Print Assumptions C09_symop_eq_guess_refuted.

Theorem C09_symop_ne_guess_refuted : symbolic_op va Cne vb = (Answer true, None, true).
Proof. exact wit_guess_ne. Qed.
Print Assumptions C09_symop_ne_guess_refuted.

Theorem C09_symop_order_raises : answer_of (symbolic_op va Clt vb) = Raises RTypeError.
Proof. exact wit_order_raises. Qed.
Print Assumptions C09_symop_order_raises.

(** F3 inherited from simplify: (a + b)/2 == a/2 + b/2 is answered True; a = b = 1 gives 1 and 0. *)
Theorem C09_symop_unsound_simplify_refuted :
  symbolic_op w_half_l Ceq w_half_r = (Answer true, None, false) /\
  evalZ rho_eq w_half_l = Some 1 /\ evalZ rho_eq w_half_r = Some 0.
Proof. exact wit_unsound_simplify. Qed.
Print Assumptions C09_symop_unsound_simplify_refuted.

(** the proven class is inhabited (incl. the minus-prefix path and a zero offset) *)
Theorem C09_class_inhabited :
  symbolic_op vn Clt (ESum false [vn; EInt 1]) = (Answer true, Some (-1), false) /\
  symbolic_op (ESum false [vn; EInt 1]) Cgt vn = (Answer true, Some 1, false) /\
  symbolic_op (ESum false [EProd false [EInt 2; vn]; EInt 3]) Ceq (ESum false [EInt 3; vn; vn]) = (Answer true, Some 0, false).
Proof. exact (conj ex_lt (conj ex_gt ex_eq)). Qed.
Print Assumptions C09_class_inhabited.
