(** C12 — property theorems only.
    Model = [mstep]/[mouts]/[mexec] (association lists), specification = [sstep]/[souts]/[sexec]
    (total functions keyed by the folded name); [absR] relates a model state to a specification state:
    same caller objects, same parent links, and every table's list denotes the specification's function. *)
From Coq Require Import ZArith String Ascii List Bool.
From LV Require Import Base.Strings models.M_C12 proofs.P_C12.
Import ListNotations.
Open Scope string_scope.
Open Scope list_scope.

(** Refinement for EVERY operation history (every step's output equals the specification's,
    and abstraction commutes with the whole fold_left). *)
Theorem C12_history_refines : forall ops s a,
  absR s a ->
  mouts s ops = souts a ops /\ absR (mexec s ops) (sexec a ops).
Proof. exact history_refines. Qed.
Print Assumptions C12_history_refines.

Theorem C12_history_refines_from_init : forall ops,
  mouts minit ops = souts sinit ops /\ absR (mexec minit ops) (sexec sinit ops).
Proof. exact history_refines_from_init. Qed.
Print Assumptions C12_history_refines_from_init.

(** the same through the abstraction function *)
Theorem C12_history_refines_abs : forall ops s,
  mouts s ops = souts (abs_state s) ops /\ absR (mexec s ops) (sexec (abs_state s) ops).
Proof. exact history_refines_abs. Qed.
Print Assumptions C12_history_refines_abs.

(** the behaviour before commit 0d55598 (F7c: clone() below an empty parent table lost the parent) did not refine the
    specification; the present model does on the same history *)
Theorem C12_clone_old_refuted :
  exists ops, mouts_old minit ops <> souts sinit ops /\ mouts minit ops = souts sinit ops.
Proof. exact clone_old_refuted. Qed.
Print Assumptions C12_clone_old_refuted.

(** Look-ups find the innermost declaration: the table that answers is the first one on the parent chain that binds the name *)
Theorem C12_lookup_innermost : forall s t n r v,
  snd (mstep s (OLookup t n true)) = OutObj r v ->
  exists pre i post,
    chain (S (length (st_tabs s))) (st_tabs s) t = pre ++ i :: post
    /\ (forall j, In j pre -> tab_has m_ops (st_tabs s) j (fmt n) = None)
    /\ tab_has m_ops (st_tabs s) i (fmt n) = Some v.
Proof. exact (lookup_innermost m_ops false). Qed.
Print Assumptions C12_lookup_innermost.

Theorem C12_lookup_none_everywhere : forall s t n,
  nth_error (st_tabs s) t <> None ->
  snd (mstep s (OLookup t n true)) = OutNone ->
  forall j, In j (chain (S (length (st_tabs s))) (st_tabs s) t) -> tab_has m_ops (st_tabs s) j (fmt n) = None.
Proof. exact (lookup_none_everywhere m_ops false). Qed.
Print Assumptions C12_lookup_none_everywhere.

Theorem C12_lookup_after_set : forall s t n n' r rec tb v,
  nth_error (st_tabs s) t = Some tb -> nth_error (st_objs s) r = Some v -> same_key n n' ->
  mouts s [OSet t n r; OLookup t n' rec] = [OutNone; OutObj (length (st_objs s)) v].
Proof. exact lookup_after_set. Qed.
Print Assumptions C12_lookup_after_set.

(** Every operation, hence every history, is invariant under re-spelling the names (same folded look-up name) *)
Theorem C12_spelling_invariant : forall ops ops',
  Forall2 op_same ops ops' ->
  forall s, mouts s ops = mouts s ops' /\ mexec s ops = mexec s ops'.
Proof. exact (history_same m_ops false). Qed.
Print Assumptions C12_spelling_invariant.

Theorem C12_spellings_with_same_key : forall a b d,
  (same_fold a b -> same_key a b) /\ same_key (a ++ "(" ++ d) a /\ same_key (upper a) a.
Proof. intros a b d. split; [apply same_fold_same_key|split; [apply fmt_dims|apply fmt_upper]]. Qed.
Print Assumptions C12_spellings_with_same_key.

(** Deletion agrees with membership, for any two spellings of the name *)
Theorem C12_deletion_agrees_with_membership : forall s t n n',
  same_key n n' ->
  let present := snd (mstep s (OContains t n)) in
  (present = OutBool true <-> snd (mstep s (ODel t n')) = OutNone)
  /\ (present = OutBool false <-> snd (mstep s (ODel t n')) = OutErr EKey)
  /\ (present = OutBool true <-> exists r v, snd (mstep s (OPop t n' false)) = OutObj r v)
  /\ (present = OutBool false <-> snd (mstep s (OPop t n' false)) = OutErr EKey)
  /\ (present = OutBool true -> snd (mstep (fst (mstep s (ODel t n'))) (OContains t n)) = OutBool false)
  /\ (present = OutBool true -> snd (mstep (fst (mstep s (OPop t n' false))) (OContains t n)) = OutBool false).
Proof. exact deletion_agrees_with_membership. Qed.
Print Assumptions C12_deletion_agrees_with_membership.

(** the behaviour before commit 32dff38 (F7) did not have this property *)
Theorem C12_del_unfolded_refuted :
  exists (tb : atab) n, al_get String.eqb (fmt n) tb <> None /\ del_unfolded tb n = None.
Proof. exact del_unfolded_refuted. Qed.
Print Assumptions C12_del_unfolded_refuted.

(** Returned attributes are independent copies: every object handed out is a brand-new reference, nothing the caller
    does to its objects changes a table, an inserted object is copied, a returned one is a copy *)
Theorem C12_returned_attrs_fresh : forall s o r v,
  snd (mstep s o) = OutObj r v ->
  r = length (st_objs s) /\ st_objs (fst (mstep s o)) = st_objs s ++ [v].
Proof. exact returned_fresh. Qed.
Print Assumptions C12_returned_attrs_fresh.

Theorem C12_caller_ops_leave_tables : forall s,
  (forall r v, st_tabs (fst (mstep s (OMutate r v))) = st_tabs s)
  /\ (forall v, st_tabs (fst (mstep s (ONew v))) = st_tabs s).
Proof. exact caller_ops_leave_tables. Qed.
Print Assumptions C12_caller_ops_leave_tables.

Theorem C12_set_stores_copy : forall s t n n' r tb v w,
  nth_error (st_tabs s) t = Some tb -> nth_error (st_objs s) r = Some v -> same_key n n' ->
  mouts s [OSet t n r; OMutate r w; OGetItem t n'] = [OutNone; OutNone; OutObj (length (st_objs s)) v].
Proof. exact set_stores_copy. Qed.
Print Assumptions C12_set_stores_copy.

Theorem C12_get_returns_copy : forall (s : mstate) t n n' tb v w,
  nth_error (st_tabs s) t = Some tb -> tget m_ops (fmt n) (t_ents tb) = Some v -> same_key n n' ->
  mouts s [OGetItem t n; OMutate (length (st_objs s)) w; OGetItem t n']
  = [OutObj (length (st_objs s)) v; OutNone; OutObj (S (length (st_objs s))) v].
Proof. exact get_returns_copy. Qed.
Print Assumptions C12_get_returns_copy.

(** The case-insensitive dictionaries *)
Theorem C12_dict_history_refines_on_class : forall fl ops t f,
  dabsR t f -> forallb (dop_ok fl) ops = true ->
  douts dm_ops fl t ops = douts ds_ops (spec_fl fl) f ops
  /\ dabsR (dexec dm_ops fl t ops) (dexec ds_ops (spec_fl fl) f ops).
Proof. exact dict_history_refines. Qed.
Print Assumptions C12_dict_history_refines_on_class.

(** CaseInsensitiveDict (OrderedDict based): unconditional *)
Theorem C12_dict_ordered_refines : forall ops,
  douts dm_ops fl_ordered [] ops = douts ds_ops fl_ordered (fun _ => None) ops
  /\ dabsR (dexec dm_ops fl_ordered [] ops) (dexec ds_ops fl_ordered (fun _ => None) ops).
Proof. exact dict_ordered_refines. Qed.
Print Assumptions C12_dict_ordered_refines.

(** CaseInsensitiveDefaultDict: update()/setdefault()/constructor data bypass the folding (known finding) *)
Theorem C12_defaultdict_update_refuted :
  exists ops, douts dm_ops (fl_default None) [] ops <> douts ds_ops (spec_fl (fl_default None)) (fun _ => None) ops.
Proof. exact defaultdict_update_refuted. Qed.
Print Assumptions C12_defaultdict_update_refuted.

Theorem C12_dict_spelling_invariant : forall fl (t : dtab) o o',
  dop_same o o' -> dstep dm_ops fl t o = dstep dm_ops fl t o'.
Proof. exact (dstep_same dm_ops). Qed.
Print Assumptions C12_dict_spelling_invariant.

Theorem C12_dict_deletion_agrees_with_membership : forall fl (t : dtab) k k',
  dkey_same k k' ->
  let present := snd (dstep dm_ops fl t (DContains k)) in
  (present = RBool true <-> snd (dstep dm_ops fl t (DDel k')) = RNone)
  /\ (present = RBool false <-> snd (dstep dm_ops fl t (DDel k')) = RKeyError)
  /\ (present = RBool true <-> exists v, snd (dstep dm_ops fl t (DPop k' false)) = RVal v)
  /\ (present = RBool true -> snd (dstep dm_ops fl (fst (dstep dm_ops fl t (DDel k'))) (DContains k)) = RBool false)
  /\ (present = RBool true -> snd (dstep dm_ops fl (fst (dstep dm_ops fl t (DPop k' false))) (DContains k)) = RBool false).
Proof. exact dict_deletion_agrees_with_membership. Qed.
Print Assumptions C12_dict_deletion_agrees_with_membership.
