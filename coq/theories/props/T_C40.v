(** C40 — property theorems only: normalising transformations are idempotent. *)
From Coq Require Import ZArith List Bool String.
From LV Require Import Base.Strings Base.Expr Base.MiniF.
From LV Require models.M_C29 models.M_C30 models.M_C32.
From LV Require Import models.M_C40 proofs.P_C40.
Import ListNotations.
Open Scope Z_scope.

(** the route used throughout: T lands in a set of normal forms on which it is the identity *)
Theorem C40_idem_by_normal_form : forall (A : Type) (T : A -> A) (nf : A -> Prop),
  (forall p, nf (T p)) -> (forall q, nf q -> T q = q) -> forall p, T (T p) = T p.
Proof. exact @idem_by_nf. Qed.
Print Assumptions C40_idem_by_normal_form.

(** * do_resolve_associates *)

(** full resolution: the output has no ASSOCIATE block, and such programs are left alone *)
Theorem C40_resolve_associates_normal_form : forall ss,
  assoc_free (T_assoc ss) = true /\ (forall q, assoc_free q = true -> T_assoc q = q).
Proof. intros ss. split; [apply T_assoc_nf|apply T_assoc_fix]. Qed.
Print Assumptions C40_resolve_associates_normal_form.

Theorem C40_resolve_associates_idem : forall ss, T_assoc (T_assoc ss) = T_assoc ss.
Proof. exact T_assoc_idem. Qed.
Print Assumptions C40_resolve_associates_idem.

(** partial resolution with any start_depth: no block deeper than start_depth remains, and shallow programs are left alone *)
Theorem C40_resolve_associates_depth_idem : forall sd ss,
  shallow sd (M_C29.resolve_sd sd ss) = true
  /\ (forall q, shallow sd q = true -> M_C29.resolve_sd sd q = q)
  /\ M_C29.resolve_sd sd (M_C29.resolve_sd sd ss) = M_C29.resolve_sd sd ss.
Proof. intros sd ss. split; [apply resolve_sd_nf|split; [apply resolve_sd_fix|apply resolve_sd_idem]]. Qed.
Print Assumptions C40_resolve_associates_depth_idem.

(** merging (outside the list of the property) is NOT idempotent: three nested blocks need two applications *)
Theorem C40_merge_associates_refuted :
  exists ss m1 m2, M_C29.merge_list ss = Some m1 /\ M_C29.merge_list m1 = Some m2 /\ m2 <> m1.
Proof. exact merge_not_idempotent. Qed.
Print Assumptions C40_merge_associates_refuted.

(** * resolve_vector_notation *)

(** section-free programs are fixed points; the output read back is section-free *)
Theorem C40_vector_notation_normal_form : forall lm ds b q,
  (sec_free b = true -> M_C30.resolve_body lm ds b = Some (vflat b))
  /\ sec_free (vembed q) = true /\ vflat (vembed q) = q.
Proof. intros lm ds b q. split; [apply resolve_body_fix|split; [apply sec_free_vembed|apply vflat_vembed]]. Qed.
Print Assumptions C40_vector_notation_normal_form.

Theorem C40_vector_notation_idem : forall ds b q,
  M_C30.resolve_prog ds b = Some q -> M_C30.resolve_prog ds (vembed q) = Some q.
Proof. exact resolve_prog_idem. Qed.
Print Assumptions C40_vector_notation_idem.

(** * add / remove explicit array dimensions, normalize_range_indexing *)
Theorem C40_add_explicit_idem : forall ds b, M_C30.add_explicit ds (M_C30.add_explicit ds b) = M_C30.add_explicit ds b.
Proof. exact add_explicit_idem. Qed.
Print Assumptions C40_add_explicit_idem.

Theorem C40_remove_explicit_idem : forall b, M_C30.remove_explicit (M_C30.remove_explicit b) = M_C30.remove_explicit b.
Proof. exact remove_explicit_idem. Qed.
Print Assumptions C40_remove_explicit_idem.

Theorem C40_normalize_range_idem : forall ds, M_C30.normrange_decls (M_C30.normrange_decls ds) = M_C30.normrange_decls ds.
Proof. exact normrange_decls_idem. Qed.
Print Assumptions C40_normalize_range_idem.

(** * do_remove_dead_code *)

(** programs in normal form (no literal condition; with use_simplify: conditions are fixed points of the
    modelled simplification) are fixed points, and every output is in normal form *)
Theorem C40_dead_code_normal_form : forall u p q,
  (dce_nf_l u q = true -> M_C32.dce u q = Some q)
  /\ (M_C32.dce u p = Some q -> (u = true -> conds_stable q = true) -> dce_nf_l u q = true).
Proof. intros u p q. split; [apply dce_nf_fix|apply dce_out_nf]. Qed.
Print Assumptions C40_dead_code_normal_form.

Theorem C40_dead_code_idem : forall p q, M_C32.dce false p = Some q -> M_C32.dce false q = Some q.
Proof. exact dce_idem_nosimplify. Qed.
Print Assumptions C40_dead_code_idem.

(** with use_simplify=True the expression model of C32 is partial (binary expressions over literals and atoms);
    the modelled simplification is idempotent wherever it is defined on its own output ... *)
Theorem C40_simplify_model_idem : forall c c' c'',
  M_C32.simp_cond false [] c = Some c' -> M_C32.simp_cond false [] c' = Some c'' -> c'' = c'.
Proof. intros c c' c'' H1 H2. exact (simp_cond_ok c c' H1 c'' H2). Qed.
Print Assumptions C40_simplify_model_idem.

(** ... hence whenever the model is defined on its own output, the second application changes nothing *)
Theorem C40_dead_code_simplify_idem : forall p q q',
  M_C32.dce true p = Some q -> M_C32.dce true q = Some q' -> q' = q.
Proof. exact dce_idem_simplify. Qed.
Print Assumptions C40_dead_code_simplify_idem.

(** the same in validated form: the hypothesis is the decidable predicate evaluated for every generated case *)
Theorem C40_dead_code_simplify_idem_validated : forall p q,
  M_C32.dce true p = Some q -> conds_stable q = true -> M_C32.dce true q = Some q.
Proof. exact dce_idem_simplify_partial. Qed.
Print Assumptions C40_dead_code_simplify_idem_validated.

(** * do_remove_dead_code with SELECT CASE (own source-level model [kdce]: visit_MultiConditional + visit_Conditional) *)
Theorem C40_dead_code_select_normal_form : forall u p q,
  (knf_l u q = true -> kdce u q = Some q)
  /\ (kdce u p = Some q -> (u = true -> kconds_stable q = true) -> knf_l u q = true).
Proof. intros u p q. split; [apply kdce_nf_fix|apply kdce_out_nf]. Qed.
Print Assumptions C40_dead_code_select_normal_form.

(** every body is visited BEFORE the matching case is spliced in, so one application removes all nested dead code *)
Theorem C40_dead_code_select_idem : forall p q, kdce false p = Some q -> kdce false q = Some q.
Proof. exact kdce_idem_nosimplify. Qed.
Print Assumptions C40_dead_code_select_idem.

Theorem C40_dead_code_select_simplify_idem_validated : forall p q,
  kdce true p = Some q -> kconds_stable q = true -> kdce true q = Some q.
Proof. exact kdce_idem_simplify_validated. Qed.
Print Assumptions C40_dead_code_select_simplify_idem_validated.

(** * convert_to_lower_case *)
Theorem C40_lower_name_idem : forall s, lower (lower s) = lower s.
Proof. exact lower_name_idem. Qed.
Print Assumptions C40_lower_name_idem.

(** on routines whose subscript / intrinsic nesting stays within the ten iterations of
    recursive_expression_map_update, one application reaches every name and a second one changes nothing *)
Theorem C40_lower_case_idem_on_class : forall p, lc_class p = true ->
  low_prog (lc p) = true /\ lc (lc p) = lc p.
Proof. intros p H. split; [now apply lc_class_low|now apply lc_idem_on_class]. Qed.
Print Assumptions C40_lower_case_idem_on_class.

(** unconditionally the function is NOT idempotent: ARR(IDX(IDX(...(I)))) with ten IDX levels *)
Theorem C40_lower_case_refuted : exists p, lc (lc p) <> lc p /\ lc_class p = false.
Proof. exact lc_refuted. Qed.
Print Assumptions C40_lower_case_refuted.

(** the specification (every name lower-case) is idempotent without any bound *)
Theorem C40_lower_case_spec_idem : forall p, lower_all (lower_all p) = lower_all p.
Proof. exact lower_all_idem. Qed.
Print Assumptions C40_lower_case_spec_idem.

(** declarations: idempotent when no initialised symbol with an upper-case letter has upper-case names in its
    initial value; refuted otherwise ([INTEGER :: W0 = K0]) *)
Theorem C40_lower_case_decls_on_class : forall ds, init_class ds = true -> lc_decls (lc_decls ds) = lc_decls ds.
Proof. exact lc_decls_idem_on_class. Qed.
Print Assumptions C40_lower_case_decls_on_class.

Theorem C40_lower_case_decls_refuted : exists ds, lc_decls (lc_decls ds) <> lc_decls ds /\ init_class ds = false.
Proof. exact lc_decls_refuted. Qed.
Print Assumptions C40_lower_case_decls_refuted.

(** * single_variable_declaration (default, variables=..., group_by_shape) *)
Theorem C40_single_variable_declaration_idem : forall mode ds, svd_mode mode (svd_mode mode ds) = svd_mode mode ds.
Proof. exact svd_mode_idem. Qed.
Print Assumptions C40_single_variable_declaration_idem.

(** * sanitise_imports (for a fixed set of used names: import statements do not contribute to it) *)
Theorem C40_sanitise_imports_idem : forall used ims,
  imports_nf used (prune used ims) = true /\ prune used (prune used ims) = prune used ims.
Proof. intros used ims. split; [apply prune_nf|apply prune_idem]. Qed.
Print Assumptions C40_sanitise_imports_idem.

(** * do_resolve_sequence_association *)
Theorem C40_sequence_association_idem : forall ds ranks args,
  seq_args ds ranks (seq_args ds ranks args) = seq_args ds ranks args.
Proof. exact seq_args_idem. Qed.
Print Assumptions C40_sequence_association_idem.
