(** C17 — property theorems only. *)
From Coq Require Import ZArith List Bool String.
From LV Require Import models.M_C17 proofs.P_C17 proofs.P_C17_indep proofs.P_C17_types proofs.P_C17_wit.
Import ListNotations.
Open Scope Z_scope.

(** the scope objects of the copy are new: none is a scope of the original unit, of its enclosing scopes, or mentioned by the original *)
Theorem C17_clone_fresh : forall d ctx u, bounded d ctx u = true ->
  forall i, In i (ids (clone d ctx u)) -> ~ In i (ids u) /\ ~ In i (map fst ctx) /\ ~ In i (refs u).
Proof. exact clone_fresh. Qed.
Print Assumptions C17_clone_fresh.

(** on well-scoped clean units (any tree shape, any depth) the name-look-up based rescoping of the real code produces exactly the
    original with its own scope objects renamed to the new ones and every pointer to the outside untouched *)
Theorem C17_clone_iso : forall d ctx u,
  bounded d ctx u = true -> wf ctx u = true -> clean u = true ->
  clone d ctx u = rename (ren d (ids u)) u.
Proof. exact clone_iso. Qed.
Print Assumptions C17_clone_iso.

(** without the cleanliness condition this still holds for scope ids, parents, table keys and type tags and all symbols of the IR *)
Theorem C17_clone_skeleton_iso : forall d ctx u,
  bounded d ctx u = true -> wf ctx u = true ->
  skeleton (clone d ctx u) = skeleton (rename (ren d (ids u)) u).
Proof. exact clone_skeleton_iso. Qed.
Print Assumptions C17_clone_skeleton_iso.

(** nothing in the copy (symbol scopes, symbols inside types, procedure/typedef pointers, parents) refers to a scope object of the original *)
Theorem C17_clone_closed : forall d ctx u,
  bounded d ctx u = true -> wf ctx u = true -> clean u = true ->
  forall r, In r (refs (clone d ctx u)) -> ~ In r (ids u).
Proof. exact clone_closed. Qed.
Print Assumptions C17_clone_closed.

(** ... which the real code violates outside the class: ASSOCIATE over an array with a local shape, a derived type defined in the unit,
    CHARACTER(LEN=n) *)
Theorem C17_clone_closed_refuted :
  (exists d ctx u, bounded d ctx u = true /\ wf ctx u = true /\ exists r, In r (refs (clone d ctx u)) /\ In r (ids u) /\ u = w_assoc) /\
  (exists d ctx u, bounded d ctx u = true /\ wf ctx u = true /\ exists r, In r (refs (clone d ctx u)) /\ In r (ids u) /\ u = w_typedef) /\
  (exists d ctx u, bounded d ctx u = true /\ wf ctx u = true /\ exists r, In r (refs (clone d ctx u)) /\ In r (ids u) /\ u = w_charlen).
Proof. exact clone_closed_refuted. Qed.
Print Assumptions C17_clone_closed_refuted.

(** every symbol of the copy reads the type the corresponding symbol of the original reads (through its own scope chain) *)
Theorem C17_clone_types_equal : forall d ctx u,
  bounded d ctx u = true -> wf ctx u = true ->
  occ_types ctx (clone d ctx u) = occ_types ctx u.
Proof. exact clone_types_equal. Qed.
Print Assumptions C17_clone_types_equal.

(** arbitrary histories of edits made through one copy (its scope objects, or the scopes its symbols are attached to) that do not
    import symbols of the other copy leave the other copy exactly as it was *)
Theorem C17_independent : forall es a b,
  sep a b -> valid_edits b a es -> apply_edits es b = b /\ sep (apply_edits es a) b.
Proof. exact independent. Qed.
Print Assumptions C17_independent.

Theorem C17_clone_independent_of_clone_edits : forall d ctx u es,
  bounded d ctx u = true -> wf ctx u = true -> clean u = true ->
  valid_edits u (clone d ctx u) es -> apply_edits es u = u.
Proof. exact clone_independent_of_clone_edits. Qed.
Print Assumptions C17_clone_independent_of_clone_edits.

Theorem C17_clone_independent_of_orig_edits : forall d ctx u es,
  bounded d ctx u = true ->
  valid_edits (clone d ctx u) u es -> apply_edits es (clone d ctx u) = clone d ctx u.
Proof. exact clone_independent_of_orig_edits. Qed.
Print Assumptions C17_clone_independent_of_orig_edits.

(** with a leak the independence is really lost: a type set through a symbol of the CLONE rewrites the table of the original *)
Theorem C17_clone_independence_refuted :
  exists e, valid_edits w_assoc (clone 10 [] w_assoc) [e] /\ apply_edits [e] w_assoc <> w_assoc.
Proof. exact clone_independence_refuted. Qed.
Print Assumptions C17_clone_independence_refuted.

(** the hypotheses are satisfiable by a non-trivial unit (module context, member procedure, ASSOCIATE, host association, shadowing) *)
Theorem C17_nonvacuous :
  bounded 10 ex_ctx ex_unit = true /\ wf ex_ctx ex_unit = true /\ clean ex_unit = true /\
  clone 10 ex_ctx ex_unit <> ex_unit /\
  valid_edits ex_unit (clone 10 ex_ctx ex_unit) [ESetEntry 12 "x"%string (ent 9 []); EAddOcc 10 (oc "x"%string 12); ESetEntry 5 "v"%string (ent 6 [])].
Proof. exact c17_nonvacuous. Qed.
Print Assumptions C17_nonvacuous.
