(** C30 — property theorems only. *)
From Coq Require Import ZArith List Bool String.
From LV Require Import Base.Expr Base.MiniF Base.MiniFFacts models.M_C30 proofs.P_C30_lin proofs.P_C30 proofs.P_C30_idx.
Import ListNotations.
Open Scope Z_scope.

(** ** resolution of array notation *)

Theorem C30_shifted_index_bijection : forall a c s,
  (forall k, (a + k * s) - a + c = c + k * s) /\
  (forall i, ((i - a + c) - c + a = i)) /\
  (forall i i', i - a + c = i' - a + c -> i = i').
Proof. exact shifted_index_bijection. Qed.
Print Assumptions C30_shifted_index_bijection.

Theorem C30_resolve_vec_preserves_on_class : forall ps lm ds a idx rhs p,
  no_forward_overlap lm ds a idx rhs = true ->
  List.length (ranges_of (qualify_idx ds a idx)) = 1%nat ->
  resolve_vec lm ds a idx rhs = Some p ->
  forall s,
    (forall s', vruns ds a idx rhs s s' ->
       exists s'', runs ps p s s'' /\ store_eq_except (loop_vars lm ds a idx) s' s'') /\
    (forall s'', runs ps p s s'' -> conforms ds a idx rhs s = true ->
       exists s', vruns ds a idx rhs s s' /\ store_eq_except (loop_vars lm ds a idx) s' s'').
Proof. exact resolve_vec_preserves_on_class. Qed.
Print Assumptions C30_resolve_vec_preserves_on_class.

Theorem C30_resolve_vec_class_inhabited :
  no_forward_overlap [] ex_ds "c" ex_idx ex_rhs = true /\
  List.length (ranges_of (qualify_idx ex_ds "c" ex_idx)) = 1%nat /\
  resolve_vec [] ex_ds "c" ex_idx ex_rhs =
    Some [SDo "i_c_0" (EInt 2) (EVar "n") None
            [SStore "c" [EInt 2; EVar "i_c_0"]
               (ESum true [ECall "b" [ESum false [EVar "i_c_0"; EProd false [EPy (-1); EInt 2]; EInt 1]];
                           EProd false [ECall "c" [EInt 2; EVar "i_c_0"]; EVar "k"]])]].
Proof. exact class_inhabited. Qed.
Print Assumptions C30_resolve_vec_class_inhabited.

(** F11: a(2:5) = a(1:4) *)
Theorem C30_resolve_vec_overlap_refuted :
  exists s' s'',
    resolve_vec [] f11_ds "a" f11_idx f11_rhs = Some f11_loop /\
    vruns f11_ds "a" f11_idx f11_rhs f11_store s' /\
    runs [] f11_loop f11_store s'' /\
    conforms f11_ds "a" f11_idx f11_rhs f11_store = true /\
    cells_1_5 s' = [1; 1; 2; 3; 4] /\ cells_1_5 s'' = [1; 1; 1; 1; 1].
Proof. exact resolve_vec_overlap_refuted. Qed.
Print Assumptions C30_resolve_vec_overlap_refuted.

(** a(1:5:2) = b(1:3): different strides with equal lower bounds *)
Theorem C30_resolve_vec_stride_refuted :
  exists s' s'',
    resolve_vec [] st_ds "a" st_idx st_rhs = Some st_loop /\
    vruns st_ds "a" st_idx st_rhs st_store s' /\
    runs [] st_loop st_store s'' /\
    conforms st_ds "a" st_idx st_rhs st_store = true /\
    cells_1_5 s' = [10; 0; 20; 0; 30] /\ cells_1_5 s'' = [10; 0; 30; 0; 50].
Proof. exact resolve_vec_stride_refuted. Qed.
Print Assumptions C30_resolve_vec_stride_refuted.

(** two range dimensions: shape of the nest, iteration order = element order, index set (the store-level
    simulation of the nest is NOT proved) *)
Theorem C30_resolve_vec_rank2_partial : forall lm ds a idx rhs p,
  forallb has_bounds (ranges_of (qualify_idx ds a idx)) = true ->
  List.length (ranges_of (qualify_idx ds a idx)) = 2%nat ->
  resolve_vec lm ds a idx rhs = Some p ->
  (exists iv0 iv1 lo0 hi0 st0 lo1 hi1 st1 li r,
     loop_vars lm ds a idx = [iv0; iv1] /\
     ranges_of (qualify_idx ds a idx) = [(Some lo0, Some hi0, st0); (Some lo1, Some hi1, st1)] /\
     p = [SDo iv1 lo1 hi1 st1 [SDo iv0 lo0 hi0 st0 [SStore a li r]]]) /\
  (forall n0 n1,
     iter_space [n0; n1] = flat_map (fun j1 => map (fun j0 => [j0; j1]) (zseq 0 n0)) (zseq 0 n1) /\
     (forall j0 j1, In [j0; j1] (iter_space [n0; n1]) <-> (0 <= j0 < Z.of_nat n0 /\ 0 <= j1 < Z.of_nat n1)) /\
     NoDup (iter_space [n0; n1])).
Proof. exact resolve_vec_rank2_partial. Qed.
Print Assumptions C30_resolve_vec_rank2_partial.

(** the normalisation used by the correspondence check is sound *)
Theorem C30_eqm_sound : forall ps p q, stmts_eqm p q = true -> equiv ps p q.
Proof. exact eqm_sound. Qed.
Print Assumptions C30_eqm_sound.

(** ** flatten_arrays *)

Theorem C30_flatten_index_injective_in_bounds : forall c ns i i',
  in_box c ns i -> in_box c ns i' -> flat_offset c ns i = flat_offset c ns i' -> i = i'.
Proof. exact flatten_index_injective_in_bounds. Qed.
Print Assumptions C30_flatten_index_injective_in_bounds.

Theorem C30_flatten_index_in_range : forall c ns idx, in_box c ns idx -> idx <> [] ->
  c <= flat_offset c ns idx <= c + prodZ ns - 1.
Proof. exact flatten_index_in_range. Qed.
Print Assumptions C30_flatten_index_in_range.

Theorem C30_flatten_model_offset : forall rho c init last sizes e ivs lv nvs nlast,
  flat_go c last (rev init) (rev (map DSize sizes)) = Some e ->
  List.length init = List.length sizes ->
  omap_list (evalZ rho) init = Some ivs -> evalZ rho last = Some lv -> omap_list (evalZ rho) sizes = Some nvs ->
  evalZ rho e = Some (flat_offset c (nvs ++ [nlast]) (ivs ++ [lv])).
Proof. exact flatten_model_offset. Qed.
Print Assumptions C30_flatten_model_offset.

(** reads and writes through the flattened subscript commute with the element-wise relation (the lifting to
    whole programs needs a bounds-checked semantics and is NOT proved) *)
Theorem C30_flatten_preserves_partial : forall c a ns s s' i v,
  flat_rel c a ns s s' -> in_box c ns i ->
  av s' a [flat_offset c ns i] = av s a i /\
  flat_rel c a ns (set_av a i v s) (set_av a [flat_offset c ns i] v s').
Proof. exact flatten_preserves_partial. Qed.
Print Assumptions C30_flatten_preserves_partial.

(** ** shift_to_zero_indexing, invert_array_indices *)

Theorem C30_shift_to_zero_preserves : forall ds p p' s s',
  arrays_not_intrinsic ds -> reidx_rel (phi_shift ds) s s' ->
  forallb flat_subs_stmt p = true -> tr_stmts (T_shift ds) p = Some p' ->
  (forall t, runs [] p s t -> exists t', runs [] p' s' t' /\ reidx_rel (phi_shift ds) t t') /\
  (forall t', runs [] p' s' t' -> exists t, runs [] p s t /\ reidx_rel (phi_shift ds) t t').
Proof. exact shift_to_zero_preserves. Qed.
Print Assumptions C30_shift_to_zero_preserves.

Theorem C30_invert_indices_preserves : forall ds p p' s s',
  arrays_not_intrinsic ds -> reidx_rel (phi_invert ds) s s' ->
  forallb flat_subs_stmt p = true -> tr_stmts (T_invert ds) p = Some p' ->
  (forall t, runs [] p s t -> exists t', runs [] p' s' t' /\ reidx_rel (phi_invert ds) t t') /\
  (forall t', runs [] p' s' t' -> exists t, runs [] p s t /\ reidx_rel (phi_invert ds) t t').
Proof. exact invert_indices_preserves. Qed.
Print Assumptions C30_invert_indices_preserves.

Theorem C30_zero_shift_invert_preserves : forall ds p p1 p2 s s2,
  arrays_not_intrinsic ds -> reidx_rel (phi_zero_inv ds) s s2 ->
  forallb flat_subs_stmt p = true -> tr_stmts (T_shift ds) p = Some p1 ->
  forallb flat_subs_stmt p1 = true -> tr_stmts (T_invert ds) p1 = Some p2 ->
  (forall t, runs [] p s t -> exists t2, runs [] p2 s2 t2 /\ reidx_rel (phi_zero_inv ds) t t2) /\
  (forall t2, runs [] p2 s2 t2 -> exists t, runs [] p s t /\ reidx_rel (phi_zero_inv ds) t t2).
Proof. exact zero_shift_invert_preserves. Qed.
Print Assumptions C30_zero_shift_invert_preserves.

Theorem C30_zero_shift_invert_bounds : forall box i,
  in_bounds box i <-> in_bounds (rev (map (fun b => (fst b - 1, snd b - 1)) box)) (rev (map (fun x => x - 1) i)).
Proof. exact zero_shift_invert_bounds. Qed.
Print Assumptions C30_zero_shift_invert_bounds.

(** ** normalize_range_indexing, normalize_array_shape_and_access *)

Theorem C30_normalize_range_decl_sound : forall rho d, dshape_bounds rho (normrange_shape d) = dshape_bounds rho d.
Proof. exact normalize_range_decl_sound. Qed.
Print Assumptions C30_normalize_range_decl_sound.

Theorem C30_normalize_shape_access_bijection : forall lo hi,
  (forall i, lo <= i <= hi <-> 1 <= i - lo + 1 <= hi - lo + 1) /\
  (forall i i', i - lo + 1 = i' - lo + 1 -> i = i') /\
  (forall k, 1 <= k <= hi - lo + 1 -> exists i, lo <= i <= hi /\ i - lo + 1 = k).
Proof. exact normalize_shape_access_bijection. Qed.
Print Assumptions C30_normalize_shape_access_bijection.

Theorem C30_normshape_model_consistent_partial : forall rho,
  (forall i lo vi vl, evalZ rho i = Some vi -> evalZ rho lo = Some vl -> evalZ rho (norm_sub i lo) = Some (vi - vl + 1)) /\
  (forall d l h, dshape_bounds rho d = Some (l, h) -> dshape_bounds rho (normshape_shape d) = Some (1, h - l + 1)).
Proof. intros rho. split; [exact (norm_sub_eval rho)|exact (normshape_decl_bounds rho)]. Qed.
Print Assumptions C30_normshape_model_consistent_partial.

(** ** add/remove_explicit_array_dimensions *)

Theorem C30_explicit_dims_roundtrip : forall ds b, no_full_colon b = true -> remove_explicit (add_explicit ds b) = b.
Proof. exact explicit_dims_roundtrip. Qed.
Print Assumptions C30_explicit_dims_roundtrip.

Theorem C30_add_explicit_preserves : forall ds a idx rhs s,
  vexec ds a (add_idx ds a idx) (map_refs_vexpr (add_idx ds) rhs) s = vexec ds a idx rhs s.
Proof. exact add_explicit_preserves. Qed.
Print Assumptions C30_add_explicit_preserves.
