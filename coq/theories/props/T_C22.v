(** C22 — property theorems only.  Model: models/M_C22.v, proofs: proofs/P_C22.v.

    [order] / [order_f] are ARBITRARY lists satisfying the decidable predicate [is_topo]
    (networkx.topological_sort is not modelled; the correspondence run evaluates [is_topo]
    on the order each real run produced).  Names are compared up to letter case, as
    [Item.__eq__] does; [fname it = lower (iname it)]. *)
From Coq Require Import String Ascii List Bool Arith.
From LV Require Import Base.Strings models.M_C22 proofs.P_C22.
Import ListNotations.

(** SFilter yields every selected node exactly once and nothing else. *)
Theorem C22_visit_once : forall g order s,
  is_topo g order = true ->
  NoDup (map fname (sfilter g order s)) /\
  (forall it, In it (sfilter g order s) <-> In it (nodes g) /\ sel s it = true).
Proof. exact visit_once. Qed.
Print Assumptions C22_visit_once.

(** Default traversal: an item is visited before everything it (transitively) depends on. *)
Theorem C22_callers_first : forall g order s x y ix iy,
  is_topo g order = true -> sf_reverse s = false ->
  reach g x y ->
  find_item x (nodes g) = Some ix -> find_item y (nodes g) = Some iy ->
  sel s ix = true -> sel s iy = true ->
  before ix iy (sfilter g order s).
Proof. exact callers_first. Qed.
Print Assumptions C22_callers_first.

(** Reverse traversal: dependencies first. *)
Theorem C22_callees_first : forall g order s x y ix iy,
  is_topo g order = true -> sf_reverse s = true ->
  reach g x y ->
  find_item x (nodes g) = Some ix -> find_item y (nodes g) = Some iy ->
  sel s ix = true -> sel s iy = true ->
  before iy ix (sfilter g order s).
Proof. exact callees_first. Qed.
Print Assumptions C22_callees_first.

(** The processing loop: the transformation is applied to the visited items in order; it stops with an
    error at the first external item (strict mode) unless planning a generated one, which is skipped. *)
Theorem C22_processing_loop : forall plan l v o,
  run plan l = (v, o) ->
  match o with
  | Done => v = filter (fun it => negb (iext it)) l /\
            forall it, In it l -> iext it = true -> skippable plan it = true
  | ErrExternal n =>
      exists l1 it l2, l = l1 ++ it :: l2 /\ iext it = true /\ iname it = n /\
                       skippable plan it = false /\
                       v = filter (fun it => negb (iext it)) l1 /\
                       forall e, In e l1 -> iext e = true -> skippable plan e = true
  end.
Proof. exact run_spec. Qed.
Print Assumptions C22_processing_loop.

(** Without strict mode, exactly the visited items are processed, item graph or file graph. *)
Theorem C22_no_abort_when_not_strict : forall g files order order_f m mode plan,
  process g files order order_f m false mode plan = (visit g files order order_f m false mode, Done).
Proof. exact no_abort_when_not_strict. Qed.
Print Assumptions C22_no_abort_when_not_strict.

(** File graph: its nodes are exactly the files containing an item selected by the item filter ... *)
Theorem C22_filegraph_nodes : forall g order f excl files n,
  is_topo g order = true ->
  (In (lower n) (map fname (nodes (filegraph g order f excl files))) <->
   exists it, In it (nodes g) /\ sel (mkSF f false excl false None) it = true /\ lower (ifile it) = lower n).
Proof. exact fg_nodes_spec. Qed.
Print Assumptions C22_filegraph_nodes.

(** ... and each of them (subject to the mode rule) is visited exactly once. *)
Theorem C22_filegraph_visits_each_file_once : forall g files order order_f m strict mode,
  m_filegraph m = true ->
  is_topo (filegraph g order (m_filter m) (negb (m_ignored m)) files) order_f = true ->
  let fg := filegraph g order (m_filter m) (negb (m_ignored m)) files in
  let v := visit g files order order_f m strict mode in
  NoDup (map fname v) /\
  (forall fi, In fi v <-> In fi (nodes fg) /\ sel (fg_flags m strict mode) fi = true).
Proof. exact filegraph_visit_once. Qed.
Print Assumptions C22_filegraph_visits_each_file_once.

(** The file order respects every dependency edge between selected items of different files
    (the existence of [order_f] with [is_topo] is the acyclicity of the file quotient). *)
Theorem C22_filegraph_order_respects_item_edges : forall g files order order_f m strict mode x y ix iy fx fy,
  m_filegraph m = true ->
  is_topo g order = true ->
  is_topo (filegraph g order (m_filter m) (negb (m_ignored m)) files) order_f = true ->
  let fg := filegraph g order (m_filter m) (negb (m_ignored m)) files in
  let fsel := mkSF (m_filter m) false (negb (m_ignored m)) false None in
  In (x, y) (edges g) ->
  find_item x (nodes g) = Some ix -> find_item y (nodes g) = Some iy ->
  sel fsel ix = true -> sel fsel iy = true ->
  lower (ifile ix) <> lower (ifile iy) ->
  find_item (ifile ix) (nodes fg) = Some fx -> find_item (ifile iy) (nodes fg) = Some fy ->
  sel (fg_flags m strict mode) fx = true -> sel (fg_flags m strict mode) fy = true ->
  let v := visit g files order order_f m strict mode in
  if m_reverse m then before fy fx v else before fx fy v.
Proof. exact filegraph_order. Qed.
Print Assumptions C22_filegraph_order_respects_item_edges.

(** A cyclic (file) graph admits no order at all: the 'not applicable' outcome. *)
Theorem C22_cyclic_graph_has_no_order : forall g c order,
  is_cycle g c = true -> is_topo g order = false.
Proof. exact cycle_no_topo. Qed.
Print Assumptions C22_cyclic_graph_has_no_order.

(** targets = the dependency names that are not blocked/disabled (class of plain keys). *)
Theorem C22_targets_are_unblocked_deps : forall raw excl n,
  In n (targets raw excl) <-> In n raw /\ mem_name n excl = false.
Proof. exact targets_spec. Qed.
Print Assumptions C22_targets_are_unblocked_deps.

(** successors handed to a transformation: only dependencies reached through binding/interface
    items, and every direct child that matches the (extended) filter.  PARTIAL: completeness below
    intermediate nodes and sufficiency of the fuel are not proved (checked on every run instead). *)
Theorem C22_successors_partial : forall g f n l,
  sub_successors g f n = Some l ->
  (forall y, In y l -> chain g n y /\ reach g n y) /\
  (forall c ci, In c (succs g n) -> find_item c (nodes g) = Some ci ->
                inst_match (ext_filter f) ci = true -> In (iname ci) l).
Proof. exact successors_partial. Qed.
Print Assumptions C22_successors_partial.
