(** C25 — renaming, duplicating and removing items keeps the graph consistent: property theorems. *)
From Coq Require Import List Bool String Ascii Arith.
From LV Require Import models.M_C25 proofs.P_C25_graph proofs.P_C25_keys proofs.P_C25 proofs.P_C25_stable.
Import ListNotations.
Open Scope string_scope.
Open Scope list_scope.

(** [inv seed st]: every cache key is the name of the item stored under it and keys are pairwise distinct; the seeds
    are nodes; every dependency of a node (call, import, interface block, planned addition, minus planned removals) is a
    node; every edge joins two nodes and is a dependency of its source; every node is reachable from the seed. *)

Theorem C25_init_inv :
  forall disk seed st, init disk seed = Some st -> inv seed st.
Proof. exact init_inv. Qed.
Print Assumptions C25_init_inv.

(** one processing step (transformation, rekey_item_cache, re-discovery, graph rebuild) of any of the four
    transformations re-establishes the invariant; only the uniqueness of the cache keys is needed of the state before *)
Theorem C25_step_inv :
  forall disk seed st o st',
    kok (st_cache st) -> step disk seed st o = Some st' -> inv (next_seeds o st seed) st' /\ kok (st_cache st').
Proof. exact step_inv. Qed.
Print Assumptions C25_step_inv.

(** hence for every operation history, of any length, from any generated project *)
Theorem C25_history_inv :
  forall disk seed ops st0 sts,
    init disk seed = Some st0 -> run disk seed st0 ops = Some sts ->
    Forall2 inv (seed :: run_seeds disk seed st0 ops) (st0 :: sts).
Proof. exact history_inv_from_init. Qed.
Print Assumptions C25_history_inv.

Theorem C25_fold_history_inv :
  forall disk seed ops st0 seed' st,
    init disk seed = Some st0 -> fold_left (step_opt disk) ops (Some (seed, st0)) = Some (seed', st) -> inv seed' st.
Proof. exact fold_history_inv. Qed.
Print Assumptions C25_fold_history_inv.

(** Scheduler.rekey_item_cache: whatever the transformation did to the item names, afterwards every key is the name
    of its item and the keys are distinct (unconditional) *)
Theorem C25_rekey_keys_are_names :
  forall st, keys_are_names (rekey st) = true /\ keys_distinct (rekey st) = true.
Proof. exact rekey_bools. Qed.
Print Assumptions C25_rekey_keys_are_names.

(** ... and it is needed: between the transformation and the re-keying the keys are stale *)
Theorem C25_rekey_needed :
  exists st0, init ex_disk ex_seed = Some st0 /\
              keys_are_names (apply_dep "_test" "_mod" st0) = false /\
              keys_are_names (rekey (apply_dep "_test" "_mod" st0)) = true.
Proof. exact rekey_needed. Qed.
Print Assumptions C25_rekey_needed.

(** the rebuilt graph, for any cache and sources: dependency-closed, no dangling edge, nothing unreachable *)
Theorem C25_rebuild_spec :
  forall seed st st',
    rebuild seed st = Some st' ->
    incl seed (st_nodes st') /\
    (forall x d, In x (st_nodes st') -> In d (deps_of st' x) -> In d (st_nodes st')) /\
    (forall x y, In (x, y) (st_edges st') -> In x (st_nodes st') /\ In y (st_nodes st') /\ In y (deps_of st' x)) /\
    (forall x, In x (st_nodes st') -> exists s, In s seed /\ reach st' s x).
Proof. exact rebuild_spec. Qed.
Print Assumptions C25_rebuild_spec.

(** a later processing visits exactly the surviving procedure nodes, all of them reachable from the seed *)
Theorem C25_later_processing_visits_survivors :
  forall seed st, inv seed st ->
    forall x, In x (visits st) <->
              exists s r, x = (s ++ "#" ++ r)%string /\ In (NProc s r) (st_nodes st) /\
                          exists s0, In s0 seed /\ reach st s0 (NProc s r).
Proof. exact later_processing_visits_survivors. Qed.
Print Assumptions C25_later_processing_visits_survivors.

(** ... and the graph it traverses is stable: re-discovery + rebuild (what the scheduler does after any item-creating
    transformation that changes nothing) reproduce exactly the same nodes, edges, cache and sources *)
Theorem C25_later_processing_stable :
  forall disk seed st o st',
    step disk seed st o = Some st' ->
    exists st'', reprocess disk (next_seeds o st seed) st' = Some st'' /\ st_nodes st'' = st_nodes st' /\
                 st_edges st'' = st_edges st' /\ st_cache st'' = st_cache st' /\ st_srcs st'' = st_srcs st'.
Proof. exact later_processing_stable. Qed.
Print Assumptions C25_later_processing_stable.

(** PARTIAL: the invariant above does not say that a dependency resolves to a DEFINED program unit of the output
    (no external node, every imported module written).  That part ([consistent_b]) is evaluated on every state of
    every history of the correspondence run; its preservation by the four transformations is not proved.  It fails
    outside the class: *)
Theorem C25_remove_leaves_import_refuted :
  exists st0 st1,
    init ex_disk2 ex_seed = Some st0 /\ consistent_b st0 = true /\
    step ex_disk2 ex_seed st0 (ORem "ka") = Some st1 /\
    inv_b st1 = true /\ imports_written st1 = false.
Proof. exact remove_leaves_import_refuted. Qed.
Print Assumptions C25_remove_leaves_import_refuted.

(** class boundary of the model: steps whose real behaviour breaks the graph are undefined *)
Theorem C25_same_suffix_twice_outside_class :
  exists st0 st1,
    init ex_disk ex_seed = Some st0 /\ step ex_disk ex_seed st0 (ODep "_test" "_mod") = Some st1 /\
    step ex_disk ex_seed st1 (ODep "_test" "_mod") = None.
Proof. exact same_suffix_twice_outside_class. Qed.
Print Assumptions C25_same_suffix_twice_outside_class.

Theorem C25_wrap_without_interface_outside_class :
  exists st0, init ex_disk3 ex_seed = Some st0 /\ step ex_disk3 ex_seed st0 (OWrap "_mod") = None.
Proof. exact wrap_without_interface_outside_class. Qed.
Print Assumptions C25_wrap_without_interface_outside_class.

(** several seeds, two of them kernel entry points: Scheduler.seeds is renamed element-wise and the renamed entry points
    are nodes of the graph *)
Theorem C25_multi_seed_history :
  exists st0 sts,
    init ex_disk ex_seeds2 = Some st0 /\ run ex_disk ex_seeds2 st0 [OWrap "_mod"; ODep "_test" "_mod"] = Some sts /\
    forallb consistent_b (st0 :: sts) = true /\
    seeds_after ex_disk ex_seeds2 st0 [OWrap "_mod"; ODep "_test" "_mod"] =
      [NProc "" "driver"; NProc "m_test_mod" "kc_test"; NProc "kf_test_mod" "kf_test"] /\
    forallb (fun n => mem_n n (st_nodes (last sts st0)))
            [NProc "" "driver"; NProc "m_test_mod" "kc_test"; NProc "kf_test_mod" "kf_test"] = true.
Proof. exact multi_seed_history. Qed.
Print Assumptions C25_multi_seed_history.

(** a non-trivial history (duplicate with subgraph, module wrap, suffixing, removal) inside the class *)
Theorem C25_example_history :
  exists st0 sts st,
    init ex_disk ex_seed = Some st0 /\ run ex_disk ex_seed st0 ex_ops = Some sts /\
    forallb consistent_b (st0 :: sts) = true /\
    last sts st0 = st /\
    names_of st = ["#driver"; "d_mod"; "m_test_mod#ka_test"; "m_mod_dup_test_mod#ka_dup_test"; "kf_test_mod#kf_test";
                   "l_test_mod#kl_test"; "l_mod_dup_test_mod#kl_dup_test"; "m_test_mod#kb_test"] /\
    visits st = ["#driver"; "m_test_mod#ka_test"; "m_mod_dup_test_mod#ka_dup_test"; "kf_test_mod#kf_test";
                 "l_test_mod#kl_test"; "l_mod_dup_test_mod#kl_dup_test"; "m_test_mod#kb_test"].
Proof. exact example_history. Qed.
Print Assumptions C25_example_history.
