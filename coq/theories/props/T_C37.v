(** C37 — single-column (SCC) pipelines preserve driver and kernel results: the property theorems.
    A verified relation: [V] (M_C37) is evaluated by every run of the check on (original, Loki's output). *)
From Coq Require Import ZArith List Bool String.
From LV Require Import Base.Expr Base.MiniF Base.MiniFFacts models.M_C37
     proofs.P_C37_base proofs.P_C37_in proofs.P_C37_out proofs.P_C37_dem proofs.P_C37 proofs.P_C37_wit.
Import ListNotations.
Open Scope Z_scope.

(** factorisation (forward direction, full class, any depth of vertical loops / conditionals, unbounded trip counts):
    a terminating run of a class program is, for every column [i] of the horizontal range, a run of the per-column program
    [project] started with [h = i]; its column-[i] cells are the cells of the global result; nothing else is written *)
Theorem C37_factorises_fwd : forall k ps p s s',
  in_class k false p = true -> runs ps p s s' ->
  (forall i, sv s (k_lo k) <= i <= sv s (k_hi k) ->
     exists ci, runs ps (project (k_h k) p) (set_sv (k_h k) i s) ci /\
                (forall a r, mem a (k_H k) = true -> av s' a (i :: r) = av ci a (i :: r))) /\
  (forall a idx, outside k s a idx -> av s' a idx = av s a idx).
Proof. exact factorises_fwd. Qed.
Print Assumptions C37_factorises_fwd.

(** soundness of the validator on call-free bodies (vector variant, and the sequential variant after wrapping the
    transformed body in the horizontal loop): all arrays except the demoted temporaries agree *)
Theorem C37_V_sound : forall seqv ar h lo hi H Dm p p' ps s s1 s1',
  V false seqv ar h lo hi H Dm p p' = true ->
  runs ps p s s1 -> runs ps p' s s1' -> arrays_agree_except Dm s1 s1'.
Proof. exact V_sound. Qed.
Print Assumptions C37_V_sound.

(** two class programs (possibly with different sets of local scalars) with the same column program compute the same arrays *)
Theorem C37_same_projection_same_arrays : forall k k' ps p p' s s1 s1',
  in_class k false p = true -> in_class k' false p' = true ->
  k_h k' = k_h k -> k_lo k' = k_lo k -> k_hi k' = k_hi k -> k_H k' = k_H k ->
  project (k_h k) p = project (k_h k) p' ->
  runs ps p s s1 -> runs ps p' s s1' -> forall a idx, av s1 a idx = av s1' a idx.
Proof. exact sound_core0. Qed.
Print Assumptions C37_same_projection_same_arrays.

(** demotion t(h) -> t is a simulation of column programs *)
Theorem C37_demote_sound : forall h Dm ps i, mem h Dm = false -> disjoint Dm intrinsic_names = true ->
  forall q c c' c1, dclean h Dm false q = true -> drel h Dm i c c' -> runs ps q c c1 ->
  exists c1', runs ps (demote h Dm q) c' c1' /\ drel h Dm i c1 c1'.
Proof. intros h Dm ps i A B q c c' c1. exact (dem_sim h Dm ps i A B q c c' c1). Qed.
Print Assumptions C37_demote_sound.

(** the loop-distribution core of SCCDevector + SCCRevector *)
Theorem C37_loop_distribution : forall k ps A B s s1 s2,
  in_class k false [hl k A; hl k B] = true ->
  runs ps [hl k A; hl k B] s s1 -> runs ps [hl k (A ++ B)] s s2 ->
  forall a idx, av s1 a idx = av s2 a idx.
Proof. exact loop_distribution. Qed.
Print Assumptions C37_loop_distribution.

Theorem C37_fusion_stays_in_class : forall k A B,
  in_class k false [hl k A; hl k B] = true -> in_class k false [hl k (A ++ B)] = true.
Proof. exact fusion_in_class. Qed.
Print Assumptions C37_fusion_stays_in_class.

Theorem C37_loop_distribution_n : forall k ps bodies s s1 s2,
  in_class k false (hloops k bodies) = true -> in_class k false [hl k (List.concat bodies)] = true ->
  runs ps (hloops k bodies) s s1 -> runs ps [hl k (List.concat bodies)] s s2 ->
  forall a idx, av s1 a idx = av s2 a idx.
Proof. exact loop_distribution_n. Qed.
Print Assumptions C37_loop_distribution_n.

(** a vertical loop moves inside the horizontal loop *)
Theorem C37_loop_interchange : forall k1 k2 ps v lo hi st A s s1 s2,
  k_h k2 = k_h k1 -> k_lo k2 = k_lo k1 -> k_hi k2 = k_hi k1 -> k_H k2 = k_H k1 ->
  in_class k1 false [SDo v lo hi st [hl k1 A]] = true ->
  in_class k2 false [hl k2 [SDo v lo hi st A]] = true ->
  runs ps [SDo v lo hi st [hl k1 A]] s s1 -> runs ps [hl k2 [SDo v lo hi st A]] s s2 ->
  forall a idx, av s1 a idx = av s2 a idx.
Proof. exact loop_interchange. Qed.
Print Assumptions C37_loop_interchange.

(** the hypotheses are satisfiable by a non-trivial instance (two horizontal loops + vertical loop, demoted temporary) *)
Theorem C37_class_inhabited :
  V false false [] "jl" "start" "end" ["a"; "c"; "t"] ["t"] ex_p ex_p' = true /\
  runs [] ex_p ex_s (run ex_p ex_s) /\ runs [] ex_p' ex_s (run ex_p' ex_s) /\
  av (run ex_p ex_s) "a" [2; 3] = 30 /\ av (run ex_p' ex_s) "a" [2; 3] = 30.
Proof. split; [exact ex_V|exact ex_runs]. Qed.
Print Assumptions C37_class_inhabited.

(** equal column programs are NOT enough: the transformed program must be in the class too (a counter initialised outside
    the re-created horizontal loop keeps counting across columns) *)
Theorem C37_wrapped_counter_refuted :
  project "jl" w1_p = project "jl" w1_p' /\
  in_class (mk_ctx "jl" "start" "end" ["a"] (locals "jl" w1_p)) false w1_p = true /\
  V false false [] "jl" "start" "end" ["a"] [] w1_p w1_p' = false /\
  runs [] w1_p w1_s (run w1_p w1_s) /\ runs [] w1_p' w1_s (run w1_p' w1_s) /\
  av (run w1_p w1_s) "a" [2; 1] = 1 /\ av (run w1_p' w1_s) "a" [2; 1] = 3.
Proof. exact w1_facts. Qed.
Print Assumptions C37_wrapped_counter_refuted.

(** demotion without the written-before-read condition changes results *)
Theorem C37_demote_carried_refuted :
  demote "jl" ["t"] (project "jl" w2_p) = project "jl" w2_p' /\
  in_class (mk_ctx "jl" "start" "end" ["a"; "c"; "t"] (locals "jl" w2_p)) false w2_p = true /\
  V false false [] "jl" "start" "end" ["a"; "c"; "t"] ["t"] w2_p w2_p' = false /\
  runs [] w2_p w2_s (run w2_p w2_s) /\ runs [] w2_p' w2_s (run w2_p' w2_s) /\
  av (run w2_p w2_s) "a" [1; 2] = 10 /\ av (run w2_p' w2_s) "a" [1; 2] = 20.
Proof. exact w2_facts. Qed.
Print Assumptions C37_demote_carried_refuted.
