(** C32 — property theorems only. *)
From Coq Require Import ZArith List Bool String.
From LV Require Import Base.Expr Base.MiniF Base.MiniFFacts models.M_C32
  proofs.P_C32 proofs.P_C32_cond proofs.P_C32_cp proofs.P_C32_dce proofs.P_C32_refute proofs.P_C32_unused proofs.P_C32_call.
Import ListNotations.
Open Scope Z_scope.

(** expression rewriting (substitute known constants, fold literal arithmetic with truncating division) keeps the
    value -- and the undefinedness -- of every expression under any store the map describes *)
Theorem C32_fold_sound : forall m s e e',
  agrees m s -> simp_e true m e = Some e' -> evalZ (env_st s) e' = evalZ (env_st s) e.
Proof. exact fold_sound. Qed.
Print Assumptions C32_fold_sound.

Theorem C32_cond_fold_sound : forall force m s c c',
  agrees m s -> simp_cond force m c = Some c' -> evalB (env_st s) c' = evalB (env_st s) c.
Proof. intros force m s c c' A. exact (simp_cond_sound force m s A c c'). Qed.
Print Assumptions C32_cond_fold_sound.

(** the constants map stays a sound description of the store across every statement of the class *)
Theorem C32_cmap_sound : forall ps n wl m st st' m' s s',
  cp true n wl m [st] = Some ([st'], m') -> agrees m s -> runs ps [st] s s' -> agrees m' s'.
Proof. exact cmap_sound. Qed.
Print Assumptions C32_cmap_sound.

(** constant propagation from the empty map: the output is equivalent to the input, for every store, every set of
    procedures, every program of the class (no size bound) *)
Theorem C32_constprop_preserves_on_class : forall ps n p p',
  constprop n p = Some p' -> equiv ps p' p.
Proof. exact constprop_preserves. Qed.
Print Assumptions C32_constprop_preserves_on_class.

(** partial (second pass of unroll_loops=True): a pass that starts from a non-empty map preserves behaviour only
    from stores that the map describes *)
Theorem C32_constprop_from_map_partial : forall ps n m p p' m',
  cp true n false m p = Some (p', m') ->
  forall s s', agrees m s -> (runs ps p' s s' <-> runs ps p s s').
Proof. exact cp_from_preserves. Qed.
Print Assumptions C32_constprop_from_map_partial.

(** the unconditional statement is false for what Loki computes (class conditions switched off) *)
Theorem C32_constprop_refuted : exists ps p p', constprop_raw 30 p = Some p' /\ ~ equiv ps p' p.
Proof. exact constprop_unconditional_refuted. Qed.
Print Assumptions C32_constprop_refuted.

Theorem C32_constprop_refuted_witnesses :
  refuted [] W_incr [] ["y"%string] /\ refuted [] W_loopdep [] ["d"%string] /\
  refuted [] W_zerotrip [] ["y"%string] /\ refuted [] W_carried [("n"%string, 2)] ["y"%string] /\
  refuted [] W_while [("k"%string, 5)] ["y"%string] /\ refuted [("setv"%string, setv)] W_call [] ["y"%string].
Proof.
  repeat split; [exact refuted_incr|exact refuted_loopdep|exact refuted_zerotrip|exact refuted_carried
                |exact refuted_while|exact refuted_call].
Qed.
Print Assumptions C32_constprop_refuted_witnesses.

Theorem C32_second_pass_refuted :
  exists p1 m1 p3 m3,
    cp true 30 false [] W_stale = Some (p1, m1) /\ cp true 30 false m1 p1 = Some (p3, m3) /\
    differs [] 60 W_stale p3 [("x"%string, 7)] ["y"%string] = true.
Proof. exact second_pass_refuted. Qed.
Print Assumptions C32_second_pass_refuted.

(** dead-code removal: replacing a conditional whose condition folds to a literal by the taken branch (nested,
    inside loops, with or without simplification of the condition) preserves behaviour *)
Theorem C32_deadcode_preserves : forall ps u p p', dce u p = Some p' -> equiv ps p' p.
Proof. exact deadcode_preserves. Qed.
Print Assumptions C32_deadcode_preserves.

(** removal of unused variables: a program cannot tell apart two stores that differ only on names that do not occur in
    it (scalars and arrays, through loops and calls), and it runs to stores that differ only there *)
Theorem C32_nonoccurring_names_irrelevant : forall ps f (X : string -> Prop) p s1 s2 s1',
  (forall x, X x -> occurs_l x p = false) -> sim X s1 s2 -> exec ps f p s1 = Some s1' ->
  exists s2', exec ps f p s2 = Some s2' /\ sim X s1' s2'.
Proof. exact exec_sim. Qed.
Print Assumptions C32_nonoccurring_names_irrelevant.

Theorem C32_remove_unused_preserves : forall ps x p s s' v,
  occurs_l x p = false -> runs ps p s s' ->
  exists s'', runs ps p (set_sv x v s) s'' /\ sim (eq x) s' s''.
Proof. exact unused_var_irrelevant. Qed.
Print Assumptions C32_remove_unused_preserves.

Theorem C32_remove_unused_array_preserves : forall ps x p s s' g,
  occurs_l x p = false -> runs ps p s s' ->
  exists s'', runs ps p (set_arr x g s) s'' /\ sim (eq x) s' s''.
Proof. exact unused_array_irrelevant. Qed.
Print Assumptions C32_remove_unused_array_preserves.

(** what find_unused_dummy_args_and_vars (as modelled) reports as an unused local does not occur in the body, unless it
    is a DO variable (the exception is finding F32-13) *)
Theorem C32_unused_locals_do_not_occur_on_class : forall args decls body x,
  In x (unused_locals args decls body) -> ~ In x (flat_map loopvars body) -> occurs_l x body = false.
Proof. exact unused_locals_do_not_occur. Qed.
Print Assumptions C32_unused_locals_do_not_occur_on_class.

(** partial (dummy arguments + call arguments): the callee computes the same values for every name outside the
    removed dummies whether or not they, and the matching actual arguments, are passed.  Not covered by a theorem:
    the copy-out into the caller (checked by the oracle on every `unused` case). *)
Theorem C32_remove_dummy_callee_partial : forall ps (X : string -> Prop) ks params body s args f c1 c1',
  rem_ok X 0 ks params -> (forall x, X x -> occurs_l x body = false) ->
  copy_in s params args empty_store = Some c1 -> exec ps f body c1 = Some c1' ->
  exists c2 c2', copy_in s (remove_pos ks params) (remove_pos ks args) empty_store = Some c2
                 /\ exec ps f body c2 = Some c2' /\ sim X c1' c2'.
Proof. exact remove_dummy_callee_partial. Qed.
Print Assumptions C32_remove_dummy_callee_partial.

(** removing unused scalar dummies of a procedure together with the matching actual arguments of a CALL: the call
    has the same effect on the caller's store (extensionally), provided dummy names are distinct, variable actuals
    are distinct (no aliasing), the removed dummies do not occur in the callee body, and the callee body runs
    alike under both procedure tables (e.g. it contains no call to a changed procedure).  Partial: array dummies
    are not removed here ([rem_ok] requires scalars). *)
Theorem C32_remove_dummy_with_callargs_partial : forall ps ps' (X : string -> Prop) g P ks args s s' f,
  find_proc ps g = Some P -> find_proc ps' g = Some (rm_dummies ks P) ->
  (forall f0 s0, exec ps' f0 (p_body P) s0 = exec ps f0 (p_body P) s0) ->
  NoDup (map fst (p_params P)) -> NoDup (evars args) ->
  rem_ok X 0 ks (p_params P) -> kept_ok X 0 ks (p_params P) ->
  (forall x, X x -> occurs_l x (p_body P) = false) ->
  exec1 ps f (SCall g args) s = Some s' ->
  exists s'', exec1 ps' f (SCall g (remove_pos ks args)) s = Some s'' /\ sim none s' s''.
Proof. exact remove_dummy_call_preserves. Qed.
Print Assumptions C32_remove_dummy_with_callargs_partial.
