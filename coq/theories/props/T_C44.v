(** C44 — property theorems only.
    Vocabulary (models/M_C44.v): [run_of p stale n order s] = [s] is reachable by some interleaving of the main
    thread (walking [order]) and [n] pool workers, for project [p]; [stale] = objects still carrying a finished
    future from an earlier build ([] in a fresh process); [order_ok] = the decidable reverse-topological
    predicate checked on the order of every real run; [precedes a b l] = every [b] in the log has an [a] before it;
    [conv_ok] = every module is defined in the file named after it; [true_dep p o g] = [o] USEs a module that the
    file of [g] provides. *)
From Coq Require Import List String Permutation.
From LV Require Import models.M_C44 proofs.P_C44 proofs.P_C44_proj.
Import ListNotations.
Open Scope list_scope.

(** no compile starts before every compiled dependency has finished (any n, any project size, any interleaving) *)
Theorem C44_deps_done_before_start : forall p roots n order s o d,
  order_ok p roots order = true -> run_of p [] n order s ->
  In d (p_deps p o) -> p_src p d = true ->
  precedes (EFinish d) (EStart o) (log s).
Proof. exact deps_done_before_start_fresh. Qed.
Print Assumptions C44_deps_done_before_start.

(** the wait protocol proper: the main thread does not even submit before the dependencies have finished *)
Theorem C44_deps_done_before_submit : forall p roots n order s o d,
  order_ok p roots order = true -> run_of p [] n order s ->
  In d (p_deps p o) -> p_src p d = true ->
  precedes (EFinish d) (ESubmit o) (log s).
Proof. exact deps_done_before_submit_fresh. Qed.
Print Assumptions C44_deps_done_before_submit.

(** the property's wording ("objects providing the modules it uses") on the class module name = file stem *)
Theorem C44_provider_first_on_class : forall p roots n order s o g,
  conv_ok p = true -> order_ok p roots order = true -> run_of p [] n order s ->
  true_dep p o g -> precedes (EFinish g) (EStart o) (log s).
Proof. exact provider_first_on_class. Qed.
Print Assumptions C44_provider_first_on_class.

(** F16: outside the class the provider is neither ordered first nor waited for *)
Theorem C44_provider_first_refuted :
  exists p roots n order s o g,
    order_ok p roots order = true /\ run_of p [] n order s /\ true_dep p o g /\
    In (EStart o) (log s) /\ ~ In (EFinish g) (log s).
Proof. exact provider_first_refuted. Qed.
Print Assumptions C44_provider_first_refuted.

Theorem C44_built_once : forall p stale roots n order s o,
  order_ok p roots order = true -> run_of p stale n order s -> count_ev (EStart o) (log s) <= 1.
Proof. exact built_once_p. Qed.
Print Assumptions C44_built_once.

Theorem C44_pool_bound : forall p stale roots n order s,
  order_ok p roots order = true -> run_of p stale n order s -> List.length (running s) <= n.
Proof. exact pool_bound_p. Qed.
Print Assumptions C44_pool_bound.

(** progress: with at least one worker every non-final state (reachable or not) has a successor *)
Theorem C44_no_stuck : forall p stale n s,
  1 <= n -> is_final s = false -> exists s', step (p_src p) (p_deps p) stale n s s'.
Proof. exact no_stuck_p. Qed.
Print Assumptions C44_no_stuck.

(** every run is finite: at most 3 * |order| transitions; together with [C44_no_stuck] every maximal run ends final *)
Theorem C44_terminates : forall p stale n order k s,
  steps (p_src p) (p_deps p) stale n k (init order) s ->
  k <= 3 * List.length order /\ run_of p stale n order s.
Proof. exact terminates_run. Qed.
Print Assumptions C44_terminates.

(** in a fresh process a finished parallel build has compiled exactly what the serial loop compiles,
    in particular every root object that has a source *)
Theorem C44_same_object_set_as_serial : forall p roots n order s,
  order_ok p roots order = true -> run_of p [] n order s -> is_final s = true ->
  Permutation (done s) (serial_build (p_src p) order)
  /\ (forall r, In r roots -> p_src p r = true -> In r (done s)).
Proof. exact same_object_set_as_serial. Qed.
Print Assumptions C44_same_object_set_as_serial.

(** F16b: a second build through the same Obj instances never recompiles the objects that kept their future ... *)
Theorem C44_rebuild_skips_stale : forall p stale roots n order s o,
  order_ok p roots order = true -> run_of p stale n order s -> In o stale -> ~ In (EStart o) (log s).
Proof. exact stale_never_started_p. Qed.
Print Assumptions C44_rebuild_skips_stale.

(** ... so it does not produce what a serial build produces, even on the class *)
Theorem C44_rebuild_refuted :
  exists p roots n order s o,
    conv_ok p = true /\ order_ok p roots order = true /\
    run_of p (stale_after p roots) n order s /\ is_final s = true /\
    In o (serial_build (p_src p) order) /\ ~ In o (done s).
Proof. exact rebuild_refuted. Qed.
Print Assumptions C44_rebuild_refuted.

(** the boolean used for trace validation accepts only complete runs of the transition system *)
Theorem C44_chk_trace_sound : forall p stale roots order n tr compiled,
  chk_trace p stale roots order n tr compiled = true ->
  order_ok p roots order = true /\
  exists s, run_of p stale n order s /\ is_final s = true /\ log s = tr
            /\ (forall o, In o (done s) <-> In o compiled).
Proof. exact chk_trace_sound. Qed.
Print Assumptions C44_chk_trace_sound.

(** the hypotheses are satisfiable by a non-trivial instance (5 files, a header, mixed case, 2 workers, an
    interleaved log is accepted; a log that submits out of order, or 2 concurrent compiles with 1 worker, is not) *)
Theorem C44_example_nontrivial :
  conv_ok ex_proj = true /\
  chk_trace ex_proj [] ex_roots ex_order 2 ex_trace_ok ["m_1"; "m_2"; "m_3"; "m_4"; "s_5"]%string = true /\
  chk_trace ex_proj [] ex_roots ex_order 2 ex_trace ["m_1"; "m_2"; "m_3"; "m_4"; "s_5"]%string = false /\
  chk_trace ex_proj [] ex_roots ex_order 1 ex_trace_ok ["m_1"; "m_2"; "m_3"; "m_4"; "s_5"]%string = false /\
  true_dep ex_proj "s_5"%string "m_3"%string.
Proof. exact example_nontrivial. Qed.
Print Assumptions C44_example_nontrivial.
