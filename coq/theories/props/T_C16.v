(** C16 — property theorems only. *)
From Coq Require Import ZArith List Bool String.
From LV Require Import models.M_C16 proofs.P_C16.
Theorem C16_tmp : forall a, up_attr (up_attr a) = up_attr a.
Proof. exact up_attr_idem. Qed.
Print Assumptions C16_tmp.
