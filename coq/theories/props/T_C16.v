(** C16 — Analysis attach/detach leaves the IR unchanged.  Property theorems only.
    Model: models/M_C16.v; proofs: proofs/P_C16.v (pragmas), P_C16_R.v (regions), P_C16_D.v (dataflow, contexts). *)
From Coq Require Import ZArith List Bool String.
From LV Require Import models.M_C16 proofs.P_C16 proofs.P_C16_R proofs.P_C16_D proofs.P_C16_F.
Import ListNotations.
Open Scope list_scope.

(** ** pragmas: attach_pragmas / detach_pragmas, any node_type set, with and without pragma_post *)

(** nothing attached yet and the requested classes own the attributes (Loop, WhileLoop; CallStatement,
    declarations when attach_pragma_post is off): the round trip is the identity, node identities included *)
Theorem C16_detach_attach_id : forall nt pf t,
  clean nt pf t = true -> detP nt pf (attP nt pf t) = t.
Proof. exact detach_attach_strict. Qed.
Print Assumptions C16_detach_attach_id.

(** any node_type set (also classes without a pragma / pragma_post field): identical up to
    "a missing instance attribute reads as None", which is all that ==, fgen and getattr can see *)
Theorem C16_detach_attach_id_getattr : forall nt pf t,
  no_preattached nt pf t = true -> up (detP nt pf (attP nt pf t)) = up t.
Proof. exact detach_attach_up. Qed.
Print Assumptions C16_detach_attach_id_getattr.

(** the dangling attribute is real: pragmas_attached(CallStatement) leaves pragma_post=None on the call *)
Theorem C16_detach_attach_strict_needs_fields :
  no_preattached (nt_of [KCall]) true call_witness = true /\
  detP (nt_of [KCall]) true (attP (nt_of [KCall]) true call_witness)
  = TN 1 KSection NoAttr NoAttr false [[TN 2 KCall ANone ANone false [] []; TP (p_ 3)]] [].
Proof. exact strict_needs_fields. Qed.
Print Assumptions C16_detach_attach_strict_needs_fields.

(** identity, class, nesting and order of every node that is not a Pragma: untouched, no hypothesis *)
Theorem C16_attach_preserves_non_pragma_nodes : forall nt pf t,
  skel (attP nt pf t) = skel t /\ skel (detP nt pf t) = skel t.
Proof. intros; split; [apply attach_preserves_skeleton|apply detach_preserves_skeleton]. Qed.
Print Assumptions C16_attach_preserves_non_pragma_nodes.

(** attach after detach: the identity on trees produced by attaching, not on arbitrary pre-attached trees *)
Theorem C16_attach_detach_on_image : forall nt pf t0,
  clean nt pf t0 = true -> attP nt pf (detP nt pf (attP nt pf t0)) = attP nt pf t0.
Proof. exact attach_detach_on_image. Qed.
Print Assumptions C16_attach_detach_on_image.

Theorem C16_attach_detach_refuted :
  attP (nt_of [KLoop]) true (detP (nt_of [KLoop]) true preattached_witness) <> preattached_witness.
Proof. exact attach_detach_refuted. Qed.
Print Assumptions C16_attach_detach_refuted.

(** with something already attached the round trip is not the identity: the attached pragma is overwritten *)
Theorem C16_detach_attach_preattached_refuted :
  up (detP (nt_of [KLoop]) true (attP (nt_of [KLoop]) true preattached_witness)) <> up preattached_witness
  /\ doc_prags (attP (nt_of [KLoop]) true preattached_witness) = [p_ 2].
Proof. exact detach_attach_preattached_refuted. Qed.
Print Assumptions C16_detach_attach_preattached_refuted.

(** ** pragma regions (nested, unmatched, case-mixed pairs; keyword filter) *)
Theorem C16_regions_detach_attach_id_on_class : forall kw t t',
  attach_regions kw t = Some t' -> in_region_class kw t = true -> detR t' = t.
Proof. exact regions_detach_attach. Qed.
Print Assumptions C16_regions_detach_attach_id_on_class.

(** unconditional part: whatever pairs are used, unpacking undoes the packing as long as every lookup hits the
    pragma object it was looking for, start before end *)
Theorem C16_regions_unpack_after_pack : forall pairs t,
  attR_safe pairs t = true -> detR1 (attR pairs t) = detR1 t.
Proof. exact detR1_attR. Qed.
Print Assumptions C16_regions_unpack_after_pack.

(** F2: pragmas that are == (no source) and an unmatched end before a matched pair: nodes are duplicated *)
Theorem C16_regions_detach_attach_refuted :
  exists t t', no_regions t = true /\ no_empty_bodies t = true /\
               attach_regions None t = Some t' /\ skel (detR t') <> skel t.
Proof. exact regions_roundtrip_refuted. Qed.
Print Assumptions C16_regions_detach_attach_refuted.

(** F3: identically spelled nested regions without source: same text, but one Pragma object is lost *)
Theorem C16_regions_identity_refuted :
  option_map detR (attach_regions None nested_same_witness)
  = Some (sec 1 [TP (pa_ 3 "data"); TP (pa_ 3 "data"); asg 4; TP (pa_ 5 "end data"); TP (pa_ 6 "end data")]).
Proof. exact regions_identity_refuted. Qed.
Print Assumptions C16_regions_identity_refuted.

(** F5: an empty CASE body disappears *)
Theorem C16_regions_empty_body_refuted :
  option_map detR (attach_regions None empty_body_witness)
  = Some (sec 1 [TN 2 KMulti NoAttr NoAttr false [[]] [[asg 3]]]).
Proof. exact regions_empty_body_refuted. Qed.
Print Assumptions C16_regions_empty_body_refuted.

(** ** dataflow analysis *)
Theorem C16_dfa_detach_attach_id_on_class : forall t,
  dfa_class t = true -> dfaD (dfaA t) = t.
Proof. exact dfa_detach_attach. Qed.
Print Assumptions C16_dfa_detach_attach_id_on_class.

(** F1: Associate (and StatementFunction) nodes keep the analysis results after detaching *)
Theorem C16_dfa_detach_attach_refuted :
  deep dfa_clear_top assoc_witness = true /\ no_empty_bodies assoc_witness = true /\
  dfaD (dfaA assoc_witness) = sec 1 [TN 2 KAssoc NoAttr NoAttr true [[asg 3]] []].
Proof. exact dfa_detach_attach_refuted. Qed.
Print Assumptions C16_dfa_detach_attach_refuted.

(** ** context managers: detach runs in [finally] *)
Theorem C16_ctx_runs_detach_in_finally : forall enter leave u body,
  with_ctx enter leave u body =
  match enter u with
  | Err u' => Raised u'
  | Ok u1 => match body u1 with Returned u2 => Returned (leave u2) | Raised u2 => Raised (leave u2) end
  end.
Proof. exact ctx_finally. Qed.
Print Assumptions C16_ctx_runs_detach_in_finally.

Theorem C16_ctx_restores_on_exception : forall u,
  (forall nt pf body,
      forallb (clean (nt_of nt) pf) u = true ->
      body (map (attP (nt_of nt) pf) u) = Raised (map (attP (nt_of nt) pf) u) ->
      pragmas_attached nt pf u body = Raised u) /\
  (forall nt pf body,
      forallb (no_preattached (nt_of nt) pf) u = true ->
      body (map (attP (nt_of nt) pf) u) = Raised (map (attP (nt_of nt) pf) u) ->
      exists u', pragmas_attached nt pf u body = Raised u' /\ map up u' = map up u) /\
  (forall kw u1 body,
      forallb (in_region_class kw) u = true ->
      attR_unit kw u = Ok u1 -> body u1 = Raised u1 ->
      pragma_regions_attached kw u body = Raised u) /\
  (forall body,
      forallb dfa_class u = true ->
      body (map dfaA u) = Raised (map dfaA u) ->
      dataflow_analysis_attached u body = Raised u).
Proof.
  intros u. repeat split.
  - intros; now apply ctx_pragmas_exception.
  - intros; now apply ctx_pragmas_exception_up.
  - intros; eapply ctx_regions_exception; eauto.
  - intros; now apply ctx_dfa_exception.
Qed.
Print Assumptions C16_ctx_restores_on_exception.

Theorem C16_ctx_restores_on_return : forall u,
  (forall nt pf body,
      forallb (clean (nt_of nt) pf) u = true ->
      body (map (attP (nt_of nt) pf) u) = Returned (map (attP (nt_of nt) pf) u) ->
      pragmas_attached nt pf u body = Returned u) /\
  (forall kw u1 body,
      forallb (in_region_class kw) u = true ->
      attR_unit kw u = Ok u1 -> body u1 = Returned u1 ->
      pragma_regions_attached kw u body = Returned u) /\
  (forall body,
      forallb dfa_class u = true ->
      body (map dfaA u) = Returned (map dfaA u) ->
      dataflow_analysis_attached u body = Returned u).
Proof.
  intros u. repeat split.
  - intros; now apply ctx_pragmas_return.
  - intros; eapply ctx_regions_return; eauto.
  - intros; now apply ctx_dfa_return.
Qed.
Print Assumptions C16_ctx_restores_on_return.

(** all combinations: properly nested contexts of the three kinds, each entered in a state of its class
    (e.g. pragma_regions_attached inside pragmas_attached inside dataflow_analysis_attached):
    entering all of them and leaving them in reverse order gives back the unit *)
Theorem C16_nested_contexts_roundtrip : forall fl u,
  flow_in_class fl u = true ->
  exists u', run_ops (enter_ops fl ++ leave_ops fl) u = Ok u' /\ map up u' = map up u.
Proof. exact nested_contexts_roundtrip. Qed.
Print Assumptions C16_nested_contexts_roundtrip.

(** an exception while *entering* pragma_regions_attached (IndexError in the matching of the body) is not
    covered by the try/finally: the spec keeps its regions *)
Theorem C16_ctx_regions_enter_error_partial :
  let spec := sec 1 [TP (pa_ 2 "data"); asg 3; TP (pa_ 4 "end data")] in
  let body := sec 5 [TP (pa_ 6 "data"); asg 7; TP (pa_ 8 "end")] in
  pragma_regions_attached None [spec; body] (fun u => Returned u)
  = Raised [sec 1 [TR (pa_ 2 "data") (pa_ 4 "end data") false [asg 3]]; body].
Proof. exact ctx_regions_enter_error_partial. Qed.
Print Assumptions C16_ctx_regions_enter_error_partial.

(** ** the hypotheses are satisfiable by non-trivial instances *)
Theorem C16_classes_inhabited :
  (let t := TN 1 KSection NoAttr NoAttr false
              [[TP (p_ 2); TP (p_ 3); TN 4 KLoop ANone ANone false [[TP (p_ 5); TN 6 KAssign NoAttr NoAttr false [] []]] [];
                TP (p_ 7); TN 8 KComment NoAttr NoAttr false [] []; TN 9 KLoop ANone ANone false [[]] []; TP (p_ 10)]] [] in
   clean (nt_of [KLoop]) true t = true /\ attP (nt_of [KLoop]) true t <> t) /\
  (let t := sec 1 [TP (pl_ 2 "ACC" "DATA   present(a)"); TP (pl_ 3 "loki" "region-x"); asg 4;
                   TP (pl_ 6 "loki" "end region-x"); TP (pl_ 5 "omp" "parallel");
                   TN 7 KLoop ANone ANone false [[asg 8; TP (pl_ 9 "omp" "end parallel do")]] [];
                   TP (pl_ 10 "acc" "End Data"); TP (pl_ 11 "acc" "end kernels")] in
   in_region_class None t = true /\
   option_map (map (fun pr => (pid (fst pr), pid (snd pr)))) (matching_pairs (findp t)) = Some [(3, 6); (5, 9); (2, 10)]%Z /\
   option_map (fun t' => tree_eqb t' t) (attach_regions None t) = Some false) /\
  (let t := sec 1 [TP (p_ 2); TN 3 KLoop ANone ANone false [[asg 4; TN 5 KMulti NoAttr NoAttr false [[]] [[asg 6]; [asg 7]]]] []] in
   dfa_class t = true /\ dfaA t <> t) /\
  (let t := sec 1 [TP (pl_ 2 "acc" "data"); TP (pl_ 3 "loki" "foo"); TN 4 KLoop ANone ANone false [[asg 5]] [];
                   TP (pl_ 6 "loki" "bar"); TN 7 KCall ANone NoAttr false [] []; TP (pl_ 8 "acc" "end data");
                   TP (pl_ 9 "omp" "simd")] in
   flow_in_class [CR None; CP [KLoop; KCall] true; CD] [t] = true /\
   option_map (fun u => list_eqb tree_eqb u [t])
              (match run_ops (enter_ops [CR None; CP [KLoop; KCall] true; CD]) [t] with Ok u => Some u | Err _ => None end)
   = Some false).
Proof.
  split; [exact clean_nontrivial|split; [exact region_class_nontrivial|split; [exact dfa_class_nontrivial|exact nested_nontrivial]]].
Qed.
Print Assumptions C16_classes_inhabited.
