(** C36 — Fortran-to-Python transpilation: property theorems only. *)
From Coq Require Import ZArith QArith List Bool String.
From LV Require Import Base.Expr Base.MiniF models.M_C10 models.M_C36 proofs.P_C36_sem proofs.P_C36_range proofs.P_C36.
Import ListNotations.
Open Scope Z_scope.

(** On the class (no integer division, only the mapped intrinsics min/max/abs, literal non-negative exponents, no
    subscript inside a subscript; arrays declared with lower bound 1) the MiniPy value of the Python expression that
    CPython parses from the generated text, in the Python environment of [rho], is the Fortran value. *)
Theorem C36_pyexpr_preserves_on_class : forall decl rho e v,
  NoDup (map fst decl) -> lower_one decl -> arrs_ok (map fst decl) = true -> rho_ok decl rho ->
  py_class (map fst decl) e = true -> evalZ rho e = Some v ->
  evalPy (shift_env decl rho) (pygen_model (map fst decl) e) = POk (VInt v).
Proof. exact pyexpr_preserves_on_class. Qed.
Print Assumptions C36_pyexpr_preserves_on_class.

Theorem C36_pycond_preserves_on_class : forall decl rho e b,
  NoDup (map fst decl) -> lower_one decl -> arrs_ok (map fst decl) = true -> rho_ok decl rho ->
  py_class_b (map fst decl) e = true -> evalB rho e = Some b ->
  evalPy (shift_env decl rho) (pygen_model (map fst decl) e) = POk (VBool b).
Proof. exact pycond_preserves_on_class. Qed.
Print Assumptions C36_pycond_preserves_on_class.

(** the same for every Python environment related to [rho] *)
Theorem C36_pyexpr_preserves_related : forall decl rho pe e v,
  env_rel decl rho pe -> lower_one decl -> arrs_ok (map fst decl) = true ->
  py_class (map fst decl) e = true -> evalZ rho e = Some v ->
  evalPy pe (pygen_model (map fst decl) e) = POk (VInt v).
Proof. intros decl rho pe e v H1 H2 H3. exact (pyexpr_preserves decl rho pe H1 H2 H3 e v). Qed.
Print Assumptions C36_pyexpr_preserves_related.

Theorem C36_index_shift_correct : forall decl rho a idx ks v,
  NoDup (map fst decl) -> lower_one decl -> arrs_ok (map fst decl) = true -> rho_ok decl rho ->
  is_arr (map fst decl) a = true ->
  forallb (py_class (map fst decl)) idx = true -> forallb (no_arr (map fst decl)) idx = true ->
  omap_list (evalZ rho) idx = Some ks -> ev_fun rho a ks = Some v ->
  evalPy (shift_env decl rho) (pygen_model (map fst decl) (ECall a idx)) = POk (VInt v).
Proof. exact index_shift_correct. Qed.
Print Assumptions C36_index_shift_correct.

Theorem C36_class_inhabited :
  NoDup (map fst ex_decl) /\ lower_one ex_decl /\ arrs_ok (map fst ex_decl) = true /\ rho_ok ex_decl ex_rho /\
  py_class (map fst ex_decl) ex_expr = true /\ evalZ ex_rho ex_expr = Some (-1) /\
  evalPy (shift_env ex_decl ex_rho) (pygen_model (map fst ex_decl) ex_expr) = POk (VInt (-1)).
Proof. exact class_inhabited. Qed.
Print Assumptions C36_class_inhabited.

(** Refutations of the unconditional statement *)
Theorem C36_py_int_division_refuted :
  exists rho e v, evalZ rho e = Some v /\
    evalPy (shift_env [] rho) (pygen_model [] e) = POk (VFloat (7 # 2)) /\ v = 3.
Proof. exact py_int_division_refuted. Qed.
Print Assumptions C36_py_int_division_refuted.

Theorem C36_py_int_division_refuted_2 :
  exists rho e, evalZ rho e = Some 6 /\ evalPy (shift_env [] rho) (pygen_model [] e) = POk (VFloat (7 # 1)).
Proof. exact py_int_division_refuted_2. Qed.
Print Assumptions C36_py_int_division_refuted_2.

Theorem C36_py_mod_refuted :
  exists rho e v, evalZ rho e = Some v /\ evalPy (shift_env [] rho) (pygen_model [] e) = PErr (ENameError "mod").
Proof. exact py_mod_refuted. Qed.
Print Assumptions C36_py_mod_refuted.

Theorem C36_py_neg_exponent_refuted :
  exists rho e, evalZ rho e = Some 0 /\ evalPy (shift_env [] rho) (pygen_model [] e) = POk (VFloat (1 # 2)).
Proof. exact py_neg_exponent_refuted. Qed.
Print Assumptions C36_py_neg_exponent_refuted.

Theorem C36_py_nested_index_refuted :
  exists e, evalZ nest_rho e = Some 20 /\
    evalPy (shift_env nest_decl nest_rho) (pygen_model (map fst nest_decl) e) = POk (VInt 30).
Proof. exact py_nested_index_refuted. Qed.
Print Assumptions C36_py_nested_index_refuted.

Theorem C36_py_lower_bound_refuted :
  exists e, evalZ lb_rho e = Some 5 /\
    evalPy (shift_env lb_decl lb_rho) (pygen_model (map fst lb_decl) e) = POk (VInt 8).
Proof. exact py_lower_bound_refuted. Qed.
Print Assumptions C36_py_lower_bound_refuted.

Theorem C36_py_sign_on_class : forall rho x y, 0 <= ev_var rho x -> ev_var rho y <> 0 ->
  evalPy (shift_env [] rho) (pygen_model [] (ECall "sign" [EVar x; EVar y]))
  = POk (VInt (fortran_sign (ev_var rho x) (ev_var rho y))).
Proof. exact py_sign_on_class. Qed.
Print Assumptions C36_py_sign_on_class.

Theorem C36_py_sign_refuted :
  exists rho, evalPy (shift_env [] rho) (pygen_model [] (ECall "sign" [EVar "n"; EVar "m"])) = POk (VInt (-3)) /\
              fortran_sign (ev_var rho "n") (ev_var rho "m") = 3.
Proof. exact py_sign_refuted. Qed.
Print Assumptions C36_py_sign_refuted.

(** Loop ranges: [range(lo, hi + step, step)] *)
Theorem C36_loop_range_conversion_correct : forall a b s,
  s <> 0 -> (b - a) mod s = 0 -> pygen_range a b s = do_trips a b s.
Proof. exact loop_range_conversion_correct. Qed.
Print Assumptions C36_loop_range_conversion_correct.

Theorem C36_loop_range_unit_stride : forall a b s, s = 1 \/ s = -1 -> pygen_range a b s = do_trips a b s.
Proof. exact loop_range_unit_stride. Qed.
Print Assumptions C36_loop_range_unit_stride.

Theorem C36_loop_range_refuted : exists a b s, 0 < s /\ a <= b /\ pygen_range a b s <> do_trips a b s.
Proof. exact loop_range_refuted. Qed.
Print Assumptions C36_loop_range_refuted.

Theorem C36_loop_range_zero_trip_refuted : exists a b s, do_trips a b s = [] /\ pygen_range a b s <> [].
Proof. exact loop_range_zero_trip_refuted. Qed.
Print Assumptions C36_loop_range_zero_trip_refuted.

Theorem C36_loop_var_after_loop : forall a b s, s <> 0 -> (b - a) mod s = 0 ->
  (0 < M_C10.trip_count a b s -> python_final a b s = Some (fortran_final a b s - s)) /\
  (M_C10.trip_count a b s = 0 -> python_final a b s = None).
Proof. exact loop_var_after_loop. Qed.
Print Assumptions C36_loop_var_after_loop.

(** Slices: [a(l:u:s)] becomes [a[l-1:u:s]] *)
Theorem C36_slice_conversion_correct : forall n l u s, 1 <= l -> 0 <= u <= n -> 0 < s ->
  map (Z.add 1) (pygen_slice n l u s) = fortran_section l u s.
Proof. exact slice_conversion_correct. Qed.
Print Assumptions C36_slice_conversion_correct.

Theorem C36_slice_negative_stride_refuted : exists n l u s,
  1 <= u <= l /\ l <= n /\ s < 0 /\ map (Z.add 1) (pygen_slice n l u s) <> fortran_section l u s.
Proof. exact slice_negative_stride_refuted. Qed.
Print Assumptions C36_slice_negative_stride_refuted.
