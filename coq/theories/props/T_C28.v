(** C28 — property theorems only (inlining preserves program behaviour). *)
From Coq Require Import ZArith List Bool String.
From LV Require Import Base.Expr Base.MiniF Base.MiniFFacts models.M_C28
     proofs.P_C28_norm proofs.P_C28_subst proofs.P_C28_sim proofs.P_C28_frame proofs.P_C28 proofs.P_C28_ctx.
Import ListNotations.
Open Scope Z_scope.

(** Substitution lemma for statements.  [Rel m Vall A V sc s]: every scalar [y] of [V] has in the callee store [sc] the
    value of its image [lk_s m y] in the caller store [s], every array of [A] is the (shifted) image array.  Executing the
    substituted body in the caller store simulates the body in the callee store, fuel for fuel (errors included). *)
Theorem C28_subst_stmt_sound :
  forall (m : smap) (Vall A : list string) (ps : procs),
  (forall a, In a A -> all_off (snd (lk_a m a)) = true /\ intrinsic_name a = false /\ intrinsic_name (fst (lk_a m a)) = false) ->
  forall fuel body V V' Q sc s,
    da_stmts Vall A V body = Some V' -> subst_stmts m body = Some Q ->
    (forall x, In x (wrs body) -> goodS m Vall x) -> (forall a, In a (wra body) -> goodA m Vall A a) ->
    Rel m Vall A V sc s ->
    orel (Rel m Vall A V) (exec ps fuel body sc) (exec ps fuel Q s).
Proof. exact sim. Qed.
Print Assumptions C28_subst_stmt_sound.

(** Inlining a call of the class [inlinable] (whole-array / scalar actuals, MiniF's own CALL semantics): the inlined
    statements and the call reach final stores that agree on everything but the hoisted callee locals, in both directions
    (the converse needs that the actual arguments can be evaluated). *)
Theorem C28_inline_sub_preserves_on_class :
  forall cvars ce args Q ps,
  inlinable cvars ce args = true -> inline_plain cvars ce args = Some Q ->
  find_proc ps (ce_name ce) = Some (proc_of ce) ->
  forall s,
    (forall s1, runs ps [SCall (ce_name ce) args] s s1 ->
       exists s2, runs ps Q s s2 /\ agree_except (hoisted_s cvars ce) [] s1 s2) /\
    (copy_in s (ce_params ce) args empty_store <> None ->
     forall s2, runs ps Q s s2 ->
       exists s1, runs ps [SCall (ce_name ce) args] s s1 /\ agree_except (hoisted_s cvars ce) [] s1 s2).
Proof. exact inline_sub_preserves_on_class. Qed.
Print Assumptions C28_inline_sub_preserves_on_class.

(** The same, fuel for fuel, for array dummies whose declared lower bounds differ from the actual's
    (call semantics [call_sem] with index offsets; templates as computed by [loki_tmpl] or any all-offset template). *)
Theorem C28_inline_sub_offsets_preserves :
  forall cvars ce amap args Q ps,
  inlinable_m cvars ce amap args = true -> inline_call_m cvars ce amap args = Some Q ->
  forall fuel s, copy_in_o s (ce_params ce) args (amap_offs amap) empty_store <> None ->
  orel (agree_except (hoisted_s cvars ce) []) (call_sem ps fuel (proc_of ce) (amap_offs amap) args s) (exec ps fuel Q s).
Proof. exact inline_sub_offsets_preserves. Qed.
Print Assumptions C28_inline_sub_offsets_preserves.

(** The whole caller body: every call of [ce] (also inside IF / DO / DO WHILE bodies, several call sites) replaced by its
    inlined statements.  If the original body runs to [s1], the inlined body runs to a store that agrees with [s1] outside
    the hoisted locals ([body_ok]: each call site is [inlinable], the other statements do not mention the hoisted locals). *)
Theorem C28_inline_body_preserves_on_class :
  forall cvars ce ps, find_proc ps (ce_name ce) = Some (proc_of ce) ->
  forall P P' s s1,
    forallb (body_ok cvars ce) P = true -> inline_body_p cvars ce P = Some P' ->
    runs ps P s s1 -> exists s2, runs ps P' s s2 /\ agreeH (hoisted_s cvars ce) s1 s2.
Proof. exact inline_body_preserves. Qed.
Print Assumptions C28_inline_body_preserves_on_class.

(** the same for [inline_body], the model function that the correspondence compares with Loki's output, when the declared
    lower bounds of actuals and dummies agree at every call site ([sites_plain]) *)
Theorem C28_inline_body_tied_preserves :
  forall cvars lbc ce ps, find_proc ps (ce_name ce) = Some (proc_of ce) ->
  forall P P' s s1,
    forallb (body_ok cvars ce) P = true -> forallb (sites_plain lbc ce) P = true ->
    inline_body cvars lbc ce P = Some P' ->
    runs ps P s s1 -> exists s2, runs ps P' s s2 /\ agreeH (hoisted_s cvars ce) s1 s2.
Proof. exact inline_body_tied_preserves. Qed.
Print Assumptions C28_inline_body_tied_preserves.

(** programs that do not mention [H] cannot tell stores apart that agree outside [H] (fuel for fuel, calls included) *)
Theorem C28_exec_agree :
  forall ps f H P s1 s2,
    forallb (ctx_ok H) P = true -> agreeH H s1 s2 -> orel (agreeH H) (exec ps f P s1) (exec ps f P s2).
Proof. exact exec_agree. Qed.
Print Assumptions C28_exec_agree.

Theorem C28_inlinable_nontrivial :
  inlinable ["x"; "y"; "t"; "a"]%string ex_callee [ESum false [EVar "x"; EInt 2]; EVar "y"; EVar "a"]%string = true.
Proof. exact inlinable_nontrivial. Qed.
Print Assumptions C28_inlinable_nontrivial.

(** F10: outside the class the unconditional statement is false: [call f(x+1, x, y)] with [f(a,b,c): b = 0; c = a]. *)
Theorem C28_inline_expr_actual_refuted :
  exists cvars ce args q s s1 s2,
    inline_plain cvars ce args = Some q /\
    exec [(ce_name ce, proc_of ce)] 5 [SCall (ce_name ce) args] s = Some s1 /\
    exec [(ce_name ce, proc_of ce)] 5 q s = Some s2 /\
    sv s1 "y"%string <> sv s2 "y"%string.
Proof. exact inline_expr_actual_refuted. Qed.
Print Assumptions C28_inline_expr_actual_refuted.

(** [_map_unbound_dims]: on the class [dims_ok] the offsets Loki computes are the Fortran ones ... *)
Theorem C28_dim_map_correct :
  forall Lv Ld dims, dims_ok Lv dims = true -> loki_tmpl Lv Ld dims = true_tmpl Lv Ld dims.
Proof. exact dim_map_correct. Qed.
Print Assumptions C28_dim_map_correct.

Theorem C28_true_off_meaning :
  forall Lv Ld p r lo i,
    i + true_off Lv Ld p r lo = (match lo with Some l => l | None => nth p Lv 1 end) + (i - nth r Ld 1).
Proof. exact true_off_meaning. Qed.
Print Assumptions C28_true_off_meaning.

(** ... and outside it they are not (a section starting at literal 0; a scalar subscript before a range). *)
Theorem C28_dim_map_zero_lower_refuted :
  exists Lv Ld dims, loki_tmpl Lv Ld dims <> true_tmpl Lv Ld dims.
Proof. exact dim_map_zero_lower_refuted. Qed.
Print Assumptions C28_dim_map_zero_lower_refuted.

Theorem C28_dim_map_misaligned_refuted :
  exists Lv Ld dims, (forall lo, ~ In (SdRange (Some lo)) dims) /\ loki_tmpl Lv Ld dims <> true_tmpl Lv Ld dims.
Proof. exact dim_map_misaligned_refuted. Qed.
Print Assumptions C28_dim_map_misaligned_refuted.

(** Constant parameters: in a store that gives every parameter the value of its initialiser, the body with the
    parameters replaced runs like the original, fuel for fuel. *)
Theorem C28_inline_const_preserves :
  forall cmap Vall A body Q ps,
  const_ok cmap Vall A body = true -> inline_const cmap body = Some Q ->
  forall fuel s,
    (forall y, In y Vall -> evalZ (env_st s) (lk_s {| sm_s := cmap; sm_a := [] |} y) = Some (sv s y)) ->
    orel (fun s1 s2 => (forall y, In y Vall -> assoc cmap y = None -> sv s1 y = sv s2 y) /\
                       (forall a, In a A -> forall i, av s1 a i = av s2 a i))
         (exec ps fuel body s) (exec ps fuel Q s).
Proof. exact inline_const_preserves. Qed.
Print Assumptions C28_inline_const_preserves.

(** Statement functions: in an environment where each statement function means its body, the inlined expression has
    the value of the original whenever that is defined (any nesting depth up to the fuel). *)
Theorem C28_inline_stmtfunc_preserves :
  forall defs rho, sf_consistent defs rho ->
  forall n e,
    (forall v, evalZ rho e = Some v -> evalZ rho (inline_sf n defs e) = Some v) /\
    (forall b, evalB rho e = Some b -> evalB rho (inline_sf n defs e) = Some b).
Proof. exact inline_sf_sound. Qed.
Print Assumptions C28_inline_stmtfunc_preserves.

(** The normalisation of subscripts under which the correspondence compares model and implementation is sound. *)
Theorem C28_norm_sound : forall ps p, equiv ps (norm_stmts p) p.
Proof. exact norm_sound. Qed.
Print Assumptions C28_norm_sound.
