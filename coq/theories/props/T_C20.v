(** C20 — recorded source locations match the original text: property theorems only. *)
From Coq Require Import ZArith List Bool String Ascii Sorting.Sorted.
From LV Require Import Base.Strings models.M_C20 proofs.P_C20.
Import ListNotations.
Open Scope Z_scope.

(** * clone_with_span *)
(** For every text (any list of lines) and every span that starts at column ca of line i and ends at column cb
    of line j: the lines recorded by clone_with_span are exactly l0+i .. l0+j, the string is the substring of the
    text, which is the tail of line i, the lines in between and the head of line j; the file is kept. *)
Theorem C20_span_lines_correct : forall ls l0 f i la ca j lb cb a b,
  forallb no_nl ls = true ->
  nth_error ls i = Some la -> (ca <= slen la)%nat -> a = (line_start ls i + ca)%nat ->
  nth_error ls j = Some lb -> (cb <= slen lb)%nat -> b = (line_start ls j + cb)%nat ->
  (a <= b)%nat ->
  s_l0 (clone_with_span (mk l0 (Some (l0 + zlen ls - 1)) (join_nl ls) f) a (Some b)) = l0 + Z.of_nat i /\
  s_l1 (clone_with_span (mk l0 (Some (l0 + zlen ls - 1)) (join_nl ls) f) a (Some b)) = Some (l0 + Z.of_nat j) /\
  s_str (clone_with_span (mk l0 (Some (l0 + zlen ls - 1)) (join_nl ls) f) a (Some b)) = slice a b (join_nl ls) /\
  s_str (clone_with_span (mk l0 (Some (l0 + zlen ls - 1)) (join_nl ls) f) a (Some b)) = text_between ls i ca j cb /\
  s_file (clone_with_span (mk l0 (Some (l0 + zlen ls - 1)) (join_nl ls) f) a (Some b)) = f.
Proof. exact span_lines_correct_lemma. Qed.
Print Assumptions C20_span_lines_correct.

(** every offset of the text lies on one and only one (line, column): the theorem above covers all in-range spans *)
Theorem C20_offset_on_one_line : forall ls a, ls <> [] -> (a <= slen (join_nl ls))%nat ->
  (exists i l ca, nth_error ls i = Some l /\ (ca <= slen l)%nat /\ a = (line_start ls i + ca)%nat) /\
  (forall i i' l l' ca ca', nth_error ls i = Some l -> nth_error ls i' = Some l' ->
     (ca <= slen l)%nat -> (ca' <= slen l')%nat ->
     a = (line_start ls i + ca)%nat -> a = (line_start ls i' + ca')%nat -> i = i' /\ ca = ca').
Proof.
  intros ls a Hne Ha. split; [exact (offset_line_exists ls Hne a Ha)|].
  intros i i' l l' ca ca' Hi Hi' Hc Hc' E E'. apply (offset_line_unique ls i i' l l' ca ca' Hi Hi' Hc Hc'). congruence.
Qed.
Print Assumptions C20_offset_on_one_line.

(** an open end (None) and an end beyond the string mean "up to the end"; the result always has as many lines
    as its string *)
Theorem C20_span_end_cases : forall src a,
  clone_with_span src a None = clone_with_span src a (Some (slen (s_str src))) /\
  (forall b, (slen (s_str src) <= b)%nat -> clone_with_span src a (Some b) = clone_with_span src a (Some (slen (s_str src)))) /\
  (forall ob, consistent (clone_with_span src a ob) = true).
Proof.
  intros src a. split; [apply clone_with_span_none|]. split; [intros b; apply clone_with_span_clamp|].
  intros ob. apply clone_with_span_consistent.
Qed.
Print Assumptions C20_span_end_cases.

(** * find / clone_with_string *)
(** when find returns a span without the ignore_space fall-back (ignore_space off, or the folded string occurs as
    it is), the text at the span equals the searched string up to the requested case folding, and it is the
    first such place *)
Theorem C20_find_locates : forall hay needle ic isp a b,
  (isp = false \/ find_sub (fold_case ic needle) (fold_case ic hay) <> None) ->
  find hay needle ic isp = FSpan a b ->
  b = (a + slen needle)%nat /\ (b <= slen hay)%nat /\
  fold_case ic (slice a b hay) = fold_case ic needle /\
  (forall k, (k < a)%nat -> fold_case ic (slice k (k + slen needle) hay) <> fold_case ic needle).
Proof. exact find_locates_lemma. Qed.
Print Assumptions C20_find_locates.

Theorem C20_find_none_means_absent : forall hay needle ic,
  find hay needle ic false = FNone ->
  hay = EmptyString \/ forall k, fold_case ic (slice k (k + slen needle) hay) <> fold_case ic needle.
Proof. exact find_none_lemma. Qed.
Print Assumptions C20_find_none_means_absent.

(** the ignore_space fall-back only guarantees: start of the first occurrence of the first token, end of the
    first occurrence of the last token *)
Theorem C20_find_space_partial : forall hay needle ic a b,
  find_sub (fold_case ic needle) (fold_case ic hay) = None ->
  find hay needle ic true = FSpan a b ->
  exists t0 tl il, hd_error (split_ws (fold_case ic needle)) = Some t0 /\
    tl = List.last (split_ws (fold_case ic needle)) t0 /\
    find_sub t0 (fold_case ic hay) = Some a /\ find_sub tl (fold_case ic hay) = Some il /\ b = (il + slen tl)%nat /\
    slice a (a + slen t0) (fold_case ic hay) = t0 /\ slice il b (fold_case ic hay) = tl.
Proof. exact find_space_partial_lemma. Qed.
Print Assumptions C20_find_space_partial.

(** ... so the unconditional statement fails: reversed span, extra text inside the span, IndexError; and the
    frontend's literal look-up returns a continued character literal with its continuation markers *)
Theorem C20_find_locates_refuted :
  find "c a" "a  c" true true = FSpan 2%nat 1%nat /\
  (find "a + b * a" "a  *" true true = FSpan 0%nat 7%nat /\
   remove_ws (lower (slice 0%nat 7%nat "a + b * a")) <> remove_ws (lower "a  *")) /\
  find "x" " " true true = FIndexError /\
  (exists r, clone_with_string (mk 3 (Some 4) continued_literal None) "'hello world'" true true = Some r /\
     s_str r = ("'hello &" ++ String nl "     &world'")%string /\ s_l0 r = 3 /\ s_l1 r = Some 4).
Proof.
  split; [exact find_space_reversed_lemma|]. split; [exact find_space_extra_lemma|].
  split; [exact find_space_index_error_lemma|exact cws_continued_literal_lemma].
Qed.
Print Assumptions C20_find_locates_refuted.

(** clone_with_string on the class: the result lies on the lines l0+i .. l0+j of the text that hold the located
    string, which equals the searched one up to case *)
Theorem C20_clone_with_string_located : forall ls l0 f needle ic isp r,
  forallb no_nl ls = true -> ls <> [] ->
  (isp = false \/ find_sub (fold_case ic needle) (fold_case ic (join_nl ls)) <> None) ->
  find (join_nl ls) needle ic isp <> FNone ->
  clone_with_string (mk l0 (Some (l0 + zlen ls - 1)) (join_nl ls) f) needle ic isp = Some r ->
  exists i ca j cb,
    (i <= j < List.length ls)%nat /\
    s_l0 r = l0 + Z.of_nat i /\ s_l1 r = Some (l0 + Z.of_nat j) /\
    s_str r = text_between ls i ca j cb /\ fold_case ic (s_str r) = fold_case ic needle /\ s_file r = f.
Proof. exact clone_with_string_located_lemma. Qed.
Print Assumptions C20_clone_with_string_located.

(** * join_source_list *)
(** sources that are consistent (as many lines as their string) and do not overlap: the joined source runs from
    the first start to the last end, is consistent, keeps the first file, and holds part k at offset
    join_offset .. k, which is the line where that part starts *)
Theorem C20_join_covers : forall s rest r,
  ordered_sources (s_l0 s) (s :: rest) = true ->
  join_source_list (s :: rest) = Some r ->
  s_l0 r = s_l0 s /\ s_l1 r = s_l1 (List.last (s :: rest) s) /\ consistent r = true /\ s_file r = s_file s /\
  forall k p, nth_error (s :: rest) k = Some p ->
    slice (join_offset (s_l0 s) (s :: rest) k) (join_offset (s_l0 s) (s :: rest) k + slen (s_str p)) (s_str r) = s_str p /\
    s_l0 r + count_nl (stake (join_offset (s_l0 s) (s :: rest) k) (s_str r)) = s_l0 p.
Proof. exact join_covers_lemma. Qed.
Print Assumptions C20_join_covers.

(** on this class the call does not trip the Source constructor's assertion *)
Theorem C20_join_no_assertion_on_class : forall s rest r,
  ordered_sources (s_l0 s) (s :: rest) = true ->
  join_source_list (s :: rest) = Some r -> join_source_list_py (s :: rest) = JSrc r.
Proof. exact join_py_on_class_lemma. Qed.
Print Assumptions C20_join_no_assertion_on_class.

(** overlapping parts: inconsistent result, or AssertionError when a part lies before the first one *)
Theorem C20_join_overlap_refuted :
  (exists a b r, consistent a = true /\ consistent b = true /\
    join_source_list [a; b] = Some r /\ consistent r = false) /\
  join_source_list_py [mk 6 (Some 6) "x" None; mk 2 (Some 2) "y" None] = JAssertErr.
Proof. split; [exact join_overlap_refuted_lemma|exact join_overlap_assert_lemma]. Qed.
Print Assumptions C20_join_overlap_refuted.

(** * FortranReader *)
(** sanitized_spans: one entry per sanitised line plus one, starting at 0, strictly increasing; sanitized_string
    is the joined sanitised lines *)
Theorem C20_reader_spans_increasing : forall src items,
  List.length (rd_spans (mk_reader src items)) = S (List.length (rd_san (mk_reader src items))) /\
  nth_error (rd_spans (mk_reader src items)) 0 = Some 0 /\
  rd_str (mk_reader src items) = join_nl (map r_text (rd_san (mk_reader src items))) /\
  forall k t x y, (k < t)%nat ->
    nth_error (rd_spans (mk_reader src items)) k = Some x -> nth_error (rd_spans (mk_reader src items)) t = Some y -> x < y.
Proof.
  intros src items. destruct (spans_shape src items) as (A & B & C).
  split; [exact A|]. split; [exact B|]. split; [exact C|]. exact (spans_incr src items).
Qed.
Print Assumptions C20_reader_spans_increasing.

(** the sanitised -> original line map of the modelled line reader, for every text:
    - every item's span lies inside the text;
    - when no '!$' comment sits inside a statement, the sanitised lines are in strictly increasing reading order
      (statements of one ';' list share their span);
    - every logical line is made of pieces of physical lines with increasing numbers, the first on line g_s and
      the last on line g_e, which hold code; all other lines of g_s..g_e are blank or comment lines;
    - every statement item carries the span of such a logical line and its text is one of its ';' pieces *)
Theorem C20_reader_map_monotone_and_exact : forall ls,
  Forall (span_ok_p (zlen ls)) (fp_read ls) /\
  (inner_ok (fp_read ls) = true -> StronglySorted after_p (sanitize (fp_read ls))) /\
  Forall (group_exact ls) (groups_of (scan 1 None ls)) /\
  (forall x, In x (fp_read ls) -> r_kind x = KLine ->
     exists g, In g (groups_of (scan 1 None ls)) /\ r_s x = g_s g /\ r_e x = g_e g /\
               In (r_text x) (pieces (g_content g))).
Proof.
  intros ls. split; [apply fp_read_spans_ok_lemma|]. split; [apply fp_read_sanitized_sorted_lemma|].
  split; [apply fp_groups_exact_lemma|]. intros x. apply fp_read_line_from_group_lemma.
Qed.
Print Assumptions C20_reader_map_monotone_and_exact.

(** a pragma-like comment inside a continued statement breaks the order: spans (1,3) then (3,3) *)
Theorem C20_reader_map_monotone_refuted :
  map (fun x => (r_s x, r_e x)) (rd_san (reader_of_text inner_pragma_text)) = [(1, 3); (3, 3); (4, 4)].
Proof. exact inner_pragma_refuted_lemma. Qed.
Print Assumptions C20_reader_map_monotone_refuted.

(** a span of the sanitised string that starts at the start of sanitised line i and ends inside or at the end of
    sanitised line j-1 maps to the physical lines from the start of line i to the end of line j-1, with the raw
    text of exactly these lines *)
Theorem C20_span_maps_to_lines : forall src items i j x y a b p q,
  (i < j)%nat ->
  nth_error (rd_spans (mk_reader src items)) i = Some a ->
  nth_error (rd_spans (mk_reader src items)) (j - 1) = Some p ->
  nth_error (rd_spans (mk_reader src items)) j = Some q -> p < b <= q ->
  nth_error (rd_san (mk_reader src items)) i = Some x ->
  nth_error (rd_san (mk_reader src items)) (j - 1) = Some y ->
  1 <= r_s x -> r_s x <= r_e y -> r_e y <= zlen src ->
  source_from_span (mk_reader src items) a (Some b) false =
    (if sempty (join_nl (firstn (Z.to_nat (r_e y - r_s x + 1)) (skipn (Z.to_nat (r_s x - 1)) src))) then Ok None
     else Ok (Some (mk (r_s x) (Some (r_e y))
                       (join_nl (firstn (Z.to_nat (r_e y - r_s x + 1)) (skipn (Z.to_nat (r_s x - 1)) src))) None))).
Proof. exact source_from_span_aligned. Qed.
Print Assumptions C20_span_maps_to_lines.

(** ... and when the sanitised lines are in reading order this range contains the physical lines of every
    sanitised line in between *)
Theorem C20_span_contains_touched_lines : forall n (l : list ritem),
  StronglySorted after_p l -> Forall (span_ok_p n) l ->
  forall k t x y, (k <= t)%nat -> nth_error l k = Some x -> nth_error l t = Some y ->
  r_s x <= r_s y /\ r_e x <= r_e y.
Proof. exact sorted_nth. Qed.
Print Assumptions C20_span_contains_touched_lines.

(** a span that starts inside a sanitised line loses that line; a sub-reader that stops inside the text carries
    one sanitised line too many in its sanitized_string *)
Theorem C20_span_midline_refuted :
  exists rd a b s, rd = reader_of_text demo_text /\
    a = 2 /\ b = 8 /\ rd_spans rd = [0; 6; 12; 18] /\
    source_from_span rd a (Some b) false = Ok (Some s) /\ s_l0 s = 2 /\ s_l1 s = Some 2.
Proof. exact midline_start_refuted_lemma. Qed.
Print Assumptions C20_span_midline_refuted.

(** with an open end (span = (a, None)) the sub-reader is consistent: its string is its joined sanitised lines and
    its spans are their line starts (this carries over to sub-readers of sub-readers) *)
Theorem C20_sub_reader_consistent_on_class : forall src items a pad sub,
  reader_from_span (mk_reader src items) a None pad = Ok (Some sub) ->
  rd_str sub = join_nl (map r_text (rd_san sub)) /\ rd_spans sub = 0 :: accum 0 (rd_san sub).
Proof. exact sub_reader_consistent_at_end_lemma. Qed.
Print Assumptions C20_sub_reader_consistent_on_class.

Theorem C20_sub_reader_string_refuted :
  exists rd sub, rd = reader_of_text demo_text /\
    reader_from_span rd 0 (Some 5) false = Ok (Some sub) /\
    map r_text (rd_san sub) = ["a = 1"%string] /\
    rd_str sub = ("a = 1" ++ String nl ("b = 2" ++ String nl ""))%string.
Proof. exact sub_reader_string_refuted_lemma. Qed.
Print Assumptions C20_sub_reader_string_refuted.
