(** C08 — property theorems only. *)
From Coq Require Import ZArith QArith List Bool String.
From LV Require Import Base.Expr models.M_C08 proofs.P_C08_sem proofs.P_C08_helpers proofs.P_C08 proofs.P_C08_wit.
Import ListNotations.
Open Scope Z_scope.

(** Main theorem: on the decidable class [in_class] (the instrumented run of the model takes no unsafe step)
    simplification with ANY flag subset preserves the Fortran integer value under every valuation that
    defines the input (non-zero divisors; truncating division [Z.quot]). *)
Theorem C08_simplify_sound_Z_on_class : forall fl e, in_class fl e = true ->
  exists e', simplify fl e = Some e' /\
    forall rho v, evalZ rho e = Some v -> evalZ rho e' = Some v.
Proof. exact simplify_sound_Z_on_class. Qed.
Print Assumptions C08_simplify_sound_Z_on_class.

(** ... and the logical value (comparisons, .and./.or./.not. with LogicEvaluation). *)
Theorem C08_simplify_sound_B_on_class : forall fl e, in_class fl e = true ->
  exists e', simplify fl e = Some e' /\
    forall rho v, evalB rho e = Some v -> evalB rho e' = Some v.
Proof. exact simplify_sound_B_on_class. Qed.
Print Assumptions C08_simplify_sound_B_on_class.

(** The same for every amount of fuel (nothing is claimed when the model runs out of fuel or predicts an exception). *)
Theorem C08_simp_sound_any_fuel : forall fl wf fuel e r, simp_i fl wf fuel (of_expr e) = Ok (r, true) ->
  forall rho, (forall v, evalZ rho e = Some v -> evalZ rho (to_expr r) = Some v) /\
              (forall v, evalB rho e = Some v -> evalB rho (to_expr r) = Some v).
Proof. exact simp_sound_any_fuel. Qed.
Print Assumptions C08_simp_sound_any_fuel.

(** Refutations of the unconditional statement (one per family), outside the class. *)
Theorem C08_simplify_Z_refuted_distribute_quotient :
  in_class all_flags w_dq = false /\
  exists e' v v', simplify all_flags w_dq = Some e' /\ evalZ rho1 w_dq = Some v /\ evalZ rho1 e' = Some v' /\ v <> v'.
Proof. split; [apply wit_dq|apply changes_value_spec, wit_dq]. Qed.
Print Assumptions C08_simplify_Z_refuted_distribute_quotient.

Theorem C08_simplify_Z_refuted_distribute_product :
  in_class all_flags w_dp = false /\
  exists e' v v', simplify all_flags w_dp = Some e' /\ evalZ rho1 w_dp = Some v /\ evalZ rho1 e' = Some v' /\ v <> v'.
Proof. split; [apply wit_dp|apply changes_value_spec, wit_dp]. Qed.
Print Assumptions C08_simplify_Z_refuted_distribute_product.

Theorem C08_simplify_Z_refuted_collect_then_distribute :
  in_class all_flags w_cc = false /\
  exists e' v v', simplify all_flags w_cc = Some e' /\ evalZ rho1 w_cc = Some v /\ evalZ rho1 e' = Some v' /\ v <> v'.
Proof. split; [apply wit_cc|apply changes_value_spec, wit_cc]. Qed.
Print Assumptions C08_simplify_Z_refuted_collect_then_distribute.

Theorem C08_simplify_refuted_string_keyed_collect :
  in_class only_cc w_tower = false /\
  exists e' v v', simplify only_cc w_tower = Some e' /\ evalZ rho2 w_tower = Some v /\ evalZ rho2 e' = Some v' /\ v <> v'.
Proof. split; [apply wit_tower|apply changes_value_spec, wit_tower]. Qed.
Print Assumptions C08_simplify_refuted_string_keyed_collect.

(** Repaired defects (commits 6254d3f, fb957a2): the former witnesses are now inside the class and correct;
    the old helper variants are kept only to state what was wrong. *)
Theorem C08_separate_coefficients_fixed : in_class only_cc w_sep = true /\ changes_value only_cc w_sep rho3 = false.
Proof. exact wit_sep_fixed. Qed.
Print Assumptions C08_separate_coefficients_fixed.

Theorem C08_separate_coefficients_old_refuted :
  sc_process_old true w_sep_child = (-1, Some (SVar "c")) /\
  evalZ rho3 (to_expr w_sep_child) = Some (-6) /\ evalZ rho3 (to_expr (SProd KL [SInt (-1); SVar "c"])) = Some (-2) /\
  sc_process true w_sep_child = (-1, Some (SProd KL [SVar "c"; SVar "b"])).
Proof. exact wit_sep_old. Qed.
Print Assumptions C08_separate_coefficients_old_refuted.

Theorem C08_get_constant_value_fixed : in_class only_logic w_attr = true /\ simplify only_logic w_attr = Some (ELog true).
Proof. exact wit_attr_fixed. Qed.
Print Assumptions C08_get_constant_value_fixed.

Theorem C08_get_constant_value_old_refuted :
  is_constant (of_expr (neg (neg (EInt 5)))) = true /\ cval_old (of_expr (neg (neg (EInt 5)))) = None /\
  cval (of_expr (neg (neg (EInt 5)))) = 5.
Proof. exact wit_attr_old. Qed.
Print Assumptions C08_get_constant_value_old_refuted.

(** In exact rational arithmetic the distribution steps of the witnesses ARE valid. *)
Theorem C08_distribution_valid_in_Q : forall rho,
  qagree rho w_dq (ESum false [EQuot false (EInt 1) (EInt 2); EQuot false va (EInt 2)]) /\
  qagree rho w_dp va /\ qagree rho w_cc va.
Proof. intros rho. repeat split; [apply wit_dq_Q|apply wit_dp_Q|apply wit_cc_Q]. Qed.
Print Assumptions C08_distribution_valid_in_Q.

(** The class is inhabited by non-trivial instances (a result different from the input). *)
Theorem C08_class_inhabited :
  (in_class all_flags ex_linear = true /\ simplify all_flags ex_linear = Some (neg (EInt 1))) /\
  in_class only_int ex_ceil = true /\
  (in_class all_flags ex_quot = true /\ simplify all_flags ex_quot <> Some ex_quot).
Proof. repeat split; try apply ex_linear_in; try apply ex_ceil_in; apply ex_quot_in. Qed.
Print Assumptions C08_class_inhabited.

(** Backbone: each helper preserves the integer value on defined inputs where its guard holds. *)
Theorem C08_helper_div_literals : forall rho fp e r, div_literals_i fp e = Ok (r, true) -> zsound rho e r.
Proof. exact div_literals_sound. Qed.
Print Assumptions C08_helper_div_literals.

Theorem C08_helper_mul_literals : forall rho ia fp e, zsound rho e (mul_literals ia fp e).
Proof. exact mul_literals_sound. Qed.
Print Assumptions C08_helper_mul_literals.

Theorem C08_helper_sum_literals : forall rho ia fp e, zsound rho e (sum_literals ia fp e).
Proof. exact sum_literals_sound. Qed.
Print Assumptions C08_helper_sum_literals.

Theorem C08_helper_collect_coefficients : forall rho e r, collect_i e = (r, true) -> zsound rho e r.
Proof. exact collect_sound. Qed.
Print Assumptions C08_helper_collect_coefficients.

Theorem C08_helper_distribute_product : forall rho e, dp_safe e = true -> zsound rho e (distribute_product e).
Proof. exact distribute_product_sound. Qed.
Print Assumptions C08_helper_distribute_product.

Theorem C08_helper_distribute_quotient : forall rho fuel e,
  snd (distribute_quotient_i fuel e) = true -> zsound rho e (fst (distribute_quotient_i fuel e)).
Proof. exact distribute_quotient_sound. Qed.
Print Assumptions C08_helper_distribute_quotient.

Theorem C08_helper_flatten : forall rho wf e r, flatten_i wf e = Ok (r, true) -> zsound rho e r.
Proof. exact flatten_sound. Qed.
Print Assumptions C08_helper_flatten.

(** truncating division: cancelling the gcd and moving signs (used by div_literals / distribute_quotient) *)
Theorem C08_quot_gcd_cancel : forall a b, b <> 0 -> Z.quot a b = Z.quot (a / Z.gcd a b) (b / Z.gcd a b).
Proof. exact quot_gcd_cancel. Qed.
Print Assumptions C08_quot_gcd_cancel.

Theorem C08_quot_neg : forall a b, b <> 0 -> Z.quot (- a) b = - Z.quot a b /\ Z.quot a (- b) = - Z.quot a b.
Proof. exact quot_neg_both. Qed.
Print Assumptions C08_quot_neg.

(** [zsound] is the statement about the shared semantics *)
Theorem C08_zsound_is_evalZ : forall rho e e', zsound rho e e' <->
  (forall v, evalZ rho (to_expr e) = Some v -> evalZ rho (to_expr e') = Some v).
Proof. exact zsound_is_evalZ. Qed.
Print Assumptions C08_zsound_is_evalZ.
