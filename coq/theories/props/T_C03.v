(** C03 — property theorems only.
    [cp ei t] is what FortranCodegenConservative prints for the node [t] (None = the backend raises), a text is a list of
    lines, [text_of t] the original text recorded in the node's Source, [trn M t] the tree Transformer(M).visit(t) builds,
    [tr sel M t] the same for the sections [sel] of a file whose enclosing units are then marked INVALID_CHILDREN. *)
From Coq Require Import ZArith List Bool String.
From LV Require Import Base.Strings models.M_C03 proofs.P_C03 proofs.P_C03_edit proofs.P_C03_wit.
Import ListNotations.
Open Scope list_scope.
Open Scope Z_scope.

(** unmodified source: if the recorded texts tile (every node's text is its header lines, its children's texts and its
    footer lines, as its printing rule frames them) and nothing has been invalidated, the output is the original text *)
Theorem C03_tiling_verbatim : forall t ei, tiled t = true -> all_valid t = true -> cp ei t = text_of t.
Proof. exact tiling_verbatim. Qed.
Print Assumptions C03_tiling_verbatim.

(** ... and this stays true however many nodes WITH children are marked INVALID_CHILDREN (what every Transformer pass
    does in the unchanged code), as long as no ELSE IF is involved *)
Theorem C03_over_invalidation_harmless_on_tiled : forall t,
  tiled t = true -> okstatus t = true -> ei_free t = true -> cp false t = text_of t.
Proof. exact over_invalidation_harmless. Qed.
Print Assumptions C03_over_invalidation_harmless_on_tiled.

(** the decidable class evaluated on every exported tree is sound *)
Theorem C03_verb_sound : forall t ei, verb ei t = true -> cp ei t = text_of t.
Proof. exact verb_cp. Qed.
Print Assumptions C03_verb_sound.

(** a node whose source is still VALID and that the printer reaches is emitted with exactly its original text, whatever
    happened elsewhere in the tree *)
Theorem C03_valid_node_verbatim : forall ei t n, emits ei t n ->
  forall out s, cp ei t = Some out -> src_of n = Some s ->
  mode_of (kind_of n) (src_of n) = MT ->
  (is_comment (kind_of n) = true -> plain_comment (s_txt s) = true) ->
  nonblank (s_txt s) = true ->
  exists pre post, out = pre ++ s_txt s ++ post.
Proof. exact emitted_valid_verbatim. Qed.
Print Assumptions C03_valid_node_verbatim.

(** local edit: what is printed after Transformer(M) is the frame of every visited node taken from its own text, the
    printed replacements in place of the mapped nodes, and everything else as it was printed before *)
Theorem C03_local_edit : forall t M ei, nt false M ei t = true -> cp ei (trn M t) = spl false M ei t.
Proof. exact edit_weak. Qed.
Print Assumptions C03_local_edit.

(** ... on the strong class (texts tile, untouched statements VALID) "as it was printed before" is "its original text" *)
Theorem C03_local_edit_text : forall M ei t, nt true M ei t = true -> cp ei (trn M t) = spl true M ei t.
Proof. exact local_edit_text. Qed.
Print Assumptions C03_local_edit_text.

(** ... and where nothing below a node is mapped, the expected text is the node's original text: unchanged nodes are
    byte-identical and in place *)
Theorem C03_splice_untouched : forall t M ei, nt true M ei t = true -> touched M t = false -> spl true M ei t = text_of t.
Proof. exact spl_untouched. Qed.
Print Assumptions C03_splice_untouched.

Theorem C03_untouched_verbatim : forall M ei t, nt true M ei t = true -> touched M t = false -> cp ei (trn M t) = text_of t.
Proof. exact untouched_verbatim. Qed.
Print Assumptions C03_untouched_verbatim.

(** in particular an identity pass (nothing mapped) is harmless on the strong class ... *)
Theorem C03_identity_pass_on_class : forall ei t,
  nt true (fun _ => None) ei t = true -> cp ei (trn (fun _ => None) t) = text_of t.
Proof. exact identity_pass_on_class. Qed.
Print Assumptions C03_identity_pass_on_class.

(** the same for a whole file: sections [sel] transformed, enclosing units / contains-sections / file marked *)
Theorem C03_local_edit_file : forall t sel M, ntp false sel M t = true -> cp false (tr sel M t) = splp false sel M t.
Proof. exact edit_weak_p. Qed.
Print Assumptions C03_local_edit_file.

Theorem C03_local_edit_file_text : forall sel M t, ntp true sel M t = true -> cp false (tr sel M t) = splp true sel M t.
Proof. exact local_edit_file_text. Qed.
Print Assumptions C03_local_edit_file_text.

(** invalidation: a rebuilt node that keeps at least one node child is never left VALID ... *)
Theorem C03_invalidation_sound : forall M k u lbl s grp lits alt slots,
  has_node_child (slots_of (trn M (T k u lbl (Some s) TN grp lits alt slots))) = true ->
  forall s', src_of (trn M (T k u lbl (Some s) TN grp lits alt slots)) = Some s' -> is_valid s' = false.
Proof. exact invalidation_sound. Qed.
Print Assumptions C03_invalidation_sound.

(** ... but one that loses all its children is: the deleted statement is still printed (stale text) *)
Theorem C03_invalidation_refuted :
  touched m_del w_loop = true /\
  option_map s_st (src_of (trn m_del w_loop)) = Some VALID /\
  slots_of (trn m_del w_loop) = [[]] /\
  cp false (trn m_del w_loop) = Some ["do i = 1, n"; "  a(i) = 0"; "end do"]%string.
Proof. exact invalidation_refuted. Qed.
Print Assumptions C03_invalidation_refuted.

(** the unconditional statements are false for the unchanged code: an identity Transformer pass (nothing replaced) ... *)
(** ... duplicates the statements of a line that holds two statements *)
Theorem C03_identity_pass_refuted :
  exists t, all_valid t = true /\ cp false t = text_of t /\
            cp false (trn nomap t) = Some ["  a = 1 ; b = a"; "  a = 1 ; b = a"; "  c = 3"]%string.
Proof. exact identity_pass_refuted. Qed.
Print Assumptions C03_identity_pass_refuted.

(** ... writes the label of a labelled statement twice *)
Theorem C03_label_duplicated_refuted :
  all_valid w_label = true /\ cp false (trn nomap w_label) = Some ["20 20 a = 1"; "   b = 2"]%string.
Proof. exact label_duplicated. Qed.
Print Assumptions C03_label_duplicated_refuted.

(** ... regenerates VALID statements of classes without conservative handler *)
Theorem C03_valid_other_regenerated_refuted :
  all_valid w_other = true /\ cp false (trn nomap w_other) = Some ["  IMPLICIT NONE"; "  integer :: i"]%string.
Proof. exact valid_other_regenerated. Qed.
Print Assumptions C03_valid_other_regenerated_refuted.

(** ... makes the backend raise on IF / ELSE IF / ELSE IF *)
Theorem C03_elseif_chain_crash_refuted :
  all_valid w_chain = true /\ cp false w_chain = text_of w_chain /\ cp false (trn nomap w_chain) = None.
Proof. exact elseif_chain_crash. Qed.
Print Assumptions C03_elseif_chain_crash_refuted.

(** a regenerated IF below an ELSE IF gets an ELSE IF header *)
Theorem C03_elseif_kwarg_leak_refuted :
  cp false (trn m_leak w_leak) =
  Some ["if (a) then"; "  x = 1"; "else if (b) then"; "    ELSE IF (d) THEN"; "      x = 3"; "    END IF"; "end if"]%string.
Proof. exact elseif_kwarg_leak. Qed.
Print Assumptions C03_elseif_kwarg_leak_refuted.

(** a module without specification part cannot be printed once it is INVALID_CHILDREN *)
Theorem C03_module_without_spec_crash_refuted : cp false w_mod = None.
Proof. exact module_without_spec_crash. Qed.
Print Assumptions C03_module_without_spec_crash_refuted.
