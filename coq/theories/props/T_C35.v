(** C35 — Fortran-to-C transpilation: property theorems only. *)
From Coq Require Import ZArith QArith List Bool String.
From LV Require models.M_C06.
From LV Require Import Base.Expr Base.MiniF models.M_C36 models.M_C35 proofs.P_C36 proofs.P_C35_sem proofs.P_C35 proofs.P_C35_dbl.
Import ListNotations.
Open Scope Z_scope.

(** On the integer-typed class (+ - * unary minus, truncating [/], [mod] -> [%], array reads with subscript-free
    integer subscripts; no double-valued intrinsic, no power) the MiniC value of the C expression read from the
    generated text, in the C environment of [rho] (by-value scalars, pointer targets for the [byref] scalars, flat
    column-major arrays), is the Fortran integer value. *)
Theorem C35_cexpr_preserves_on_class : forall byref decl rho e v,
  shapes_pos decl -> crho_ok decl rho -> arrs_ok (map fst decl) = true ->
  c_int_class (map fst decl) e = true -> evalZ rho e = Some v ->
  evalC (shift_cenv byref decl rho) (c_model byref decl e) = Some (CI v).
Proof. exact cexpr_preserves_on_class. Qed.
Print Assumptions C35_cexpr_preserves_on_class.

Theorem C35_ccond_preserves_on_class : forall byref decl rho e b,
  shapes_pos decl -> crho_ok decl rho -> arrs_ok (map fst decl) = true ->
  c_class_b (map fst decl) e = true -> evalB rho e = Some b ->
  evalC (shift_cenv byref decl rho) (c_model byref decl e) = Some (b2c b).
Proof. exact ccond_preserves_on_class. Qed.
Print Assumptions C35_ccond_preserves_on_class.

(** the same for every C environment related to [rho] (by-value vs pointer arguments are part of the relation) *)
Theorem C35_cexpr_preserves_related : forall byref decl rho ce e v,
  c_env_rel byref decl rho ce -> arrs_ok (map fst decl) = true -> shapes_pos decl ->
  c_int_class (map fst decl) e = true -> evalZ rho e = Some v ->
  evalC ce (c_model byref decl e) = Some (CI v).
Proof. intros byref decl rho ce e v H1 H2 H3. exact (cexpr_preserves byref decl rho ce H1 H2 H3 e v). Qed.
Print Assumptions C35_cexpr_preserves_related.

(** The wider class: abs / 2-argument min, max / literal powers >= 0 (double-valued fabs, fmin, fmax, pow in C) anywhere
    outside of divisions, mod and subscripts.  The C value is an int or a double equal to the Fortran integer, so the
    conversion on assignment to an int gives the Fortran value. *)
Theorem C35_cexpr_preserves_with_doubles : forall byref decl rho ce,
  c_env_rel byref decl rho ce -> arrs_ok (map fst decl) = true -> shapes_pos decl ->
  forallb (fun a => negb (existsb (String.eqb a) ["fmin"; "fmax"; "fabs"]%string)) (map fst decl) = true ->
  forall e v, c_ext_class (map fst decl) e = true -> evalZ rho e = Some v ->
  exists cv, evalC ce (c_model byref decl e) = Some cv /\ c_to_int cv = v.
Proof. exact cexpr_preserves_with_doubles. Qed.
Print Assumptions C35_cexpr_preserves_with_doubles.

Theorem C35_ccond_preserves_with_doubles : forall byref decl rho ce,
  c_env_rel byref decl rho ce -> arrs_ok (map fst decl) = true -> shapes_pos decl ->
  forallb (fun a => negb (existsb (String.eqb a) ["fmin"; "fmax"; "fabs"]%string)) (map fst decl) = true ->
  forall e b, c_ext_class_b (map fst decl) e = true -> evalB rho e = Some b ->
  evalC ce (c_model byref decl e) = Some (b2c b).
Proof. exact ccond_preserves_with_doubles. Qed.
Print Assumptions C35_ccond_preserves_with_doubles.

(** Fortran a(i1,..,ik) (1-based, column-major) <-> C a[(i1-1) + n1*((i2-1) + n2*(...))] *)
Theorem C35_index_map_bijection : forall sh, Forall (fun n => 0 < n) sh ->
  (forall idx, box1 sh idx -> 0 <= flat sh (map (fun k => k - 1) idx) < size sh) /\
  (forall i1 i2, box1 sh i1 -> box1 sh i2 ->
     flat sh (map (fun k => k - 1) i1) = flat sh (map (fun k => k - 1) i2) -> i1 = i2) /\
  (forall p, 0 <= p < size sh -> exists idx, box1 sh idx /\ flat sh (map (fun k => k - 1) idx) = p).
Proof. exact index_map_bijection. Qed.
Print Assumptions C35_index_map_bijection.

Theorem C35_index_map_correct : forall byref decl rho a idx ks v,
  shapes_pos decl -> crho_ok decl rho -> arrs_ok (map fst decl) = true ->
  is_arr (map fst decl) a = true ->
  forallb (c_int_class (map fst decl)) idx = true -> forallb (no_arr (map fst decl)) idx = true ->
  omap_list (evalZ rho) idx = Some ks -> ev_fun rho a ks = Some v ->
  evalC (shift_cenv byref decl rho) (c_model byref decl (ECall a idx)) = Some (CI v).
Proof. exact c_index_map_correct. Qed.
Print Assumptions C35_index_map_correct.

Theorem C35_class_inhabited :
  shapes_pos cex_decl /\ crho_ok cex_decl cex_rho /\ arrs_ok (map fst cex_decl) = true /\
  c_int_class (map fst cex_decl) cex_expr = true /\ evalZ cex_rho cex_expr = Some 31 /\
  evalC (shift_cenv ["r"%string] cex_decl cex_rho) (c_model ["r"%string] cex_decl cex_expr) = Some (CI 31).
Proof. exact c_class_inhabited. Qed.
Print Assumptions C35_class_inhabited.

(** Refutations of the unconditional statement *)
Theorem C35_c_double_division_refuted :
  exists e, evalZ (rho_nm 3 0) e = Some 2 /\
    exists cv, evalC (ce_nm 3 0) (c_model [] [] e) = Some cv /\ c_to_int cv = 3.
Proof. exact c_double_division_refuted. Qed.
Print Assumptions C35_c_double_division_refuted.

Theorem C35_c_mod_factor_refuted :
  evalZ (rho_nm 2 5) (EProd false [EVar "n"; ECall "mod" [EVar "m"; EInt 3]]) = Some 4 /\
  exists t, c_parse mod_factor_text = Some t /\ evalC (ce_nm 2 5) t = Some (CI 1).
Proof. exact c_mod_factor_refuted. Qed.
Print Assumptions C35_c_mod_factor_refuted.

Theorem C35_c_print_refuted_prod_quot :
  let e := EProd false [EVar "n"; EQuot false (EInt 7) (EInt 2)] in
  evalZ (rho_nm 3 0) e = Some 9 /\
  exists t, c_parse (map tok_c (M_C06.print_c e 0)) = Some t /\ evalC (ce_nm 3 0) t = Some (CI 10).
Proof. exact c_print_refuted_prod_quot. Qed.
Print Assumptions C35_c_print_refuted_prod_quot.

Theorem C35_c_nested_index_refuted :
  exists e, evalZ nest_rho e = Some 20 /\ evalC cnest_env (c_model [] cnest_decl e) = Some (CI 30).
Proof. exact c_nested_index_refuted. Qed.
Print Assumptions C35_c_nested_index_refuted.
