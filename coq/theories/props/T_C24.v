(** C24 — planning mode predicts exactly the files a conversion writes: property theorems. *)
From Coq Require Import List Bool String Ascii Arith Permutation.
From LV Require Import models.M_C24 proofs.P_C24_path proofs.P_C24.
Import ListNotations.
Open Scope string_scope.
Open Scope list_scope.

(** If every transformation of the pipeline has the same effect on the set of file items in planning mode as in
    conversion mode (the hypothesis checked on the real transformations on every run), then for every start state,
    root path and FileWrite configuration the plan's LOKI_SOURCES_TO_APPEND are exactly the files the conversion
    writes.  Induction over the pipeline, no bound on its length or on the number of items. *)
Theorem C24_plan_append_eq_written :
  forall root cfg pipe s s' P,
    Forall agrees pipe -> weq s s' ->
    run_planner root cfg (run t_plan pipe s) = Some P ->
    forall p, In p (flat (p_ap P)) <-> In (Some p) (written cfg (run t_conv pipe s')).
Proof. exact plan_append_eq_written. Qed.
Print Assumptions C24_plan_append_eq_written.

(** Pipelines built from the three concrete effects (keep the items: dependency suffixing / module wrapping / file
    write; create clones: kernel duplication; drop items: kernel removal) satisfy the hypothesis. *)
Theorem C24_builtin_pipeline_plan_eq_written :
  forall root cfg pipe s P,
    Forall builtin pipe ->
    run_planner root cfg (run t_plan pipe s) = Some P ->
    forall p, In p (flat (p_ap P)) <-> In (Some p) (written cfg (run t_conv pipe s)).
Proof. exact builtin_pipeline_plan_eq_written. Qed.
Print Assumptions C24_builtin_pipeline_plan_eq_written.

(** With identical final item lists the appended list is a permutation of the written list (with multiplicities;
    the plan groups by library). *)
Theorem C24_plan_append_perm_written :
  forall root cfg pipe s P,
    run t_plan pipe s = run t_conv pipe s ->
    run_planner root cfg (run t_plan pipe s) = Some P ->
    exists w, somes (written cfg (run t_conv pipe s)) = Some w /\ Permutation (flat (p_ap P)) w.
Proof. exact plan_append_perm_written. Qed.
Print Assumptions C24_plan_append_perm_written.

(** Without the hypothesis the statement fails: a renaming step that planning does not simulate followed by a
    name-based removal (F-C24-1). *)
Theorem C24_plan_differs_without_hypothesis_refuted :
  exists pipe s root cfg P p,
    run_planner root cfg (run t_plan pipe s) = Some P /\
    In p (flat (p_ap P)) /\ ~ In (Some p) (written cfg (run t_conv pipe s)).
Proof. exact plan_differs_without_hypothesis. Qed.
Print Assumptions C24_plan_differs_without_hypothesis_refuted.

(** LOKI_SOURCES_TO_TRANSFORM: the existing paths of the visited items, plus the original path of a replicated item
    whose own path does not exist. *)
Theorem C24_to_transform_are_origins :
  forall root cfg items P,
    run_planner root cfg items = Some P ->
    forall p, In p (flat (p_tr P)) <->
      exists i, In i items /\ visited i = true /\
        ((f_exists i = true /\ rel root (f_path i) (f_res i) = Some p) \/
         (f_repl i = true /\ f_oexists i = true /\ f_exists i = false /\ rel root (f_orig i) (f_ores i) = Some p)).
Proof. exact to_transform_spec. Qed.
Print Assumptions C24_to_transform_are_origins.

(** ... hence the origin of a non-replicated duplicate is not listed once the original item left the graph (F-C24-4). *)
Theorem C24_origin_of_duplicate_not_listed_refuted :
  exists items root cfg P i,
    run_planner root cfg items = Some P /\ In i items /\ visited i = true /\
    f_exists i = false /\ f_oexists i = true /\ ~ In "src/sub/k2.f90" (flat (p_tr P)) /\
    rel root (f_orig i) (f_ores i) = Some "src/sub/k2.f90".
Proof. exact origin_of_duplicate_not_listed. Qed.
Print Assumptions C24_origin_of_duplicate_not_listed_refuted.

(** LOKI_SOURCES_TO_REMOVE: exactly the existing originals of visited items that are not replicated. *)
Theorem C24_to_remove_iff_not_replicate :
  forall root cfg items P,
    run_planner root cfg items = Some P ->
    forall p, In p (flat (p_rm P)) <->
      exists i, In i items /\ visited i = true /\ f_exists i = true /\ f_repl i = false /\
                rel root (f_path i) (f_res i) = Some p.
Proof. exact to_remove_spec. Qed.
Print Assumptions C24_to_remove_iff_not_replicate.

Theorem C24_remove_subset_transform :
  forall root cfg items P, run_planner root cfg items = Some P -> incl (flat (p_rm P)) (flat (p_tr P)).
Proof. exact remove_subset_transform. Qed.
Print Assumptions C24_remove_subset_transform.

(** Per-library sections: an entry is in the list of library [k] iff it comes from a visited item of that library;
    the flattened lists are the union of the per-library lists. *)
Theorem C24_per_lib_append :
  forall root cfg items P k,
    run_planner root cfg items = Some P ->
    forall p, In p (al_get k (p_ap P)) <->
      exists i, In i items /\ visited i = true /\ f_lib i = k /\ file_path cfg i = Some p.
Proof. exact per_lib_append. Qed.
Print Assumptions C24_per_lib_append.

Theorem C24_flat_is_union_of_libs :
  forall root cfg items P,
    run_planner root cfg items = Some P ->
    forall p, (In p (flat (p_ap P)) <-> exists k, In p (al_get k (p_ap P))) /\
              (In p (flat (p_tr P)) <-> exists k, In p (al_get k (p_tr P))) /\
              (In p (flat (p_rm P)) <-> exists k, In p (al_get k (p_rm P))).
Proof. exact flat_is_union_of_libs. Qed.
Print Assumptions C24_flat_is_union_of_libs.

(** The planner raises exactly when a visited item has no valid write path or lies outside the root. *)
Theorem C24_planner_fails_iff :
  forall root cfg items,
    run_planner root cfg items = None <->
    exists i, In i items /\ visited i = true /\
      (file_path cfg i = None \/ rel root (f_path i) (f_res i) = None \/
       (f_repl i = true /\ rel root (f_orig i) (f_ores i) = None)).
Proof. exact planner_fails_iff. Qed.
Print Assumptions C24_planner_fails_iff.

(** The path rule: a function of (path, mode, configuration); its two cases; when it fails; sanitised modes. *)
Theorem C24_path_rule_deterministic :
  forall cfg i j, wkey i = wkey j -> file_path cfg i = file_path cfg j.
Proof. exact file_path_deterministic. Qed.
Print Assumptions C24_path_rule_deterministic.

Theorem C24_path_rule_case_nodir :
  forall cfg p m q, c_outdir cfg = None -> file_path_k cfg p m = Some q ->
    q = (dirpart p ++ py_stem (basename p) ++ "." ++ mode_of m ++ suffix_str cfg p)%string.
Proof. exact file_path_nodir. Qed.
Print Assumptions C24_path_rule_case_nodir.

Theorem C24_path_rule_case_outdir :
  forall cfg d p m q, c_outdir cfg = Some d -> file_path_k cfg p m = Some q ->
    q = join_dir d (py_stem (basename p) ++ "." ++ mode_of m ++ suffix_str cfg p)%string.
Proof. exact file_path_outdir. Qed.
Print Assumptions C24_path_rule_case_outdir.

Theorem C24_path_rule_fails_iff :
  forall cfg p m,
    file_path_k cfg p m = None <->
    has_char "/"%char (mode_of m ++ suffix_str cfg p)%string = true \/ is_empty (basename p) = true.
Proof. exact file_path_none. Qed.
Print Assumptions C24_path_rule_fails_iff.

Theorem C24_mode_sanitised :
  forall m, has_char "-"%char (mode_of m) = false.
Proof. exact mode_sanitised. Qed.
Print Assumptions C24_mode_sanitised.

(** With an output directory the rule is not injective: equal file names collide (F-C24-2). *)
Theorem C24_path_rule_same_name_collides :
  forall cfg d p p' m, c_outdir cfg = Some d -> basename p = basename p' -> file_path_k cfg p m = file_path_k cfg p' m.
Proof. exact file_path_same_name. Qed.
Print Assumptions C24_path_rule_same_name_collides.

Theorem C24_path_rule_injective_refuted :
  exists cfg i j, f_path i <> f_path j /\ file_path cfg i = file_path cfg j /\ file_path cfg i <> None.
Proof. exact file_path_collision. Qed.
Print Assumptions C24_path_rule_injective_refuted.

(** A non-trivial instance of the main theorem's hypotheses with its lists. *)
Theorem C24_example_pipeline :
  Forall builtin ex_pipe /\
  exists P, run_planner (Some "/R") ex_cfg (run t_plan ex_pipe ex_s) = Some P /\
    flat (p_ap P) = ["/R/build/driver.idem.F90"; "/R/build/k2.scc_stack.f90"; "/R/build/k2_dup.scc_stack.f90"] /\
    flat (p_tr P) = ["src/driver.F90"; "src/sub/k2.f90"] /\
    flat (p_rm P) = ["src/driver.F90"; "src/sub/k2.f90"].
Proof. exact example_pipeline. Qed.
Print Assumptions C24_example_pipeline.
