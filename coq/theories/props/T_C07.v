(** C07 — property theorems only. *)
From Coq Require Import ZArith List Bool String.
From LV Require Import Base.Expr models.M_C07 proofs.P_C07 proofs.P_C07_sem.
Import ListNotations.
Open Scope Z_scope.

(** Main statement: for every derivation [d] of the Fortran expression grammar inside the class [std_prec]
    the parser model accepts the yield of [d] and returns a tree whose value (integer resp. logical, under
    every environment) is the value the grammar assigns to [d]. *)
Theorem C07_parser_agrees_on_class : forall d : fexpr, std_prec d = true ->
  exists t, parse (y_fexpr d) = Some t /\ forall rho, tree_val rho d t = v_fexpr rho d.
Proof. exact parser_agrees_on_class. Qed.
Print Assumptions C07_parser_agrees_on_class.

Theorem C07_parser_agrees_arith : forall e : lvl2, std_l2 e = true ->
  exists t, parse (y_l2 e) = Some t /\ forall rho, evalZ rho t = v_l2 rho e.
Proof. exact parser_agrees_arith. Qed.
Print Assumptions C07_parser_agrees_arith.

Theorem C07_parser_agrees_logic : forall e : lexpr, std_lexpr e = true ->
  exists t, parse (y_lexpr e) = Some t /\ forall rho, evalL rho t = v_lexpr rho e.
Proof. exact parser_agrees_logic. Qed.
Print Assumptions C07_parser_agrees_logic.

(** Unconditional description of what the parser builds on the arithmetic levels (inside and outside the
    class): the precedence-climbing loop consumes exactly the yield and returns [tr_l2 e]. *)
Theorem C07_parser_tree_arith : forall e : lvl2, parse_p (y_l2 e) = Ok (tr_l2 e).
Proof. exact parse_p_l2. Qed.
Print Assumptions C07_parser_tree_arith.

Theorem C07_parser_tree_logic : forall e : lexpr, std_lexpr e = true -> parse_p (y_lexpr e) = Ok (tr_lexpr e).
Proof. exact parse_p_lexpr. Qed.
Print Assumptions C07_parser_tree_logic.

(** [evalL] is the shared [evalB] extended with logical variables *)
Theorem C07_evalL_extends_evalB : forall rho t b, evalB rho t = Some b -> evalL rho t = Some b.
Proof. exact evalL_extends. Qed.
Print Assumptions C07_evalL_extends_evalB.

(** The unconditional statement is false for the real parser (each witness is a known finding). *)
Theorem C07_neg_pow_refuted :
  exists t, parse (y_l2 d_neg_pow) = Some t /\ evalZ rho0 t = Some 4 /\ v_l2 rho0 d_neg_pow = Some (-4).
Proof. exact neg_pow_refuted. Qed.
Print Assumptions C07_neg_pow_refuted.

Theorem C07_mul_div_refuted :
  exists t, parse (y_l2 d_mul_div) = Some t /\ evalZ rho0 t = Some 2 /\ v_l2 rho0 d_mul_div = Some 3.
Proof. exact mul_div_refuted. Qed.
Print Assumptions C07_mul_div_refuted.

Theorem C07_not_cmp_refuted :
  exists t, parse (y_lexpr d_not_cmp) = Some t /\ t = ECmp Ceq (ENot (EInt 1)) (EInt 2) /\
            evalL rho0 t = None /\ v_lexpr rho0 d_not_cmp = Some true.
Proof. exact not_cmp_refuted. Qed.
Print Assumptions C07_not_cmp_refuted.

Theorem C07_eqv_refuted :
  parse [TId "l"; TPct; TId "eqv"; TPct; TId "m"] = Some (EVar "l%eqv%m").
Proof. exact eqv_refuted. Qed.
Print Assumptions C07_eqv_refuted.

Theorem C07_comp_times_refuted :
  parse [TId "x"; TPct; TId "y"; TStar; TId "z"] = Some (EProd false [EVar "x%y"; EVar "x%z"]).
Proof. exact comp_times_refuted. Qed.
Print Assumptions C07_comp_times_refuted.

(** the class hypotheses are satisfiable by a non-trivial derivation *)
Theorem C07_class_inhabited :
  std_l2 d_example = true /\
  v_l2 (env_of [("a", 7); ("b", 3); ("c", 2)]%string) d_example = Some 501.
Proof. exact class_inhabited. Qed.
Print Assumptions C07_class_inhabited.
