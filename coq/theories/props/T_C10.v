(** C10 — property theorems only. *)
From Coq Require Import ZArith List.
From LV Require Import models.M_C10 proofs.P_C10.
Open Scope Z_scope.

Theorem C10_pyrange_eq_trips : forall a b s, s <> 0 -> get_pyrange a b s = do_trips a b s.
Proof. exact pyrange_eq_trips. Qed.
Print Assumptions C10_pyrange_eq_trips.

Theorem C10_num_iterations_count : forall a b s,
  s <> 0 -> nonempty a b s = true -> num_iterations a b s = Z.of_nat (length (do_trips a b s)).
Proof. exact num_iterations_count. Qed.
Print Assumptions C10_num_iterations_count.

Theorem C10_normalized_same_count : forall a b s,
  s <> 0 -> nonempty a b s = true ->
  length (normalized_trips a b s) = length (do_trips a b s) /\
  (forall k, (k < length (do_trips a b s))%nat -> nth k (normalized_trips a b s) 0 = Z.of_nat k + 1).
Proof. exact normalized_same_count. Qed.
Print Assumptions C10_normalized_same_count.

Theorem C10_iteration_index_enumerates : forall a b s k,
  (k < length (do_trips a b s))%nat ->
  iteration_index (Z.of_nat k + 1) a s = nth k (do_trips a b s) 0.
Proof. exact iteration_index_enumerates. Qed.
Print Assumptions C10_iteration_index_enumerates.

Theorem C10_iteration_number_of_trip : forall a b s k,
  s <> 0 -> (k < length (do_trips a b s))%nat ->
  iteration_number (nth k (do_trips a b s) 0) a s = Z.of_nat k + 1.
Proof. exact iteration_number_of_trip. Qed.
Print Assumptions C10_iteration_number_of_trip.

Theorem C10_trips_within_bounds : forall a b s x,
  s <> 0 -> In x (do_trips a b s) -> (0 < s -> a <= x <= b) /\ (s < 0 -> b <= x <= a).
Proof. exact trips_within_bounds. Qed.
Print Assumptions C10_trips_within_bounds.
