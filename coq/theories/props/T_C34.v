(** C34 — call-signature rewrites preserve behaviour: property theorems.
    All statements are about the by-reference semantics [rexec] of M_C34 (part A) and the coupled forms of the
    rewrites (part D); see notes/C34.md for what ties them to the code. *)
From Coq Require Import ZArith List Bool String Ascii.
From LV Require Import Base.Expr Base.MiniF models.M_C34
     proofs.P_C34_sim proofs.P_C34_arith proofs.P_C34_dedup proofs.P_C34_seq proofs.P_C34_shape proofs.P_C34_dt proofs.P_C34.
Import ListNotations.
Open Scope Z_scope.

(** (a) RemoveDuplicateArgs.  A plan merges dummies of a routine that receive the same variable at every call; the
    merged tree (dummies removed, bodies renamed, duplicate actuals dropped — through every level of the call tree)
    computes, by reference, exactly the store of the original tree, for every fuel, frame and store. *)
Theorem C34_dedup_args_preserves : forall pl t, plan_okb pl t = true ->
  forall f d fr ss s, sitesb (site_okb pl t []) ss = true ->
  rexec (to_rprocs t) f d fr ss s = rexec (to_rprocs (apply_plan pl t)) f d fr (tcalls (plan_tc pl t) ss) s.
Proof. exact dedup_args_preserves. Qed.
Print Assumptions C34_dedup_args_preserves.

(** the renaming the code performs is the plain renaming unless a renamed array has a renamed name in a subscript *)
Theorem C34_dedup_renaming_clean : forall m ss, forallb (clean_s m) ss = true -> renl m ss = ren (rn m) ss.
Proof. exact renl_clean. Qed.
Print Assumptions C34_dedup_renaming_clean.

(** outside the class (dummies of different shape merged) the result changes *)
Theorem C34_dedup_args_preserves_refuted :
  exists pl t f d fr ss s,
    plan_okb pl t = false /\
    rexec (to_rprocs t) f d fr ss s <> rexec (to_rprocs (apply_plan pl t)) f d fr (tcalls (plan_tc pl t) ss) s.
Proof. exact dedup_args_preserves_refuted. Qed.
Print Assumptions C34_dedup_args_preserves_refuted.

(** (b) sequence association, index level: the element sequence starting at an element is the section the rewrite
    passes, on the length of the section *)
Theorem C34_seq_assoc_index_correct_1d : forall l h i o, l <= i <= h -> 0 <= o <= h - i ->
  delin [(l, h)] (lin [(l, h)] [i] + o) = fill [ARng i h] (delin (sect_bnd [ARng i h]) o).
Proof. exact seq_assoc_index_correct_1d. Qed.
Print Assumptions C34_seq_assoc_index_correct_1d.

Theorem C34_seq_assoc_index_correct_2d_col : forall l1 h1 l2 h2 i j o, l1 <= i <= h1 -> l2 <= j <= h2 -> 0 <= o <= h1 - i ->
  delin [(l1, h1); (l2, h2)] (lin [(l1, h1); (l2, h2)] [i; j] + o) = fill [ARng i h1; AIdx j] (delin (sect_bnd [ARng i h1; AIdx j]) o).
Proof. exact seq_assoc_index_correct_2d_col. Qed.
Print Assumptions C34_seq_assoc_index_correct_2d_col.

Theorem C34_seq_assoc_index_correct_2d_first : forall l1 h1 l2 h2 j o, l1 <= h1 -> l2 <= j <= h2 -> 0 <= o < (h1 - l1 + 1) * (h2 - j + 1) ->
  delin [(l1, h1); (l2, h2)] (lin [(l1, h1); (l2, h2)] [l1; j] + o) = fill [ARng l1 h1; ARng j h2] (delin (sect_bnd [ARng l1 h1; ARng j h2]) o).
Proof. exact seq_assoc_index_correct_2d_first. Qed.
Print Assumptions C34_seq_assoc_index_correct_2d_first.

Theorem C34_seq_assoc_index_2d_refuted :
  exists l1 h1 l2 h2 i j o, l1 <= i <= h1 /\ l2 <= j <= h2 /\ 0 <= o < (h1 - i + 1) * (h2 - j + 1) /\
    delin [(l1, h1); (l2, h2)] (lin [(l1, h1); (l2, h2)] [i; j] + o) <> fill [ARng i h1; ARng j h2] (delin (sect_bnd [ARng i h1; ARng j h2]) o).
Proof. exact seq_assoc_index_2d_refuted. Qed.
Print Assumptions C34_seq_assoc_index_2d_refuted.

(** call level: whenever the rewritten call can be bound (no section shorter than its dummy), it behaves as the original *)
Theorem C34_seq_assoc_call_preserves : forall ps k p sh args f d fr s,
  (forall g q, find_rproc ps g = Some q -> no_rec q = true) ->
  find_rproc ps k = Some p ->
  List.length args = List.length (rp_params p) ->
  seq_class fr s sh (combine (rp_params p) args) ->
  bind (S d) fr s p (seq_call sh (rp_params p) args) <> None ->
  rexec1 (rexec ps f) ps d fr (SCall k args) s = rexec1 (rexec ps f) ps d fr (SCall k (seq_call sh (rp_params p) args)) s.
Proof. exact seq_assoc_call_preserves. Qed.
Print Assumptions C34_seq_assoc_call_preserves.

(** (c) explicit argument shapes: body untouched, new size dummies receive the caller's variables; when these hold
    the extents at the call (and lower bounds are 1) the call is unchanged in behaviour *)
Theorem C34_explicit_shape_is_semantic_noop : forall ps k p sh news args f d fr s,
  (forall g q, find_rproc ps g = Some q -> no_rec q = true /\ sites (fun g' _ => g' <> k) (rp_body q)) ->
  find_rproc ps k = Some p ->
  es_static sh news p = true ->
  List.length args = List.length (rp_params p) ->
  (forall z, In z news -> (sref_depth (fs fr z) <= d)%nat) ->
  es_match fr s sh (combine (rp_params p) args) ->
  rp_body (es_proc sh news p) = rp_body p /\
  rexec1 (rexec ps f) ps d fr (SCall k args) s =
  rexec1 (rexec (set_rproc ps k (es_proc sh news p)) f) (set_rproc ps k (es_proc sh news p)) d fr (SCall k (args ++ map EVar news)) s.
Proof.
  intros. split; [apply es_body_unchanged|]. now apply explicit_shape_is_semantic_noop.
Qed.
Print Assumptions C34_explicit_shape_is_semantic_noop.

Theorem C34_explicit_shape_lower_bound_refuted :
  exists ps k p sh news args f d fr s,
    find_rproc ps k = Some p /\ es_static sh news p = true /\
    rexec1 (rexec ps f) ps d fr (SCall k args) s <>
    rexec1 (rexec (set_rproc ps k (es_proc sh news p)) f) (set_rproc ps k (es_proc sh news p)) d fr (SCall k (args ++ map EVar news)) s.
Proof. exact explicit_shape_lower_bound_refuted. Qed.
Print Assumptions C34_explicit_shape_lower_bound_refuted.

(** (e) type-bound calls: the code's rewrite is the meaning of the call when every binding passes the object first *)
Theorem C34_typebound_resolution_preserves : forall vt bs ss,
  all_pass_first bs = true -> tb_unit vt bs ss = tb_resolved vt bs ss.
Proof. exact typebound_resolution_preserves. Qed.
Print Assumptions C34_typebound_resolution_preserves.

Theorem C34_typebound_resolution_refuted : exists vt bs ss, tb_unit vt bs ss <> tb_resolved vt bs ss.
Proof. exact typebound_resolution_refuted. Qed.
Print Assumptions C34_typebound_resolution_refuted.

(** (d) DerivedTypeArgumentsTransformation.  A plan gives, per kernel, the member paths of its derived-type dummies
    that become separate dummies; caller and callee are rewritten together (through every level of the call tree,
    nested components included).  On the class [dtplan_okb] (fresh new names, every member use of a dummy of a
    called routine expanded, component arrays with lower bound 1) and [dt_kinds_okb] (components used according to
    their kind) the expanded tree computes, by reference, exactly the store of the original tree. *)
Theorem C34_expand_dt_preserves : forall td pl t, dtplan_okb td pl t = true -> M_C34.dt_kinds_okb td pl t = true ->
  forall f d fr ss s, sitesb (dt_site_okb pl t) ss = true ->
  (forall z, has_pct z = true -> bnd_lb1 (ar_bnd (fa fr z)) = true) ->
  rexec (to_rprocs t) f d fr ss s = rexec (to_rprocs (apply_dtplan td pl t)) f d fr (tcalls (dt_tc pl t) ss) s.
Proof. intros td pl t H1 H2. exact (expand_dt_preserves td pl t H1 H2). Qed.
Print Assumptions C34_expand_dt_preserves.

(** without the kind condition the statement is false (a scalar component used as an array) *)
Theorem C34_expand_dt_unrestricted_refuted :
  ~ (forall td pl t, dtplan_okb td pl t = true ->
     forall f d fr ss s, sitesb (dt_site_okb pl t) ss = true ->
     (forall z, has_pct z = true -> bnd_lb1 (ar_bnd (fa fr z)) = true) ->
     rexec (to_rprocs t) f d fr ss s = rexec (to_rprocs (apply_dtplan td pl t)) f d fr (tcalls (dt_tc pl t) ss) s).
Proof. exact Refute.expand_dt_unrestricted_refuted. Qed.
Print Assumptions C34_expand_dt_unrestricted_refuted.
