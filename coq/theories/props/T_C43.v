(** C43 — Lint auto-fix changes only what the fixed rules target: property theorems about the model M_C43.v
    (Fixer + Transformer with source invalidation + conservative printer + the two fixable rules). *)
From Coq Require Import List String Ascii Bool Arith ZArith.
From LV Require Import Base.Strings Base.Expr Base.MiniF Base.MiniFFacts models.M_C43
                       proofs.P_C43 proofs.P_C43_main proofs.P_C43_file proofs.P_C43_wit proofs.P_C43_ubound.
Import ListNotations.
Open Scope string_scope.
Open Scope list_scope.

(** On the class, the file after the fix is exactly the specified text: every own-line group of an unreported
    statement as in the source, every group of a reported statement as the structural printer gives it
    (unbounded file length and nesting depth). *)
Theorem C43_fix_file_spec : forall rk f,
  file_in_class rk f = true ->
  fix_file rk f = Some (if file_act f then write_lines (List.concat (file_spec f)) else List.concat (file_spec f)).
Proof. exact fix_file_spec. Qed.
Print Assumptions C43_fix_file_spec.

(** The emitted text of every non-reported statement is byte-identical to its original text, and the order is
    preserved: the output is the sequence of the original own-line groups with only the reported ones replaced. *)
Theorem C43_fix_other_nodes_verbatim : forall rk f,
  file_in_class rk f = true ->
  exists outs,
    fix_file rk f = Some (if file_act f then write_lines (List.concat outs) else List.concat outs)
    /\ Forall2 (fun (g : bool * list line) (o : list line) => fst g = false -> o = snd g) (file_groups f) outs
    /\ List.concat (map snd (file_groups f)) = orig f.
Proof. exact fix_other_nodes_verbatim. Qed.
Print Assumptions C43_fix_other_nodes_verbatim.

(** Inside a fixed statement the tokens are the original tokens with the F77 operator spellings replaced by the F90
    ones, modulo blanks and letter case (string literals compared exactly). *)
Theorem C43_fixed_stmt_same_tokens_modulo_ops : forall rk f,
  file_in_class rk f = true -> file_forall only_self f = true -> file_forall (toks_ok false) f = true ->
  exists outs,
    fix_file rk f = Some (if file_act f then write_lines (List.concat outs) else List.concat outs)
    /\ Forall2 (fun (g : bool * list line) (o : list line) => fst g = true ->
                  map foldt (lex_lines o) = map foldt (map f90_spelling (lex_lines (snd g)))) (file_groups f) outs.
Proof. exact fixed_stmt_same_tokens_modulo_ops. Qed.
Print Assumptions C43_fixed_stmt_same_tokens_modulo_ops.

(** Re-running the rule's check on the fixed text reports nothing: no F77 spelling is left in a code token. *)
Theorem C43_fix_clears_rule : forall rk f,
  file_in_class rk f = true -> file_forall only_self f = true -> file_forall (toks_ok false) f = true ->
  file_forall (reports_complete false) f = true -> file_frame_clean f = true ->
  exists out, fix_file rk f = Some out /\ f77_free out = true.
Proof. exact fix_clears_rule. Qed.
Print Assumptions C43_fix_clears_rule.

(** Fixing twice = fixing once: the fixed text, read back, has no fixable report and is left alone. *)
Theorem C43_fix_idempotent : forall rk f,
  file_in_class rk f = true -> file_forall inline_ok f = true ->
  exists body,
    fix_file rk f = Some (if file_act f then write_lines body else body)
    /\ orig (reparse_file f) = body
    /\ fix_file rk (reparse_file f) = Some body.
Proof. exact fix_idempotent. Qed.
Print Assumptions C43_fix_idempotent.

Theorem C43_no_report_no_change : forall rk f, file_act f = false -> fix_file rk f = Some (orig f).
Proof. exact fix_no_reports. Qed.
Print Assumptions C43_no_report_no_change.

(** The operator denotes the same comparison in both spellings; an F90 spelling is never reported again. *)
Theorem C43_f90_spelling_semantics : forall t op a b,
  denote t = Some op ->
  exists op', denote (f90_spelling t) = Some op' /\ cmp_z op' a b = cmp_z op a b.
Proof. exact f90_spelling_semantics. Qed.
Print Assumptions C43_f90_spelling_semantics.

Theorem C43_f90_spelling_total : forall t,
  is_f77 t = true -> exists op, denote t = Some op /\ denote (f90_spelling t) = Some op.
Proof. exact f90_spelling_total. Qed.
Print Assumptions C43_f90_spelling_total.

Theorem C43_f90_spelling_not_f77 : forall t, is_f77 (f90_spelling t) = false.
Proof. exact f90_spelling_not_f77. Qed.
Print Assumptions C43_f90_spelling_not_f77.

(** The hypotheses are satisfiable by a non-trivial file (reported block IF with ELSE around a loop, reported
    assignment, comments and a string literal with F77 spellings). *)
Theorem C43_class_inhabited :
  file_in_class RF90 ex_ok = true /\ file_act ex_ok = true /\ file_forall only_self ex_ok = true
  /\ file_forall (toks_ok false) ex_ok = true /\ file_forall (reports_complete false) ex_ok = true
  /\ file_frame_clean ex_ok = true /\ file_forall inline_ok ex_ok = true
  /\ fix_file RF90 ex_ok = Some
       ["! old style .gt. here"; "SUBROUTINE foo (n, m, flag)"; "  IMPLICIT NONE"; "  msg = 'a .gt. b'   ! .lt.";
        "  IF (n > 3 .and. m <= 2) THEN"; "    do i = 1, n"; "      m = m   +  1"; "    enddo"; "  ELSE";
        "    flag = m == n"; "  END IF"; "  ! done"; "END SUBROUTINE foo"].
Proof. exact class_inhabited. Qed.
Print Assumptions C43_class_inhabited.

(** * The unconditional statements are false for the mechanism as it is (each witness is replayed on the real code) *)

(** an unreported statement (an in-line IF) next to a fixed one is rewritten (F-C43-4) *)
Theorem C43_fix_other_nodes_verbatim_refuted :
  exists f out l, fix_file RF90 f = Some out /\ In (false, [l]) (file_groups f) /\ In l (orig f) /\ ~ In l out.
Proof. exact fix_other_nodes_verbatim_refuted. Qed.
Print Assumptions C43_fix_other_nodes_verbatim_refuted.

(** a reported statement inside an unreported block inside a reported block that the look-up finds is not fixed (F-C43-9) *)
Theorem C43_fix_clears_rule_refuted :
  exists f out, file_forall only_self f = true /\ file_forall (toks_ok false) f = true
                /\ file_forall (reports_complete false) f = true /\ file_frame_clean f = true
                /\ fix_file RF90 f = Some out /\ f77_free out = false.
Proof. exact fix_clears_rule_refuted. Qed.
Print Assumptions C43_fix_clears_rule_refuted.

(** a reported block IF inside an unreported ELSE IF branch is printed as ELSE IF (F-C43-10) *)
Theorem C43_elseif_leak :
  exists f out, fix_file RF90 f = Some out /\ In "    ELSE IF (m > 2) THEN" out /\ ~ In "    IF (m > 2) THEN" out.
Proof. exact elseif_leak. Qed.
Print Assumptions C43_elseif_leak.

(** the conservative printer raises on an unreported IF / ELSE IF / ELSE IF chain: nothing is fixed (F-C43-11) *)
Theorem C43_writer_raises : exists f, file_act f = true /\ fix_file RF90 f = None.
Proof. exact writer_raises. Qed.
Print Assumptions C43_writer_raises.

(** the shipped Fortran90OperatorsRule.fix_subroutine raises for every file with a report (F-C43-1) *)
Theorem C43_shipped_f90_fix_never_fixes : forall f, file_act f = true -> fix_file_shipped_f90 f = None.
Proof. exact shipped_f90_fix_never_fixes. Qed.
Print Assumptions C43_shipped_f90_fix_never_fixes.

(** * DynamicUboundCheckRule: removing the run-time checks preserves every run in which they do not fire *)
Theorem C43_uboundfix_preserves : forall ps p s s',
  quiet (runs1 ps) p s ->
  (runs ps (ub_prog p) s s' <-> runs ps (ub_prog (ub_fix p)) s s').
Proof. exact uboundfix_preserves. Qed.
Print Assumptions C43_uboundfix_preserves.

(** the extent written into the declaration of dummy [a], dimension [d], is the bound of a comparison that
    tests [ubound(a, d)] - whatever else is combined in the same conditional, in whatever order *)
Theorem C43_ubound_extent_of_own_check : forall conds a d b,
  ub_pick conds a d = Some b ->
  exists cs c, In cs conds /\ In c cs /\ lower (uc_arr c) = lower a /\ uc_dim c = d /\ uc_bound c = b.
Proof. exact ub_pick_sound. Qed.
Print Assumptions C43_ubound_extent_of_own_check.

Theorem C43_uboundfix_needs_quiet :
  run_k ub_ex (st_of 2 3) = Some 100%Z /\ run_k (ub_fix ub_ex) (st_of 2 3) = Some 2%Z.
Proof. exact ub_firing_check_changes_result. Qed.
Print Assumptions C43_uboundfix_needs_quiet.
