(** C06 — property theorems only. *)
From Coq Require Import ZArith List Bool String.
From LV Require Import Base.Expr models.M_C06 proofs.P_C06_base proofs.P_C06.
Import ListNotations.
Open Scope Z_scope.
Open Scope string_scope.
Open Scope list_scope.

(** On the class: the token list FCodeMapper prints for [e] at top level is a phrase of the Fortran expression
    grammar whose parse tree [t] has, under every environment, the integer (resp. logical) value of [e]. *)
Theorem C06_print_denotes_on_class : forall e, fortran_safe e = true ->
  exists t, G LExpr (print_f e PREC_NONE) t /\
    ((arith_safe e = true /\ forall rho, evalF rho t = evalZ rho e) \/
     (logic_safe e = true /\ forall rho, evalFB rho t = evalB rho e)).
Proof. exact print_denotes_on_class. Qed.
Print Assumptions C06_print_denotes_on_class.

Theorem C06_print_denotes_arith : forall e, arith_safe e = true ->
  exists t, G LExpr (print_f e PREC_NONE) t /\ forall rho, evalF rho t = evalZ rho e.
Proof. exact print_denotes_arith. Qed.
Print Assumptions C06_print_denotes_arith.

Theorem C06_print_denotes_logic : forall e, logic_safe e = true ->
  exists t, G LExpr (print_f e PREC_NONE) t /\ forall rho, evalFB rho t = evalB rho e.
Proof. exact print_denotes_logic. Qed.
Print Assumptions C06_print_denotes_logic.

(** The same with the enclosing precedence generalised: whenever the class predicate accepts [e] at precedence [p]
    with grammar class [k], the text printed at [p] is a phrase of class [k] (primary, mult-operand, product chain,
    add-operand, signed add-operand, level-2 chain, signed level-2 chain) with the value of [e]. *)
Theorem C06_print_denotes_at_prec : forall e p k, classify e (MP p) = Some k ->
  exists t, RA k (print_f e p) t /\ G LExpr (print_f e p) t /\ forall rho, evalF rho t = evalZ rho e.
Proof. exact print_denotes_at_prec. Qed.
Print Assumptions C06_print_denotes_at_prec.

(** the class is inhabited by non-trivial trees *)
Theorem C06_class_inhabited : arith_safe ex_arith = true /\ logic_safe ex_logic = true.
Proof. exact (conj ex_arith_safe ex_logic_safe). Qed.
Print Assumptions C06_class_inhabited.

(** Every phrase of the grammar passes the local token check [wf_toks]; texts that fail it are not Fortran expressions. *)
Theorem C06_not_fortran : forall ts, wf_toks LExpr ts = false -> forall t, ~ G LExpr ts t.
Proof. exact not_fortran. Qed.
Print Assumptions C06_not_fortran.

(** Outside the class (finding F1): the unconditional statement is refuted by concrete trees.
    Value changes: the printed text is a Fortran expression, but of a different value. *)
Theorem C06_print_refuted_quot_prod :
  print_f w_quot_prod 0 = [TVar "a"; TSlash; TVar "b"; TStar; TVar "c"] /\
  (exists t, G LExpr (print_f w_quot_prod 0) t /\ ref_parse (print_f w_quot_prod 0) = Some t /\
             evalF (rho_w 8 2 2) t = Some 8 /\ evalZ (rho_w 8 2 2) w_quot_prod = Some 2).
Proof. exact print_refuted_quot_prod. Qed.
Print Assumptions C06_print_refuted_quot_prod.

Theorem C06_print_refuted_quot_quot :
  print_f w_quot_quot 0 = [TVar "a"; TSlash; TVar "b"; TSlash; TVar "c"] /\
  (exists t, G LExpr (print_f w_quot_quot 0) t /\ ref_parse (print_f w_quot_quot 0) = Some t /\
             evalF (rho_w 8 4 2) t = Some 1 /\ evalZ (rho_w 8 4 2) w_quot_quot = Some 4).
Proof. exact print_refuted_quot_quot. Qed.
Print Assumptions C06_print_refuted_quot_quot.

Theorem C06_print_refuted_prod_quot :
  print_f w_prod_quot 0 = [TVar "a"; TStar; TVar "b"; TSlash; TVar "c"] /\
  (exists t, G LExpr (print_f w_prod_quot 0) t /\ ref_parse (print_f w_prod_quot 0) = Some t /\
             evalF (rho_w 2 1 2) t = Some 1 /\ evalZ (rho_w 2 1 2) w_prod_quot = Some 0).
Proof. exact print_refuted_prod_quot. Qed.
Print Assumptions C06_print_refuted_prod_quot.

Theorem C06_print_refuted_pow_pow :
  print_f w_pow_pow 0 = [TVar "a"; TPow; TVar "b"; TPow; TVar "c"] /\
  (exists t, G LExpr (print_f w_pow_pow 0) t /\ ref_parse (print_f w_pow_pow 0) = Some t /\
             evalF (rho_w 2 3 2) t = Some 512 /\ evalZ (rho_w 2 3 2) w_pow_pow = Some 64).
Proof. exact print_refuted_pow_pow. Qed.
Print Assumptions C06_print_refuted_pow_pow.

Theorem C06_print_refuted_neg_base :
  print_f w_neg_base 0 = [TMinus; TInt 3; TPow; TInt 2] /\
  (exists t, G LExpr (print_f w_neg_base 0) t /\ ref_parse (print_f w_neg_base 0) = Some t /\
             evalF (rho_w 0 0 0) t = Some (-9) /\ evalZ (rho_w 0 0 0) w_neg_base = Some 9).
Proof. exact print_refuted_neg_base. Qed.
Print Assumptions C06_print_refuted_neg_base.

(** Not Fortran at all: no derivation exists for the printed text. *)
Theorem C06_print_refuted_mul_neg :
  print_f w_mul_neg 0 = [TVar "a"; TStar; TMinus; TVar "b"] /\
  (forall t, ~ G LExpr (print_f w_mul_neg 0) t) /\ ref_parse (print_f w_mul_neg 0) = None /\
  evalZ (rho_w 2 3 0) w_mul_neg = Some (-6).
Proof. exact print_refuted_mul_neg. Qed.
Print Assumptions C06_print_refuted_mul_neg.

Theorem C06_print_refuted_add_neg :
  print_f w_add_neg 0 = [TVar "a"; TPlus; TMinus; TInt 1] /\
  (forall t, ~ G LExpr (print_f w_add_neg 0) t) /\ ref_parse (print_f w_add_neg 0) = None /\
  evalZ (rho_w 2 0 0) w_add_neg = Some 1.
Proof. exact print_refuted_add_neg. Qed.
Print Assumptions C06_print_refuted_add_neg.

Theorem C06_print_refuted_not_not :
  print_f w_not_not 0 = [TNot; TNot; TLP; TVar "a"; TRel Clt; TVar "b"; TRP] /\
  (forall t, ~ G LExpr (print_f w_not_not 0) t) /\ ref_parse (print_f w_not_not 0) = None /\
  evalB (rho_w 1 2 0) w_not_not = Some true.
Proof. exact print_refuted_not_not. Qed.
Print Assumptions C06_print_refuted_not_not.

Theorem C06_witnesses_outside_class :
  forallb (fun e => negb (fortran_safe e))
    [w_quot_prod; w_quot_quot; w_prod_quot; w_pow_pow; w_neg_base; w_mul_neg; w_add_neg; w_not_not] = true.
Proof. exact witnesses_outside_class. Qed.
Print Assumptions C06_witnesses_outside_class.
