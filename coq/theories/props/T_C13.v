(** C13 — property theorems only. *)
From Coq Require Import ZArith List Bool String.
From LV Require Import Base.Strings models.M_C13 proofs.P_C13.
Import ListNotations.

(** classification follows the documented tiers (plus the derived-type-name tier), for every name, type and subscript flag *)
Theorem C13_tier_spec : forall n t d, classify n t d = tier_doc n t d.
Proof. exact tier_spec. Qed.
Print Assumptions C13_tier_spec.

Theorem C13_classify_case_insensitive : forall n n' t d, lower n = lower n' -> classify n t d = classify n' t d.
Proof. exact classify_case_insensitive. Qed.
Print Assumptions C13_classify_case_insensitive.

(** symbols of one folded name attached to one scope always report the same type, in every state *)
Theorem C13_attached_share : forall ss y1 y2 i,
  s_scope y1 = Some i -> s_scope y2 = Some i -> key (s_name y1) = key (s_name y2) ->
  read_type ss y1 = read_type ss y2.
Proof. exact attached_share. Qed.
Print Assumptions C13_attached_share.

(** changing the type recorded in a scope (directly in the table, under any spelling) is seen by every attached symbol of that name *)
Theorem C13_attached_sees_table_update : forall st i n t y,
  (i < List.length (st_scopes st))%nat -> In y (st_syms st) -> s_scope y = Some i -> key (s_name y) = key n ->
  read_type (st_scopes (step st (OSetTable i n t))) y = Some t /\ In y (st_syms (step st (OSetTable i n t))).
Proof. exact attached_sees_table_update. Qed.
Print Assumptions C13_attached_sees_table_update.

(** ... and so is a change made through the type setter of any one of them *)
Theorem C13_attached_sees_setter : forall st j t yj y i,
  (i < List.length (st_scopes st))%nat -> nth_error (st_syms st) j = Some yj -> s_scope yj = Some i ->
  In y (st_syms st) -> s_scope y = Some i -> key (s_name y) = key (s_name yj) ->
  read_type (st_scopes (step st (OSetType j (Some t)))) y = Some t.
Proof. exact attached_sees_setter. Qed.
Print Assumptions C13_attached_sees_setter.

(** an update of another name, or in a scope that does not enclose the symbol's scope, is not seen *)
Theorem C13_update_other_name_invisible : forall ss i j n n' v,
  key n' <> key n -> resolve (set_entry ss i n v) j n' = resolve ss j n'.
Proof. exact resolve_set_entry_other. Qed.
Print Assumptions C13_update_other_name_invisible.

(** unattached symbols keep their own type under every history of operations that does not use their own setter *)
Theorem C13_detached_keeps_type : forall ops st j y,
  nth_error (st_syms st) j = Some y -> s_scope y = None -> Forall (not_setter_of j) ops ->
  let st' := fold_left step ops st in
  nth_error (st_syms st') j = Some y /\ read_type (st_scopes st') y = s_local y.
Proof. exact detached_keeps_type. Qed.
Print Assumptions C13_detached_keeps_type.

(** rescoping keeps the entry the target scope already resolves, and otherwise brings the symbol's own type *)
Theorem C13_rescope_keeps_existing_entry : forall ss y i e d,
  (i < List.length ss)%nat -> read_type ss y <> None -> resolve ss i (s_name y) = Some e ->
  resolve (fst (rescope ss y i d)) i (s_name y) = Some e /\
  read_type (fst (rescope ss y i d)) (snd (rescope ss y i d)) = Some e.
Proof. exact rescope_keeps_existing_entry. Qed.
Print Assumptions C13_rescope_keeps_existing_entry.

Theorem C13_rescope_inserts_when_absent : forall ss y i t d,
  (i < List.length ss)%nat -> read_type ss y = Some t -> resolve ss i (s_name y) = None ->
  read_type (fst (rescope ss y i d)) (snd (rescope ss y i d)) = Some t.
Proof. exact rescope_inserts_when_absent. Qed.
Print Assumptions C13_rescope_inserts_when_absent.
