(** C42 — property theorems only.
    H handlers, cont h f = picklable report of file f for handler h (pure), okf f = task result; N workers.
    All statements quantify over arbitrary executions of the transition system (any interleaving of the
    per-handler appends of up to N concurrently running tasks), any N, any number of files. *)
From Coq Require Import ZArith List Bool Arith Permutation.
From LV Require Import models.M_C42 proofs.P_C42.
Import ListNotations.

(** the final shared list of every handler is a permutation of the serial per-file reports *)
Theorem C42_reachable_final_is_perm : forall H cont okf N fs s h,
  reachable H cont okf N fs s -> final s -> h < H -> Permutation (lists s h) (map (rep cont h) fs).
Proof. exact reachable_final_is_perm. Qed.
Print Assumptions C42_reachable_final_is_perm.

(** exactly one report per selected file in every handler's list, none for other files *)
Theorem C42_each_file_once : forall H cont okf N fs s h f,
  NoDup fs -> reachable H cont okf N fs s -> final s -> h < H ->
  (In f fs -> per_file (lists s h) f = [rep cont h f]) /\ (~ In f fs -> per_file (lists s h) f = []).
Proof. exact each_file_once. Qed.
Print Assumptions C42_each_file_once.

(** grouping by file gives the same result for any two schedules / worker counts, and equals the serial run's *)
Theorem C42_per_file_view_schedule_independent : forall H cont okf N1 N2 fs s1 s2 h,
  reachable H cont okf N1 fs s1 -> final s1 -> reachable H cont okf N2 fs s2 -> final s2 -> h < H ->
  (forall f, per_file (lists s1 h) f = per_file (lists s2 h) f) /\
  view fs (lists s1 h) = view fs (lists s2 h) /\
  view fs (lists s1 h) = view fs (serial_list cont h fs).
Proof. exact per_file_view_schedule_independent. Qed.
Print Assumptions C42_per_file_view_schedule_independent.

(** same number of reports as files, every file's result collected once, checked_count = number of files without error *)
Theorem C42_count_eq_files : forall H cont okf N fs s,
  reachable H cont okf N fs s -> final s ->
  (forall h, h < H -> length (lists s h) = length fs) /\
  length (done s) = length fs /\ Permutation (done s) fs /\ count s = count_ok okf fs.
Proof. exact count_eq_files. Qed.
Print Assumptions C42_count_eq_files.

(** what is printed (non-empty entries only, e.g. the violations file) is the same multiset too *)
Theorem C42_visible_schedule_independent : forall H cont okf N fs s h,
  reachable H cont okf N fs s -> final s -> h < H ->
  Permutation (visible (lists s h)) (visible (serial_list cont h fs)).
Proof. exact visible_schedule_independent. Qed.
Print Assumptions C42_visible_schedule_independent.

(** the serial loop (max_workers = 1) is an execution of the model, so final states exist for every file list *)
Theorem C42_serial_is_execution : forall H cont okf fs,
  exists s, reachable H cont okf 1 fs s /\ final s /\
            (forall h, h < H -> lists s h = serial_list cont h fs) /\ done s = fs /\ count s = count_ok okf fs.
Proof. exact serial_is_execution. Qed.
Print Assumptions C42_serial_is_execution.

(** with one worker the order is fixed: every execution ends with exactly the serial lists *)
Theorem C42_one_worker_is_serial : forall H cont okf fs s h,
  reachable H cont okf 1 fs s -> final s -> h < H -> lists s h = serial_list cont h fs /\ done s = fs.
Proof. exact one_worker_is_serial. Qed.
Print Assumptions C42_one_worker_is_serial.

(** the boolean used by the correspondence accepts only observations produced by an execution of the model *)
Theorem C42_chk_trace_sound : forall H cont okf N fs sched obs cnt,
  chk_trace H cont okf N fs sched obs cnt = true ->
  exists s, reachable H cont okf N fs s /\ final s /\ (forall h l, In (h, l) obs -> lists s h = l) /\ count s = cnt.
Proof. exact chk_trace_sound. Qed.
Print Assumptions C42_chk_trace_sound.

Theorem C42_is_perm_sound : forall a b, is_perm a b = true -> Permutation a b.
Proof. exact is_perm_sound. Qed.
Print Assumptions C42_is_perm_sound.

(** NOT schedule independent (and not required by the property): the order of the lists, hence of the blocks in the
    violations file / test suites in the junit file; different handlers may even disagree on the order *)
Theorem C42_order_is_schedule_dependent :
  exists fs s1 s2, reachable 2 ex_cont ex_ok 2 fs s1 /\ final s1 /\ reachable 2 ex_cont ex_ok 1 fs s2 /\ final s2 /\
                   lists s1 0 <> lists s2 0 /\ view fs (lists s1 0) = view fs (lists s2 0).
Proof. exact order_is_schedule_dependent. Qed.
Print Assumptions C42_order_is_schedule_dependent.

Theorem C42_handlers_may_disagree_on_order :
  exists fs s, reachable 2 ex_cont ex_ok 2 fs s /\ final s /\ map fst (lists s 0) <> map fst (lists s 1).
Proof. exact handlers_may_disagree_on_order. Qed.
Print Assumptions C42_handlers_may_disagree_on_order.

(** output files (LazyTextfile sink, flushing since 89a45c7): the per-file view of what is on disk equals the serial run's,
    in either path and whatever the garbage collector does — unconditional *)
Theorem C42_file_output_complete : forall H cont okf N fs s h par g,
  reachable H cont okf N fs s -> final s -> h < H ->
  view fs (sink par g (lists s h)) = view fs (serial_list cont h fs).
Proof. exact sink_complete. Qed.
Print Assumptions C42_file_output_complete.

(** logger handlers: every handler receives each immediate violation message exactly once, for any number of handlers/workers *)
Theorem C42_log_copies_independent : forall j, log_copies true j = log_copies false j /\ log_copies true j = 1.
Proof. exact log_copies_independent. Qed.
Print Assumptions C42_log_copies_independent.

(** for the record: the behaviour BEFORE the two fixes (F-C42-1 / F-C42-2) violated the property *)
Theorem C42_file_output_old_refuted :
  exists fs s h, reachable 2 ex_cont ex_ok 2 fs s /\ final s /\ h < 2 /\
    view fs (sink_old true false (lists s h)) <> view fs (sink_old false false (serial_list ex_cont h fs)).
Proof. exact file_output_old_refuted. Qed.
Print Assumptions C42_file_output_old_refuted.

Theorem C42_log_copies_old_refuted : log_copies_old true 1 = 2 /\ log_copies_old false 1 = 1.
Proof. exact log_copies_old_refuted. Qed.
Print Assumptions C42_log_copies_old_refuted.
