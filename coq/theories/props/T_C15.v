(** C15 — node and expression finders return exactly the matching nodes: property theorems only.
    Model: models/M_C15.v ([fn_visit]/[find_nodes], [fs_visit], [retrieve], [ef] are transliterations of
    loki/ir/find.py, loki/expression/mappers.py, loki/ir/expr_visitors.py; [preorder], [preorder_anc],
    [postorder], [slots]/[all_matches], [groups] are the declarative references). *)
From Coq Require Import ZArith List Bool String Permutation.
From LV Require Import models.M_C15 proofs.P_C15 proofs.P_C15_uniq proofs.P_C15_ir proofs.P_C15_wit.
Import ListNotations.
Open Scope Z_scope.
Open Scope list_scope.

(** FindNodes (any rule: type sets or scope rule), greedy=False: exactly the matching nodes of the
    pre-order traversal that does not enter TypeDef bodies, in that order. *)
Theorem C15_findnodes_is_filter_preorder : forall rule it,
  find_nodes rule false it = filter rule (preorder it).
Proof. exact findnodes_is_filter_preorder. Qed.
Print Assumptions C15_findnodes_is_filter_preorder.

(** no node is reported twice unless the same object occurs twice in the tree *)
Theorem C15_findnodes_no_duplicates : forall rule it,
  NoDup (map ilbl (preorder it)) -> NoDup (map ilbl (find_nodes rule false it)).
Proof. exact findnodes_nodup. Qed.
Print Assumptions C15_findnodes_no_duplicates.

(** greedy=True: the matching nodes none of whose proper ancestors match *)
Theorem C15_greedy_is_outermost : forall rule it,
  find_nodes rule true it =
  map snd (filter (fun p => rule (snd p) && forallb (fun a => negb (rule a)) (fst p)) (preorder_anc [] it)).
Proof. exact greedy_is_outermost. Qed.
Print Assumptions C15_greedy_is_outermost.

(** [preorder_anc] enumerates the same nodes as [preorder] *)
Theorem C15_preorder_anc_is_preorder : forall anc it, map snd (preorder_anc anc it) = preorder it.
Proof. exact preorder_anc_snd. Qed.
Print Assumptions C15_preorder_anc_is_preorder.

(** mode='scope' on the class where == between nodes is object identity: the nodes that hold the
    object among their (flattened) children *)
Theorem C15_scope_mode_on_class : forall it m g,
  eq_is_identity it -> In m (all_nodes it) ->
  find_nodes (scope_rule (ieqk m)) g it = find_nodes (holds (ilbl m)) g it.
Proof. exact scope_mode_on_class. Qed.
Print Assumptions C15_scope_mode_on_class.

(** ... and the witness that it fails outside (known finding F3) *)
Theorem C15_scope_mode_refuted :
  exists it m, In m (all_nodes it) /\
    map ilbl (find_nodes (scope_rule (ieqk m)) false it) <> map ilbl (find_nodes (holds (ilbl m)) false it).
Proof.
  exists two_equal_comments, (cmt 3 9). destruct scope_mode_refuted as (H & E1 & E2).
  split; [exact H|]. rewrite E1, E2. discriminate.
Qed.
Print Assumptions C15_scope_mode_refuted.

(** FindScopes (greedy=False): one ancestor chain per occurrence of the object, except that a TypeDef
    match is returned as the bare node (known finding F4, see the witness) *)
Theorem C15_findscopes_spec : forall m it,
  find_scopes m false it = map sres_of (filter (fun p => ilbl (snd p) =? m) (preorder_anc [] it)).
Proof. exact findscopes_spec. Qed.
Print Assumptions C15_findscopes_spec.

Theorem C15_findscopes_typedef_refuted :
  exists it m n, find_scopes m true it = [SNode n].
Proof. eexists _, _, _. exact (proj1 findscopes_typedef_refuted). Qed.
Print Assumptions C15_findscopes_typedef_refuted.

(** the expression walk: post-order, every node of the expression tree is offered to the query *)
Theorem C15_retrieve_is_filter_postorder : forall q e, retrieve q rtrue e = filter q (postorder e).
Proof. exact retrieve_is_filter_postorder. Qed.
Print Assumptions C15_retrieve_is_filter_postorder.

(** with a recurse_query nothing else is found, and a node that is not to be recursed into hides its
    whole subtree -- on the class of nodes whose handler honours visit's result *)
Theorem C15_retrieve_recurse_query : forall q rq e,
  incl (retrieve q rq e) (filter q (postorder e)) /\
  (rq e = false -> const_like (ecl e) = false -> retrieve q rq e = []).
Proof. intros q rq e. split; [apply retrieve_rq_sound|apply retrieve_pruned]. Qed.
Print Assumptions C15_retrieve_recurse_query.

Theorem C15_retrieve_prune_refuted :
  exists q rq e, rq e = false /\ retrieve q rq e = [e].
Proof. eexists _, _, _. destruct retrieve_prune_refuted as (H1 & H2 & _). split; [exact H1|exact H2]. Qed.
Print Assumptions C15_retrieve_prune_refuted.

(** flat mode of every ExpressionFinder: the code (transliteration [ef]) never raises and computes
    [ef_flat] *)
Theorem C15_flat_mode : forall u q it, ef u false q it = Some (map PE (ef_flat u q it)).
Proof. exact ef_flat_correct. Qed.
Print Assumptions C15_flat_mode.

(** unique=False: the result is the list of all matching occurrences in all traversed expression
    slots, in traversal order: complete, sound, nothing counted twice *)
Theorem C15_nonunique_is_all_matches : forall q it,
  ef false false q it = Some (map PE (filter q (flat_map postorder (slots it)))).
Proof. intros q it. rewrite ef_flat_correct, ef_flat_nonunique. reflexivity. Qed.
Print Assumptions C15_nonunique_is_all_matches.

Theorem C15_findvars_complete : forall q it v,
  In v (ef_flat false q it) <-> q v = true /\ exists r, in_slot r it /\ subexpr v r.
Proof. exact findvars_complete. Qed.
Print Assumptions C15_findvars_complete.

(** unique=True: a subset of the occurrences in which every occurrence is represented up to the
    identification "same documented key or Python-equal" (closed under symmetry/transitivity inside
    the set of occurrences) *)
Theorem C15_unique_is_dedup : forall q it,
  incl (ef_flat true q it) (ef_flat false q it) /\
  forall v, In v (ef_flat false q it) -> exists u, In u (ef_flat true q it) /\ sim (ef_flat false q it) u v.
Proof. exact unique_is_dedup. Qed.
Print Assumptions C15_unique_is_dedup.

(** no two elements of the unique result are equal (result of a visit of a node or a tuple) *)
Theorem C15_unique_pairwise_distinct : forall q it,
  (exists l k qq ch ex, it = INode l k qq ch ex) \/ (exists els, it = ITuple els) ->
  ForallOrdPairs (fun a b => expr_eqb a b = false) (ef_flat true q it).
Proof. exact unique_pairwise_ne. Qed.
Print Assumptions C15_unique_pairwise_distinct.

(** ... but not for a bare expression root (known finding F6) *)
Theorem C15_unique_exprroot_refuted :
  exists q e a b, ef true false q (IExpr e) = Some [PE a; PE b] /\ expr_eqb a b = true.
Proof. eexists _, _, _, _. destruct unique_exprroot_refuted as (H1 & H2 & _). split; [exact H1|exact H2]. Qed.
Print Assumptions C15_unique_exprroot_refuted.

(** on the class where equal keys imply == and == is an equivalence on the occurrences, the unique
    result is a set of ==-representatives *)
Theorem C15_unique_is_dedup_on_class : forall q it,
  eq_class (ef_flat false q it) ->
  forall v, In v (ef_flat false q it) -> exists u, In u (ef_flat true q it) /\ (u = v \/ expr_eqb u v = true).
Proof. exact unique_is_dedup_on_class. Qed.
Print Assumptions C15_unique_is_dedup_on_class.

Theorem C15_unique_eq_refuted :
  exists l v, In v l /\ forall u, In u (uniq l) -> u <> v /\ expr_eqb u v = false /\ expr_eqb v u = false.
Proof.
  exists [lr; ri], lr. split; [now left|]. destruct unique_eq_refuted as (E & E1 & E2 & _).
  rewrite E. intros u [<-|[]]. split; [discriminate|]. split; assumption.
Qed.
Print Assumptions C15_unique_eq_refuted.

(** with_ir_node=True on the class [wi_ok] (no VariableDeclaration is reached): one pair per node
    that directly holds matching expressions, nested nodes first *)
Theorem C15_with_ir_node_correct : forall u q it,
  wi_ok true it = true -> ef u true q it = Some (map mkpair (groups u q it)).
Proof. exact with_ir_node_correct. Qed.
Print Assumptions C15_with_ir_node_correct.

(** ... and the groups are a partition of the flat result: concatenated they are a permutation of
    it, and no group is empty *)
Theorem C15_with_ir_node_partition : forall q it,
  wi_ok true it = true ->
  Permutation (flat_map snd (groups false q it)) (ef_flat false q it) /\
  forall g, In g (groups false q it) -> snd g <> [].
Proof. intros q it H. split; [now apply with_ir_node_partition|apply groups_nonempty]. Qed.
Print Assumptions C15_with_ir_node_partition.

(** known finding F1: with a VariableDeclaration the pairing breaks *)
Theorem C15_with_ir_node_refuted :
  exists q it, ef true true q it = None /\
    exists r, ef false true q it = Some r /\ r <> map mkpair (groups false q it).
Proof.
  exists (qof FVars), decl_n. destruct with_ir_node_refuted as (H1 & H2 & _).
  split; [exact H1|]. eexists. split; [exact H2|]. vm_compute. discriminate.
Qed.
Print Assumptions C15_with_ir_node_refuted.
