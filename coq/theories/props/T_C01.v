(** C01 — property theorems only (statement-level core; the expression level is C06's theorem). *)
From Coq Require Import ZArith List Bool String.
From LV Require Import Base.Expr Base.MiniF Base.MiniFFacts models.M_C06 models.M_C01 proofs.P_C01 proofs.P_C01_sem.
Import ListNotations.
Open Scope Z_scope.

(** Reading back the lines the backend model prints returns the program, up to the unit loop steps the backend does not
    print (unbounded nesting, ELSE IF chains, inline IF, comments). *)
Theorem C01_roundtrip_stmts_norm : forall p, wf_list p = true ->
  read_lines (fuel_for p) (print_stmts p) = Some (norm_list p).
Proof. exact roundtrip_stmts_norm. Qed.
Print Assumptions C01_roundtrip_stmts_norm.

(** ... and exactly the program when no loop step prints as "1". *)
Theorem C01_roundtrip_stmts : forall p, wf_list p = true -> nf_list p = true ->
  read_lines (fuel_for p) (print_stmts p) = Some p.
Proof. exact roundtrip_stmts. Qed.
Print Assumptions C01_roundtrip_stmts.

(** Different programs print differently. *)
Theorem C01_print_injective : forall p q, wf_list p = true -> wf_list q = true -> nf_list p = true -> nf_list q = true ->
  print_stmts p = print_stmts q -> p = q.
Proof. exact print_injective. Qed.
Print Assumptions C01_print_injective.

Theorem C01_print_injective_norm : forall p q, wf_list p = true -> wf_list q = true ->
  print_stmts p = print_stmts q -> norm_list p = norm_list q.
Proof. exact print_injective_norm. Qed.
Print Assumptions C01_print_injective_norm.

(** Statements whose expression slots are pointwise value-equal (and agree on which call arguments are variables) run
    identically, for every fuel and store. *)
Theorem C01_exec_expr_ext : forall ps fuel p q s, Forall2 srel p q -> exec ps fuel p s = exec ps fuel q s.
Proof. exact exec_expr_ext. Qed.
Print Assumptions C01_exec_expr_ext.

(** The tree the frontend builds for a Fortran parse tree has the parse tree's value. *)
Theorem C01_frontend_tree_value : forall rho t,
  evalZ rho (fx_to_expr t) = evalF rho t /\ evalB rho (fx_to_expr t) = evalFB rho t.
Proof. intros rho t. split; [apply evalZ_fx|apply evalB_fx]. Qed.
Print Assumptions C01_frontend_tree_value.

(** The normalisations of the round trip preserve the behaviour: Parenthesised* classes ... *)
Theorem C01_norm_sem_parens : forall ps p, equiv ps (erase_list p) (erase_list (map (map_exprs strip_parens) p)).
Proof. exact paren_sem. Qed.
Print Assumptions C01_norm_sem_parens.

(** ... and the unit loop step that is not printed. *)
Theorem C01_norm_sem : forall ps p, safe_list p = true -> equiv ps (erase_list p) (erase_list (norm_list p)).
Proof. exact norm_sem. Qed.
Print Assumptions C01_norm_sem.

(** Composition (partial: existential in the derivation, see notes): for a well-formed program whose expression slots
    are in C06's class, the printed lines - with EVERY expression slot replaced by the tree of some derivation of its
    printed tokens in the Fortran grammar - are read back to a program with the same behaviour on every store. *)
Theorem C01_regen_preserves_partial : forall ps p, wf_list p = true -> safe_list p = true ->
  exists ls' q,
    Forall2 line_rr (print_stmts p) ls' /\
    (forall fuel, (lsize q < fuel)%nat -> read_lines fuel ls' = Some q) /\
    forall s s', runs ps (erase_list p) s s' <-> runs ps (erase_list q) s s'.
Proof. exact regen_preserves. Qed.
Print Assumptions C01_regen_preserves_partial.

(** the hypotheses are satisfiable by a non-trivial program (DO with unit step, ELSE IF chain, array store, call with
    an expression argument, comment, DO WHILE with inline IF) *)
Theorem C01_class_inhabited : wf_list ex_prog = true /\ safe_list ex_prog = true /\ nf_list ex_prog = false.
Proof. exact ex_prog_in_class. Qed.
Print Assumptions C01_class_inhabited.

(** outside the class (finding F2): the actual argument [(x)] is re-read as the variable [x] *)
Theorem C01_paren_arg_outside_class :
  arg_ok (ESum true [EVar "x"]) = false /\ reread_expr (ESum true [EVar "x"]) = Some (EVar "x").
Proof. exact paren_arg_outside. Qed.
Print Assumptions C01_paren_arg_outside_class.
