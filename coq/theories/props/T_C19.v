(** C19 — property theorems only. *)
From Coq Require Import NArith List Bool String Arith Permutation.
From LV Require Import models.M_C19 proofs.P_C19 proofs.P_C19_blocks.
Import ListNotations.

(* ---------------------------------------------------------------------------------------------- *)
(** (i) incremental re-parses.  Class: the initial parse contains ProgramUnitClass and every request is
    addressed to the file or to the top-level unit ([top_level]).  [parse] is an arbitrary function of the
    class set and the unit's text. *)

(** after ANY sequence of requests, every unit on the chain is exactly what ONE parse with the union of all
    requested classes gives *)
Theorem C19_incremental_order_irrelevant :
  forall (text ir : Type) (parse : flags -> text -> ir) (texts : list text) p0 rs,
    has_pu p0 = true -> forallb top_level rs = true ->
    final_ir parse texts (run (List.length texts) p0 rs) =
    Some (map (parse (f_union p0 (req_classes rs))) texts).
Proof. exact incremental_order_irrelevant. Qed.
Print Assumptions C19_incremental_order_irrelevant.

(** ... which is also what a single request with that union produces *)
Theorem C19_incremental_single_request :
  forall (text ir : Type) (parse : flags -> text -> ir) (texts : list text) p0 rs,
    has_pu p0 = true -> forallb top_level rs = true ->
    final_ir parse texts (run (List.length texts) p0 rs) =
    final_ir parse texts (run (List.length texts) p0 [(TFile, req_classes rs)]).
Proof. exact incremental_single_request. Qed.
Print Assumptions C19_incremental_single_request.

(** ... hence any two orders of the same requests give the same result *)
Theorem C19_incremental_permutation :
  forall (text ir : Type) (parse : flags -> text -> ir) (texts : list text) p0 rs rs',
    has_pu p0 = true -> forallb top_level rs = true -> Permutation rs rs' ->
    final_ir parse texts (run (List.length texts) p0 rs) = final_ir parse texts (run (List.length texts) p0 rs').
Proof. exact incremental_permutation. Qed.
Print Assumptions C19_incremental_permutation.

(** the same on the level of the recorded class sets *)
Theorem C19_order_irrelevant_records : forall n p0 rs rs',
  has_pu p0 = true -> forallb top_level rs = true -> Permutation rs rs' ->
  h_units (run n p0 rs) = h_units (run n p0 rs') /\ h_disc (run n p0 rs) = h_disc (run n p0 rs').
Proof. exact order_irrelevant_records. Qed.
Print Assumptions C19_order_irrelevant_records.

(** if the frontend finds more when asked for more, nothing any single request would have found is missing at the end *)
Theorem C19_incremental_never_loses :
  forall (text ir : Type) (parse : flags -> text -> ir) (le_ir : ir -> ir -> Prop) (ok : flags -> bool),
    (forall a b t, ok a = true -> f_sub a b = true -> le_ir (parse a t) (parse b t)) ->
    forall (texts : list text) p0 rs r,
      has_pu p0 = true -> forallb top_level rs = true -> (r = p0 \/ In r (map snd rs)) -> ok r = true ->
      exists irs, final_ir parse texts (run (List.length texts) p0 rs) = Some irs /\
                  Forall2 (fun t i => le_ir (parse r t) i) texts irs.
Proof. exact incremental_never_loses. Qed.
Print Assumptions C19_incremental_never_loses.

(** in EVERY state (no class restriction): a request to a unit is honoured — afterwards its record covers the request *)
Theorem C19_request_is_honoured : forall s k r g,
  h_disc s = true -> nth_error (h_units s) k = Some g ->
  exists g', nth_error (h_units (step s (TUnit k, r))) k = Some g' /\ f_sub r g' = true.
Proof. exact request_is_honoured. Qed.
Print Assumptions C19_request_is_honoured.

Theorem C19_file_request_is_honoured : forall s r g,
  h_disc s = true -> nth_error (h_units s) 0 = Some g ->
  exists g', nth_error (h_units (step s (TFile, r))) 0 = Some g' /\ f_sub r g' = true.
Proof. exact file_request_is_honoured. Qed.
Print Assumptions C19_file_request_is_honoured.

(** after every history a nested unit records at least the classes of the unit around it *)
Theorem C19_nested_records_cover_parent : forall n p0 rs, chain_mono (h_units (run n p0 rs)) = true.
Proof. exact nested_records_cover_parent. Qed.
Print Assumptions C19_nested_records_cover_parent.

(** outside the class, as the code behaves today: without ProgramUnitClass in the initial parse the units are
    created by the first file request containing it, with that request's classes only *)
Theorem C19_late_discovery_forgets : forall n p0 cs,
  has_pu p0 = false ->
  let s := run n p0 (map (fun r => (TFile, r)) cs) in
  match after_pu cs with
  | None => h_disc s = false
  | Some l => h_disc s = true /\ h_units s = repeat (f_unions l) n
  end.
Proof. exact late_discovery_forgets. Qed.
Print Assumptions C19_late_discovery_forgets.

(** the unconditional statement is refuted: CallClass then ProgramUnitClass ends without calls, the other order with *)
Theorem C19_late_program_unit_refuted :
  h_units (run 1 32%N [(TFile, 1%N)]) = [1%N] /\ h_units (run 1 1%N [(TFile, 32%N)]) = [33%N].
Proof. exact late_program_unit_refuted. Qed.
Print Assumptions C19_late_program_unit_refuted.

(** ... and a request addressed to a nested unit is lost when the enclosing unit is re-parsed afterwards *)
Theorem C19_nested_request_lost_refuted :
  exists rs rs', Permutation rs rs' /\
    h_units (run 2 1%N rs) = [5%N; 5%N] /\ h_units (run 2 1%N rs') = [5%N; 37%N].
Proof. exact nested_request_lost_refuted. Qed.
Print Assumptions C19_nested_request_lost_refuted.

(* ---------------------------------------------------------------------------------------------- *)
(** (ii) block matching on classified lines.  Class: [wfsb CFile us] — every node sits in a context whose
    candidate patterns look for it (e.g. typedefs only in a module's specification part). *)

(** every supported tree, of any size and nesting depth, is recovered exactly from its text *)
Theorem C19_blocks_roundtrip : forall us, wfsb CFile us = true -> match_blocks (flats us) = Some us.
Proof. exact blocks_roundtrip. Qed.
Print Assumptions C19_blocks_roundtrip.

Theorem C19_items_roundtrip : forall c l t rest, wfsb c l = true -> terminates c t = true ->
  forall f, List.length (flats l ++ t :: rest) <= f -> items f c (flats l ++ t :: rest) = Some (l, t :: rest).
Proof. exact items_roundtrip. Qed.
Print Assumptions C19_items_roundtrip.

(** the discovered items (units, imports, calls, typedefs, bindings, interfaces and their members), each
    attributed to the path of its enclosing units, are exactly those of the tree *)
Theorem C19_discovered_items_complete : forall us, wfsb CFile us = true ->
  option_map (collects []) (match_blocks (flats us)) = Some (collects [] us).
Proof. exact discovered_items_complete. Qed.
Print Assumptions C19_discovered_items_complete.

(** no CALL / USE statement of the text is lost: the reported ones are all call/use lines of the text, in order *)
Theorem C19_all_calls_and_uses_found : forall us, wfsb CFile us = true ->
  exists ns, match_blocks (flats us) = Some ns /\
             found_calls (collects [] ns) = line_calls (flats us) /\
             found_uses (collects [] ns) = line_uses (flats us).
Proof. exact all_calls_and_uses_found. Qed.
Print Assumptions C19_all_calls_and_uses_found.

(** the boolean used in the correspondence run means equality of trees *)
Theorem C19_chk_tree_sound : forall ls obs, chk_tree ls obs = true ->
  exists ns, match_blocks ls = Some ns /\ strips ns = obs.
Proof. exact chk_tree_sound. Qed.
Print Assumptions C19_chk_tree_sound.

(** outside the class: a derived type defined inside a subroutine is not discovered *)
Theorem C19_typedef_in_routine_missed :
  match_blocks (flatten witness_type_in_routine) =
    Some [NUnit KSub "s"%string [NOther; NOther; NOther; NCall "foo"%string] None] /\
  ~ In ([ "s"%string ], FType "loc"%string)
       (collects [] [NUnit KSub "s"%string [NOther; NOther; NOther; NCall "foo"%string] None]) /\
  In ([ "s"%string ], FType "loc"%string) (collects [] [witness_type_in_routine]).
Proof. exact typedef_in_routine_missed. Qed.
Print Assumptions C19_typedef_in_routine_missed.
