(** C11 — property theorems only. *)
From Coq Require Import ZArith List Bool String Ascii.
From LV Require Import Base.Strings models.M_C11 proofs.P_C11 proofs.P_C11_tree proofs.P_C11_wit.
Import ListNotations.
Open Scope string_scope.
Open Scope Z_scope.

(** Symmetry of [==] on the class: neither operand (nor a literal kind that gets compared) is a range [1:n]
    without step (the documented shortcut is the only exclusion). *)
Theorem C11_symmetric_on_class : forall a b : view,
  pair_ok a b = true -> node_eq a b = node_eq b a.
Proof. exact node_eq_sym. Qed.
Print Assumptions C11_symmetric_on_class.

(** The documented exception: RangeIndex(1:n) == n holds, n == RangeIndex(1:n) does not, and the hashes differ. *)
Theorem C11_symmetric_refuted_range_shortcut :
  exists ta tb : tree,
    shortcut (view_of ta) = true
    /\ node_eq (view_of ta) (view_of tb) = true /\ node_eq (view_of tb) (view_of ta) = false
    /\ hkey_of (view_of ta) <> hkey_of (view_of tb).
Proof. exact range_shortcut_witness. Qed.
Print Assumptions C11_symmetric_refuted_range_shortcut.

(** What was wrong before commit d84a976 (finding F6c, now fixed): the old FloatLiteral.__eq__ body answered True for
    FloatLiteral('3.0') vs Sum((1, 2)) through pymbolic's Expression.__float__, while the reflected comparison is False and no
    range is involved; with the repaired body the pair is unequal in both directions. *)
Theorem C11_symmetric_old_refuted_float_evaluates_operand :
  exists ta tb : tree,
    shortcut (view_of ta) = false /\ shortcut (view_of tb) = false
    /\ float_eq_old node_eq (view_of ta) (view_of tb) = true
    /\ node_eq (view_of tb) (view_of ta) = false
    /\ node_eq (view_of ta) (view_of tb) = false.
Proof. exact float_eval_old_witness. Qed.
Print Assumptions C11_symmetric_old_refuted_float_evaluates_operand.

(** Equal nodes have equal hash keys (hash(x) is an injective function of the key): on the class of
    [C11_symmetric_on_class], for two expression nodes whose compared kinds are nodes (or None) on both sides. *)
Theorem C11_hash_consistent_on_class : forall a b : view,
  pair_ok a b = true -> homog a b = true -> node_eq a b = true -> hkey_of a = hkey_of b.
Proof. exact node_eq_hash. Qed.
Print Assumptions C11_hash_consistent_on_class.

(** hence an equal node is found in a dict keyed by the other one *)
Theorem C11_dict_lookup_on_class : forall a b : view,
  pair_ok a b = true -> homog a b = true -> node_eq a b = true ->
  hkey_eqb (hkey_of a) (hkey_of b) && node_eq a b = true.
Proof. exact dict_lookup. Qed.
Print Assumptions C11_dict_lookup_on_class.

(** why [homog] is needed: a kind given as a Python str compares equal to a kind symbol in another letter case,
    the hashes differ (strings are not expression nodes) *)
Theorem C11_hash_refuted_python_str_kind :
  exists ta tb : tree,
    pair_ok (view_of ta) (view_of tb) = true /\ homog (view_of ta) (view_of tb) = false
    /\ node_eq (view_of ta) (view_of tb) = true /\ hkey_of (view_of ta) <> hkey_of (view_of tb).
Proof. exact str_kind_witness. Qed.
Print Assumptions C11_hash_refuted_python_str_kind.

(** Case-insensitivity, unconditional: spelling any identifiers (symbol names, derived-type parents, call and cast
    names, keyword names) in another letter case gives a node that is equal in both directions, has the same hash key
    and the same canonical string, and compares to every third value exactly like the original. *)
Theorem C11_case_insensitive : forall t u : tree,
  tsim t u ->
  node_eq (view_of t) (view_of u) = true /\ node_eq (view_of u) (view_of t) = true
  /\ hkey_of (view_of t) = hkey_of (view_of u)
  /\ canon (tstr t) = canon (tstr u)
  /\ forall x : view, node_eq (view_of t) x = node_eq (view_of u) x /\ node_eq x (view_of t) = node_eq x (view_of u).
Proof. exact case_insensitive. Qed.
Print Assumptions C11_case_insensitive.

(** [==] is reflexive on every value, including the shortcut ranges *)
Theorem C11_reflexive : forall a : view, node_eq a a = true.
Proof. exact node_eq_refl. Qed.
Print Assumptions C11_reflexive.

(** The fuel of the recursive definition is not what makes the statements true: any fuel above the size of the
    operands gives the same answer, and the error key of [hkey_of] is never produced. *)
Theorem C11_fuel_adequate : forall (n : nat) (a b : view),
  (vsize a + vsize b < n)%nat -> py_eq_f n a b = node_eq a b.
Proof. exact py_eq_f_node_eq. Qed.
Print Assumptions C11_fuel_adequate.

Theorem C11_hash_key_total : forall v : view, hkey_of v <> HBad.
Proof. exact hkey_not_bad. Qed.
Print Assumptions C11_hash_key_total.

(** Facts about the class table used by the proofs (finite checks over [all_cls]; the table itself is compared
    with introspection of loki.expression on every run). *)
Theorem C11_class_table_facts :
  (forall a b : cls, psub a b = true -> psub b a = false)
  /\ (forall cb ca : cls, eq_strlike (eq_src ca) = true -> sub_or_eq cb ca = true ->
        hash_strlike (hash_src cb) = true /\ eq_strlike (eq_src cb) = true)
  /\ (forall c c' : cls, eq_strlike (eq_src c) = false -> c <> c' -> psub c c' = false /\ psub c' c = false).
Proof. exact class_table_facts. Qed.
Print Assumptions C11_class_table_facts.

(** The hypotheses are satisfiable by non-trivial instances: a(i)%b(1:n) vs A(I)%B(1:N) (equal, same key),
    f(x, k=1.0_jprb) vs F(X, K=1.0_JPRB), and a pair on the class that is unequal. *)
Theorem C11_class_inhabited :
  exists t u v : tree,
    tsim t u /\ pair_ok (view_of t) (view_of u) = true /\ homog (view_of t) (view_of u) = true
    /\ node_eq (view_of t) (view_of u) = true
    /\ pair_ok (view_of t) (view_of v) = true /\ homog (view_of t) (view_of v) = true
    /\ node_eq (view_of t) (view_of v) = false.
Proof. exact class_inhabited. Qed.
Print Assumptions C11_class_inhabited.
