(** C33 — property theorems only. *)
From Coq Require Import ZArith List Bool String.
From LV Require Import Base.Expr Base.MiniF Base.MiniFFacts models.M_C26 models.M_C33 proofs.P_C33 proofs.P_C33_ext proofs.P_C33_wit proofs.P_C33_scall.
Import ListNotations.
Open Scope Z_scope.

(** outlining only moves statements: putting the bodies back in place gives the original program *)
Theorem C33_outline_inline : forall h sg its cs, outline h sg its = Some cs -> inline cs = orig its.
Proof. exact outline_inline. Qed.
Print Assumptions C33_outline_inline.

(** on the decidable class [flow] the outlined program (model output of [outline]) and the original
    terminate together and agree on every location outside [D], whatever the undefined variables of the
    new routines hold ([g]); [strict]: intent(out) dummies are undefined on entry (the standard's rule)
    or passed by reference *)
Theorem C33_outline_preserves : forall h sg ps strict its cs D,
  outline h sg its = Some cs -> flow ps strict cs [] = Some D ->
  forall g s,
    (forall s', runs ps (orig its) s s' -> exists s'', runs_c ps strict g cs s s'' /\ agree_out D s' s'') /\
    (forall s'', runs_c ps strict g cs s s'' -> exists s', runs ps (orig its) s s' /\ agree_out D s' s'').
Proof. exact outline_preserves. Qed.
Print Assumptions C33_outline_preserves.

Theorem C33_outline_preserves_observable : forall h sg ps strict its cs D obs,
  outline h sg its = Some cs -> flow ps strict cs [] = Some D -> tdisj obs D = true ->
  forall g s s' s'', runs ps (orig its) s s' -> runs_c ps strict g cs s s'' -> agree_on obs s' s''.
Proof. exact outline_preserves_observable. Qed.
Print Assumptions C33_outline_preserves_observable.

(** what the class demands of a CALL: upward-exposed reads of the region are arguments defined on
    entry; what the region may write is passed back or recorded as unreliable *)
Theorem C33_touched_vars_are_args : forall ps strict D D' o,
  flow_step ps strict D (CCall o) = Some D' ->
  (forall p, In p (ue_l ps (o_body o)) -> In p (o_entry strict o)) /\
  (forall p, In p (wr_l ps (o_body o)) -> In p (o_exit o) \/ In p D').
Proof. exact touched_vars_are_args. Qed.
Print Assumptions C33_touched_vars_are_args.

(** the unconditional statement fails on the model's own output: a may-defined scalar becomes
    intent(out) ... *)
Theorem C33_outline_maydef_refuted :
  exists cs, outline w_host [] w_maydef = Some cs /\
    In ("x"%string, false, IOut) (flat_map o_args (new_routines cs)) /\
    exists s1 s2, runs [] (orig w_maydef) empty_store s1 /\ runs_c [] true (gstore 7) cs empty_store s2 /\
                  sv s1 "y"%string = 5 /\ sv s2 "y"%string = 7.
Proof. exact outline_maydef_refuted. Qed.
Print Assumptions C33_outline_maydef_refuted.

(** ... and the DO variable of a loop in the region is a local of the new routine *)
Theorem C33_loopvar_after_region_refuted :
  exists cs, outline w_host [] w_loopvar = Some cs /\
    (forall o, In o (new_routines cs) -> In "i"%string (o_locals o)) /\
    exists s1 s2, runs [] (orig w_loopvar) empty_store s1 /\ runs_c [] false (gstore 7) cs empty_store s2 /\
                  sv s1 "y"%string = 4 /\ sv s2 "y"%string = 0.
Proof. exact loopvar_after_region_refuted. Qed.
Print Assumptions C33_loopvar_after_region_refuted.

(** extraction of an internal procedure, per call: when every host variable the member touches is
    passed (and the usual no-alias conditions hold), the call of the member by host association and the
    call of the extracted member (model output: dummies extended by [host_refs], actuals by their
    namesakes) terminate together and give the same store, whatever the member's undefined locals hold.
    [_partial]: stated for one call; the lifting to a whole host body with calls under DO/IF is by
    congruence of [exec] and is not mechanised. *)
Theorem C33_extract_internal_preserves_partial : forall ps g f h m args s,
  host_vars_passed ps h m args = true ->
  let call0 := icall ps g f (host_visible h m) (m_params m) (m_body m) args s in
  let call1 := icall ps g f [] (m_params (extract_member h m)) (m_body (extract_member h m)) (args ++ map EVar (host_refs h m)) s in
  (forall s1, call0 = Some s1 -> exists s2, call1 = Some s2 /\ store_eq s1 s2) /\
  (forall s2, call1 = Some s2 -> exists s1, call0 = Some s1 /\ store_eq s1 s2).
Proof. exact extract_internal_preserves. Qed.
Print Assumptions C33_extract_internal_preserves_partial.

(** without host association and with zero-initialised locals [icall] is the CALL of the shared MiniF core *)
Theorem C33_icall_is_scall : forall ps f n p args s,
  find_proc ps n = Some p ->
  (forall s1, exec1 ps f (SCall n args) s = Some s1 ->
     exists s2, icall ps empty_store f [] (p_params p) (p_body p) args s = Some s2 /\ store_eq s1 s2) /\
  (forall s2, icall ps empty_store f [] (p_params p) (p_body p) args s = Some s2 ->
     exists s1, exec1 ps f (SCall n args) s = Some s1 /\ store_eq s1 s2).
Proof. exact icall_is_scall. Qed.
Print Assumptions C33_icall_is_scall.

(** the unchanged code outside the class: a host array referenced with two subscripts is added twice *)
Theorem C33_extract_dup_array_refuted :
  m_params (extract_member x_host x_dup) = [("q0", false); ("a", true); ("a", true)]%string /\
  host_vars_passed [] x_host x_dup [EVar "x"%string] = false.
Proof. exact extract_dup_array_refuted. Qed.
Print Assumptions C33_extract_dup_array_refuted.

(** ... and a call of a sibling member inside a member is not rewritten: the extracted program fails *)
Theorem C33_extract_nested_call_refuted :
  let r := extract_internal x_host [x_m0; x_m1] [SCall "inner1"%string []] in
  fst r = [SCall "inner1" [EVar "y"; EVar "z"]]%string /\
  map m_params (snd r) = [[("x", false); ("z", false)]; [("y", false); ("z", false)]]%string /\
  forall f s, exec (procs_of (snd r)) f (fst r) s = None.
Proof. exact extract_nested_call_refuted. Qed.
Print Assumptions C33_extract_nested_call_refuted.

(** under by-reference passing and zero-initialised locals, the CALL of a well-formed outlined routine
    that does not assign its intent(in) dummies is the CALL of the shared MiniF core (copy-in/copy-out
    of the namesake actuals) *)
Theorem C33_ocall_is_scall : forall ps f o s s1,
  o_wf o = true -> no_inone o = true -> o_consts o = [] -> tdisj (in_args o) (wr_l ps (o_body o)) = true ->
  find_proc ps (o_name o) = Some (o_proc o) ->
  exec1 ps f (SCall (o_name o) (o_call o)) s = Some s1 ->
  exists s2, ocall ps false empty_store f o s = Some s2 /\ store_eq s1 s2.
Proof. exact ocall_is_scall. Qed.
Print Assumptions C33_ocall_is_scall.
