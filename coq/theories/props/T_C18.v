(** C18 — property theorems only. *)
From Coq Require Import ZArith List Bool String.
From LV Require Import models.M_C17 models.M_C18 proofs.P_C17 proofs.P_C17_wit proofs.P_C18 proofs.P_C18_wit.
Import ListNotations.
Open Scope Z_scope.

(** loading creates new scope objects, one per scope object of the pickled unit *)
Theorem C18_unpickle_fresh : forall d u, ids (unpickle d u) = map (fun i => i + d) (ids u).
Proof. exact unpickle_fresh. Qed.
Print Assumptions C18_unpickle_fresh.

(** unconditionally (any unit tree): every pointer of the loaded unit — symbol scopes, symbols inside types, parents, procedure and
    typedef pointers — is one of its OWN new scope objects, or a detached copy that travelled with the pickle; never an object of the original *)
Theorem C18_unpickle_closed : forall d u r,
  In r (refs (unpickle d u)) -> In r (ids (unpickle d u)) \/ r = foreign.
Proof. exact unpickle_closed. Qed.
Print Assumptions C18_unpickle_closed.

(** self-contained units without member procedures inside subroutines: up to the renaming of scope objects the loaded unit has the same
    scopes, parents, table keys and type tags and the same attachment of every symbol of the IR *)
Theorem C18_unpickle_skeleton_iso : forall d u,
  self_contained u = true -> no_sub_members u = true ->
  skeleton (unpickle d u) = skeleton (rename (ren d (ids u)) u).
Proof. exact unpickle_skeleton_iso. Qed.
Print Assumptions C18_unpickle_skeleton_iso.

(** ... and equal in full (links, symbols inside types) when nothing is present that the __setstate__ hooks do not rebuild *)
Theorem C18_unpickle_iso : forall d u,
  self_contained u = true -> no_sub_members u = true -> cleanp u = true ->
  unpickle d u = rename (ren d (ids u)) u.
Proof. exact unpickle_iso. Qed.
Print Assumptions C18_unpickle_iso.

(** every symbol of the loaded unit reads the type the corresponding symbol of the original reads *)
Theorem C18_unpickle_types_equal : forall d u,
  bounded d [] u = true -> self_contained u = true -> no_sub_members u = true ->
  occ_types [] (unpickle d u) = occ_types [] u.
Proof. exact unpickle_types_equal. Qed.
Print Assumptions C18_unpickle_types_equal.

(** refuted outside the class: a member procedure comes back without parent (host-associated symbols lose scope and type) *)
Theorem C18_unpickle_member_refuted :
  bounded 10 [] w_member = true /\ self_contained w_member = true /\ cleanp w_member = true /\
  skeleton (unpickle 10 w_member) <> skeleton (rename (ren 10 (ids w_member)) w_member) /\
  occ_types [] (unpickle 10 w_member) <> occ_types [] w_member /\
  (exists c, In c (u_children (unpickle 10 w_member)) /\ u_par c = None).
Proof. exact unpickle_member_refuted. Qed.
Print Assumptions C18_unpickle_member_refuted.

(** a module procedure pickled alone loses the types of the module's symbols (the parent is deliberately not pickled) *)
Theorem C18_unpickle_contained_refuted :
  bounded 10 wc_ctx w_contained = true /\ wf wc_ctx w_contained = true /\ clean w_contained = true /\
  occ_types wc_ctx (unpickle 10 w_contained) <> occ_types wc_ctx w_contained.
Proof. exact unpickle_contained_refuted. Qed.
Print Assumptions C18_unpickle_contained_refuted.

(** the symbols inside the type of an ASSOCIATE name are not re-attached *)
Theorem C18_unpickle_iso_refuted_assoc :
  self_contained w_assoc = true /\ no_sub_members w_assoc = true /\
  unpickle 10 w_assoc <> rename (ren 10 (ids w_assoc)) w_assoc.
Proof. exact unpickle_iso_refuted_assoc. Qed.
Print Assumptions C18_unpickle_iso_refuted_assoc.

Theorem C18_nonvacuous :
  bounded 10 [] ex18 = true /\ self_contained ex18 = true /\ no_sub_members ex18 = true /\ cleanp ex18 = true /\
  unpickle 10 ex18 <> ex18.
Proof. exact c18_nonvacuous. Qed.
Print Assumptions C18_nonvacuous.
