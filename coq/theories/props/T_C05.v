(** C05 — property theorems only.  Frontend input sanitisation leaves untargeted text untouched. *)
From Coq Require Import String Ascii List Bool ZArith.
From LV Require Import Base.Strings models.M_C05 proofs.P_C05_base proofs.P_C05_rules proofs.P_C05.
Import ListNotations.
Open Scope string_scope.

(** str.splitlines(keepends=True) loses nothing: the passes work on a partition of the source *)
Theorem C05_splitlines_concat : forall s, sconcat (splitlines s) = s.
Proof. exact sconcat_splitlines. Qed.
Print Assumptions C05_splitlines_concat.

(** a source that contains none of the trigger keywords (in any letter case) comes back unchanged, with an empty pp_info;
    unbounded over the text of the lines and over the number of lines *)
Theorem C05_no_trigger_identity : forall src,
  no_trigger src = true -> sanitize src = (src, [[]; []; []; []; []; []]).
Proof. exact no_trigger_identity. Qed.
Print Assumptions C05_no_trigger_identity.

(** the same with the exact letter case for the case-sensitive rules (@PROCESS, the macro tokens, the fypp marker) *)
Theorem C05_no_trigger_identity_sharp : forall src,
  no_trigger_sharp src = true -> sanitize src = (src, [[]; []; []; []; []; []]).
Proof. exact no_trigger_sharp_identity. Qed.
Print Assumptions C05_no_trigger_identity_sharp.

(** in a source WITH triggers, every rule leaves each trigger-free line exactly as it was *)
Theorem C05_untriggered_lines_untouched : forall f src,
  In f rules -> linewise (fun l l' => no_trigger l = true -> l' = l) src (fst (pass f src)).
Proof. exact untriggered_lines_untouched. Qed.
Print Assumptions C05_untriggered_lines_untouched.

(** the output differs from the input only inside matched spans: the six passes are line-wise, and on each line
    - IBM: the text from "@PROCESS" up to the newline is dropped, the text before it and the newline are kept;
    - macro tokens / __LINE__: disjoint token occurrences are replaced ("tok" in double quotes / 0), every other character is kept;
    - CONVERT=: the line is ws pre convert post tail and becomes ws pre post tail;
    - NEWUNIT=: the line is ws open args1 delim key val args2 tail and becomes ws open val delim args1 args2 tail;
    - fypp: a suffix starting with "# " and containing the fypp/hypp marker is dropped, the text before it is kept. *)
Theorem C05_sanitize_only_touches_matches : forall src,
  exists s1 s2 s3 s4 s5,
    linewise R_ibm src s1 /\ linewise R_strpp s1 s2 /\ linewise R_line s2 s3 /\
    linewise R_conv s3 s4 /\ linewise R_nu s4 s5 /\ linewise R_fypp s5 (fst (sanitize src)).
Proof. exact sanitize_only_touches_matches. Qed.
Print Assumptions C05_sanitize_only_touches_matches.

(** CONVERT=: the text rebuilt by reinsert_convert_endian from the recorded groups is the line the rule saw, byte for byte,
    minus its final newline (no blank or case normalisation at this stage); for a line continued with "&" the rest of the
    statement's source string (located by str.find of the post group) is appended right-stripped *)
Theorem C05_convert_roundtrip : forall l l' g,
  f_conv l = (l', [e_conv g]) ->
  exists tail, (tail = "" \/ tail = nl) /\
    (ends_amp (cg_post g) = false -> forall s, reinsert_convert g s ++ tail = l) /\
    (ends_amp (cg_post g) = true -> forall a b,
       first_occ (cg_post g) (a ++ cg_post g ++ b) = Some (String.length a) ->
       exists first, first ++ tail = l /\ reinsert_convert g (a ++ cg_post g ++ b) = first ++ rstrip b).
Proof. exact convert_roundtrip. Qed.
Print Assumptions C05_convert_roundtrip.

Theorem C05_newunit_roundtrip : forall l l' g,
  f_nu l = (l', [e_nu g]) ->
  exists tail, (tail = "" \/ tail = nl) /\
    (ends_amp (ng_args2 g) = false -> forall s, reinsert_newunit g s ++ tail = l) /\
    (ends_amp (ng_args2 g) = true -> forall a b,
       first_occ (ng_args2 g) (a ++ ng_args2 g ++ b) = Some (String.length a) ->
       exists first, first ++ tail = l /\ reinsert_newunit g (a ++ ng_args2 g ++ b) = first ++ rstrip b).
Proof. exact newunit_roundtrip. Qed.
Print Assumptions C05_newunit_roundtrip.

(** after BOTH callbacks (registry order), on the class "only one of the two OPEN rules matched the line": the statement
    gets its original first line back *)
Theorem C05_restored_convert_only_on_class : forall l g tail s,
  conv_match l = Some (g, tail) -> nu_match (fst (f_conv l)) = None -> ends_amp (cg_post g) = false ->
  exists text, restored_text l s = Some text /\ text ++ tail = l.
Proof. exact restored_convert_only. Qed.
Print Assumptions C05_restored_convert_only_on_class.

Theorem C05_restored_newunit_only_on_class : forall l g tail s,
  conv_match l = None -> nu_match l = Some (g, tail) -> ends_amp (ng_args2 g) = false ->
  exists text, restored_text l s = Some text /\ text ++ tail = l.
Proof. exact restored_newunit_only. Qed.
Print Assumptions C05_restored_newunit_only_on_class.

(** F14 (and @PROCESS): trigger text inside string literals, comments and longer identifiers is rewritten, and nothing is
    recorded for the re-inserting rules, so nothing restores it *)
Theorem C05_literal_rewritten_refuted :
  sanitize ("  c = '__LINE__'" ++ nl) = ("  c = '0'" ++ nl, [[]; []; [(1%Z, [EP "__LINE__" "0"])]; []; []; []]) /\
  sanitize ("  c = 'in __FILE__'" ++ nl)
    = ("  c = 'in ""__FILE__""'" ++ nl, [[]; [(1%Z, [e_else "__FILE__"])]; []; []; []; []]) /\
  sanitize ("  c = ""in __FILE__""" ++ nl)
    = ("  c = ""in ""__FILE__""""" ++ nl, [[]; [(1%Z, [e_else "__FILE__"])]; []; []; []; []]) /\
  sanitize ("  k = 1 ! see __LINE__" ++ nl) = ("  k = 1 ! see 0" ++ nl, [[]; []; [(1%Z, [EP "__LINE__" "0"])]; []; []; []]) /\
  sanitize ("  ! __DATE__ here" ++ nl)
    = ("  ! ""__DATE__"" here" ++ nl, [[]; [(1%Z, [e_else "__DATE__"])]; []; []; []; []]) /\
  sanitize ("  k__LINE__k = 1" ++ nl) = ("  k0k = 1" ++ nl, [[]; []; [(1%Z, [EP "__LINE__" "0"])]; []; []; []]) /\
  sanitize ("  c = 'the @PROCESS x'" ++ nl) = ("  c = 'the " ++ nl, [[(1%Z, [EG []])]; []; []; []; []; []]) /\
  sanitize ("  k = 1 ! @PROCESS x" ++ nl) = ("  k = 1 ! " ++ nl, [[(1%Z, [EG []])]; []; []; []; []; []]).
Proof. exact literal_rewritten_refuted. Qed.
Print Assumptions C05_literal_rewritten_refuted.

(** an OPEN line with both CONVERT= and NEWUNIT=: the second callback rebuilds the text from what rule 5 saw — CONVERT= is lost *)
Theorem C05_both_specifiers_convert_lost_refuted :
  let l := "  open(newunit=u, file=f, convert='big_endian')" in
  fst (sanitize (l ++ nl)) = "  open(u, file=f)" ++ nl /\
  restored_text l "  open(u, file=f)" = Some "  open(newunit=u, file=f)".
Proof. exact both_specifiers_convert_lost_refuted. Qed.
Print Assumptions C05_both_specifiers_convert_lost_refuted.

(** the NEWUNIT= value ends at the first ")": a subscripted unit variable is cut (the result no longer parses) *)
Theorem C05_newunit_value_cut_refuted :
  fst (f_nu "  open(file=f, newunit=arr(2))") = "  open(arr(2,file=f))".
Proof. exact newunit_value_cut_refuted. Qed.
Print Assumptions C05_newunit_value_cut_refuted.

(** NEWUNIT= inside a string literal of an OPEN statement is pulled out of the literal *)
Theorem C05_open_literal_rewritten_refuted :
  fst (f_nu "  open(unit=u, file='a,newunit=b,c')") = "  open(b,unit=u, file='a,c')".
Proof. exact open_literal_rewritten_refuted. Qed.
Print Assumptions C05_open_literal_rewritten_refuted.

(** a CONVERT= specifier at the end of its line swallows the line break *)
Theorem C05_convert_eats_newline_refuted :
  fst (sanitize ("open(1, convert='big_endian'" ++ nl ++ "x = 1" ++ nl)) = "open(1x = 1" ++ nl.
Proof. exact convert_eats_newline_refuted. Qed.
Print Assumptions C05_convert_eats_newline_refuted.
