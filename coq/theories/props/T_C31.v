(** C31 — property theorems only. *)
From Coq Require Import ZArith List Bool String Permutation.
From LV Require Import Base.Expr Base.MiniF Base.MiniFFacts models.M_C31 proofs.P_C31.
From LV Require models.M_C10.
Import ListNotations.
Open Scope Z_scope.

(** Unrolling (do_loop_unroll on a whole program, any nesting / depth options / fuel): if the original program
    runs without error so does the unrolled one, and the final stores agree on every array cell and on every
    scalar except the DO variables X (class: DO variables are read only inside their own loop, are not assigned by
    loop bodies, no CALL). *)
Theorem C31_unroll_total : forall ps fuel X prog s s1,
  forallb (uok (dmem X)) prog = true -> runs ps prog s s1 ->
  exists s2, runs ps (pu fuel prog) s s2 /\ agree_except X s1 s2.
Proof. exact unroll_total. Qed.
Print Assumptions C31_unroll_total.

Theorem C31_unroll_preserves : forall ps fuel X prog s s1 s2,
  forallb (uok (dmem X)) prog = true ->
  runs ps (pu fuel prog) s s1 -> runs ps prog s s2 -> agree_except X s2 s1.
Proof. exact unroll_preserves. Qed.
Print Assumptions C31_unroll_preserves.

Theorem C31_agree_except_spec : forall X s t,
  agree_except X s t <-> (forall x, ~ In x X -> sv s x = sv t x) /\ (forall a i, av s a i = av t a i).
Proof. exact agree_except_spec. Qed.
Print Assumptions C31_agree_except_spec.

(** LoopUnrollTransformer on one statement with any depth argument *)
Theorem C31_ut_sim : forall ps f d st D, uok D st = true -> body_sim ps D [st] (ut f d st).
Proof. exact ut_sim. Qed.
Print Assumptions C31_ut_sim.

(** a single loop with literal bounds and non-zero literal step (negative steps included), copies in trip order *)
Theorem C31_unroll_loop_preserves : forall ps v lo hi st body a b c X s s1 s2,
  lit3 lo hi st = Some (a, b, c) -> c <> 0 ->
  uok (dmem X) (SDo v lo hi st body) = true ->
  runs ps (unroll1 v a b c body) s s1 -> runs ps [SDo v lo hi st body] s s2 -> agree_except X s2 s1.
Proof. exact unroll_loop_preserves. Qed.
Print Assumptions C31_unroll_loop_preserves.

(** the comparison normalisations of the correspondence are sound *)
Theorem C31_strip_skips_sound : forall ps l s s', runs ps l s s' -> runs ps (strip_skips l) s s'.
Proof. exact strip_skips_sound. Qed.
Print Assumptions C31_strip_skips_sound.

Theorem C31_norm_sound : forall ps l s s', runs ps l s s' -> runs ps (norm_l l) s s'.
Proof. exact norm_sound. Qed.
Print Assumptions C31_norm_sound.

(** split_loop: index arithmetic of the blocked nest *)
Theorem C31_block_split_indices : forall a s n B, 0 < B -> blocked_indices a s n B = M_C10.iota_steps (Z.to_nat n) a s.
Proof. exact block_split_indices. Qed.
Print Assumptions C31_block_split_indices.

Theorem C31_block_split_preserves_on_class : forall a b s B,
  0 < B -> split_ok a b s = true ->
  blocked_indices a s (M_C10.num_iterations a b s) B = M_C10.do_trips a b s.
Proof. exact block_split_preserves. Qed.
Print Assumptions C31_block_split_preserves_on_class.

Theorem C31_split_ok_nonempty : forall a b s, s <> 0 -> M_C10.nonempty a b s = true -> split_ok a b s = true.
Proof. exact split_ok_nonempty. Qed.
Print Assumptions C31_split_ok_nonempty.

Theorem C31_block_split_empty_refuted :
  exists a b s B, 0 < B /\ s <> 0 /\ blocked_indices a s (M_C10.num_iterations a b s) B <> M_C10.do_trips a b s.
Proof. exact block_split_empty_refuted. Qed.
Print Assumptions C31_block_split_empty_refuted.

(** fusion / fission of two loops with the same range, under the commutation hypothesis *)
Theorem C31_fusion_preserves : forall ps v M MA lo hi st A B s s1,
  fuse_side v M MA lo hi st A B -> commute_cross ps v A B ->
  runs ps [SDo v lo hi st A; SDo v lo hi st B] s s1 ->
  exists s2, runs ps [SDo v lo hi st (A ++ B)] s s2 /\ sim (single v) dnone s1 s2.
Proof. exact fusion_preserves. Qed.
Print Assumptions C31_fusion_preserves.

Theorem C31_fission_preserves : forall ps v M MA lo hi st A B s s1,
  fuse_side v M MA lo hi st A B -> commute_cross ps v A B ->
  runs ps [SDo v lo hi st (A ++ B)] s s1 ->
  exists s2, runs ps [SDo v lo hi st A; SDo v lo hi st B] s s2 /\ sim (single v) dnone s1 s2.
Proof. exact fission_preserves. Qed.
Print Assumptions C31_fission_preserves.

(** the name-level syntactic check implies the commutation hypothesis *)
Theorem C31_indep_check_sound : forall ps v A B, indep_names A B = true -> commute_cross ps v A B.
Proof. exact indep_check_sound. Qed.
Print Assumptions C31_indep_check_sound.

(** interchange, at the level of iteration sequences (partial: see P_C31_commute.v) *)
Theorem C31_interchange_preserves_partial : forall ps i j body Is Js,
  forallb no_call body = true -> NoDup Is -> NoDup Js -> iterations_commute ps i j body ->
  seq_sim ps (d2 i j) (map (it2 i j body) (row_major Is Js)) (map (it2 i j body) (col_major Is Js)).
Proof. exact interchange_preserves_partial. Qed.
Print Assumptions C31_interchange_preserves_partial.

Theorem C31_perm_seq_sim : forall (K : Type) (F : K -> iter) ps D l l', Permutation l l' ->
  NoDup l -> (forall k, In k l -> all_vars_in D [F k]) ->
  (forall a b, In a l -> In b l -> a <> b -> seq_sim ps D [F a; F b] [F b; F a]) ->
  seq_sim ps D (map F l) (map F l').
Proof. exact @perm_seq_sim. Qed.
Print Assumptions C31_perm_seq_sim.
