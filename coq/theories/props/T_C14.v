(** C14 — property theorems only. *)
From Coq Require Import ZArith List Bool.
From LV Require Import models.M_C14 proofs.P_C14 proofs.P_C14_inject proofs.P_C14_spec proofs.P_C14_effects
                       proofs.P_C14_identity proofs.P_C14_masked proofs.P_C14_rebuilt proofs.P_C14_examples.
Import ListNotations.
Open Scope Z_scope.

(** [_inject_tuple_mapping] (index loops, one mapper entry after the other) is a one-pass splice *)
Theorem C14_inject_is_splice : forall M l,
  keys_ok M = true -> (forall x, In x l -> inj_ok M x) -> inject M l = flat_map (splice M) l.
Proof. exact inject_spec. Qed.
Print Assumptions C14_inject_is_splice.

(** the transformer computes the declarative substitution (trees of any size; fuel = Python call depth) *)
Theorem C14_transform_spec : forall c t n pa ms,
  c_cls c = TPlain -> spec_class (c_map c) t = true -> (height t + hmax (c_map c) <= n)%nat ->
  res_item (visit n c pa t ms) = spec c t.
Proof. exact transform_spec. Qed.
Print Assumptions C14_transform_spec.

Theorem C14_unmapped_preserved : forall n c pa i k s p ch ms r same ms' lg rb,
  c_cls c = TPlain -> mfind (c_map c) (Nd i k s p ch) = None ->
  visit n c pa (Nd i k s p ch) ms = Ok r same ms' lg rb ->
  exists i' s' ch', r = Nd i' k s' p ch' /\ length ch' = length ch /\ (i' = i \/ i' = 0).
Proof. exact unmapped_preserved. Qed.
Print Assumptions C14_unmapped_preserved.

Theorem C14_empty_mapping_identity : forall c t n pa ms,
  c_cls c = TPlain -> c_map c = [] ->
  clean t = true -> constructed t = true -> (c_invsrc c = false \/ no_valid_src t = true) ->
  (height t <= n)%nat ->
  res_item (visit n c pa t ms) = Some (reid c t) /\ ieqb (reid c t) t = true.
Proof. exact empty_mapping_identity. Qed.
Print Assumptions C14_empty_mapping_identity.

(** finding: an empty case body is dropped by the identity transformer *)
Theorem C14_empty_mapping_identity_refuted :
  exists t, constructed t = true /\ clean t = false /\
    res_item (visit 10 id_cfg None t (init_ms false [])) =
      Some (Nd 0 K_MultiConditional 0 0
               [Obj 0; Tup [Tup [Obj 1]; Tup [Obj 2]]; Tup [Tup [Nd 0 K_Comment 0 0 []]]; Tup []]) /\
    (forall r, res_item (visit 10 id_cfg None t (init_ms false [])) = Some r -> ieqb r t = false).
Proof. exact empty_mapping_identity_refuted. Qed.
Print Assumptions C14_empty_mapping_identity_refuted.

(** all four transformer classes, any mapper, any tree *)
Theorem C14_no_effect_on_original : forall n c pa o ms,
  c_inplace c = false -> c_rebuild_scopes c = true -> res_log (visit n c pa o ms) = [].
Proof. exact no_effect_on_original. Qed.
Print Assumptions C14_no_effect_on_original.

(** F15: without rebuild_scopes a scoped node of the original tree is updated although inplace = false *)
Theorem C14_scoped_effect_refuted :
  exists c t, c_cls c = TPlain /\ c_inplace c = false /\
    res_log (visit 10 c None t (init_ms false [])) = [EUpd 2 0 [Tup [Nd 0 K_Comment 0 2 []]; Tup []]].
Proof. exact scoped_effect_refuted. Qed.
Print Assumptions C14_scoped_effect_refuted.

(** the masked transformer keeps exactly the nodes visited while it is switched on, in order *)
Theorem C14_masked_preorder_spec : forall c n t pa ms r same ms' lg rb,
  c_cls c = TMasked -> c_map c = [] -> normalized t = true ->
  visit n c pa t ms = Ok r same ms' lg rb ->
  preorder r = selected (fst (scan c t ms)) /\ ms' = snd (scan c t ms).
Proof. exact masked_preorder_spec. Qed.
Print Assumptions C14_masked_preorder_spec.

Theorem C14_rebuilt_covers_visited : forall c, c_cls c = TPlain -> c_inplace c = false -> c_rebuild_scopes c = true ->
  forall t x, reached (c_map c) t x -> is_nd x = true ->
  forall n pa ms r same ms' lg rb, visit n c pa t ms = Ok r same ms' lg rb -> exists v, In (x, v) rb.
Proof. exact rebuilt_covers_visited. Qed.
Print Assumptions C14_rebuilt_covers_visited.

(** a node spliced away by a one-to-many replacement is not recorded *)
Theorem C14_rebuilt_not_all_refuted :
  map (fun kv => id_of (fst kv)) (res_reb (visit 10 rb_cfg None rb_tree (init_ms false []))) = [4; 3; 1].
Proof. exact rebuilt_not_all_refuted. Qed.
Print Assumptions C14_rebuilt_not_all_refuted.
