(** C17 — independence: edits made through one copy never touch a scope object of the other copy. *)
From Coq Require Import ZArith List Bool String Lia.
From LV Require Import models.M_C17 proofs.P_C17.
Import ListNotations.
Open Scope Z_scope.

(** an edit whose target is not a scope object of [u] leaves [u] as it is *)
Lemma apply_edit_notin : forall e u, ~ In (target e) (ids u) -> apply_edit e u = u.
Proof.
  intros e u. induction u as [i k nm p tab occs ch IH] using unit_ind'. intro H.
  simpl in H. simpl.
  assert (Hch : map (apply_edit e) ch = ch).
  { rewrite <- (map_id ch) at 2. apply map_ext_Forall. rewrite Forall_forall in IH |- *.
    intros c Hc. apply IH; [exact Hc|]. intro Hin. apply H. right. apply in_flat_map. exists c. split; assumption. }
  rewrite Hch. destruct (i =? target e) eqn:E; [|reflexivity].
  apply Z.eqb_eq in E. exfalso. apply H. left. exact E.
Qed.

(** ** what an edit can add to the scope objects and to the references of a unit *)
Lemma in_remove_nth {A} : forall (l : list A) k x, In x (remove_nth l k) -> In x l.
Proof.
  induction l as [|y r IH]; intros k x H; simpl in *; [destruct k; exact H|].
  destruct k; [right; exact H|]. destruct H as [H|H]; [left; exact H | right; eapply IH; exact H].
Qed.
Lemma in_set_nth {A} : forall (l : list A) k v x, In x (set_nth l k v) -> In x l \/ x = v.
Proof.
  induction l as [|y r IH]; intros k v x H; simpl in *; [destruct k; contradiction|].
  destruct k; simpl in H.
  - destruct H as [H|H]; [right; symmetry; exact H | left; right; exact H].
  - destruct H as [H|H]; [left; left; exact H|]. apply IH in H. destruct H; [left; right; assumption | right; assumption].
Qed.

Lemma table_refs_tset : forall t n e x, In x (table_refs (tset t n e)) -> In x (table_refs t) \/ In x (entry_refs e).
Proof.
  induction t as [|[k v] r IH]; intros n e x H; simpl in *.
  - rewrite app_nil_r in H. right. exact H.
  - destruct (String.eqb k n); simpl in H; apply in_app_or in H; destruct H as [H|H].
    + right. exact H.
    + left. apply in_or_app. right. exact H.
    + left. apply in_or_app. left. exact H.
    + apply IH in H. destruct H; [left; apply in_or_app; right; assumption | right; assumption].
Qed.
Lemma table_refs_tdel : forall t n x, In x (table_refs (tdel t n)) -> In x (table_refs t).
Proof.
  induction t as [|[k v] r IH]; intros n x H; simpl in *; [exact H|].
  destruct (String.eqb k n).
  - apply in_or_app. right. eapply IH. exact H.
  - simpl in H. apply in_app_or in H. apply in_or_app. destruct H; [left; assumption | right; eapply IH; eassumption].
Qed.

Lemma flat_map_incl_In {A B} (f : A -> list B) (l : list A) x c : In c l -> In x (f c) -> In x (flat_map f l).
Proof. intros. apply in_flat_map. exists c. split; assumption. Qed.

Lemma ids_edit_here : forall e i k nm p tab occs ch x,
  In x (ids (edit_here e i k nm p tab occs ch)) -> In x (i :: flat_map ids ch) \/ In x (payload e).
Proof.
  intros e i k nm p tab occs ch x H. destruct e; simpl in *; try (left; exact H).
  - destruct H as [H|H]; [left; left; exact H|]. rewrite flat_map_app in H. apply in_app_or in H.
    destruct H as [H|H]; [left; right; exact H|]. simpl in H. rewrite app_nil_r in H. right. apply in_or_app. left. exact H.
  - destruct H as [H|H]; [left; left; exact H|]. left. right.
    apply in_flat_map in H. destruct H as [c0 [Hc Hx]]. apply in_remove_nth in Hc. eapply flat_map_incl_In; eassumption.
Qed.

Lemma refs_edit_here : forall e i k nm p tab occs ch x,
  In x (refs (edit_here e i k nm p tab occs ch)) ->
  In x (opt_list p ++ table_refs tab ++ occ_refs occs ++ flat_map refs ch) \/ In x (payload e).
Proof.
  intros e i k nm p tab occs ch x H.
  destruct e as [j n en|j n|j o|j m|j m o|j c|j m]; simpl in H |- *.
  - (* set entry *)
    apply in_app_or in H. destruct H as [H|H]; [left; apply in_or_app; left; exact H|].
    apply in_app_or in H. destruct H as [H|H].
    + apply table_refs_tset in H. destruct H; [left; apply in_or_app; right; apply in_or_app; left; assumption | right; assumption].
    + left. apply in_or_app. right. apply in_or_app. right. exact H.
  - (* del entry *)
    left. apply in_app_or in H. destruct H as [H|H]; [apply in_or_app; left; exact H|].
    apply in_or_app. right. apply in_app_or in H. destruct H as [H|H].
    + apply in_or_app. left. eapply table_refs_tdel. exact H.
    + apply in_or_app. right. exact H.
  - (* add occurrence *)
    apply in_app_or in H. destruct H as [H|H]; [left; apply in_or_app; left; exact H|].
    apply in_app_or in H. destruct H as [H|H]; [left; apply in_or_app; right; apply in_or_app; left; exact H|].
    apply in_app_or in H. destruct H as [H|H].
    + unfold occ_refs in H. rewrite flat_map_app in H. apply in_app_or in H. destruct H as [H|H].
      * left. apply in_or_app. right. apply in_or_app. right. apply in_or_app. left. exact H.
      * simpl in H. rewrite app_nil_r in H. right. exact H.
    + left. apply in_or_app. right. apply in_or_app. right. apply in_or_app. right. exact H.
  - (* del occurrence *)
    left. apply in_app_or in H. destruct H as [H|H]; [apply in_or_app; left; exact H|].
    apply in_or_app. right. apply in_app_or in H. destruct H as [H|H]; [apply in_or_app; left; exact H|].
    apply in_or_app. right. apply in_app_or in H. destruct H as [H|H]; [|apply in_or_app; right; exact H].
    apply in_or_app. left. unfold occ_refs in *. apply in_flat_map in H. destruct H as [o [Ho Hx]].
    apply in_remove_nth in Ho. eapply flat_map_incl_In; eassumption.
  - (* set occurrence *)
    apply in_app_or in H. destruct H as [H|H]; [left; apply in_or_app; left; exact H|].
    apply in_app_or in H. destruct H as [H|H]; [left; apply in_or_app; right; apply in_or_app; left; exact H|].
    apply in_app_or in H. destruct H as [H|H]; [|left; apply in_or_app; right; apply in_or_app; right; apply in_or_app; right; exact H].
    unfold occ_refs in H. apply in_flat_map in H. destruct H as [o' [Ho Hx]].
    apply in_set_nth in Ho. destruct Ho as [Ho|Ho].
    + left. apply in_or_app. right. apply in_or_app. right. apply in_or_app. left. unfold occ_refs. eapply flat_map_incl_In; eassumption.
    + subst o'. right. exact Hx.
  - (* add child *)
    apply in_app_or in H. destruct H as [H|H]; [left; apply in_or_app; left; exact H|].
    apply in_app_or in H. destruct H as [H|H]; [left; apply in_or_app; right; apply in_or_app; left; exact H|].
    apply in_app_or in H. destruct H as [H|H]; [left; apply in_or_app; right; apply in_or_app; right; apply in_or_app; left; exact H|].
    rewrite flat_map_app in H. apply in_app_or in H. destruct H as [H|H].
    + left. apply in_or_app. right. apply in_or_app. right. apply in_or_app. right. exact H.
    + simpl in H. rewrite app_nil_r in H. right. apply in_or_app. right. exact H.
  - (* del child *)
    left. apply in_app_or in H. destruct H as [H|H]; [apply in_or_app; left; exact H|].
    apply in_or_app. right. apply in_app_or in H. destruct H as [H|H]; [apply in_or_app; left; exact H|].
    apply in_or_app. right. apply in_app_or in H. destruct H as [H|H]; [apply in_or_app; left; exact H|].
    apply in_or_app. right. apply in_flat_map in H. destruct H as [c0 [Hc Hx]]. apply in_remove_nth in Hc.
    eapply flat_map_incl_In; eassumption.
Qed.

Lemma ids_apply_edit : forall e u x, In x (ids (apply_edit e u)) -> In x (ids u) \/ In x (payload e).
Proof.
  intros e u. induction u as [i k nm p tab occs ch IH] using unit_ind'. intros x H. simpl in H.
  assert (Hch : forall y, In y (flat_map ids (map (apply_edit e) ch)) -> In y (flat_map ids ch) \/ In y (payload e)).
  { intros y Hy. apply in_flat_map in Hy. destruct Hy as [c' [Hc' Hy]]. apply in_map_iff in Hc'.
    destruct Hc' as [c [E Hc]]. subst c'. rewrite Forall_forall in IH. apply (IH c Hc) in Hy.
    destruct Hy; [left; eapply flat_map_incl_In; eassumption | right; assumption]. }
  destruct (i =? target e).
  - apply ids_edit_here in H. destruct H as [H|H]; [|right; exact H].
    destruct H as [H|H]; [left; left; exact H|]. apply Hch in H. destruct H; [left; right; assumption | right; assumption].
  - simpl in H. destruct H as [H|H]; [left; left; exact H|]. apply Hch in H. destruct H; [left; right; assumption | right; assumption].
Qed.

Lemma refs_apply_edit : forall e u x, In x (refs (apply_edit e u)) -> In x (refs u) \/ In x (payload e).
Proof.
  intros e u. induction u as [i k nm p tab occs ch IH] using unit_ind'. intros x H. simpl in H.
  assert (Hch : forall y, In y (flat_map refs (map (apply_edit e) ch)) -> In y (flat_map refs ch) \/ In y (payload e)).
  { intros y Hy. apply in_flat_map in Hy. destruct Hy as [c' [Hc' Hy]]. apply in_map_iff in Hc'.
    destruct Hc' as [c [E Hc]]. subst c'. rewrite Forall_forall in IH. apply (IH c Hc) in Hy.
    destruct Hy; [left; eapply flat_map_incl_In; eassumption | right; assumption]. }
  assert (Hall : forall y, In y (opt_list p ++ table_refs tab ++ occ_refs occs ++ flat_map refs (map (apply_edit e) ch)) ->
                           In y (refs (Unit i k nm p tab occs ch)) \/ In y (payload e)).
  { intros y Hy. simpl. apply in_app_or in Hy. destruct Hy as [Hy|Hy]; [left; apply in_or_app; left; exact Hy|].
    apply in_app_or in Hy. destruct Hy as [Hy|Hy]; [left; apply in_or_app; right; apply in_or_app; left; exact Hy|].
    apply in_app_or in Hy. destruct Hy as [Hy|Hy]; [left; apply in_or_app; right; apply in_or_app; right; apply in_or_app; left; exact Hy|].
    apply Hch in Hy. destruct Hy; [left; apply in_or_app; right; apply in_or_app; right; apply in_or_app; right; assumption | right; assumption]. }
  destruct (i =? target e).
  - apply refs_edit_here in H. destruct H as [H|H]; [apply Hall; exact H | right; exact H].
  - apply Hall. exact H.
Qed.

(** ** separation and its preservation *)
Definition sep (a b : unit) : Prop := forall x, In x (ids a ++ refs a) -> ~ In x (ids b).

Lemma sep_step : forall a b e,
  sep a b -> (forall r, In r (payload e) -> ~ In r (ids b)) -> sep (apply_edit e a) b.
Proof.
  intros a b e S P x Hx. apply in_app_or in Hx. destruct Hx as [Hx|Hx].
  - apply ids_apply_edit in Hx. destruct Hx; [apply S; apply in_or_app; left; assumption | apply P; assumption].
  - apply refs_apply_edit in Hx. destruct Hx; [apply S; apply in_or_app; right; assumption | apply P; assumption].
Qed.

(** arbitrary sequences of edits made through [a] leave [b] exactly as it was *)
Theorem independent : forall es a b,
  sep a b -> valid_edits b a es -> apply_edits es b = b /\ sep (apply_edits es a) b.
Proof.
  induction es as [|e es IH]; intros a b S V.
  - split; [reflexivity | exact S].
  - inversion V; subst. unfold apply_edits. simpl.
    rewrite (apply_edit_notin e b) by (apply S; assumption).
    apply IH; [apply sep_step; assumption | assumption].
Qed.

(** ** the two copies produced by clone are separated in both directions *)
Lemma sep_clone_orig : forall d ctx u,
  bounded d ctx u = true -> wf ctx u = true -> clean u = true -> sep (clone d ctx u) u.
Proof.
  intros d ctx u B W C x Hx. apply in_app_or in Hx. destruct Hx as [Hx|Hx].
  - apply (clone_fresh _ _ _ B) in Hx. tauto.
  - eapply clone_closed; eassumption.
Qed.

Lemma sep_orig_clone : forall d ctx u, bounded d ctx u = true -> sep u (clone d ctx u).
Proof.
  intros d ctx u B x Hx Hin. destruct (clone_fresh _ _ _ B x Hin) as [A [_ R]].
  apply in_app_or in Hx. tauto.
Qed.

Theorem clone_independent_of_clone_edits : forall d ctx u es,
  bounded d ctx u = true -> wf ctx u = true -> clean u = true ->
  valid_edits u (clone d ctx u) es -> apply_edits es u = u.
Proof. intros. eapply independent; [eapply sep_clone_orig|]; eassumption. Qed.

Theorem clone_independent_of_orig_edits : forall d ctx u es,
  bounded d ctx u = true ->
  valid_edits (clone d ctx u) u es -> apply_edits es (clone d ctx u) = clone d ctx u.
Proof. intros. eapply independent; [eapply sep_orig_clone|]; eassumption. Qed.
