(** C38 — expression-level lemmas: evaluation of calls/sums/max, extensionality in the free variables,
    the substitution lemma. *)
From Coq Require Import ZArith List Bool String Lia.
From LV Require Import Base.Expr models.M_C38.
Import ListNotations.
Open Scope string_scope.
Open Scope list_scope.
Open Scope Z_scope.

Lemma evalZ_call rho f args :
  evalZ rho (ECall f args) =
  obind (omap_list (evalZ rho) args)
        (fun vs => match intrinsic f vs with Some r => r | None => ev_fun rho f vs end).
Proof.
  cbn [evalZ]. f_equal.
  induction args as [|a r IH]; [reflexivity|].
  cbn [omap_list]. rewrite <- IH. reflexivity.
Qed.

Fixpoint sumz (l : list Z) : Z := match l with [] => 0 | x :: r => x + sumz r end.

Lemma evalZ_sum rho p cs :
  evalZ rho (ESum p cs) = obind (omap_list (evalZ rho) cs) (fun vs => Some (sumz vs)).
Proof.
  cbn [evalZ]. induction cs as [|c r IH]; [reflexivity|].
  cbn [fold_right omap_list]. rewrite IH.
  destruct (evalZ rho c); cbn [obind]; [|reflexivity].
  destruct (omap_list (evalZ rho) r); reflexivity.
Qed.

Lemma evalZ_prod rho p cs :
  evalZ rho (EProd p cs) = obind (omap_list (evalZ rho) cs) (fun vs => Some (prodz vs)).
Proof.
  cbn [evalZ]. induction cs as [|c r IH]; [reflexivity|].
  cbn [fold_right omap_list]. rewrite IH.
  destruct (evalZ rho c); cbn [obind]; [|reflexivity].
  destruct (omap_list (evalZ rho) r); reflexivity.
Qed.

Lemma omap_list_ext {A B} (f g : A -> option B) l :
  Forall (fun x => f x = g x) l -> omap_list f l = omap_list g l.
Proof.
  induction 1 as [|x r H _ IH]; [reflexivity|]. cbn [omap_list]. rewrite H, IH. reflexivity.
Qed.

Lemma omap_list_map {A B C} (f : B -> option C) (h : A -> B) l :
  omap_list f (map h l) = omap_list (fun x => f (h x)) l.
Proof. induction l as [|x r IH]; [reflexivity|]. cbn [map omap_list]. rewrite IH. reflexivity. Qed.

Lemma omap_list_length {A B} (f : A -> option B) l vs : omap_list f l = Some vs -> List.length vs = List.length l.
Proof.
  revert vs. induction l as [|x r IH]; intros vs H; cbn [omap_list] in H.
  - inversion H. reflexivity.
  - destruct (f x); cbn [obind] in H; [|discriminate].
    destruct (omap_list f r) eqn:E; cbn [obind] in H; [|discriminate].
    inversion H. cbn. f_equal. apply IH. reflexivity.
Qed.

(** ** evaluation only depends on the free variables (and the function table) *)
Lemma evalZ_ext r1 r2 e :
  (forall f a, ev_fun r1 f a = ev_fun r2 f a) ->
  (forall x, In x (vars e) -> ev_var r1 x = ev_var r2 x) ->
  evalZ r1 e = evalZ r2 e.
Proof.
  intros Hf. induction e using expr_ind'; intros Hv; try reflexivity.
  - cbn. f_equal. apply Hv. cbn. auto.
  - rewrite !evalZ_sum. f_equal. apply omap_list_ext.
    rewrite Forall_forall in *. intros c Hc. apply H; [exact Hc|].
    intros x Hx. apply Hv. cbn. apply in_flat_map. eauto.
  - rewrite !evalZ_prod. f_equal. apply omap_list_ext.
    rewrite Forall_forall in *. intros c Hc. apply H; [exact Hc|].
    intros x Hx. apply Hv. cbn. apply in_flat_map. eauto.
  - cbn [evalZ]. rewrite IHe1, IHe2; [reflexivity| |]; intros x Hx; apply Hv; cbn; apply in_or_app; auto.
  - cbn [evalZ]. rewrite IHe1, IHe2; [reflexivity| |]; intros x Hx; apply Hv; cbn; apply in_or_app; auto.
  - rewrite !evalZ_call.
    assert (E : omap_list (evalZ r1) args = omap_list (evalZ r2) args).
    { apply omap_list_ext. rewrite Forall_forall in *. intros c Hc. apply H; [exact Hc|].
      intros x Hx. apply Hv. cbn. apply in_flat_map. eauto. }
    rewrite E. destruct (omap_list (evalZ r2) args); cbn [obind]; [|reflexivity].
    destruct (intrinsic f l); [reflexivity|]. apply Hf.
Qed.

(** ** substitution lemma *)
(** environment update that falls through to [rho] *)
Definition upd (rho : env) (ps : list string) (vs : list Z) : env := bind rho ps vs.

Lemma assoc_combine_lookup rho ps acts vs x :
  List.length ps = List.length acts ->
  omap_list (evalZ rho) acts = Some vs ->
  match assoc_e (combine ps acts) x with
  | Some a => exists v, evalZ rho a = Some v /\ lookup ps vs x = Some v
  | None => lookup ps vs x = None
  end.
Proof.
  revert acts vs. induction ps as [|p pr IH]; intros acts vs HL HE.
  - cbn. reflexivity.
  - destruct acts as [|a ar]; [discriminate|]. cbn [combine assoc_e].
    cbn [omap_list] in HE. destruct (evalZ rho a) eqn:Ea; cbn [obind] in HE; [|discriminate].
    destruct (omap_list (evalZ rho) ar) eqn:Er; cbn [obind] in HE; [|discriminate].
    inversion HE; subst vs. cbn [lookup].
    destruct (String.eqb p x).
    + exists z. split; [exact Ea|reflexivity].
    + apply IH; [cbn in HL; lia|exact Er].
Qed.

Lemma subst_eval rho ps acts vs e :
  List.length ps = List.length acts ->
  omap_list (evalZ rho) acts = Some vs ->
  evalZ rho (subst (combine ps acts) e) = evalZ (upd rho ps vs) e.
Proof.
  intros HL HE. induction e using expr_ind'; try reflexivity.
  - cbn [subst]. pose proof (assoc_combine_lookup rho ps acts vs x HL HE) as A.
    destruct (assoc_e (combine ps acts) x) as [a|].
    + destruct A as [v [Ev Lv]]. rewrite Ev. cbn. rewrite Lv. reflexivity.
    + cbn. rewrite A. reflexivity.
  - cbn [subst]. rewrite !evalZ_sum, omap_list_map. f_equal. apply omap_list_ext. exact H.
  - cbn [subst]. rewrite !evalZ_prod, omap_list_map. f_equal. apply omap_list_ext. exact H.
  - cbn [subst evalZ]. rewrite IHe1, IHe2. reflexivity.
  - cbn [subst evalZ]. rewrite IHe1, IHe2. reflexivity.
  - cbn [subst]. rewrite !evalZ_call, omap_list_map.
    assert (E : omap_list (fun x => evalZ rho (subst (combine ps acts) x)) args = omap_list (evalZ (upd rho ps vs)) args)
      by (apply omap_list_ext; exact H).
    rewrite E. reflexivity.
Qed.

(** max *)
Lemma fold_left_max_ge l a : a <= fold_left Z.max l a.
Proof. revert a. induction l as [|x r IH]; intro a; cbn; [lia|]. specialize (IH (Z.max a x)). lia. Qed.

Lemma fold_left_max_mono l a b : a <= b -> fold_left Z.max l a <= fold_left Z.max l b.
Proof. revert a b. induction l as [|x r IH]; intros a b H; cbn; [lia|]. apply IH. lia. Qed.

Fixpoint maxl (a : Z) (l : list Z) : Z := match l with [] => a | x :: r => Z.max a (maxl x r) end.

Lemma maxl_max a x r : maxl (Z.max a x) r = Z.max a (maxl x r).
Proof.
  revert a x. induction r as [|y q IH]; intros a x; cbn [maxl]; [reflexivity|]. lia.
Qed.

Lemma fold_left_max_maxl l a : fold_left Z.max l a = maxl a l.
Proof.
  revert a. induction l as [|x r IH]; intro a; cbn [fold_left maxl]; [reflexivity|].
  rewrite IH. apply maxl_max.
Qed.

Lemma evalZ_emax rho l v vs :
  omap_list (evalZ rho) l = Some (v :: vs) -> evalZ rho (emax l) = Some (maxl v vs).
Proof.
  intro H. unfold emax. destruct l as [|a [|b r]].
  - discriminate.
  - cbn [omap_list] in H. destruct (evalZ rho a); cbn [obind] in H; [|discriminate]. inversion H. reflexivity.
  - rewrite evalZ_call, H. cbn [obind]. cbn. rewrite fold_left_max_maxl. reflexivity.
Qed.
