(** C36/C35 — shared evaluation lemmas about [Base.Expr]: n-ary sums / products / calls / logical chains through
    [omap_list], and the [Forall2] view of [omap_list]. *)
From Coq Require Import ZArith List Bool String Lia.
From LV Require Import Base.Expr.
Import ListNotations.
Open Scope Z_scope.

Fixpoint sumz (l : list Z) : Z := match l with [] => 0 | x :: r => x + sumz r end.
Fixpoint prodz (l : list Z) : Z := match l with [] => 1 | x :: r => x * prodz r end.
Fixpoint andl (l : list bool) : bool := match l with [] => true | x :: r => x && andl r end.
Fixpoint orl (l : list bool) : bool := match l with [] => false | x :: r => x || orl r end.

Lemma evalZ_call rho f args :
  evalZ rho (ECall f args) =
  obind (omap_list (evalZ rho) args)
        (fun vs => match intrinsic f vs with Some r => r | None => ev_fun rho f vs end).
Proof.
  cbn [evalZ]. f_equal.
  induction args as [|a r IH]; [reflexivity|].
  cbn [omap_list]. rewrite <- IH. reflexivity.
Qed.

Lemma evalZ_sum rho p cs :
  evalZ rho (ESum p cs) = obind (omap_list (evalZ rho) cs) (fun vs => Some (sumz vs)).
Proof.
  cbn [evalZ]. induction cs as [|c r IH]; [reflexivity|].
  cbn [fold_right omap_list]. rewrite IH.
  destruct (evalZ rho c); cbn [obind]; [|reflexivity].
  destruct (omap_list (evalZ rho) r); reflexivity.
Qed.

Lemma evalZ_prod rho p cs :
  evalZ rho (EProd p cs) = obind (omap_list (evalZ rho) cs) (fun vs => Some (prodz vs)).
Proof.
  cbn [evalZ]. induction cs as [|c r IH]; [reflexivity|].
  cbn [fold_right omap_list]. rewrite IH.
  destruct (evalZ rho c); cbn [obind]; [|reflexivity].
  destruct (omap_list (evalZ rho) r); reflexivity.
Qed.

Lemma evalB_and rho cs :
  evalB rho (EAnd cs) = obind (omap_list (evalB rho) cs) (fun vs => Some (andl vs)).
Proof.
  cbn [evalB]. induction cs as [|c r IH]; [reflexivity|].
  cbn [fold_right omap_list]. rewrite IH.
  destruct (evalB rho c); cbn [obind]; [|reflexivity].
  destruct (omap_list (evalB rho) r); reflexivity.
Qed.

Lemma evalB_or rho cs :
  evalB rho (EOr cs) = obind (omap_list (evalB rho) cs) (fun vs => Some (orl vs)).
Proof.
  cbn [evalB]. induction cs as [|c r IH]; [reflexivity|].
  cbn [fold_right omap_list]. rewrite IH.
  destruct (evalB rho c); cbn [obind]; [|reflexivity].
  destruct (omap_list (evalB rho) r); reflexivity.
Qed.

Lemma omap_list_Forall2 {A B} (f : A -> option B) l vs :
  omap_list f l = Some vs <-> Forall2 (fun x v => f x = Some v) l vs.
Proof.
  revert vs. induction l as [|x r IH]; intros vs; cbn [omap_list]; split.
  - intros [= <-]. constructor.
  - intros H. inversion H. reflexivity.
  - destruct (f x) as [y|] eqn:E; cbn [obind]; [|discriminate].
    destruct (omap_list f r) as [ys|] eqn:E2; cbn [obind]; [|discriminate].
    intros [= <-]. constructor; [exact E|]. apply IH. reflexivity.
  - intros H. inversion H as [|? y ? ys Hx Hr]; subst. rewrite Hx. cbn [obind].
    apply IH in Hr. rewrite Hr. reflexivity.
Qed.

Lemma Forall2_length' {A B} (R : A -> B -> Prop) l1 l2 : Forall2 R l1 l2 -> List.length l1 = List.length l2.
Proof. induction 1; cbn; congruence. Qed.

Lemma fold_left_mul_prodz xs x : fold_left Z.mul xs x = x * prodz xs.
Proof. revert x. induction xs as [|y r IH]; intros x; cbn [fold_left prodz]; [lia|]. rewrite IH. lia. Qed.

Lemma fold_left_add_sumz xs x : fold_left Z.add xs x = x + sumz xs.
Proof. revert x. induction xs as [|y r IH]; intros x; cbn [fold_left sumz]; [lia|]. rewrite IH. lia. Qed.

Lemma forallb_Forall {A} (p : A -> bool) l : forallb p l = true -> Forall (fun x => p x = true) l.
Proof. intros H. apply Forall_forall. intros x Hx. eapply forallb_forall in H; eauto. Qed.
