(** C44 — project layer: name resolution vs the providers of modules (F16), rebuild with stale futures (F16b),
    and the property statements instantiated for a project. *)
From Coq Require Import List Bool String Ascii Arith PeanoNat Lia Permutation.
From LV Require Import Base.Strings models.M_C44 proofs.P_C44.
Import ListNotations.
Open Scope list_scope.

Lemma find_file_in fs f : In f fs -> exists f', find_file fs (lower (f_stem f)) = Some f'.
Proof.
  induction fs as [|g r IH]; cbn; intros H; [contradiction|].
  destruct (String.eqb (lower (f_stem g)) (lower (f_stem f))) eqn:E; [eauto|].
  destruct H as [->|H]; [rewrite String.eqb_refl in E; discriminate|auto].
Qed.

(** on the class, a provider of a used module is a code-level dependency that has a source *)
Lemma true_dep_resolved p o g :
  conv_ok p = true -> true_dep p o g -> In g (p_deps p o) /\ p_src p g = true.
Proof.
  intros Hc (fo & fg & m & Hfo & Hfg & -> & Hm & Hprov).
  unfold conv_ok in Hc. rewrite forallb_forall in Hc. specialize (Hc fg Hfg). rewrite forallb_forall in Hc.
  apply in_map_iff in Hprov as (m' & Em & Hm').
  specialize (Hc m' Hm'). apply String.eqb_eq in Hc.
  assert (Eg : lower (f_stem fg) = lower m) by congruence.
  split.
  - unfold p_deps. rewrite Hfo, Eg. now apply in_map.
  - unfold p_src. destruct (find_file_in _ _ Hfg) as (f' & ->). reflexivity.
Qed.

Lemma par_build_fresh src order : par_build src [] order = serial_build src order.
Proof.
  unfold par_build, serial_build. apply filter_ext. intros a. cbn. apply andb_true_r.
Qed.

Lemma order_ok_topo p roots order :
  order_ok p roots order = true -> is_topo_aux (p_src p) (p_deps p) [] order = true.
Proof. unfold order_ok, is_topo. intros H. now apply andb_true_iff in H as [H _]. Qed.

Lemma order_ok_roots p roots order r :
  order_ok p roots order = true -> In r roots -> In r order.
Proof.
  unfold order_ok. intros H Hr. apply andb_true_iff in H as [_ H]. rewrite forallb_forall in H.
  apply mem_In. now apply H.
Qed.

(** * property statements *)

Lemma deps_done_before_start_p p stale roots n order s o d :
  order_ok p roots order = true -> run_of p stale n order s ->
  In d (p_deps p o) -> p_src p d = true -> ~ In d stale ->
  precedes (EFinish d) (EStart o) (log s).
Proof.
  intros Hok Hr Hd Hs Hn t1 t2 E.
  eapply deps_done_before_start; eauto using order_ok_topo.
Qed.

Lemma deps_done_before_submit_p p stale roots n order s o d :
  order_ok p roots order = true -> run_of p stale n order s ->
  In d (p_deps p o) -> p_src p d = true -> ~ In d stale ->
  precedes (EFinish d) (ESubmit o) (log s).
Proof.
  intros Hok Hr Hd Hs Hn t1 t2 E.
  eapply deps_done_before_submit; eauto using order_ok_topo.
Qed.

Lemma provider_first_on_class p roots n order s o g :
  conv_ok p = true -> order_ok p roots order = true -> run_of p [] n order s ->
  true_dep p o g -> precedes (EFinish g) (EStart o) (log s).
Proof.
  intros Hc Hok Hr Ht. destruct (true_dep_resolved _ _ _ Hc Ht) as [Hd Hs].
  eapply deps_done_before_start_p; eauto.
Qed.

Lemma built_once_p p stale roots n order s o :
  order_ok p roots order = true -> run_of p stale n order s -> count_ev (EStart o) (log s) <= 1.
Proof. intros Hok Hr. eapply built_once; eauto using order_ok_topo. Qed.

Lemma pool_bound_p p stale roots n order s :
  order_ok p roots order = true -> run_of p stale n order s -> List.length (running s) <= n.
Proof. intros Hok Hr. eapply pool_bound; eauto using order_ok_topo. Qed.

Lemma no_stuck_p p stale n s :
  1 <= n -> is_final s = false -> exists s', step (p_src p) (p_deps p) stale n s s'.
Proof. apply no_stuck. Qed.

Lemma terminates_p p stale n order k s :
  steps (p_src p) (p_deps p) stale n k (init order) s -> k <= 3 * List.length order.
Proof.
  intros H. apply steps_bounded in H. unfold work_left, init in H. cbn in H. lia.
Qed.

Lemma steps_run_of p stale n order k s :
  steps (p_src p) (p_deps p) stale n k (init order) s -> run_of p stale n order s.
Proof. intros H. eapply reach_steps; [apply reach_init|exact H]. Qed.

Lemma deps_done_before_start_fresh p roots n order s o d :
  order_ok p roots order = true -> run_of p [] n order s ->
  In d (p_deps p o) -> p_src p d = true ->
  precedes (EFinish d) (EStart o) (log s).
Proof. intros. eapply deps_done_before_start_p; eauto. Qed.

Lemma deps_done_before_submit_fresh p roots n order s o d :
  order_ok p roots order = true -> run_of p [] n order s ->
  In d (p_deps p o) -> p_src p d = true ->
  precedes (EFinish d) (ESubmit o) (log s).
Proof. intros. eapply deps_done_before_submit_p; eauto. Qed.

Lemma terminates_run p stale n order k s :
  steps (p_src p) (p_deps p) stale n k (init order) s ->
  k <= 3 * List.length order /\ run_of p stale n order s.
Proof. intros. split; [eapply terminates_p|eapply steps_run_of]; eauto. Qed.

Lemma same_object_set_as_serial p roots n order s :
  order_ok p roots order = true -> run_of p [] n order s -> is_final s = true ->
  Permutation (done s) (serial_build (p_src p) order)
  /\ (forall r, In r roots -> p_src p r = true -> In r (done s)).
Proof.
  intros Hok Hr Hf.
  assert (HP : Permutation (done s) (serial_build (p_src p) order)).
  { rewrite <- par_build_fresh. eapply final_done; eauto using order_ok_topo. }
  split; [exact HP|]. intros r Hin Hs.
  apply (Permutation_in _ (Permutation_sym HP)). unfold serial_build. apply filter_In. split; [|exact Hs].
  eapply order_ok_roots; eauto.
Qed.

Lemma rebuild_compiles p stale roots n order s :
  order_ok p roots order = true -> run_of p stale n order s -> is_final s = true ->
  Permutation (done s) (par_build (p_src p) stale order).
Proof. intros Hok Hr Hf. eapply final_done; eauto using order_ok_topo. Qed.

Lemma stale_never_started_p p stale roots n order s o :
  order_ok p roots order = true -> run_of p stale n order s -> In o stale -> ~ In (EStart o) (log s).
Proof. intros Hok Hr. eapply stale_never_started; eauto using order_ok_topo. Qed.

Lemma accept_sound_p p stale n order tr s :
  accept (p_src p) (p_deps p) stale n order tr = Some s ->
  run_of p stale n order s /\ is_final s = true /\ log s = tr.
Proof. apply accept_sound. Qed.

Lemma chk_trace_sound p stale roots order n tr compiled :
  chk_trace p stale roots order n tr compiled = true ->
  order_ok p roots order = true /\
  exists s, run_of p stale n order s /\ is_final s = true /\ log s = tr
            /\ (forall o, In o (done s) <-> In o compiled).
Proof.
  unfold chk_trace. intros H. apply andb_true_iff in H as [Hok H]. split; [exact Hok|].
  destruct (accept _ _ _ _ _ _) as [s|] eqn:E; [|discriminate].
  apply andb_true_iff in H as [H _]. destruct (accept_sound_p _ _ _ _ _ _ E) as (Hr & Hf & Hl).
  exists s. repeat split; try assumption.
  - intros Ho. unfold same_set, subset in H. apply andb_true_iff in H as [H _].
    rewrite forallb_forall in H. apply mem_In. now apply H.
  - intros Ho. unfold same_set, subset in H. apply andb_true_iff in H as [_ H].
    rewrite forallb_forall in H. apply mem_In. now apply H.
Qed.

(** * F16: a module provided by a file of another name *)
Definition f16_proj : project :=
  mkProj [mkFile "foo" ["bar_mod"%string] [] []; mkFile "zuser" [] ["bar_mod"%string] []] [].
Definition f16_roots : list node := ["foo"%string; "zuser"%string].
(** the order the real code computes for this project (reversed networkx topological sort) *)
Definition f16_order : list node := ["bar_mod"%string; "zuser"%string; "foo"%string].
Definition f16_state : state :=
  mkState ["foo"%string] [] ["zuser"%string] [] [ESubmit "zuser"; EStart "zuser"].

Lemma provider_first_refuted :
  exists p roots n order s o g,
    order_ok p roots order = true /\ run_of p [] n order s /\ true_dep p o g /\
    In (EStart o) (log s) /\ ~ In (EFinish g) (log s).
Proof.
  exists f16_proj, f16_roots, 1, f16_order, f16_state, "zuser"%string, "foo"%string.
  split; [vm_compute; reflexivity|]. split; [|split; [|split]].
  - assert (E : acc_run (p_src f16_proj) (p_deps f16_proj) [] 1 (init f16_order)
                  [ESubmit "zuser"; EStart "zuser"] = Some f16_state) by (vm_compute; reflexivity).
    unfold run_of. eapply acc_run_reach; [apply reach_init|exact E].
  - exists (mkFile "zuser" [] ["bar_mod"%string] []), (mkFile "foo" ["bar_mod"%string] [] []), "bar_mod"%string.
    repeat split; cbn; auto.
  - cbn. auto.
  - cbn. intros [H|[H|[]]]; discriminate.
Qed.

(** * F16b: building the same Lib a second time in one process *)
Definition f16b_proj : project :=
  mkProj [mkFile "m_a" ["m_a"%string] [] []; mkFile "s_c" [] ["m_a"%string] []] [].
Definition f16b_roots : list node := ["m_a"%string; "s_c"%string].
Definition f16b_order : list node := ["m_a"%string; "s_c"%string].
Definition f16b_trace : list event := [ESubmit "m_a"; EStart "m_a"; EFinish "m_a"].
Definition f16b_state : state := mkState [] [] [] ["m_a"%string] f16b_trace.

Lemma rebuild_refuted :
  exists p roots n order s o,
    conv_ok p = true /\ order_ok p roots order = true /\
    run_of p (stale_after p roots) n order s /\ is_final s = true /\
    In o (serial_build (p_src p) order) /\ ~ In o (done s).
Proof.
  exists f16b_proj, f16b_roots, 3, f16b_order, f16b_state, "s_c"%string.
  split; [vm_compute; reflexivity|]. split; [vm_compute; reflexivity|]. split; [|split; [|split]].
  - assert (E : accept (p_src f16b_proj) (p_deps f16b_proj) (stale_after f16b_proj f16b_roots) 3 f16b_order f16b_trace
                = Some f16b_state) by (vm_compute; reflexivity).
    now apply accept_sound_p in E.
  - reflexivity.
  - vm_compute. auto.
  - cbn. intros [H|[]]. discriminate.
Qed.

(** * a non-trivial instance of the hypotheses *)
Definition ex_proj : project :=
  mkProj [mkFile "m_1" ["m_1"%string] ["iso_fortran_env"%string] [];
          mkFile "m_2" ["M_2"%string] ["m_1"%string] [];
          mkFile "M_3" ["m_3"%string] ["M_1"%string] [];
          mkFile "m_4" ["m_4"%string] ["m_2"%string; "m_3"%string] [];
          mkFile "s_5" [] [] ["hdr"%string]]
         [("hdr"%string, ["m_3"%string])].
Definition ex_roots : list node := ["m_1"; "m_2"; "m_3"; "m_4"; "s_5"]%string.
Definition ex_order : list node := ["iso_fortran_env"; "m_1"; "m_3"; "s_5"; "m_2"; "m_4"]%string.
Definition ex_trace : list event :=
  [ESubmit "m_1"; EStart "m_1"; EFinish "m_1"; ESubmit "m_3"; ESubmit "m_2"%string; EStart "m_2"; EStart "m_3";
   EFinish "m_3"; ESubmit "s_5"; EStart "s_5"; EFinish "m_2"; ESubmit "m_4"; EFinish "s_5"; EStart "m_4"; EFinish "m_4"].
(** note: this trace is NOT a run (s_5 comes before m_2 in the order, the main thread cannot submit m_2 first) *)
Definition ex_trace_ok : list event :=
  [ESubmit "m_1"; EStart "m_1"; EFinish "m_1"; ESubmit "m_3"; EStart "m_3"; EFinish "m_3"; ESubmit "s_5";
   ESubmit "m_2"; EStart "m_2"; EStart "s_5"; EFinish "m_2"; ESubmit "m_4"; EFinish "s_5"; EStart "m_4"; EFinish "m_4"].

Lemma example_nontrivial :
  conv_ok ex_proj = true /\
  chk_trace ex_proj [] ex_roots ex_order 2 ex_trace_ok ["m_1"; "m_2"; "m_3"; "m_4"; "s_5"]%string = true /\
  chk_trace ex_proj [] ex_roots ex_order 2 ex_trace ["m_1"; "m_2"; "m_3"; "m_4"; "s_5"]%string = false /\
  chk_trace ex_proj [] ex_roots ex_order 1 ex_trace_ok ["m_1"; "m_2"; "m_3"; "m_4"; "s_5"]%string = false /\
  true_dep ex_proj "s_5" "m_3".
Proof.
  split; [vm_compute; reflexivity|]. split; [vm_compute; reflexivity|].
  split; [vm_compute; reflexivity|]. split; [vm_compute; reflexivity|].
  exists (mkFile "s_5" [] [] ["hdr"%string]), (mkFile "M_3" ["m_3"%string] ["M_1"%string] []), "m_3"%string.
  repeat split; vm_compute; auto.
Qed.
