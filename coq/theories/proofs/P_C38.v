(** C38 — the storage theorems: high-water mark = computed size, live temporaries are disjoint and inside the
    stack, the pointer is restored after every call, blocks do not overlap. *)
From Coq Require Import ZArith List Bool String Lia.
From LV Require Import Base.Expr models.M_C38 proofs.P_C38_expr.
Import ListNotations.
Open Scope string_scope.
Open Scope list_scope.
Open Scope Z_scope.

Scheme ktree_mut := Induction for ktree Sort Prop
with kcalls_mut := Induction for kcalls Sort Prop.
Combined Scheme ktree_kcalls_ind from ktree_mut, kcalls_mut.

Definition funeq (r1 r2 : env) : Prop := forall f a, ev_fun r1 f a = ev_fun r2 f a.
Definition agree (ps : list string) (r1 r2 : env) : Prop :=
  (forall x, In x ps -> ev_var r1 x = ev_var r2 x) /\ funeq r1 r2.

Fixpoint max0 (l : list Z) : Z := match l with [] => 0 | x :: r => Z.max x (max0 r) end.

Lemma max0_nonneg l : 0 <= max0 l.
Proof. induction l; cbn; lia. Qed.

Lemma maxl_max0 a v r :
  0 <= v -> Forall (fun w => 0 <= w) r -> maxl (a + v) (map (Z.add a) r) = a + max0 (v :: r).
Proof.
  intros Hv F. revert v Hv. induction F as [|y q Hy _ IH]; intros v Hv.
  - cbn. lia.
  - cbn [map maxl]. rewrite (IH y Hy). cbn [max0]. lia.
Qed.

(** ** facts about [mem] / [closedb] / [lookup] *)
Lemma mem_In x l : mem x l = true <-> In x l.
Proof.
  unfold mem. rewrite existsb_exists. split.
  - intros [y [Hy E]]. apply String.eqb_eq in E. subst. exact Hy.
  - intro H. exists x. split; [exact H|apply String.eqb_refl].
Qed.

Lemma closedb_vars ps e x : closedb ps e = true -> In x (vars e) -> In x ps.
Proof.
  unfold closedb. rewrite forallb_forall. intros H Hx. apply mem_In. apply H. exact Hx.
Qed.

Lemma eval_closed ps r1 r2 e : closedb ps e = true -> agree ps r1 r2 -> evalZ r1 e = evalZ r2 e.
Proof.
  intros C [Av Af]. apply evalZ_ext; [exact Af|].
  intros x Hx. apply Av. eapply closedb_vars; eauto.
Qed.

Lemma omap_closed ps r1 r2 l :
  forallb (closedb ps) l = true -> agree ps r1 r2 -> omap_list (evalZ r1) l = omap_list (evalZ r2) l.
Proof.
  intros C A. apply omap_list_ext. rewrite Forall_forall. intros e He.
  rewrite forallb_forall in C. eapply eval_closed; eauto.
Qed.

Lemma lookup_in ps vs x : List.length ps = List.length vs -> In x ps -> exists v, lookup ps vs x = Some v.
Proof.
  revert vs. induction ps as [|p pr IH]; intros vs HL Hx; [destruct Hx|].
  destruct vs as [|v vr]; [discriminate|]. cbn [lookup].
  destruct (String.eqb p x) eqn:E; [eauto|].
  destruct Hx as [Hx|Hx]; [subst; rewrite String.eqb_refl in E; discriminate|].
  apply IH; [cbn in HL; lia|exact Hx].
Qed.

Lemma agree_bind ps vs g r :
  List.length ps = List.length vs -> funeq r g -> agree ps (upd r ps vs) (bind g ps vs).
Proof.
  intros HL Hf. split.
  - intros x Hx. destruct (lookup_in ps vs x HL Hx) as [v Hv]. cbn. rewrite Hv. reflexivity.
  - intros f a. cbn. apply Hf.
Qed.

Lemma agree_trans_bind ps vs r1 g :
  List.length ps = List.length vs -> funeq r1 g ->
  agree ps (upd (upd r1 ps vs) ps vs) (bind g ps vs).
Proof.
  intros HL Hf. apply agree_bind; [exact HL|]. intros f a. cbn. apply Hf.
Qed.

(** ** bump *)
Lemma bump_spec rho szs p iv q :
  bump rho szs p = Some (iv, q) ->
  exists vs, omap_list (evalZ rho) szs = Some vs /\ q = p + sumz vs /\ Forall (fun v => 0 <= v) vs /\ chain p iv q.
Proof.
  revert p iv q. induction szs as [|e r IH]; intros p iv q H; cbn [bump] in H.
  - inversion H; subst. exists []. cbn. repeat split; [lia|constructor|lia].
  - destruct (evalZ rho e) as [v|] eqn:Ev; [|discriminate].
    destruct (v <? 0) eqn:Neg; [discriminate|]. apply Z.ltb_ge in Neg.
    destruct (bump rho r (p + v)) as [[iv' q']|] eqn:B; [|discriminate].
    inversion H; subst. destruct (IH _ _ _ B) as [vs [E [Q [F Ch]]]].
    exists (v :: vs). cbn [omap_list]. rewrite Ev, E. cbn [obind sumz chain].
    repeat split; try lia; [constructor; assumption|exact Ch].
Qed.

Lemma chain_mono lo l hi hi' : chain lo l hi -> hi <= hi' -> chain lo l hi'.
Proof.
  revert lo. induction l as [|[a b] r IH]; intros lo H L; cbn [chain] in *; [lia|].
  destruct H as [H1 [H2 H3]]. repeat split; try assumption. apply IH; assumption.
Qed.

Lemma chain_le lo l hi : chain lo l hi -> lo <= hi.
Proof.
  revert lo. induction l as [|[a b] r IH]; intros lo H; cbn [chain] in *; [lia|].
  destruct H as [H1 [H2 H3]]. specialize (IH _ H3). lia.
Qed.

Lemma chain_app lo l1 mid l2 hi : chain lo l1 mid -> chain mid l2 hi -> chain lo (l1 ++ l2) hi.
Proof.
  revert lo. induction l1 as [|[a b] r IH]; intros lo H1 H2; cbn [chain app] in *.
  - destruct l2 as [|[c d] q]; cbn [chain] in *; [lia|]. destruct H2 as [X [Y Z]]. repeat split; try assumption. lia.
  - destruct H1 as [X [Y Z]]. repeat split; try assumption. apply IH; assumption.
Qed.

Lemma chain_bounds lo l hi :
  chain lo l hi -> Forall (fun iv => lo <= fst iv /\ fst iv <= snd iv /\ snd iv <= hi) l.
Proof.
  revert lo. induction l as [|[a b] r IH]; intros lo H; [constructor|].
  cbn [chain] in H. destruct H as [X [Y Z]]. constructor.
  - cbn. pose proof (chain_le _ _ _ Z). lia.
  - specialize (IH _ Z). eapply Forall_impl; [|exact IH]. cbn. intros iv [A [B C]]. lia.
Qed.

Lemma chain_pairs lo l hi : chain lo l hi -> ForallOrdPairs (fun x y => snd x <= fst y) l.
Proof.
  revert lo. induction l as [|[a b] r IH]; intros lo H; [constructor|].
  cbn [chain] in H. destruct H as [X [Y Z]]. constructor.
  - pose proof (chain_bounds _ _ _ Z) as B. eapply Forall_impl; [|exact B]. cbn. intros iv [A _]. exact A.
  - eapply IH. exact Z.
Qed.

(** ** the dummy is never assigned: the pointer the caller passed is what it gets back *)
Lemma sim_reset g k rho p live d h sn : sim g k rho p live = Some (d, h, sn) -> d = p.
Proof.
  destruct k as [ps szs cs]. cbn [sim]. intro H.
  destruct (bump rho szs p) as [[iv pl]|]; [|discriminate].
  destruct (simcs g cs rho pl (live ++ iv)) as [[[x y] z]|]; [|discriminate].
  inversion H. reflexivity.
Qed.

Lemma simcs_reset g cs rho pl live pl' h sn : simcs g cs rho pl live = Some (pl', h, sn) -> pl' = pl.
Proof.
  revert pl pl' h sn. induction cs as [|acts k rest IH]; intros pl pl' h sn H; cbn [simcs] in H.
  - inversion H. reflexivity.
  - destruct (call_env g rho (kparams k) acts) as [rc|]; [|discriminate].
    destruct (sim g k rc pl live) as [[[d h1] s1]|] eqn:S; [|discriminate].
    apply sim_reset in S. subst d.
    destruct (simcs g rest rho pl live) as [[[q h2] s2]|] eqn:R; [|discriminate].
    inversion H; subst. eapply IH. exact R.
Qed.

(** ** snapshots: ordered stack discipline *)
Lemma sim_chain :
  (forall k g rho p live d h sn base,
      sim g k rho p live = Some (d, h, sn) -> chain base live p ->
      p <= h /\ Forall (fun s => chain base s h) sn) /\
  (forall cs g rho pl live pl' h sn base,
      simcs g cs rho pl live = Some (pl', h, sn) -> chain base live pl ->
      pl <= h /\ Forall (fun s => chain base s h) sn).
Proof.
  apply ktree_kcalls_ind.
  - intros ps szs cs IHcs g rho p live d h sn base H Ch. cbn [sim] in H.
    destruct (bump rho szs p) as [[iv pl]|] eqn:B; [|discriminate].
    destruct (bump_spec _ _ _ _ _ B) as [vs [_ [Q [F Ci]]]].
    destruct (simcs g cs rho pl (live ++ iv)) as [[[x h1] s1]|] eqn:S; [|discriminate].
    inversion H; subst. pose proof (chain_app _ _ _ _ _ Ch Ci) as Cl.
    destruct (IHcs _ _ _ _ _ _ _ _ S Cl) as [L1 F1].
    pose proof (chain_le _ _ _ Ci). split; [lia|]. constructor.
    + eapply chain_mono; [exact Cl|lia].
    + eapply Forall_impl; [|exact F1]. intros s Hs. eapply chain_mono; [exact Hs|lia].
  - intros g rho pl live pl' h sn base H Ch. cbn [simcs] in H. inversion H; subst. split; [lia|constructor].
  - intros acts k IHk rest IHrest g rho pl live pl' h sn base H Ch. cbn [simcs] in H.
    destruct (call_env g rho (kparams k) acts) as [rc|]; [|discriminate].
    destruct (sim g k rc pl live) as [[[d h1] s1]|] eqn:S; [|discriminate].
    pose proof (sim_reset _ _ _ _ _ _ _ _ S). subst d.
    destruct (simcs g rest rho pl live) as [[[q h2] s2]|] eqn:R; [|discriminate].
    inversion H; subst.
    destruct (IHk _ _ _ _ _ _ _ _ S Ch) as [L1 F1].
    destruct (IHrest _ _ _ _ _ _ _ _ R Ch) as [L2 F2].
    split; [lia|]. apply Forall_app. split.
    + eapply Forall_impl; [|exact F1]. intros s Hs. eapply chain_mono; [exact Hs|lia].
    + eapply Forall_impl; [|exact F2]. intros s Hs. eapply chain_mono; [exact Hs|lia].
Qed.

(** ** the high-water mark is the value of the computed size *)
Lemma idem_vals rho ps acts vs :
  List.length ps = List.length acts ->
  omap_list (evalZ rho) acts = Some vs ->
  idem_call ps acts = true ->
  omap_list (evalZ (upd rho ps vs)) acts = Some vs.
Proof.
  intros HL HE HI. rewrite <- HE. apply omap_list_ext. rewrite Forall_forall. intros a Ha.
  apply evalZ_ext; [intros f x; reflexivity|].
  intros y Hy. unfold idem_call in HI. rewrite forallb_forall in HI. specialize (HI a Ha).
  rewrite forallb_forall in HI. specialize (HI y Hy).
  pose proof (assoc_combine_lookup rho ps acts vs y HL HE) as A.
  destruct (assoc_e (combine ps acts) y) as [b|].
  - destruct b; try discriminate. apply String.eqb_eq in HI. subst x.
    destruct A as [v [Ev Lv]]. cbn in Ev. inversion Ev. cbn. rewrite Lv. subst v. reflexivity.
  - cbn. rewrite A. reflexivity.
Qed.

Lemma sim_size (dbl : bool) :
  (forall k, closed_tree k = true -> (dbl = true -> idem_tree k = true) ->
     forall g rho p live d h sn, sim g k rho p live = Some (d, h, sn) -> funeq rho g ->
     forall rho', agree (kparams k) rho' rho -> evalZ rho' (ssize dbl k) = Some (h - p) /\ p <= h) /\
  (forall cs ps, closed_cs ps cs = true -> (dbl = true -> idem_cs cs = true) ->
     forall g rho pl live pl' h sn, simcs g cs rho pl live = Some (pl', h, sn) -> funeq rho g ->
     forall rho' loc lv, agree ps rho' rho -> evalZ rho' loc = Some lv ->
     exists vs, omap_list (evalZ rho') (csize dbl loc cs) = Some (map (Z.add lv) vs)
                /\ Forall (fun v => 0 <= v) vs /\ h = pl + max0 vs /\ (cs <> KNil -> vs <> [])).
Proof.
  apply ktree_kcalls_ind.
  - (* kernel *)
    intros ps szs cs IHcs C I g rho p live d h sn H Fg rho' A.
    cbn [closed_tree] in C. apply andb_prop in C. destruct C as [Cs Cc].
    cbn [sim] in H.
    destruct (bump rho szs p) as [[iv pl]|] eqn:B; [|discriminate].
    destruct (bump_spec _ _ _ _ _ B) as [vs [E [Q [F _]]]].
    destruct (simcs g cs rho pl (live ++ iv)) as [[[x h1] s1]|] eqn:S; [|discriminate].
    inversion H; subst d h sn. clear H.
    assert (Eloc : evalZ rho' (ESum false szs) = Some (sumz vs)).
    { rewrite evalZ_sum. cbn [kparams] in A. rewrite (omap_closed ps rho' rho szs Cs A), E. reflexivity. }
    assert (Nn : 0 <= sumz vs) by (clear -F; induction F; cbn; lia).
    assert (Ic : dbl = true -> idem_cs cs = true) by (intro D; specialize (I D); exact I).
    destruct (IHcs ps Cc Ic _ _ _ _ _ _ _ S Fg rho' _ _ A Eloc) as [ws [Ew [Fw [Hh Ne]]]].
    cbn [ssize]. destruct cs as [|acts k rest].
    + cbn [simcs] in S. inversion S; subst. rewrite Eloc. split; [f_equal|]; lia.
    + assert (Nw : ws <> []) by (apply Ne; discriminate).
      destruct ws as [|w wr]; [congruence|]. cbn [map] in Ew.
      rewrite (evalZ_emax _ _ _ _ Ew).
      inversion Fw; subst. rewrite maxl_max0 by assumption.
      pose proof (max0_nonneg (w :: wr)). split; [f_equal|]; lia.
  - (* no calls *)
    intros ps C I g rho pl live pl' h sn H Fg rho' loc lv A El. cbn [simcs] in H. inversion H; subst.
    exists []. cbn. repeat split; [constructor|lia|congruence].
  - (* a call *)
    intros acts k IHk rest IHrest ps C I g rho pl live pl' h sn H Fg rho' loc lv A El.
    cbn [closed_cs] in C. apply andb_prop in C. destruct C as [C Cr]. apply andb_prop in C. destruct C as [Ca Ck].
    cbn [simcs] in H.
    destruct (call_env g rho (kparams k) acts) as [rc|] eqn:CE; [|discriminate].
    unfold call_env in CE. destruct (Nat.eqb (List.length (kparams k)) (List.length acts)) eqn:HL; [|discriminate].
    apply Nat.eqb_eq in HL.
    destruct (omap_list (evalZ rho) acts) as [avs|] eqn:EA; [|discriminate]. inversion CE; subst rc. clear CE.
    destruct (sim g k (bind g (kparams k) avs) pl live) as [[[d h1] s1]|] eqn:S; [|discriminate].
    pose proof (sim_reset _ _ _ _ _ _ _ _ S). subst d.
    destruct (simcs g rest rho pl live) as [[[q h2] s2]|] eqn:R; [|discriminate].
    inversion H; subst pl' h sn. clear H.
    assert (EA' : omap_list (evalZ rho') acts = Some avs) by (rewrite (omap_closed ps rho' rho acts Ca A); exact EA).
    assert (HLv : List.length (kparams k) = List.length avs) by (rewrite (omap_list_length _ _ _ EA); exact HL).
    assert (Fb : funeq (bind g (kparams k) avs) g) by (intros f a; reflexivity).
    assert (Fr' : funeq rho' g) by (intros f a; destruct A as [_ Af]; rewrite Af; apply Fg).
    assert (Ik : dbl = true -> idem_tree k = true).
    { intro D. specialize (I D). cbn [idem_cs] in I. apply andb_prop in I. destruct I as [I _].
      apply andb_prop in I. destruct I as [_ I]. exact I. }
    assert (Ir : dbl = true -> idem_cs rest = true).
    { intro D. specialize (I D). cbn [idem_cs] in I. apply andb_prop in I. destruct I as [_ I]. exact I. }
    assert (Es : evalZ rho' (substn dbl (kparams k) acts (ssize dbl k)) = Some (h1 - pl) /\ pl <= h1).
    { unfold substn. destruct dbl.
      - assert (Ic : idem_call (kparams k) acts = true).
        { specialize (I eq_refl). cbn [idem_cs] in I. apply andb_prop in I. destruct I as [I _].
          apply andb_prop in I. destruct I as [I _]. exact I. }
        rewrite (subst_eval rho' _ _ avs _ HL EA').
        rewrite (subst_eval (upd rho' (kparams k) avs) _ _ avs _ HL (idem_vals _ _ _ _ HL EA' Ic)).
        apply (IHk Ck Ik _ _ _ _ _ _ _ S Fb).
        apply agree_trans_bind; assumption.
      - rewrite (subst_eval rho' _ _ avs _ HL EA').
        apply (IHk Ck Ik _ _ _ _ _ _ _ S Fb).
        apply agree_bind; assumption. }
    destruct Es as [Es Lh].
    destruct (IHrest ps Cr Ir _ _ _ _ _ _ _ R Fg rho' loc lv A El) as [ws [Ew [Fw [Hh _]]]].
    exists ((h1 - pl) :: ws). cbn [csize omap_list map].
    rewrite evalZ_sum. cbn [omap_list]. rewrite El, Es. cbn [obind sumz]. rewrite Ew. cbn [obind].
    repeat split.
    + do 2 f_equal. lia.
    + constructor; [lia|exact Fw].
    + cbn [max0]. lia.
    + congruence.
Qed.

Lemma agree_refl ps r : agree ps r r.
Proof. split; [reflexivity|intros f a; reflexivity]. Qed.

Theorem highwater_eq_size dbl g k rho p live d h sn :
  closed_tree k = true -> (dbl = true -> idem_tree k = true) -> funeq rho g ->
  sim g k rho p live = Some (d, h, sn) ->
  evalZ rho (ssize dbl k) = Some (h - p) /\ p <= h.
Proof.
  intros C I F H. destruct (sim_size dbl) as [P _].
  exact (P k C I g rho p live d h sn H F rho (agree_refl _ _)).
Qed.

Theorem highwater_le_size g k rho p live d h sn v :
  closed_tree k = true -> funeq rho g ->
  sim g k rho p live = Some (d, h, sn) -> evalZ rho (ssize false k) = Some v -> h <= p + v.
Proof.
  intros C F H E. destruct (highwater_eq_size false g k rho p live d h sn C (fun X => False_ind _ (Bool.diff_false_true X)) F H) as [E' _].
  rewrite E in E'. inversion E'. lia.
Qed.

Theorem allocations_disjoint dbl g k rho base d h sn v :
  closed_tree k = true -> (dbl = true -> idem_tree k = true) -> funeq rho g ->
  sim g k rho base [] = Some (d, h, sn) -> evalZ rho (ssize dbl k) = Some v ->
  Forall (fun s => ForallOrdPairs disjoint s /\
                   Forall (fun iv => base <= fst iv /\ fst iv <= snd iv /\ snd iv <= base + v) s) sn.
Proof.
  intros C I F H E.
  destruct (highwater_eq_size dbl g k rho base [] d h sn C I F H) as [E' L].
  rewrite E in E'. inversion E'. subst v.
  destruct sim_chain as [P _].
  assert (C0 : chain base [] base) by (cbn; lia).
  destruct (P k g rho base [] d h sn base H C0) as [_ Fs].
  eapply Forall_impl; [|exact Fs]. intros s Hs. split.
  - pose proof (chain_pairs _ _ _ Hs) as Pp. clear -Pp.
    induction Pp as [|x l Hx _ IH]; constructor; [|exact IH].
    eapply Forall_impl; [|exact Hx]. intros y Hy. left. exact Hy.
  - replace (base + (h - base)) with h by lia. apply chain_bounds. exact Hs.
Qed.

Theorem stack_reset_after_call g cs rho pl live pl' h sn :
  simcs g cs rho pl live = Some (pl', h, sn) -> pl' = pl.
Proof. apply simcs_reset. Qed.

(** the size expression of the callee, substituted with the actuals, evaluates in the caller to the value it
    has in the callee's own environment *)
Theorem hoist_size_subst_correct g rho ps acts rc e :
  call_env g rho ps acts = Some rc -> closedb ps e = true -> funeq rho g ->
  evalZ rho (subst (combine ps acts) e) = evalZ rc e.
Proof.
  unfold call_env. intros CE C F.
  destruct (Nat.eqb (List.length ps) (List.length acts)) eqn:HL; [|discriminate]. apply Nat.eqb_eq in HL.
  destruct (omap_list (evalZ rho) acts) as [vs|] eqn:EA; [|discriminate]. inversion CE; subst rc.
  rewrite (subst_eval rho ps acts vs e HL EA).
  eapply eval_closed; [exact C|]. apply agree_bind; [|exact F].
  rewrite (omap_list_length _ _ _ EA). exact HL.
Qed.

(** blocks of the driver's stack do not overlap and stay inside the allocation *)
Theorem block_ranges_disjoint size nb b1 b2 :
  0 <= size -> 1 <= b1 -> b1 < b2 -> b2 <= nb ->
  block_base size b1 + size <= block_base size b2 /\ 0 <= block_base size b1 /\ block_base size b2 + size <= nb * size.
Proof. unfold block_base. intros. nia. Qed.

(** pool units: the words reserved for a temporary cover its bytes, and the byte bump (8*words) is what the
    driver multiplies out *)
Theorem pool_words_cover_bytes n b : 0 <= n -> 0 <= b -> n * b <= 8 * ((n * b + 7) / 2 ^ 3) < n * b + 8.
Proof.
  intros Hn Hb. change (2 ^ 3) with 8. assert (Hm : 0 <= n * b) by nia.
  remember (n * b) as m. clear Heqm Hn Hb n b.
  pose proof (Z.div_mod (m + 7) 8 ltac:(lia)). pose proof (Z.mod_pos_bound (m + 7) 8 ltac:(lia)). lia.
Qed.

Lemma evalZ_pool_units rho t ds :
  omap_list (evalZ rho) (t_dims t) = Some ds -> 0 <= prodz ds * t_bytes t ->
  (forall f a, ev_fun rho f a = cfun f a) ->
  evalZ rho (units MPool t) = Some ((prodz ds * t_bytes t + 7) / 2 ^ 3).
Proof.
  intros E N F. unfold units. rewrite evalZ_call. cbn [omap_list]. rewrite evalZ_sum. cbn [omap_list].
  rewrite evalZ_prod.
  assert (E2 : omap_list (evalZ rho) (t_dims t ++ [ECall "c_sizeof" [EInt (t_bytes t)]]) = Some (ds ++ [t_bytes t])).
  { clear N. revert ds E. induction (t_dims t) as [|e r IH]; intros ds E; cbn [omap_list app] in *.
    - inversion E. rewrite evalZ_call. cbn. rewrite F. cbn. reflexivity.
    - destruct (evalZ rho e); cbn [obind] in *; [|discriminate].
      destruct (omap_list (evalZ rho) r) eqn:Er; cbn [obind] in *; [|discriminate].
      inversion E. rewrite (IH l eq_refl). reflexivity. }
  rewrite E2. cbn [obind].
  assert (P : prodz (ds ++ [t_bytes t]) = prodz ds * t_bytes t).
  { clear. induction ds as [|x r IH]; cbn [prodz app]; [lia|]. rewrite IH. lia. }
  rewrite P. cbn [evalZ obind sumz]. cbn [intrinsic]. cbn. rewrite F. unfold cfun.
  destruct (prodz ds * t_bytes t + 7 <? 0) eqn:Ng; [apply Z.ltb_lt in Ng; cbn; lia|].
  cbn. reflexivity.
Qed.
