(** C20 — clone_with_span records exactly the lines that hold the span. *)
From Coq Require Import ZArith List Bool String Ascii Lia Arith.
From LV Require Import Base.Strings models.M_C20 proofs.P_C20_base.
Import ListNotations.
Open Scope Z_scope.

Lemma forallb_cons {A} (f : A -> bool) x l : forallb f (x :: l) = true -> f x = true /\ forallb f l = true.
Proof. cbn. intros H. apply andb_prop in H. exact H. Qed.

(** the number of line breaks before column [ca] of line [i] is [i] *)
Lemma count_nl_line_start ls : forall i l ca,
  forallb no_nl ls = true -> nth_error ls i = Some l -> (ca <= len l)%nat ->
  count_nl (stake (line_start ls i + ca) (join_nl ls)) = Z.of_nat i.
Proof.
  induction ls as [|l0 r IH]; intros i l ca Hn Hi Hc.
  - destruct i; discriminate.
  - apply forallb_cons in Hn. destruct Hn as [Hn0 Hnr].
    destruct i as [|i'].
    + cbn in Hi. injection Hi as <-. cbn [line_start plus].
      destruct r as [|x r'].
      * cbn [join_nl]. rewrite (no_nl_count _ (no_nl_stake ca l0 Hn0)). reflexivity.
      * rewrite join_nl_cons_ne by discriminate. rewrite stake_app_le by exact Hc.
        rewrite (no_nl_count _ (no_nl_stake ca l0 Hn0)). reflexivity.
    + cbn [nth_error] in Hi.
      assert (Hr : r <> []) by (destruct r; [destruct i'; discriminate|discriminate]).
      rewrite join_nl_cons_ne by exact Hr.
      cbn [line_start]. unfold slen.
      replace (len l0 + 1 + line_start r i' + ca)%nat with (len l0 + S (line_start r i' + ca))%nat by lia.
      rewrite stake_app_ge. cbn [stake]. rewrite count_nl_app. cbn [count_nl].
      rewrite (no_nl_count _ Hn0), (IH i' l ca Hnr Hi Hc).
      unfold is_nl. rewrite Ascii.eqb_refl. lia.
Qed.

(** every offset of the text lies on exactly one (line, column) *)
Lemma offset_line_exists ls : ls <> [] -> forall a, (a <= len (join_nl ls))%nat ->
  exists i l ca, nth_error ls i = Some l /\ (ca <= len l)%nat /\ a = (line_start ls i + ca)%nat.
Proof.
  induction ls as [|l0 r IH]; intros Hne a Ha; [congruence|].
  destruct (le_lt_dec a (len l0)) as [Hle|Hgt].
  - exists 0%nat, l0, a. cbn. split; [reflexivity|]. split; [exact Hle|reflexivity].
  - destruct r as [|x r'].
    + cbn [join_nl] in Ha. lia.
    + rewrite join_nl_cons_ne in Ha by discriminate. rewrite len_app in Ha. cbn [len] in Ha.
      destruct (IH ltac:(discriminate) (a - len l0 - 1)%nat ltac:(lia)) as (i & l & ca & Hi & Hc & Ea).
      exists (S i), l, ca. split; [exact Hi|]. split; [exact Hc|].
      change (line_start (l0 :: x :: r') (S i)) with (slen l0 + 1 + line_start (x :: r') i)%nat. unfold slen. lia.
Qed.

Lemma offset_line_unique ls : forall i i' l l' ca ca',
  nth_error ls i = Some l -> nth_error ls i' = Some l' -> (ca <= len l)%nat -> (ca' <= len l')%nat ->
  (line_start ls i + ca = line_start ls i' + ca')%nat -> i = i' /\ ca = ca'.
Proof.
  induction ls as [|l0 r IH]; intros i i' l l' ca ca' Hi Hi' Hc Hc' E.
  - destruct i; discriminate.
  - destruct i as [|i], i' as [|i']; cbn [nth_error line_start] in *; unfold slen in *.
    + split; [reflexivity|lia].
    + injection Hi as <-. lia.
    + injection Hi' as <-. lia.
    + destruct (IH i i' l l' ca ca' Hi Hi' Hc Hc' ltac:(lia)) as [-> ->]. split; reflexivity.
Qed.

Lemma stake_join ls : forall j l cb, nth_error ls j = Some l -> (cb <= len l)%nat ->
  stake (line_start ls j + cb) (join_nl ls) = join_nl (firstn j ls ++ [stake cb l]).
Proof.
  induction ls as [|l0 r IH]; intros j l cb Hj Hc.
  - destruct j; discriminate.
  - destruct j as [|j'].
    + cbn in Hj. injection Hj as <-. cbn [line_start plus firstn app].
      change (join_nl [stake cb l0]) with (stake cb l0).
      destruct r as [|x r']; [reflexivity|].
      rewrite join_nl_cons_ne by discriminate. apply stake_app_le. exact Hc.
    + cbn [nth_error] in Hj.
      assert (Hr : r <> []) by (destruct r; [destruct j'; discriminate|discriminate]).
      rewrite join_nl_cons_ne by exact Hr.
      cbn [line_start firstn app]. unfold slen.
      replace (len l0 + 1 + line_start r j' + cb)%nat with (len l0 + S (line_start r j' + cb))%nat by lia.
      rewrite stake_app_ge. cbn [stake]. rewrite (IH j' l cb Hj Hc).
      rewrite join_nl_cons_ne; [reflexivity|].
      destruct (firstn j' r); discriminate.
Qed.

Lemma sskip_join ls : forall i l ca, nth_error ls i = Some l -> (ca <= len l)%nat ->
  sskip (line_start ls i + ca) (join_nl ls) = join_nl (sskip ca l :: skipn (S i) ls).
Proof.
  induction ls as [|l0 r IH]; intros i l ca Hi Hc.
  - destruct i; discriminate.
  - destruct i as [|i'].
    + cbn in Hi. injection Hi as <-. cbn [line_start plus skipn].
      destruct r as [|x r']; [reflexivity|].
      rewrite !join_nl_cons_ne by discriminate. apply sskip_app_le. exact Hc.
    + cbn [nth_error] in Hi.
      assert (Hr : r <> []) by (destruct r; [destruct i'; discriminate|discriminate]).
      rewrite join_nl_cons_ne by exact Hr.
      cbn [line_start]. unfold slen.
      replace (len l0 + 1 + line_start r i' + ca)%nat with (len l0 + S (line_start r i' + ca))%nat by lia.
      rewrite sskip_app_ge. cbn [sskip]. rewrite (IH i' l ca Hi Hc). reflexivity.
Qed.

Lemma line_start_shift ls : forall i k l, nth_error ls i = Some l ->
  line_start ls (S i + k) = (line_start ls i + len l + 1 + line_start (skipn (S i) ls) k)%nat.
Proof.
  induction ls as [|l0 r IH]; intros i k l Hi.
  - destruct i; discriminate.
  - destruct i as [|i'].
    + cbn in Hi. injection Hi as <-. cbn [plus line_start skipn]. unfold slen. lia.
    + cbn [nth_error] in Hi.
      change (line_start (l0 :: r) (S (S i') + k)) with (slen l0 + 1 + line_start r (S i' + k))%nat.
      change (line_start (l0 :: r) (S i')) with (slen l0 + 1 + line_start r i')%nat.
      rewrite (IH i' k l Hi). change (skipn (S (S i')) (l0 :: r)) with (skipn (S i') r). unfold slen. lia.
Qed.

Lemma nth_error_skipn {A} (l : list A) : forall n k, nth_error (skipn n l) k = nth_error l (n + k).
Proof. induction l as [|x r IH]; intros [|n] k; cbn; try reflexivity; [destruct k; reflexivity|apply IH]. Qed.

Lemma nth_error_nth_line ls i l : nth_error ls i = Some l -> nth_line ls i = l.
Proof. unfold nth_line. intros H. apply nth_error_nth. exact H. Qed.

(** the text between two (line, column) positions, written with the lines themselves *)
Lemma slice_join_between ls i la ca j lb cb :
  nth_error ls i = Some la -> (ca <= len la)%nat ->
  nth_error ls j = Some lb -> (cb <= len lb)%nat ->
  (line_start ls i + ca <= line_start ls j + cb)%nat ->
  slice (line_start ls i + ca) (line_start ls j + cb) (join_nl ls) = text_between ls i ca j cb.
Proof.
  intros Hi Hca Hj Hcb Hle.
  unfold slice, text_between. rewrite (sskip_join ls i la ca Hi Hca).
  rewrite (nth_error_nth_line _ _ _ Hi), (nth_error_nth_line _ _ _ Hj).
  destruct (Nat.eqb_spec i j) as [E|NE].
  - subst j. rewrite Hi in Hj. injection Hj as <-.
    replace (line_start ls i + cb - (line_start ls i + ca))%nat with (cb - ca)%nat by lia.
    destruct (skipn (S i) ls) as [|x t] eqn:Es.
    + reflexivity.
    + rewrite join_nl_cons_ne by discriminate. apply stake_app_le. rewrite len_sskip. lia.
  - assert (Hlt : (i < j)%nat).
    { destruct (lt_eq_lt_dec i j) as [[H|H]|H]; [exact H|congruence|].
      exfalso.
      (* j < i: the start of line i lies beyond the end of line j *)
      pose proof (line_start_shift ls j (i - S j) lb Hj) as S1.
      replace (S j + (i - S j))%nat with i in S1 by lia. lia. }
    pose proof (line_start_shift ls i (j - S i) la Hi) as S1.
    replace (S i + (j - S i))%nat with j in S1 by lia.
    set (ls' := sskip ca la :: skipn (S i) ls).
    assert (Hj' : nth_error ls' (S (j - S i)) = Some lb).
    { unfold ls'. cbn [nth_error]. rewrite nth_error_skipn. replace (S i + (j - S i))%nat with j by lia. exact Hj. }
    replace (line_start ls j + cb - (line_start ls i + ca))%nat with (line_start ls' (S (j - S i)) + cb)%nat.
    + rewrite (stake_join ls' (S (j - S i)) lb cb Hj' Hcb). unfold ls'. cbn [firstn app].
      replace (j - i - 1)%nat with (j - S i)%nat by lia. reflexivity.
    + unfold ls'. cbn [line_start]. unfold slen. rewrite len_sskip. lia.
Qed.

(** * the theorem *)
Lemma span_lines_correct_lemma ls l0 f i la ca j lb cb a b :
  forallb no_nl ls = true ->
  nth_error ls i = Some la -> (ca <= slen la)%nat -> a = (line_start ls i + ca)%nat ->
  nth_error ls j = Some lb -> (cb <= slen lb)%nat -> b = (line_start ls j + cb)%nat ->
  (a <= b)%nat ->
  s_l0 (clone_with_span (mk l0 (Some (l0 + zlen ls - 1)) (join_nl ls) f) a (Some b)) = l0 + Z.of_nat i /\
  s_l1 (clone_with_span (mk l0 (Some (l0 + zlen ls - 1)) (join_nl ls) f) a (Some b)) = Some (l0 + Z.of_nat j) /\
  s_str (clone_with_span (mk l0 (Some (l0 + zlen ls - 1)) (join_nl ls) f) a (Some b)) = slice a b (join_nl ls) /\
  s_str (clone_with_span (mk l0 (Some (l0 + zlen ls - 1)) (join_nl ls) f) a (Some b)) = text_between ls i ca j cb /\
  s_file (clone_with_span (mk l0 (Some (l0 + zlen ls - 1)) (join_nl ls) f) a (Some b)) = f.
Proof.
  unfold slen. intros Hn Hi Hca Ea Hj Hcb Eb Hle.
  unfold clone_with_span, mk_span_source, mk, py_slice. cbn [s_l0 s_l1 s_str s_file].
  pose proof (count_nl_line_start ls i la ca Hn Hi Hca) as Ca.
  pose proof (count_nl_line_start ls j lb cb Hn Hj Hcb) as Cb.
  pose proof (count_nl_slice a b (join_nl ls) Hle) as Cs.
  rewrite <- Ea in Ca. rewrite <- Eb in Cb. rewrite Ca. rewrite Ca, Cb in Cs.
  split; [reflexivity|]. split; [f_equal; lia|]. split; [reflexivity|]. split; [|reflexivity].
  subst a b. apply (slice_join_between ls i la ca j lb cb); assumption.
Qed.

(** end = None means "to the end of the string" *)
Lemma clone_with_span_none src a : clone_with_span src a None = clone_with_span src a (Some (slen (s_str src))).
Proof.
  unfold clone_with_span, py_slice, slice. f_equal.
  symmetry. apply stake_all. rewrite len_sskip. unfold slen. lia.
Qed.

(** spans reaching beyond the end are clamped *)
Lemma clone_with_span_clamp src a b : (slen (s_str src) <= b)%nat ->
  clone_with_span src a (Some b) = clone_with_span src a (Some (slen (s_str src))).
Proof.
  intros H. unfold clone_with_span, py_slice, slice, slen in *. f_equal.
  rewrite !stake_all; try reflexivity; rewrite len_sskip; lia.
Qed.

(** consistency of the result: the recorded range has as many lines as the string *)
Lemma clone_with_span_consistent src a ob : consistent (clone_with_span src a ob) = true.
Proof. unfold consistent, clone_with_span, mk_span_source. cbn [s_l1 s_l0 s_str]. apply Z.eqb_refl. Qed.
