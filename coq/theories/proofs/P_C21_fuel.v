(** C21 — proofs, part 2: the pruning performed on the children of an item ([kept]) and the
    fuel bound of the worklist loop. *)
From Coq Require Import String Ascii List Bool Arith Lia.
From LV Require Import Base.Strings models.M_C21 proofs.P_C21.
Import ListNotations.
Open Scope string_scope.
Open Scope list_scope.

(** * what [emit]/[kept] can produce *)
Lemma emit_targets strict g c d l : emit strict g c d = Ok l -> incl l (targets d).
Proof.
  destruct d as [n|n|m syms|p cands fk]; cbn [emit targets].
  - intros H; inversion H; subst. destruct (early g c n); [intros ? []|apply incl_refl].
  - destruct (early g c n); [intros H; inversion H; intros ? []|].
    destruct strict; [discriminate|]. intros H; inversion H; apply incl_refl.
  - destruct (early g c m); [intros H; inversion H; intros ? []|].
    destruct syms as [|s0 sr]; [intros H; inversion H; subst; intros y [<-|[]]; now left|].
    intros H; inversion H; subst; clear H.
    assert (Hi : incl (map (fun sk => m +++ "#" +++ fst sk)
                       (filter (fun sk => is_item (snd sk))
                          (filter (fun sk => negb (early g c (m +++ "#" +++ fst sk))) (s0 :: sr))))
                      (map (fun sk => m +++ "#" +++ fst sk) (s0 :: sr))).
    { intros y Hy. apply in_map_iff in Hy. destruct Hy as (sk & <- & Hsk).
      apply in_map_iff. exists sk. split; [reflexivity|].
      apply filter_In in Hsk. destruct Hsk as [Hsk _]. apply filter_In in Hsk. tauto. }
    destruct (existsb _ _).
    + intros y [<-|Hy]; [now left|right; now apply Hi].
    + intros y Hy. right. now apply Hi.
  - destruct (filter (fun m => negb (matchb true true (m +++ "#" +++ p) g)) cands) as [|m [|m2 r]] eqn:F.
    + destruct (early g c ("#" +++ p)); [intros H; inversion H; intros ? []|].
      destruct fk; [intros H; inversion H; subst; intros y [<-|[]]; now left|].
      destruct strict; [discriminate|]. intros H; inversion H; subst; intros y [<-|[]]; now left.
    + intros H; inversion H; subst. intros y [<-|[]]. right. apply in_map_iff. exists m. split; [reflexivity|].
      assert (Hm : In m (filter (fun m => negb (matchb true true (m +++ "#" +++ p) g)) cands)) by (rewrite F; now left).
      apply filter_In in Hm. tauto.
    + discriminate.
Qed.

Lemma emit_all_In strict g c : forall ds l, emit_all strict g c ds = Ok l ->
  forall y, In y l <-> exists d l0, In d ds /\ emit strict g c d = Ok l0 /\ In y l0.
Proof.
  induction ds as [|d r IH]; intros l H y; cbn in H.
  - inversion H; subst. split; [intros []|intros (d & l0 & [] & _)].
  - destruct (emit strict g c d) as [l0| | |] eqn:E; try discriminate.
    destruct (emit_all strict g c r) as [l1| | |] eqn:E1; try discriminate.
    inversion H; subst. rewrite in_app_iff, (IH l1 eq_refl). split.
    + intros [Hy|(d' & l' & Hd & He & Hy)].
      * exists d, l0. split; [now left|auto].
      * exists d', l'. split; [now right|auto].
    + intros (d' & l' & [<-|Hd] & He & Hy).
      * left. congruence.
      * right. eauto.
Qed.

Lemma matchb_nil pat par n : matchb pat par n [] = false.
Proof. unfold matchb, match_keys. destruct (name_variants par n); reflexivity. Qed.

(** the children kept for an item: exactly the emitted names that survive the two plain re-filters *)
Lemma kept_In strict g c ds l : kept strict g c ds = Ok l ->
  forall y, In y l <->
    (exists d l0, In d ds /\ emit strict g c d = Ok l0 /\ In y l0) /\
    matchb false false y (c_disable c) = false /\ matchb false false y (c_block c) = false.
Proof.
  unfold kept. destruct (emit_all strict g c ds) as [l0| | |] eqn:E; try discriminate.
  intros H; inversion H; subst; clear H. intros y.
  rewrite filter_In, dedup_In, negb_true_iff.
  destruct (c_disable c) as [|k ks] eqn:D.
  - rewrite (emit_all_In _ _ _ _ _ E). rewrite matchb_nil. tauto.
  - rewrite filter_In, negb_true_iff, (emit_all_In _ _ _ _ _ E). tauto.
Qed.

Lemma kept_NoDup strict g c ds l : kept strict g c ds = Ok l -> NoDup l.
Proof.
  unfold kept. destruct (emit_all strict g c ds) as [l0| | |]; try discriminate.
  intros H; inversion H; subst. apply NoDup_filter, dedup_NoDup.
Qed.

Lemma children_NoDup inp x l : children inp x = Ok l -> NoDup l.
Proof.
  unfold children. destruct (lookup x (i_table inp)) as [[c ds]|]; [|intros H; inversion H; constructor].
  destruct (c_expand c); [apply kept_NoDup|intros H; inversion H; constructor].
Qed.

Lemma children_universe inp x l : children inp x = Ok l -> incl l (universe inp).
Proof.
  unfold children. destruct (lookup x (i_table inp)) as [[c ds]|] eqn:L; [|intros H; inversion H; intros ? []].
  destruct (c_expand c); [|intros H; inversion H; intros ? []].
  intros H y Hy. apply (kept_In _ _ _ _ _ H) in Hy. destruct Hy as [(d & l0 & Hd & He & Hy) _].
  unfold universe. apply in_flat_map. exists (x, (c, ds)). split; [now apply lookup_In|].
  cbn. apply in_flat_map. exists d. split; [assumption|]. now apply (emit_targets _ _ _ _ _ He).
Qed.

(** children of an expanded item in terms of the raw dependency nodes, for plain item nodes *)
Lemma R_spec inp x y : R inp x y <->
  exists c ds l, lookup x (i_table inp) = Some (c, ds) /\ c_expand c = true /\
                 kept (i_strict inp) (i_gdisable inp) c ds = Ok l /\ In y l.
Proof.
  unfold R, children. split.
  - intros (l & H & Hy). destruct (lookup x (i_table inp)) as [[c ds]|]; [|inversion H; subst; destruct Hy].
    destruct (c_expand c) eqn:E; [|inversion H; subst; destruct Hy]. exists c, ds, l. auto.
  - intros (c & ds & l & -> & -> & H & Hy). exists l. auto.
Qed.

Lemma emit_item strict g c n l : emit strict g c (DItem n) = Ok l -> forall y, In y l <-> y = n /\ early g c n = false.
Proof.
  cbn. intros H; inversion H; subst. intros y. destruct (early g c n); cbn; [split; [tauto|intros [_ ?]; discriminate]|].
  split; [intros [<-|[]]; auto|intros [-> _]; now left].
Qed.

(** dependency nodes on which ItemFactory applies the _is_ignored test to every produced name *)
Definition checked (d : dnode) : bool := match d with DCallUnq _ _ _ => false | _ => true end.

Lemma emit_checked_not_early strict g c d l : checked d = true -> emit strict g c d = Ok l ->
  forall y, In y l -> early g c y = false.
Proof.
  destruct d as [n|n|m syms|p cands fk]; cbn [checked emit]; try discriminate; intros _.
  - intros H; inversion H; subst. destruct (early g c n) eqn:E; [intros ? []|intros y [<-|[]]; assumption].
  - destruct (early g c n) eqn:E; [intros H; inversion H; intros ? []|].
    destruct strict; [discriminate|]. intros H; inversion H; subst. intros y [<-|[]]; assumption.
  - destruct (early g c m) eqn:E; [intros H; inversion H; intros ? []|].
    destruct syms as [|s0 sr]; [intros H; inversion H; subst; intros y [<-|[]]; assumption|].
    intros H; inversion H; subst; clear H.
    assert (Hi : forall y, In y (map (fun sk => m +++ "#" +++ fst sk)
                       (filter (fun sk => is_item (snd sk))
                          (filter (fun sk => negb (early g c (m +++ "#" +++ fst sk))) (s0 :: sr)))) ->
                     early g c y = false).
    { intros y Hy. apply in_map_iff in Hy. destruct Hy as (sk & <- & Hsk).
      apply filter_In in Hsk. destruct Hsk as [Hsk _]. apply filter_In in Hsk.
      destruct Hsk as [_ Hsk]. now apply negb_true_iff in Hsk. }
    destruct (existsb _ _).
    + intros y [<-|Hy]; [assumption|now apply Hi].
    + exact Hi.
Qed.

(** * the fuel bound *)
Definition cnt (U ns : list string) : nat := length (filter (fun u => negb (smem u ns)) U).

Lemma smem_app a l1 l2 : smem a (l1 ++ l2) = orb (smem a l1) (smem a l2).
Proof. unfold smem. apply existsb_app. Qed.

Lemma cnt_ext U ns ns' : (forall u, In u U -> smem u ns = smem u ns') -> cnt U ns = cnt U ns'.
Proof.
  unfold cnt. induction U as [|a U IH]; intros H; cbn; [reflexivity|].
  rewrite (H a (or_introl eq_refl)). destruct (negb (smem a ns')); cbn; rewrite IH; auto; intros; apply H; now right.
Qed.

Lemma cnt_add1 U : NoDup U -> forall ns y, In y U -> ~ In y ns -> cnt U (ns ++ [y]) + 1 = cnt U ns.
Proof.
  induction 1 as [|a U Ha Hd IH]; intros ns y Hy Hn; [destruct Hy|].
  unfold cnt. cbn [filter]. fold (cnt U (ns ++ [y])). fold (cnt U ns).
  rewrite smem_app. destruct Hy as [->|Hy].
  - assert (E : smem y ns = false) by now apply smem_false.
    assert (E1 : smem y [y] = true) by (apply smem_In; now left).
    rewrite E, E1. cbn [orb negb length].
    fold (cnt U (ns ++ [y])). fold (cnt U ns).
    rewrite (cnt_ext U (ns ++ [y]) ns); [lia|].
    intros u Hu. rewrite smem_app. replace (smem u [y]) with false; [now rewrite orb_false_r|].
    symmetry. apply smem_false. intros [->|[]]. contradiction.
  - assert (E1 : smem a [y] = false) by (apply smem_false; intros [->|[]]; contradiction).
    rewrite E1, orb_false_r. destruct (negb (smem a ns)); cbn [length];
      fold (cnt U (ns ++ [y])); fold (cnt U ns); specialize (IH ns y Hy Hn); lia.
Qed.

Lemma cnt_add U : NoDup U -> forall new ns, NoDup new -> incl new U -> (forall y, In y new -> ~ In y ns) ->
  cnt U (ns ++ new) + length new = cnt U ns.
Proof.
  intros HU. induction new as [|y r IH]; intros ns Hnd Hi Hdis.
  - rewrite app_nil_r. cbn. lia.
  - inversion Hnd as [|? ? Hy Hr]; subst.
    replace (ns ++ y :: r) with ((ns ++ [y]) ++ r) by (rewrite <- app_assoc; reflexivity).
    specialize (IH (ns ++ [y]) Hr).
    assert (H1 : cnt U ((ns ++ [y]) ++ r) + length r = cnt U (ns ++ [y])).
    { apply IH; [intros z Hz; apply Hi; now right|].
      intros z Hz Hin. apply in_app_iff in Hin. destruct Hin as [Hin|[->|[]]]; [|contradiction].
      apply (Hdis z); [now right|assumption]. }
    assert (H2 : cnt U (ns ++ [y]) + 1 = cnt U ns).
    { apply cnt_add1; [assumption|apply Hi; now left|apply Hdis; now left]. }
    cbn [length]. lia.
Qed.

Lemma cnt_le U ns : cnt U ns <= length U.
Proof. unfold cnt. induction U as [|a U IH]; cbn; [lia|]. destruct (negb (smem a ns)); cbn; lia. Qed.

Definition measure (inp : input) (s : st) : nat := length (queue s) + cnt (dedup (universe inp)) (nodes s).

Lemma step_measure inp s x q s' :
  step inp x (mk_st (nodes s) (edges s) q (ign s)) = Ok s' ->
  measure inp s' = length q + cnt (dedup (universe inp)) (nodes s).
Proof.
  unfold step. cbn [nodes edges queue ign]. destruct (children inp x) as [l| | |] eqn:Hc; try discriminate.
  intros H; inversion H; subst; clear H. unfold measure. cbn [nodes queue].
  rewrite app_length.
  pose proof (cnt_add (dedup (universe inp)) (dedup_NoDup _)
                (filter (fun y => negb (smem y (nodes s))) l) (nodes s)) as HC.
  assert (H1 : NoDup (filter (fun y => negb (smem y (nodes s))) l)) by (apply NoDup_filter; eapply children_NoDup; eauto).
  assert (H2 : incl (filter (fun y => negb (smem y (nodes s))) l) (dedup (universe inp))).
  { intros y Hy. apply filter_In in Hy. apply dedup_In. apply (children_universe _ _ _ Hc). tauto. }
  assert (H3 : forall y, In y (filter (fun y => negb (smem y (nodes s))) l) -> ~ In y (nodes s)).
  { intros y Hy. apply filter_In in Hy. destruct Hy as [_ Hy]. apply negb_true_iff in Hy. now apply smem_false. }
  specialize (HC H1 H2 H3). lia.
Qed.

Lemma emit_no_fuel strict g c d : emit strict g c d <> ErrFuel.
Proof.
  destruct d as [n|n|m syms|p cands fk]; cbn [emit].
  - discriminate.
  - destruct (early g c n); [discriminate|]. destruct strict; discriminate.
  - destruct (early g c m); [discriminate|]. destruct syms; discriminate.
  - destruct (filter _ cands) as [|m [|m2 r]]; try discriminate.
    destruct (early g c _); [discriminate|]. destruct fk; [discriminate|]. destruct strict; discriminate.
Qed.

Lemma emit_all_no_fuel strict g c ds : emit_all strict g c ds <> ErrFuel.
Proof.
  induction ds as [|d r IH]; cbn; [discriminate|].
  pose proof (emit_no_fuel strict g c d). destruct (emit strict g c d); try congruence.
  destruct (emit_all strict g c r); congruence.
Qed.

Lemma children_no_fuel inp x : children inp x <> ErrFuel.
Proof.
  unfold children. destruct (lookup x (i_table inp)) as [[c ds]|]; [|discriminate].
  destruct (c_expand c); [|discriminate]. unfold kept.
  pose proof (emit_all_no_fuel (i_strict inp) (i_gdisable inp) c ds).
  destruct (emit_all _ _ c ds); congruence.
Qed.

Lemma run_no_fuel_err inp : forall fuel s, measure inp s < fuel -> run inp fuel s <> ErrFuel.
Proof.
  induction fuel as [|f IH]; intros s Hm; [lia|]. cbn.
  destruct (queue s) as [|x q] eqn:Hq; [discriminate|].
  destruct (step inp x (mk_st (nodes s) (edges s) q (ign s))) as [s1| | |] eqn:Hs; try discriminate.
  - apply IH. rewrite (step_measure _ _ _ _ _ Hs). unfold measure in Hm. rewrite Hq in Hm. cbn in Hm. lia.
  - unfold step in Hs. pose proof (children_no_fuel inp x). destruct (children inp x); congruence.
Qed.

Lemma run_mono inp : forall f s r, run inp f s = r -> r <> ErrFuel -> forall f', f <= f' -> run inp f' s = r.
Proof.
  induction f as [|f IH]; intros s r Hr Hne f' Hle.
  - cbn in Hr. destruct (queue s) eqn:Hq; [|congruence]. destruct f'; cbn; rewrite Hq; assumption.
  - destruct f' as [|f']; [lia|]. cbn in *. destruct (queue s) as [|x q]; [assumption|].
    destruct (step inp x (mk_st (nodes s) (edges s) q (ign s))) as [s1| | |]; try assumption.
    apply IH; [assumption|assumption|lia].
Qed.

Lemma init_measure inp ign0 : measure inp (init_st inp ign0) < fuel_bound inp.
Proof.
  unfold measure, init_st, fuel_bound. cbn [queue nodes].
  pose proof (cnt_le (dedup (universe inp)) (add_nodes [] (seed_items inp))). lia.
Qed.

Lemma fuel_suffices inp ign0 :
  populate_from inp ign0 <> ErrFuel /\
  forall fuel, fuel_bound inp <= fuel -> run inp fuel (init_st inp ign0) = populate_from inp ign0.
Proof.
  assert (H : populate_from inp ign0 <> ErrFuel) by (apply run_no_fuel_err, init_measure).
  split; [assumption|]. intros fuel Hle. eapply run_mono; [reflexivity|assumption|assumption].
Qed.

Lemma populate_no_fuel_err inp : populate inp <> ErrFuel.
Proof.
  unfold populate. destruct (i_two_pass inp); [|apply fuel_suffices].
  destruct (populate_from inp []) eqn:E; try discriminate; [apply fuel_suffices|].
  exfalso. revert E. apply fuel_suffices.
Qed.

Lemma scheduler_graph_no_fuel_err inp : scheduler_graph inp <> ErrFuel.
Proof.
  unfold scheduler_graph. pose proof (populate_no_fuel_err inp). destruct (populate inp); congruence.
Qed.

(** on inputs whose dependency nodes are all [checked], no edge leads to a name that matches the
    global disable list or the parent's disable/block list under the pattern and scope rules *)
Lemma edges_respect_pruning_on_class inp s :
  (forall x c ds d, lookup x (i_table inp) = Some (c, ds) -> In d ds -> checked d = true) ->
  populate inp = Ok s ->
  forall x y, In (x, y) (edges s) ->
    exists c ds, lookup x (i_table inp) = Some (c, ds) /\ c_expand c = true /\
                 early (i_gdisable inp) c y = false /\
                 matchb false false y (c_disable c) = false /\ matchb false false y (c_block c) = false.
Proof.
  intros Hcl Hp x y Hxy. apply (populate_edges_exact _ _ Hp) in Hxy. destruct Hxy as (_ & HR & _).
  apply R_spec in HR. destruct HR as (c & ds & l & HL & HE & HK & Hy).
  exists c, ds. split; [assumption|]. split; [assumption|].
  apply (kept_In _ _ _ _ _ HK) in Hy. destruct Hy as ((d & l0 & Hd & He & Hy0) & H1 & H2).
  split; [|auto]. eapply emit_checked_not_early; eauto.
Qed.
