(** C28 — inlining every call of a callee inside a caller body: the surrounding statements are a congruence
    as long as they do not mention the hoisted callee locals. *)
From Coq Require Import ZArith List Bool String Lia.
From LV Require Import Base.Expr Base.MiniF Base.MiniFFacts models.M_C28
     proofs.P_C28_norm proofs.P_C28_subst proofs.P_C28_sim proofs.P_C28_frame proofs.P_C28.
Import ListNotations.
Open Scope Z_scope.

(** * definitions (used only by the statement of the theorem) *)
Definition nh (H : list string) : string -> bool := fun y => negb (mem y H).

(** [ctx_ok H s]: the statement neither reads nor writes a name of [H] *)
Fixpoint ctx_ok (H : list string) (s : stmt) : bool :=
  match s with
  | SAssign x e => nh H x && e_ok (nh H) (nh H) e
  | SStore a idx e => nh H a && forallb (e_ok (nh H) (nh H)) idx && e_ok (nh H) (nh H) e
  | SDo v lo hi st b => nh H v && e_ok (nh H) (nh H) lo && e_ok (nh H) (nh H) hi && oe_ok (nh H) (nh H) st && forallb (ctx_ok H) b
  | SWhile c b => e_ok (nh H) (nh H) c && forallb (ctx_ok H) b
  | SIf c t e => e_ok (nh H) (nh H) c && forallb (ctx_ok H) t && forallb (ctx_ok H) e
  | SCall _ args => forallb (e_ok (nh H) (nh H)) args
  | SSkip _ => true
  end.

Definition agreeH (H : list string) : store -> store -> Prop := agree_except H H.

Lemma agreeH_refl H s : agreeH H s s.
Proof. split; intros; reflexivity. Qed.

Lemma nh_true H y : nh H y = true -> ~ In y H.
Proof. unfold nh. intros E. apply negb_true_iff in E. now apply mem_false_In. Qed.

Lemma agree_eval H s1 s2 e :
  agreeH H s1 s2 -> e_ok (nh H) (nh H) e = true ->
  evalZ (env_st s1) e = evalZ (env_st s2) e /\ evalB (env_st s1) e = evalB (env_st s2) e.
Proof.
  intros [A1 A2] Hok. apply (e_ok_agree _ _ _ _ _ Hok).
  - intros y Hy. cbn. apply A1. now apply nh_true.
  - intros a Ha vs. cbn. f_equal. apply A2. now apply nh_true.
Qed.

Lemma agree_eval_idx H s1 s2 idx :
  agreeH H s1 s2 -> forallb (e_ok (nh H) (nh H)) idx = true -> eval_idx s1 idx = eval_idx s2 idx.
Proof.
  intros HA Hok. unfold eval_idx. apply omap_list_ext0. apply Forall_forall. intros c Hc.
  rewrite forallb_forall in Hok. apply (agree_eval H s1 s2 c HA (Hok c Hc)).
Qed.

Lemma agree_set_sv H s1 s2 x v : agreeH H s1 s2 -> agreeH H (set_sv x v s1) (set_sv x v s2).
Proof.
  intros [A1 A2]. split.
  - intros y Hy. cbn. destruct (String.eqb y x); [reflexivity|apply A1; exact Hy].
  - intros a Ha i. cbn. apply A2; exact Ha.
Qed.

Lemma agree_set_av H s1 s2 a i v : agreeH H s1 s2 -> agreeH H (set_av a i v s1) (set_av a i v s2).
Proof.
  intros [A1 A2]. split.
  - intros y Hy. cbn. apply A1; exact Hy.
  - intros b Hb j. cbn. destruct (String.eqb b a && list_z_eqb j i); [reflexivity|apply A2; exact Hb].
Qed.

Lemma nh_nil y : nh [] y = true.
Proof. reflexivity. Qed.

Lemma ctx_ok_nil : forall s, ctx_ok [] s = true.
Proof.
  assert (E : forall e, e_ok (nh []) (nh []) e = true) by (intros e; apply e_ok_true).
  assert (FE : forall l, forallb (e_ok (nh []) (nh [])) l = true) by (intros l; apply forallb_forall; intros c _; apply E).
  assert (OE : forall o, oe_ok (nh []) (nh []) o = true) by (intros [e|]; cbn; [apply E|reflexivity]).
  assert (FS : forall l, Forall (fun s => ctx_ok [] s = true) l -> forallb (ctx_ok []) l = true).
  { intros l Hl. apply forallb_forall. rewrite Forall_forall in Hl. exact Hl. }
  induction s using stmt_ind'; cbn [ctx_ok]; rewrite ?nh_nil, ?E, ?FE, ?OE; cbn [andb]; try reflexivity.
  - apply FS; assumption.
  - apply FS; assumption.
  - rewrite (FS _ H), (FS _ H0). reflexivity.
Qed.

(** * the same program on stores that agree outside [H] *)
Lemma copy_in_agree H s1 s2 params : forall args c1 c2,
  agreeH H s1 s2 -> forallb (e_ok (nh H) (nh H)) args = true -> agreeH [] c1 c2 ->
  orel (agreeH []) (copy_in s1 params args c1) (copy_in s2 params args c2).
Proof.
  induction params as [|[d b] ps IH]; intros args c1 c2 HA Hok HC; destruct args as [|e r]; cbn [copy_in]; try exact I.
  - exact HC.
  - destruct b; exact I.
  - cbn [forallb] in Hok. apply andb_prop in Hok. destruct Hok as [He Hr]. destruct b.
    + destruct e; try exact I. apply IH; [exact HA|exact Hr|].
      destruct HC as [C1 C2]. destruct HA as [A1 A2]. split.
      * intros y Hy. cbn. apply C1; exact Hy.
      * intros a Ha i. cbn. destruct (String.eqb a d); [|apply C2; exact Ha].
        apply A2. cbn in He. now apply nh_true.
    + rewrite (proj1 (agree_eval H s1 s2 e HA He)). destruct (evalZ (env_st s2) e); [|exact I].
      apply IH; [exact HA|exact Hr|]. apply agree_set_sv. exact HC.
Qed.

Lemma copy_out_agree_ctx H c1 c2 params : forall args s1 s2,
  agreeH [] c1 c2 -> agreeH H s1 s2 -> agreeH H (copy_out c1 params args s1) (copy_out c2 params args s2).
Proof.
  induction params as [|[d b] ps IH]; intros args s1 s2 HC HA; destruct args as [|e r]; cbn [copy_out]; try exact HA.
  - destruct b; exact HA.
  - destruct b; destruct e as [v0|v0|x|b0|p0 cs|p0 cs|p0 n0 d0|p0 b0 e0|op l0 r0|cs|cs|e0|f0 cs];
      cbn [copy_out]; try (apply IH; assumption); apply IH; try assumption;
      destruct HC as [C1 C2]; destruct HA as [A1 A2].
    + split.
      * intros y Hy. cbn. apply A1; exact Hy.
      * intros a Ha i. cbn. destruct (String.eqb a x); [apply C2; intros K; exact K|apply A2; exact Ha].
    + rewrite (C1 d (fun K => K)). apply agree_set_sv. split; assumption.
Qed.

Lemma do_loop_agree H (r1 r2 : store -> option store) v d :
  (forall s1 s2, agreeH H s1 s2 -> orel (agreeH H) (r1 s1) (r2 s2)) ->
  forall n i s1 s2, agreeH H s1 s2 -> orel (agreeH H) (do_loop r1 v d n i s1) (do_loop r2 v d n i s2).
Proof.
  intros Hr. induction n as [|n IH]; intros i s1 s2 HA; cbn [do_loop].
  - cbn. apply agree_set_sv; exact HA.
  - apply (orel_bind (agreeH H)); [apply Hr; apply agree_set_sv; exact HA|]. intros a b Hab. apply IH; exact Hab.
Qed.

Lemma exec_agree ps : forall f H P s1 s2,
  forallb (ctx_ok H) P = true -> agreeH H s1 s2 -> orel (agreeH H) (exec ps f P s1) (exec ps f P s2).
Proof.
  induction f as [|f IH]; intros H P s1 s2 Hok HA; [exact I|].
  destruct P as [|st rest]; [exact HA|].
  cbn [forallb] in Hok. apply andb_prop in Hok. destruct Hok as [Hst Hrest].
  rewrite !exec_unfold. apply (orel_bind (agreeH H)); [|intros a b Hab; apply IH; assumption].
  destruct st as [x e|a idx e|v lo hi stp b|c b|c tb eb|g args|l]; cbn [ctx_ok] in Hst; cbn [exec1].
  - apply andb_prop in Hst. destruct Hst as [_ He]. rewrite (proj1 (agree_eval H s1 s2 e HA He)).
    destruct (evalZ (env_st s2) e); cbn; [apply agree_set_sv; exact HA|exact I].
  - apply andb_prop in Hst. destruct Hst as [Hst He]. apply andb_prop in Hst. destruct Hst as [_ Hi].
    rewrite (agree_eval_idx H s1 s2 idx HA Hi), (proj1 (agree_eval H s1 s2 e HA He)).
    destruct (eval_idx s2 idx); cbn [obind]; [|exact I]. destruct (evalZ (env_st s2) e); cbn; [apply agree_set_av; exact HA|exact I].
  - apply andb_prop in Hst. destruct Hst as [Hst Hb]. apply andb_prop in Hst. destruct Hst as [Hst Hs].
    apply andb_prop in Hst. destruct Hst as [Hst Hhi]. apply andb_prop in Hst. destruct Hst as [_ Hlo].
    rewrite (proj1 (agree_eval H s1 s2 lo HA Hlo)), (proj1 (agree_eval H s1 s2 hi HA Hhi)).
    destruct (evalZ (env_st s2) lo); cbn [obind]; [|exact I]. destruct (evalZ (env_st s2) hi); cbn [obind]; [|exact I].
    assert (Es : match stp with Some e => evalZ (env_st s1) e | None => Some 1 end = match stp with Some e => evalZ (env_st s2) e | None => Some 1 end).
    { destruct stp as [e|]; [|reflexivity]. cbn in Hs. apply (agree_eval H s1 s2 e HA Hs). }
    rewrite Es. destruct (match stp with Some e => evalZ (env_st s2) e | None => Some 1 end); cbn [obind]; [|exact I].
    destruct (z1 =? 0); [exact I|]. apply do_loop_agree; [|exact HA]. intros t1 t2 Ht. apply IH; assumption.
  - apply andb_prop in Hst. destruct Hst as [Hc Hb]. rewrite (proj2 (agree_eval H s1 s2 c HA Hc)).
    destruct (evalB (env_st s2) c) as [[|]|]; cbn [obind]; [|exact HA|exact I].
    apply (orel_bind (agreeH H)); [apply IH; assumption|]. intros t1 t2 Ht. apply IH; [|exact Ht].
    cbn [forallb ctx_ok]. rewrite Hc, Hb. reflexivity.
  - apply andb_prop in Hst. destruct Hst as [Hst He]. apply andb_prop in Hst. destruct Hst as [Hc Ht].
    rewrite (proj2 (agree_eval H s1 s2 c HA Hc)).
    destruct (evalB (env_st s2) c) as [[|]|]; cbn [obind]; [apply IH; assumption|apply IH; assumption|exact I].
  - destruct (find_proc ps g) as [p|]; cbn [obind]; [|exact I].
    apply (orel_bind (agreeH [])); [apply (copy_in_agree H); [exact HA|exact Hst|apply agreeH_refl]|].
    intros c1 c2 Hc. apply (orel_bind (agreeH [])).
    + apply IH; [|exact Hc]. apply forallb_forall. intros x _. apply ctx_ok_nil.
    + intros d1 d2 Hd. cbn. apply copy_out_agree_ctx; assumption.
  - exact HA.
Qed.

(** * inlining every call of [ce] in a caller body (MiniF call semantics) *)
Section BodyDefs.
  Variables (cvars : list string) (ce : callee).

  Fixpoint inline_stmt_p (s : stmt) : option (list stmt) :=
    let fix go (l : list stmt) : option (list stmt) :=
      match l with
      | [] => Some []
      | x :: r => match inline_stmt_p x, go r with Some a, Some b => Some (a ++ b)%list | _, _ => None end
      end in
    match s with
    | SCall g args => if String.eqb g (ce_name ce) then inline_plain cvars ce args else Some [s]
    | SDo v lo hi st b => match go b with Some b' => Some [SDo v lo hi st b'] | None => None end
    | SWhile c b => match go b with Some b' => Some [SWhile c b'] | None => None end
    | SIf c t e => match go t, go e with Some t', Some e' => Some [SIf c t' e'] | _, _ => None end
    | _ => Some [s]
    end.

  Fixpoint inline_body_p (l : list stmt) : option (list stmt) :=
    match l with
    | [] => Some []
    | x :: r => match inline_stmt_p x, inline_body_p r with Some a, Some b => Some (a ++ b)%list | _, _ => None end
    end.

  (** every call of [ce] is in the class, nothing else mentions the hoisted locals *)
  Fixpoint body_ok (s : stmt) : bool :=
    let H := hoisted_s cvars ce in
    match s with
    | SCall g args => forallb (e_ok (nh H) (nh H)) args && (if String.eqb g (ce_name ce) then inlinable cvars ce args else true)
    | SDo v lo hi st b => nh H v && e_ok (nh H) (nh H) lo && e_ok (nh H) (nh H) hi && oe_ok (nh H) (nh H) st && forallb body_ok b
    | SWhile c b => e_ok (nh H) (nh H) c && forallb body_ok b
    | SIf c t e => e_ok (nh H) (nh H) c && forallb body_ok t && forallb body_ok e
    | _ => ctx_ok H s
    end.
End BodyDefs.

Lemma inline_stmt_p_do cvars ce v lo hi st b :
  inline_stmt_p cvars ce (SDo v lo hi st b) = match inline_body_p cvars ce b with Some b' => Some [SDo v lo hi st b'] | None => None end.
Proof. reflexivity. Qed.
Lemma inline_stmt_p_while cvars ce c b :
  inline_stmt_p cvars ce (SWhile c b) = match inline_body_p cvars ce b with Some b' => Some [SWhile c b'] | None => None end.
Proof. reflexivity. Qed.
Lemma inline_stmt_p_if cvars ce c t e :
  inline_stmt_p cvars ce (SIf c t e) =
  match inline_body_p cvars ce t, inline_body_p cvars ce e with Some t', Some e' => Some [SIf c t' e'] | _, _ => None end.
Proof. reflexivity. Qed.

Lemma agree_weaken Hs s1 s2 : agree_except Hs [] s1 s2 -> agreeH Hs s1 s2.
Proof. intros [A1 A2]. split; [exact A1|]. intros a _ i. apply A2. intros K; exact K. Qed.

Lemma agreeH_trans H s1 s2 s3 : agreeH H s1 s2 -> agreeH H s2 s3 -> agreeH H s1 s3.
Proof.
  intros [A1 A2] [B1 B2]. split.
  - intros x Hx. rewrite (A1 x Hx). apply B1; exact Hx.
  - intros a Ha i. rewrite (A2 a Ha i). apply B2; exact Ha.
Qed.

Lemma stmt_agree_runs ps H st f s1 s2 s1m :
  ctx_ok H st = true -> agreeH H s1 s2 -> exec1 ps f st s1 = Some s1m ->
  exists s2m, exec1 ps (S f) st s2 = Some s2m /\ agreeH H s1m s2m.
Proof.
  intros Hok HA E.
  assert (E2 : exec ps (S (S f)) [st] s1 = Some s1m).
  { rewrite exec_unfold. rewrite (exec1_fuel_mono ps f (S f) st s1 s1m E (Nat.le_succ_diag_r f)). reflexivity. }
  pose proof (exec_agree ps (S (S f)) H [st] s1 s2) as K. cbn [forallb] in K. rewrite Hok in K. specialize (K eq_refl HA).
  rewrite E2 in K. destruct (exec ps (S (S f)) [st] s2) as [s2m|] eqn:E3; cbn in K; [|contradiction].
  exists s2m. split; [|exact K]. rewrite exec_unfold in E3. apply obind_some in E3. destruct E3 as [t [T1 T2]].
  cbn in T2. inversion T2. subst. exact T1.
Qed.

Lemma runs1_while_true ps c b s sa s' :
  evalB (env_st s) c = Some true -> runs ps b s sa -> runs ps [SWhile c b] sa s' -> runs1 ps (SWhile c b) s s'.
Proof.
  intros Ec [f1 E1] [f2 E2]. exists (Nat.max f1 f2). cbn [exec1]. rewrite Ec. cbn [obind].
  rewrite (exec_fuel_mono ps f1 _ _ _ _ E1 (Nat.le_max_l _ _)). cbn [obind].
  apply (exec_fuel_mono ps f2 _ _ _ _ E2 (Nat.le_max_r _ _)).
Qed.

Section BodyThm.
  Variables (cvars : list string) (ce : callee) (ps : procs).
  Hypothesis Hf : find_proc ps (ce_name ce) = Some (proc_of ce).
  Let Hs := hoisted_s cvars ce.

  Theorem inline_body_sound : forall f P P' s1 s2 s1',
    forallb (body_ok cvars ce) P = true -> inline_body_p cvars ce P = Some P' ->
    agreeH Hs s1 s2 -> exec ps f P s1 = Some s1' ->
    exists s2', runs ps P' s2 s2' /\ agreeH Hs s1' s2'.
  Proof.
    induction f as [|f IH]; intros P P' s1 s2 s1' Hok Hin HA E; [discriminate|].
    destruct P as [|st rest].
    - cbn in Hin. inversion Hin. inversion E. subst. exists s2. split; [apply runs_nil|exact HA].
    - cbn [forallb] in Hok. apply andb_prop in Hok. destruct Hok as [Hst Hrest].
      cbn [inline_body_p] in Hin. destruct (inline_stmt_p cvars ce st) as [a|] eqn:Ha; [|discriminate].
      destruct (inline_body_p cvars ce rest) as [b|] eqn:Hb; [|discriminate]. inversion Hin. subst P'. clear Hin.
      rewrite exec_unfold in E. apply obind_some in E. destruct E as [s1m [E1 E2]].
      assert (Step : exists s2m, runs ps a s2 s2m /\ agreeH Hs s1m s2m).
      { assert (Plain : ctx_ok Hs st = true -> a = [st] -> exists s2m, runs ps a s2 s2m /\ agreeH Hs s1m s2m).
        { intros Hc ->. destruct (stmt_agree_runs ps Hs st f s1 s2 s1m Hc HA E1) as [s2m [T1 T2]].
          exists s2m. split; [apply runs_single; exists (S f); exact T1|exact T2]. }
        destruct st as [x e|ar idx e|v lo hi stp body|c body|c tb eb|g args|l].
        - apply Plain; [exact Hst|cbn in Ha; congruence].
        - apply Plain; [exact Hst|cbn in Ha; congruence].
        - (* do *)
          cbn [body_ok] in Hst. fold Hs in Hst.
          apply andb_prop in Hst. destruct Hst as [Hst Hbody]. apply andb_prop in Hst. destruct Hst as [Hst Hstp].
          apply andb_prop in Hst. destruct Hst as [Hst Hhi]. apply andb_prop in Hst. destruct Hst as [_ Hlo].
          rewrite inline_stmt_p_do in Ha. destruct (inline_body_p cvars ce body) as [body'|] eqn:Hbd; [|discriminate].
          inversion Ha. subst a. clear Ha.
          cbn [exec1] in E1. apply obind_some in E1. destruct E1 as [a0 [Ea E1]].
          apply obind_some in E1. destruct E1 as [b0 [Eb E1]]. apply obind_some in E1. destruct E1 as [d [Ed E1]].
          destruct (d =? 0) eqn:Ez; [discriminate|].
          assert (Loop : forall n i t1 t2 t1m, agreeH Hs t1 t2 -> do_loop (exec ps f body) v d n i t1 = Some t1m ->
                         exists t2m, loop_runs ps body' v d n i t2 t2m /\ agreeH Hs t1m t2m).
          { induction n as [|n IHn]; intros i t1 t2 t1m Ht El; cbn [do_loop] in El.
            - inversion El. exists (set_sv v i t2). split; [constructor|apply agree_set_sv; exact Ht].
            - apply obind_some in El. destruct El as [tx [L1 L2]].
              destruct (IH body body' (set_sv v i t1) (set_sv v i t2) tx Hbody Hbd (agree_set_sv _ _ _ _ _ Ht) L1) as [ty [R1 R2]].
              destruct (IHn (i + d) tx ty t1m R2 L2) as [t2m [R3 R4]].
              exists t2m. split; [econstructor; eassumption|exact R4]. }
          destruct (Loop _ _ s1 s2 s1m HA E1) as [s2m [L1 L2]].
          exists s2m. split; [|exact L2]. apply runs_single. apply runs1_do. exists a0, b0, d.
          rewrite <- (proj1 (agree_eval Hs s1 s2 lo HA Hlo)), <- (proj1 (agree_eval Hs s1 s2 hi HA Hhi)).
          repeat split; try assumption.
          + destruct stp as [e|]; [|exact Ed]. cbn in Hstp. rewrite <- (proj1 (agree_eval Hs s1 s2 e HA Hstp)). exact Ed.
          + apply Z.eqb_neq. exact Ez.
        - (* while *)
          cbn [body_ok] in Hst. fold Hs in Hst. apply andb_prop in Hst. destruct Hst as [Hc Hbody].
          rewrite inline_stmt_p_while in Ha. destruct (inline_body_p cvars ce body) as [body'|] eqn:Hbd; [|discriminate].
          inversion Ha. subst a. clear Ha.
          cbn [exec1] in E1. apply obind_some in E1. destruct E1 as [bb [Ec E1]].
          assert (Ec2 : evalB (env_st s2) c = Some bb) by (rewrite <- (proj2 (agree_eval Hs s1 s2 c HA Hc)); exact Ec).
          destruct bb.
          + apply obind_some in E1. destruct E1 as [s1a [W1 W2]].
            destruct (IH body body' s1 s2 s1a Hbody Hbd HA W1) as [s2a [R1 R2]].
            assert (Hw : forallb (body_ok cvars ce) [SWhile c body] = true).
            { cbn [forallb body_ok]. fold Hs. rewrite Hc, Hbody. reflexivity. }
            assert (Hiw : inline_body_p cvars ce [SWhile c body] = Some [SWhile c body']).
            { cbn [inline_body_p]. rewrite inline_stmt_p_while, Hbd. reflexivity. }
            destruct (IH [SWhile c body] [SWhile c body'] s1a s2a s1m Hw Hiw R2 W2) as [s2m [R3 R4]].
            exists s2m. split; [|exact R4]. apply runs_single. eapply runs1_while_true; eassumption.
          + inversion E1. subst. exists s2. split; [|exact HA]. apply runs_single. exists 0%nat. cbn [exec1]. rewrite Ec2. reflexivity.
        - (* if *)
          cbn [body_ok] in Hst. fold Hs in Hst. apply andb_prop in Hst. destruct Hst as [Hst He]. apply andb_prop in Hst. destruct Hst as [Hc Ht].
          rewrite inline_stmt_p_if in Ha. destruct (inline_body_p cvars ce tb) as [tb'|] eqn:Htb; [|discriminate].
          destruct (inline_body_p cvars ce eb) as [eb'|] eqn:Heb; [|discriminate]. inversion Ha. subst a. clear Ha.
          cbn [exec1] in E1. apply obind_some in E1. destruct E1 as [bb [Ec E1]].
          assert (Ec2 : evalB (env_st s2) c = Some bb) by (rewrite <- (proj2 (agree_eval Hs s1 s2 c HA Hc)); exact Ec).
          destruct bb.
          + destruct (IH tb tb' s1 s2 s1m Ht Htb HA E1) as [s2m [R1 R2]]. exists s2m. split; [|exact R2].
            apply runs_single. apply (runs1_if ps c tb' eb' s2 s2m true Ec2). exact R1.
          + destruct (IH eb eb' s1 s2 s1m He Heb HA E1) as [s2m [R1 R2]]. exists s2m. split; [|exact R2].
            apply runs_single. apply (runs1_if ps c tb' eb' s2 s2m false Ec2). exact R1.
        - (* call *)
          cbn [body_ok] in Hst. fold Hs in Hst. apply andb_prop in Hst. destruct Hst as [Hargs Hcls].
          cbn [inline_stmt_p] in Ha. destruct (String.eqb g (ce_name ce)) eqn:Eg.
          + apply String.eqb_eq in Eg. subst g.
            destruct (stmt_agree_runs ps Hs (SCall (ce_name ce) args) f s1 s2 s1m Hargs HA E1) as [s2c [T1 T2]].
            assert (Hci : copy_in s2 (ce_params ce) args empty_store <> None).
            { intro K. cbn [exec1] in T1. rewrite Hf in T1. cbn [obind proc_of p_params] in T1. rewrite K in T1. discriminate. }
            pose proof (inline_sub_lockstep cvars ce args a ps Hcls Ha Hf (S f) s2 Hci) as L. rewrite T1 in L.
            destruct (exec ps (S f) a s2) as [s2q|] eqn:Eq; cbn in L; [|contradiction].
            exists s2q. split; [exists (S f); exact Eq|]. eapply agreeH_trans; [exact T2|apply agree_weaken; exact L].
          + apply Plain; [exact Hargs|congruence].
        - apply Plain; [exact Hst|cbn in Ha; congruence]. }
      destruct Step as [s2m [R1 R2]].
      destruct (IH rest b s1m s2m s1' Hrest Hb R2 E2) as [s2' [R3 R4]].
      exists s2'. split; [eapply runs_app; eassumption|exact R4].
  Qed.

  (** the caller body as a whole, from one store *)
  Corollary inline_body_preserves P P' s s1 :
    forallb (body_ok cvars ce) P = true -> inline_body_p cvars ce P = Some P' ->
    runs ps P s s1 -> exists s2, runs ps P' s s2 /\ agreeH Hs s1 s2.
  Proof. intros Hok Hin [f E]. exact (inline_body_sound f P P' s s s1 Hok Hin (agreeH_refl _ _) E). Qed.
End BodyThm.

(** * the tied model [inline_body] coincides with [inline_body_p] when all declared lower bounds agree *)
Definition nil_tmpl (e : string * (string * list dspec)) : bool := match snd (snd e) with [] => true | _ => false end.

Definition plain_site (lbc : list (string * list Z)) (ce : callee) (args : list expr) : bool :=
  match argmap_a lbc ce (ce_params ce) (map AExp args) with
  | Some amap => forallb nil_tmpl amap
  | None => false
  end.

Lemma argmap_a_plain lbc ce : forall ps args amap,
  argmap_a lbc ce ps (map AExp args) = Some amap -> forallb nil_tmpl amap = true -> amap = plain_amap ps args.
Proof.
  induction ps as [|[d b] ps IH]; intros args amap H Hn.
  - destruct args; cbn in H; [inversion H; reflexivity|discriminate].
  - destruct args as [|e r]; [destruct b; discriminate|]. cbn [map] in H. destruct b.
    + destruct e; try discriminate. cbn [argmap_a] in H.
      destruct (argmap_a lbc ce ps (map AExp r)) as [rest|] eqn:Er; [|discriminate]. inversion H. subst amap. clear H.
      cbn [forallb] in Hn. apply andb_prop in Hn. destruct Hn as [H1 H2]. unfold nil_tmpl in H1. cbn [snd] in H1.
      destruct (tmpl_clean _) eqn:Et; [|discriminate]. cbn [plain_amap]. f_equal. apply IH; [exact Er|exact H2].
    + cbn [argmap_a] in H. destruct e; cbn [plain_amap]; apply IH; assumption.
Qed.

Lemma scalar_args_AExp args : scalar_args (map AExp args) = args.
Proof. induction args as [|e r IH]; cbn; [reflexivity|]. f_equal. exact IH. Qed.

Lemma inline_call_plain cvars lbc ce args :
  plain_site lbc ce args = true -> inline_call cvars lbc ce args = inline_plain cvars ce args.
Proof.
  unfold plain_site, inline_call, inline_call_src, inline_plain. intros H.
  destruct (argmap_a lbc ce (ce_params ce) (map AExp args)) as [amap|] eqn:E; [|discriminate].
  rewrite (argmap_a_plain lbc ce _ _ _ E H), scalar_args_AExp. reflexivity.
Qed.

Fixpoint sites_plain (lbc : list (string * list Z)) (ce : callee) (s : stmt) : bool :=
  match s with
  | SCall g args => if String.eqb g (ce_name ce) then plain_site lbc ce args else true
  | SDo _ _ _ _ b | SWhile _ b => forallb (sites_plain lbc ce) b
  | SIf _ t e => forallb (sites_plain lbc ce) t && forallb (sites_plain lbc ce) e
  | _ => true
  end.

Lemma inline_stmt_go cvars lbc ce b :
  (fix go (l : list stmt) : option (list stmt) :=
     match l with
     | [] => Some []
     | x :: r => match inline_stmt cvars lbc ce x, go r with Some a, Some b => Some (a ++ b)%list | _, _ => None end
     end) b = inline_body cvars lbc ce b.
Proof. induction b as [|x r IH]; [reflexivity|]. cbn [inline_body]. rewrite <- IH. reflexivity. Qed.

Lemma inline_stmt_do_eq cvars lbc ce v lo hi st b :
  inline_stmt cvars lbc ce (SDo v lo hi st b) = match inline_body cvars lbc ce b with Some b' => Some [SDo v lo hi st b'] | None => None end.
Proof. rewrite <- inline_stmt_go. reflexivity. Qed.
Lemma inline_stmt_while_eq cvars lbc ce c b :
  inline_stmt cvars lbc ce (SWhile c b) = match inline_body cvars lbc ce b with Some b' => Some [SWhile c b'] | None => None end.
Proof. rewrite <- inline_stmt_go. reflexivity. Qed.
Lemma inline_stmt_if_eq cvars lbc ce c t e :
  inline_stmt cvars lbc ce (SIf c t e) =
  match inline_body cvars lbc ce t, inline_body cvars lbc ce e with Some t', Some e' => Some [SIf c t' e'] | _, _ => None end.
Proof. rewrite <- !inline_stmt_go. reflexivity. Qed.

Lemma inline_body_plain cvars lbc ce : forall P,
  forallb (sites_plain lbc ce) P = true -> inline_body cvars lbc ce P = inline_body_p cvars ce P.
Proof.
  assert (St : forall s, sites_plain lbc ce s = true -> inline_stmt cvars lbc ce s = inline_stmt_p cvars ce s).
  { induction s using stmt_ind'; intros Hs; try reflexivity.
    - assert (Eb : inline_body cvars lbc ce b = inline_body_p cvars ce b).
      { cbn [sites_plain] in Hs. induction H as [|x r Hx _ IHr]; [reflexivity|].
        cbn [forallb] in Hs. apply andb_prop in Hs. destruct Hs as [H1 H2].
        cbn [inline_body inline_body_p]. rewrite (Hx H1), (IHr H2). reflexivity. }
      rewrite inline_stmt_do_eq, inline_stmt_p_do, Eb. reflexivity.
    - assert (Eb : inline_body cvars lbc ce b = inline_body_p cvars ce b).
      { cbn [sites_plain] in Hs. induction H as [|x r Hx _ IHr]; [reflexivity|].
        cbn [forallb] in Hs. apply andb_prop in Hs. destruct Hs as [H1 H2].
        cbn [inline_body inline_body_p]. rewrite (Hx H1), (IHr H2). reflexivity. }
      rewrite inline_stmt_while_eq, inline_stmt_p_while, Eb. reflexivity.
    - cbn [sites_plain] in Hs. apply andb_prop in Hs. destruct Hs as [Ht He].
      assert (Et : inline_body cvars lbc ce t = inline_body_p cvars ce t).
      { induction H as [|x r Hx _ IHr]; [reflexivity|].
        cbn [forallb] in Ht. apply andb_prop in Ht. destruct Ht as [H1 H2].
        cbn [inline_body inline_body_p]. rewrite (Hx H1), (IHr H2). reflexivity. }
      assert (Ee : inline_body cvars lbc ce e = inline_body_p cvars ce e).
      { induction H0 as [|x r Hx _ IHr]; [reflexivity|].
        cbn [forallb] in He. apply andb_prop in He. destruct He as [H1 H2].
        cbn [inline_body inline_body_p]. rewrite (Hx H1), (IHr H2). reflexivity. }
      rewrite inline_stmt_if_eq, inline_stmt_p_if, Et, Ee. reflexivity.
    - cbn [sites_plain] in Hs. cbn [inline_stmt inline_stmt_p].
      destruct (String.eqb f (ce_name ce)); [apply inline_call_plain; exact Hs|reflexivity]. }
  induction P as [|x r IH]; intros H; [reflexivity|].
  cbn [forallb] in H. apply andb_prop in H. destruct H as [H1 H2].
  cbn [inline_body inline_body_p]. rewrite (St x H1), (IH H2). reflexivity.
Qed.

(** the body theorem for the model function that the correspondence ties to Loki *)
Theorem inline_body_tied_preserves cvars lbc ce ps :
  find_proc ps (ce_name ce) = Some (proc_of ce) ->
  forall P P' s s1,
    forallb (body_ok cvars ce) P = true -> forallb (sites_plain lbc ce) P = true ->
    inline_body cvars lbc ce P = Some P' ->
    runs ps P s s1 -> exists s2, runs ps P' s s2 /\ agreeH (hoisted_s cvars ce) s1 s2.
Proof.
  intros Hf P P' s s1 Hok Hpl Hin Hr. rewrite (inline_body_plain cvars lbc ce P Hpl) in Hin.
  exact (inline_body_preserves cvars ce ps Hf P P' s s1 Hok Hin Hr).
Qed.

Open Scope string_scope.
Example body_ok_nontrivial :
  forallb (body_ok ["x"; "y"; "t"; "a"] ex_callee)
    [SAssign "t" (EInt 1);
     SIf (ECmp Cgt (EVar "x") (EInt 0)) [SCall "f" [ESum false [EVar "x"; EInt 2]; EVar "y"; EVar "a"]] [];
     SDo "k" (EInt 1) (EInt 2) None [SCall "f" [EVar "k"; EVar "x"; EVar "a"]]] = true
  /\ exists P', inline_body_p ["x"; "y"; "t"; "a"] ex_callee
    [SAssign "t" (EInt 1);
     SIf (ECmp Cgt (EVar "x") (EInt 0)) [SCall "f" [ESum false [EVar "x"; EInt 2]; EVar "y"; EVar "a"]] [];
     SDo "k" (EInt 1) (EInt 2) None [SCall "f" [EVar "k"; EVar "x"; EVar "a"]]] = Some P'.
Proof. split; [vm_compute; reflexivity|eexists; vm_compute; reflexivity]. Qed.
