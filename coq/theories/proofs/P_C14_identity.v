(** C14 — the empty mapping: [Transformer()] returns an equal tree (for trees without empty entries inside
    tuples), and a witness that it does not for a multi-conditional with an empty case body. *)
From Coq Require Import ZArith List Bool Lia Arith.
From LV Require Import models.M_C14 proofs.P_C14 proofs.P_C14_inject proofs.P_C14_spec.
Import ListNotations.
Open Scope Z_scope.

(** the same tree with the identities the transformer leaves: kept where nodes are updated in place *)
Fixpoint reid (c : cfg) (o : item) : item :=
  match o with
  | Tup l => Tup (map (reid c) l)
  | Nd i k s p ch =>
      Nd (if c_inplace c || (kind_scoped k && negb (c_rebuild_scopes c)) then i else 0) k s p (map (reid c) ch)
  | _ => o
  end.

Lemma reid_ieqb c : forall o, ieqb (reid c o) o = true.
Proof.
  induction o using item_ind'; try apply ieqb_refl.
  - cbn [reid]. rewrite ieqb_Tup. induction H; cbn; [reflexivity|]. now rewrite H, IHForall.
  - cbn [reid]. rewrite ieqb_Nd, !Z.eqb_refl. cbn. induction H; cbn; [reflexivity|]. now rewrite H, IHForall.
Qed.

Section Reid.
  Variable c : cfg.
  Let f := reid c.

  Lemma is_none_reid x : is_none (f x) = is_none x. Proof. destruct x; reflexivity. Qed.
  Lemma is_nd_reid x : is_nd (f x) = is_nd x. Proof. destruct x; reflexivity. Qed.
  Lemma is_tup_reid x : is_tup (f x) = is_tup x. Proof. destruct x; reflexivity. Qed.
  Lemma keep_reid x : keep (f x) = keep x. Proof. destruct x as [| |[|]|]; reflexivity. Qed.
  Lemma as_tuple_reid x : as_tuple (f x) = map f (as_tuple x). Proof. destruct x; reflexivity. Qed.

  Lemma flatten_item_reid : forall x, flatten_item (f x) = map f (flatten_item x).
  Proof.
    induction x using item_ind'; try reflexivity.
    cbn [f reid flatten_item]. induction H; cbn; [reflexivity|]. rewrite map_app. f_equal; assumption.
  Qed.

  Lemma flatten_reid l : flatten (map f l) = map f (flatten l).
  Proof.
    unfold flatten. induction l as [|x l IH]; cbn; [reflexivity|].
    now rewrite map_app, flatten_item_reid, IH.
  Qed.

  Lemma filter_map_comm {A} (g : A -> A) (q : A -> bool) l : (forall x, q (g x) = q x) ->
    filter q (map g l) = map g (filter q l).
  Proof. intros H. induction l as [|x l IH]; cbn; [reflexivity|]. rewrite H. destruct (q x); cbn; now rewrite IH. Qed.

  Lemma sanitize_reid x : sanitize (f x) = map f (sanitize x).
  Proof.
    unfold sanitize. rewrite as_tuple_reid, flatten_reid. apply filter_map_comm.
    intros y. now rewrite is_none_reid.
  Qed.

  Lemma forallb_map_comm {A} (g : A -> A) (q : A -> bool) l : (forall x, q (g x) = q x) ->
    forallb q (map g l) = forallb q l.
  Proof. intros H. induction l as [|x l IH]; cbn; [reflexivity|]. now rewrite H, IH. Qed.

  Lemma norm_slot_reid n x : norm_slot n (f x) = option_map f (norm_slot n x).
  Proof.
    destruct n; cbn [norm_slot option_map].
    - reflexivity.
    - rewrite sanitize_reid, (forallb_map_comm f is_nd) by apply is_nd_reid.
      destruct (forallb is_nd (sanitize x)); reflexivity.
    - now rewrite sanitize_reid.
    - rewrite as_tuple_reid. f_equal.
      change (Tup (map (fun p => Tup (sanitize p)) (map f (as_tuple x))) =
              Tup (map f (map (fun p => Tup (sanitize p)) (as_tuple x)))).
      f_equal. rewrite !map_map. apply map_ext. intros y. rewrite sanitize_reid. reflexivity.
    - rewrite is_none_reid. destruct (is_none x); reflexivity.
    - destruct x; try reflexivity. cbn [f reid]. rewrite (forallb_map_comm f is_nd) by apply is_nd_reid.
      destruct (forallb is_nd l); reflexivity.
    - destruct x; try reflexivity. cbn [f reid].
      rewrite (forallb_map_comm f (fun b => match b with Tup m => forallb is_nd m | _ => false end)).
      + destruct (forallb _ l); reflexivity.
      + intros y. destruct y; try reflexivity. cbn [f reid]. apply forallb_map_comm. apply is_nd_reid.
  Qed.

  Lemma norm_children_reid : forall ch ns,
    norm_children ns (map f ch) = option_map (map f) (norm_children ns ch).
  Proof.
    induction ch as [|x ch IH]; intros ns; cbn [map norm_children option_map]; [reflexivity|].
    rewrite norm_slot_reid, IH. destruct (norm_slot _ x); [|reflexivity]. cbn [option_map].
    destruct (norm_children (tl ns) ch); reflexivity.
  Qed.

  Lemma nth_reid n ch : nth n (map f ch) NoneI = f (nth n ch NoneI).
  Proof. change NoneI with (f NoneI) at 1. apply map_nth. Qed.

  Lemma post_init_reid k p ch : post_init_ok k p (map f ch) = post_init_ok k p ch.
  Proof.
    unfold post_init_ok. rewrite !nth_reid, map_length.
    destruct (k =? K_Conditional).
    - destruct (Z.odd p); [|reflexivity]. destruct (nth 2 ch NoneI) as [| |els|]; try reflexivity.
      cbn [f reid]. rewrite map_length. destruct els as [|e els]; [reflexivity|]. cbn [map hd]. destruct e; reflexivity.
    - destruct (k =? K_MaskedStatement); [|reflexivity].
      rewrite !is_tup_reid, !as_tuple_reid, !map_length. reflexivity.
  Qed.

  Lemma mk_node_reid k s p ch ch' :
    mk_node k s p ch = Some (Nd 0 k s p ch') -> mk_node k s p (map f ch) = Some (Nd 0 k s p (map f ch')).
  Proof.
    unfold mk_node. rewrite norm_children_reid. destruct (norm_children (kind_slots k) ch) as [c1|]; [|discriminate].
    cbn [option_map]. rewrite post_init_reid. destruct (post_init_ok k p c1); [|discriminate].
    intros H. inversion H. reflexivity.
  Qed.
End Reid.

Lemma constructed_inv i k s p ch : constructed (Nd i k s p ch) = true ->
  mk_node k s p ch = Some (Nd 0 k s p ch) /\ forall x, In x ch -> constructed x = true.
Proof.
  cbn [constructed]. intros H. apply andb_true_iff in H as [H1 H2]. split.
  - destruct (mk_node k s p ch) as [[| | |i' k' s' p' ch']|] eqn:E; try discriminate.
    apply list_ideqb_eq in H1. subst ch'.
    apply mk_node_inv in E as (c1 & _ & _ & E). now inversion E.
  - rewrite forallb_forall in H2. exact H2.
Qed.

Lemma mk_node_src k s s' p ch ch' : mk_node k s p ch = Some (Nd 0 k s p ch') -> mk_node k s' p ch = Some (Nd 0 k s' p ch').
Proof.
  unfold mk_node. destruct (norm_children _ ch); [|discriminate]. destruct (post_init_ok _ _ _); [|discriminate].
  intros H. inversion H. reflexivity.
Qed.

Lemma constructed_normalized : forall o, constructed o = true -> normalized o = true.
Proof.
  induction o using item_ind'; intros Hc; try reflexivity.
  - cbn [normalized]. cbn [constructed] in Hc. rewrite forallb_forall in *. rewrite Forall_forall in H. auto.
  - pose proof (constructed_inv _ _ _ _ _ Hc) as [Hm Hch]. cbn [normalized].
    apply andb_true_iff. split.
    + destruct (kind_scoped k); [|reflexivity].
      apply mk_node_inv in Hm as (c1 & En & _ & E). rewrite En. inversion E. subst.
      apply list_eqb_refl. apply Forall_forall. intros x _. apply ideqb_refl.
    + apply forallb_forall. intros x Hx. rewrite Forall_forall in H. auto.
Qed.

Lemma sequence_map_some {A B} (g : A -> B) (h : A -> option B) l :
  (forall x, In x l -> h x = Some (g x)) -> sequence (map h l) = Some (map g l).
Proof.
  induction l as [|x l IH]; intros H; cbn; [reflexivity|].
  rewrite (H x (or_introl eq_refl)), IH; [reflexivity|]. intros y Hy. apply H. now right.
Qed.

Lemma inv_src_stable c s l : c_invsrc c = false \/ (s =? 1) = false -> inv_src c s l = s.
Proof. unfold inv_src. intros [->| ->]; [reflexivity|]. now rewrite andb_false_r. Qed.

Lemma refresh_identity c : forall t,
  clean t = true -> constructed t = true -> (c_invsrc c = false \/ no_valid_src t = true) ->
  refresh c t = Some (reid c t).
Proof.
  unfold refresh. induction t using item_ind'; intros Hcl Hco Hsrc; try reflexivity.
  - rewrite spec_gen_Tup. cbn [clean constructed] in *. rewrite forallb_forall in Hcl, Hco. rewrite Forall_forall in H.
    erewrite (sequence_map_some (fun x => [reid c x])).
    + cbn [reid]. f_equal. f_equal. rewrite <- flat_map_concat_map.
      assert (E : flat_map (fun x => [reid c x]) l = map (reid c) l) by (clear; induction l; cbn; congruence).
      rewrite E. unfold strip. clear E.
      assert (forall x, In x l -> keep (reid c x) = true).
      { intros x Hx. rewrite keep_reid. specialize (Hcl x Hx). now apply andb_true_iff in Hcl as [? _]. }
      clear - H0. induction l as [|x l IH]; cbn; [reflexivity|].
      rewrite (H0 x (or_introl eq_refl)). f_equal. apply IH. intros y Hy. apply H0. now right.
    + intros x Hx. cbv beta. specialize (Hcl x Hx). apply andb_true_iff in Hcl as [_ Hcl].
      rewrite (H x Hx Hcl (Hco x Hx)); [reflexivity|].
      destruct Hsrc as [Hs|Hs]; [now left|right]. cbn [no_valid_src] in Hs. rewrite forallb_forall in Hs. auto.
  - rewrite spec_gen_Nd. cbv zeta. pose proof (constructed_inv _ _ _ _ _ Hco) as [Hm Hch].
    cbn [clean] in Hcl. rewrite forallb_forall in Hcl. rewrite Forall_forall in H.
    assert (Hs : c_invsrc c = false \/ (s =? 1) = false).
    { destruct Hsrc as [Hs|Hs]; [now left|right]. cbn [no_valid_src] in Hs. apply andb_true_iff in Hs as [Hs _].
      now apply negb_true_iff in Hs. }
    rewrite (sequence_map_some (reid c)).
    + unfold spec_node, src_after. cbn [kind_of src_of children_of reid]. rewrite !(inv_src_stable c s _ Hs).
      destruct (kind_scoped k) eqn:Hsc.
      * destruct (c_rebuild_scopes c); cbn [andb negb].
        -- destruct (c_inplace c); cbn [negb orb]; [reflexivity|]. now rewrite Hm.
        -- rewrite orb_true_r. reflexivity.
      * cbn [andb]. rewrite orb_false_r. destruct (c_inplace c); [reflexivity|].
        now apply mk_node_reid.
    + intros x Hx. apply H; auto.
      destruct Hsrc as [Hs'|Hs']; [now left|right]. cbn [no_valid_src] in Hs'. apply andb_true_iff in Hs' as [_ Hs'].
      rewrite forallb_forall in Hs'. auto.
Qed.

Theorem empty_mapping_identity : forall c t n pa ms,
  c_cls c = TPlain -> c_map c = [] ->
  clean t = true -> constructed t = true -> (c_invsrc c = false \/ no_valid_src t = true) ->
  (height t <= n)%nat ->
  res_item (visit n c pa t ms) = Some (reid c t) /\ ieqb (reid c t) t = true.
Proof.
  intros c t n pa ms Hc HM Hcl Hco Hsrc Hn. split; [|apply reid_ieqb].
  rewrite transform_spec; try assumption.
  - unfold spec. rewrite HM. cbn [mfind]. change (spec_gen c (fun _ => None) (refresh c) t = Some (reid c t)).
    rewrite <- (refresh_identity c t Hcl Hco Hsrc).
    assert (G : keyfree [] t = true).
    { clear. induction t using item_ind'; try reflexivity.
      - cbn [keyfree]. apply forallb_forall. rewrite Forall_forall in H. auto.
      - cbn [keyfree mfind]. apply forallb_forall. rewrite Forall_forall in H. auto. }
    pose proof (spec_keyfree c) as SK. rewrite HM in SK. specialize (SK eq_refl t G).
    unfold spec in SK. rewrite HM in SK. exact SK.
  - rewrite HM. unfold spec_class. cbn. rewrite (constructed_normalized t Hco).
    assert (E : exact_keys [] t = true).
    { clear. induction t using item_ind'; try reflexivity.
      - cbn [exact_keys]. apply forallb_forall. rewrite Forall_forall in H. auto.
      - cbn [exact_keys mfind]. apply forallb_forall. rewrite Forall_forall in H. auto. }
    now rewrite E.
  - rewrite HM. cbn. lia.
Qed.

(** the tree [SELECT CASE (x); CASE (1); CASE (2); <comment>; END SELECT]: the empty body of the first case is
    dropped, the remaining body moves under the first case value *)
Definition mc_tree : item :=
  Nd 1 K_MultiConditional 0 0
     [Obj 0; Tup [Tup [Obj 1]; Tup [Obj 2]]; Tup [Tup []; Tup [Nd 2 K_Comment 0 0 []]]; Tup []].
Definition id_cfg : cfg := Build_cfg TPlain [] false true false [] false false.

Lemma empty_mapping_identity_refuted :
  exists t, constructed t = true /\ clean t = false /\
    res_item (visit 10 id_cfg None t (init_ms false [])) =
      Some (Nd 0 K_MultiConditional 0 0
               [Obj 0; Tup [Tup [Obj 1]; Tup [Obj 2]]; Tup [Tup [Nd 0 K_Comment 0 0 []]]; Tup []]) /\
    (forall r, res_item (visit 10 id_cfg None t (init_ms false [])) = Some r -> ieqb r t = false).
Proof.
  exists mc_tree. repeat split; try reflexivity. intros r H. vm_compute in H. inversion H. reflexivity.
Qed.
