From Coq Require Import ZArith List Bool String Lia.
From LV Require Import Base.Expr Base.MiniF Base.MiniFFacts models.M_C31.
From LV Require models.M_C10 proofs.P_C10.
Import ListNotations.
Open Scope Z_scope.

(** * Part A: expressions *)

Lemma forallb_Forall {A} (p : A -> bool) l : forallb p l = true <-> Forall (fun x => p x = true) l.
Proof. rewrite forallb_forall, Forall_forall. tauto. Qed.

Definition sg_ok (sg : string -> option expr) (s : store) : Prop :=
  forall x r, sg x = Some r -> exists i, r = EInt i /\ sv s x = i.

Lemma sim_refl D A s : sim D A s s.
Proof. split; auto. Qed.

Lemma sim_trans D A s t u : sim D A s t -> sim D A t u -> sim D A s u.
Proof. intros [H1 H2] [H3 H4]. split; intros; [rewrite H1, H3|rewrite H2, H4]; auto. Qed.

Lemma sim_sym D A s t : sim D A s t -> sim D A t s.
Proof. intros [H1 H2]. split; intros; symmetry; auto. Qed.

Lemma sim_weaken D A D' A' s t :
  (forall x, D x = true -> D' x = true) -> (forall x, A x = true -> A' x = true) -> sim D A s t -> sim D' A' s t.
Proof.
  intros HD HA [H1 H2]. split.
  - intros x Hx. apply H1. destruct (D x) eqn:E; [rewrite (HD _ E) in Hx; discriminate|reflexivity].
  - intros a i Hx. apply H2. destruct (A a) eqn:E; [rewrite (HA _ E) in Hx; discriminate|reflexivity].
Qed.

Lemma dminus_sub D v x : dminus D v x = true -> D x = true.
Proof. unfold dminus. intros H. apply andb_true_iff in H. tauto. Qed.

Lemma sim_set_both D A v i s t : sim D A s t -> sim (dminus D v) A (set_sv v i s) (set_sv v i t).
Proof.
  intros [H1 H2]. split; [|exact H2].
  intros x Hx. cbn. destruct (String.eqb x v) eqn:E; [reflexivity|].
  apply H1. unfold dminus in Hx. rewrite E in Hx. cbn in Hx. now rewrite andb_true_r in Hx.
Qed.

Lemma sim_set_left D A v i s t : D v = true -> sim D A s t -> sim D A (set_sv v i s) t.
Proof.
  intros Hv [H1 H2]. split; [|exact H2].
  intros x Hx. cbn. destruct (String.eqb x v) eqn:E; [|now apply H1].
  apply String.eqb_eq in E. subst. congruence.
Qed.

Lemma sim_set_right D A v i s t : D v = true -> sim D A s t -> sim D A s (set_sv v i t).
Proof. intros Hv H. apply sim_sym. apply sim_set_left; [exact Hv|now apply sim_sym]. Qed.

(** evaluation of lists of operands *)
Lemma fold_sum_ext (f g : expr -> option Z) (h : expr -> expr) (op : Z -> Z -> Z) (z : option Z) cs :
  Forall (fun c => f c = g (h c)) cs ->
  fold_right (fun c acc => obind (f c) (fun v => obind acc (fun a => Some (op v a)))) z cs =
  fold_right (fun c acc => obind (g c) (fun v => obind acc (fun a => Some (op v a)))) z (map h cs).
Proof. induction 1 as [|c cs Hc _ IH]; cbn; [reflexivity|]. now rewrite Hc, IH. Qed.

Lemma fold_b_ext (f g : expr -> option bool) (h : expr -> expr) (op : bool -> bool -> bool) (z : option bool) cs :
  Forall (fun c => f c = g (h c)) cs ->
  fold_right (fun c acc => obind (f c) (fun v => obind acc (fun a => Some (op v a)))) z cs =
  fold_right (fun c acc => obind (g c) (fun v => obind acc (fun a => Some (op v a)))) z (map h cs).
Proof. induction 1 as [|c cs Hc _ IH]; cbn; [reflexivity|]. now rewrite Hc, IH. Qed.

Definition eval_args (rho : env) : list expr -> option (list Z) :=
  fix go (l : list expr) : option (list Z) :=
    match l with
    | [] => Some []
    | a :: r => obind (evalZ rho a) (fun v => obind (go r) (fun vs => Some (v :: vs)))
    end.

Lemma evalZ_call rho f args :
  evalZ rho (ECall f args) =
  obind (eval_args rho args) (fun vs => match intrinsic f vs with Some r => r | None => ev_fun rho f vs end).
Proof. reflexivity. Qed.

Lemma eval_args_ext rho rho' (h : expr -> expr) cs :
  Forall (fun c => evalZ rho c = evalZ rho' (h c)) cs -> eval_args rho cs = eval_args rho' (map h cs).
Proof. induction 1 as [|c cs Hc _ IH]; cbn; [reflexivity|]. now rewrite Hc, IH. Qed.

Lemma Forall_impl_forallb {A} (p : A -> bool) (Q : A -> Prop) l :
  Forall (fun x => p x = true -> Q x) l -> forallb p l = true -> Forall Q l.
Proof.
  induction 1 as [|x l Hx _ IH]; intros Hp; [constructor|].
  cbn in Hp. apply andb_true_iff in Hp. destruct Hp as [H1 H2]. constructor; auto.
Qed.

Lemma eval_msubst D A sg s t :
  sim D A s t -> sg_ok sg s -> forall e,
  efree (dsub D sg) A e = true ->
  evalZ (env_st s) e = evalZ (env_st t) (msubst_e sg e) /\ evalB (env_st s) e = evalB (env_st t) (msubst_e sg e).
Proof.
  intros [Hs Ha] Hsg. induction e using expr_ind'; intros Hf; cbn [efree] in Hf.
  - split; reflexivity.
  - split; reflexivity.
  - cbn [msubst_e]. destruct (sg x) as [r|] eqn:E.
    + destruct (Hsg _ _ E) as [i [-> Hi]]. cbn. split; [now rewrite Hi|reflexivity].
    + cbn. split; [|reflexivity]. f_equal. apply Hs.
      unfold dsub, dom in Hf. rewrite E in Hf. cbn in Hf. rewrite andb_true_r in Hf.
      now apply negb_true_iff in Hf.
  - split; reflexivity.
  - assert (HF : Forall (fun c => evalZ (env_st s) c = evalZ (env_st t) (msubst_e sg c)) cs).
    { apply Forall_impl_forallb with (p := efree (dsub D sg) A); [|exact Hf]. eapply Forall_impl; [|exact H]. intros c Hc Hc'. now apply Hc. }
    split; [|reflexivity]. cbn [msubst_e evalZ]. now apply fold_sum_ext.
  - assert (HF : Forall (fun c => evalZ (env_st s) c = evalZ (env_st t) (msubst_e sg c)) cs).
    { apply Forall_impl_forallb with (p := efree (dsub D sg) A); [|exact Hf]. eapply Forall_impl; [|exact H]. intros c Hc Hc'. now apply Hc. }
    split; [|reflexivity]. cbn [msubst_e evalZ]. now apply fold_sum_ext.
  - apply andb_true_iff in Hf. destruct Hf as [H1 H2].
    destruct (IHe1 H1) as [E1 _], (IHe2 H2) as [E2 _].
    split; [|reflexivity]. cbn [msubst_e evalZ]. now rewrite E1, E2.
  - apply andb_true_iff in Hf. destruct Hf as [H1 H2].
    destruct (IHe1 H1) as [E1 _], (IHe2 H2) as [E2 _].
    split; [|reflexivity]. cbn [msubst_e evalZ]. now rewrite E1, E2.
  - apply andb_true_iff in Hf. destruct Hf as [H1 H2].
    destruct (IHe1 H1) as [E1 _], (IHe2 H2) as [E2 _].
    split; [reflexivity|]. cbn [msubst_e evalB]. now rewrite E1, E2.
  - assert (HF : Forall (fun c => evalB (env_st s) c = evalB (env_st t) (msubst_e sg c)) cs).
    { apply Forall_impl_forallb with (p := efree (dsub D sg) A); [|exact Hf]. eapply Forall_impl; [|exact H]. intros c Hc Hc'. now apply Hc. }
    split; [reflexivity|]. cbn [msubst_e evalB]. now apply fold_b_ext.
  - assert (HF : Forall (fun c => evalB (env_st s) c = evalB (env_st t) (msubst_e sg c)) cs).
    { apply Forall_impl_forallb with (p := efree (dsub D sg) A); [|exact Hf]. eapply Forall_impl; [|exact H]. intros c Hc Hc'. now apply Hc. }
    split; [reflexivity|]. cbn [msubst_e evalB]. now apply fold_b_ext.
  - destruct (IHe Hf) as [_ E]. split; [reflexivity|]. cbn [msubst_e evalB]. now rewrite E.
  - apply andb_true_iff in Hf. destruct Hf as [H1 H2]. apply negb_true_iff in H1.
    assert (HF : Forall (fun c => evalZ (env_st s) c = evalZ (env_st t) (msubst_e sg c)) args).
    { apply Forall_impl_forallb with (p := efree (dsub D sg) A); [|exact H2]. eapply Forall_impl; [|exact H]. intros c Hc Hc'. now apply Hc. }
    split; [|reflexivity]. cbn [msubst_e]. rewrite !evalZ_call.
    rewrite (eval_args_ext _ (env_st t) (msubst_e sg) _ HF).
    destruct (eval_args (env_st t) (map (msubst_e sg) args)) as [vs|]; [|reflexivity]. cbn [obind].
    destruct (intrinsic f vs); [reflexivity|]. cbn. now rewrite Ha.
Qed.

Lemma evalZ_msubst D A sg s t e :
  sim D A s t -> sg_ok sg s -> efree (dsub D sg) A e = true ->
  evalZ (env_st s) e = evalZ (env_st t) (msubst_e sg e).
Proof. intros H1 H2 H3. now destruct (eval_msubst D A sg s t H1 H2 e H3). Qed.

Lemma evalB_msubst D A sg s t e :
  sim D A s t -> sg_ok sg s -> efree (dsub D sg) A e = true ->
  evalB (env_st s) e = evalB (env_st t) (msubst_e sg e).
Proof. intros H1 H2 H3. now destruct (eval_msubst D A sg s t H1 H2 e H3). Qed.

Lemma eval_idx_msubst D A sg s t idx :
  sim D A s t -> sg_ok sg s -> forallb (efree (dsub D sg) A) idx = true ->
  eval_idx s idx = eval_idx t (map (msubst_e sg) idx).
Proof.
  intros H1 H2. unfold eval_idx. induction idx as [|e r IH]; intros Hf; cbn; [reflexivity|].
  cbn in Hf. apply andb_true_iff in Hf. destruct Hf as [Ha Hb].
  rewrite (evalZ_msubst D A sg s t e H1 H2 Ha), (IH Hb). reflexivity.
Qed.

(** the identity substitution *)
Definition sg_id : string -> option expr := fun _ => None.

Lemma map_id_Forall {A} (f : A -> A) l : Forall (fun x => f x = x) l -> map f l = l.
Proof. induction 1 as [|x l Hx _ IH]; cbn; [reflexivity|]. now rewrite Hx, IH. Qed.

Lemma msubst_e_id e : msubst_e sg_id e = e.
Proof.
  induction e using expr_ind'; cbn; try reflexivity;
    try (now rewrite (map_id_Forall _ _ H)); try (now rewrite IHe1, IHe2); try (now rewrite IHe).
Qed.

Lemma map_msubst_e_id l : map (msubst_e sg_id) l = l.
Proof. apply map_id_Forall. apply Forall_forall. intros; apply msubst_e_id. Qed.

Lemma msubst_s_id s : msubst_s sg_id s = s.
Proof.
  induction s using stmt_ind'; cbn.
  - now rewrite msubst_e_id.
  - now rewrite map_msubst_e_id, msubst_e_id.
  - rewrite !msubst_e_id. rewrite (map_id_Forall _ _ H). destruct st; cbn; [now rewrite msubst_e_id|reflexivity].
  - now rewrite msubst_e_id, (map_id_Forall _ _ H).
  - now rewrite msubst_e_id, (map_id_Forall _ _ H), (map_id_Forall _ _ H0).
  - now rewrite map_msubst_e_id.
  - reflexivity.
Qed.

Lemma msubst_l_id l : msubst_l sg_id l = l.
Proof. apply map_id_Forall. apply Forall_forall. intros; apply msubst_s_id. Qed.

Lemma sg_ok_id s : sg_ok sg_id s.
Proof. intros x r H. discriminate. Qed.

(** (anti)monotonicity of the read predicates *)
Lemma efree_mono D A D' A' e :
  (forall x, D' x = true -> D x = true) -> (forall x, A' x = true -> A x = true) ->
  efree D A e = true -> efree D' A' e = true.
Proof.
  intros HD HA. induction e using expr_ind'; cbn; intros Hf; try reflexivity.
  - apply negb_true_iff in Hf. apply negb_true_iff. destruct (D' x) eqn:E; [rewrite (HD _ E) in Hf; discriminate|reflexivity].
  - apply forallb_Forall. apply forallb_Forall in Hf. rewrite Forall_forall in *. intros q Hq. apply H; auto.
  - apply forallb_Forall. apply forallb_Forall in Hf. rewrite Forall_forall in *. intros q Hq. apply H; auto.
  - apply andb_true_iff in Hf. apply andb_true_iff. split; [apply IHe1|apply IHe2]; tauto.
  - apply andb_true_iff in Hf. apply andb_true_iff. split; [apply IHe1|apply IHe2]; tauto.
  - apply andb_true_iff in Hf. apply andb_true_iff. split; [apply IHe1|apply IHe2]; tauto.
  - apply forallb_Forall. apply forallb_Forall in Hf. rewrite Forall_forall in *. intros q Hq. apply H; auto.
  - apply forallb_Forall. apply forallb_Forall in Hf. rewrite Forall_forall in *. intros q Hq. apply H; auto.
  - auto.
  - apply andb_true_iff in Hf. destruct Hf as [H1 H2]. apply andb_true_iff. split.
    + apply negb_true_iff in H1. apply negb_true_iff. destruct (A' f) eqn:E; [rewrite (HA _ E) in H1; discriminate|reflexivity].
    + apply forallb_Forall. apply forallb_Forall in H2. rewrite Forall_forall in *. intros q Hq. apply H; auto.
Qed.

Lemma forallb_efree_mono D A D' A' l :
  (forall x, D' x = true -> D x = true) -> (forall x, A' x = true -> A x = true) ->
  forallb (efree D A) l = true -> forallb (efree D' A') l = true.
Proof.
  intros HD HA Hf. apply forallb_Forall. apply forallb_Forall in Hf. eapply Forall_impl; [|exact Hf].
  intros e He. eapply efree_mono; eauto.
Qed.

Lemma oefree_mono D A D' A' o :
  (forall x, D' x = true -> D x = true) -> (forall x, A' x = true -> A x = true) ->
  oefree D A o = true -> oefree D' A' o = true.
Proof. intros HD HA. destruct o; cbn; [apply efree_mono; auto|auto]. Qed.

Lemma dminus_mono D D' v : (forall x, D' x = true -> D x = true) -> forall x, dminus D' v x = true -> dminus D v x = true.
Proof.
  intros H x Hx. unfold dminus in *. apply andb_true_iff in Hx. destruct Hx as [H1 H2]. now rewrite (H _ H1), H2.
Qed.

Lemma nreads_mono s : forall D A D' A',
  (forall x, D' x = true -> D x = true) -> (forall x, A' x = true -> A x = true) ->
  nreads D A s = true -> nreads D' A' s = true.
Proof.
  induction s using stmt_ind'; intros D A D' A' HD HA; cbn; intros Hf; try exact Hf.
  - eapply efree_mono; eauto.
  - apply andb_true_iff in Hf. destruct Hf as [H1 H2]. apply andb_true_iff.
    split; [eapply forallb_efree_mono|eapply efree_mono]; eauto.
  - repeat (apply andb_true_iff in Hf; destruct Hf as [Hf ?]).
    repeat (apply andb_true_iff; split); try (eapply efree_mono; eauto); try (eapply oefree_mono; eauto).
    apply forallb_Forall. apply forallb_Forall in H0. rewrite Forall_forall in *. intros q Hq.
    eapply H; [exact Hq|apply dminus_mono; exact HD|exact HA|auto].
  - apply andb_true_iff in Hf. destruct Hf as [H1 H2]. apply andb_true_iff. split; [eapply efree_mono; eauto|].
    apply forallb_Forall. apply forallb_Forall in H2. rewrite Forall_forall in *. intros q Hq. eapply H; eauto.
  - repeat (apply andb_true_iff in Hf; destruct Hf as [Hf ?]).
    repeat (apply andb_true_iff; split); try (eapply efree_mono; eauto).
    + apply forallb_Forall. apply forallb_Forall in H2. rewrite Forall_forall in *. intros q Hq. eapply H; eauto.
    + apply forallb_Forall. apply forallb_Forall in H1. rewrite Forall_forall in *. intros q Hq. eapply H0; eauto.
Qed.

Lemma forallb_nreads_mono D A D' A' l :
  (forall x, D' x = true -> D x = true) -> (forall x, A' x = true -> A x = true) ->
  forallb (nreads D A) l = true -> forallb (nreads D' A') l = true.
Proof.
  intros HD HA Hf. apply forallb_Forall. apply forallb_Forall in Hf. eapply Forall_impl; [|exact Hf].
  intros e He. eapply nreads_mono; eauto.
Qed.

Lemma nwrites_mono s : forall W WA W' WA',
  (forall x, W' x = true -> W x = true) -> (forall x, WA' x = true -> WA x = true) ->
  nwrites W WA s = true -> nwrites W' WA' s = true.
Proof.
  induction s using stmt_ind'; intros W WA W' WA' HW HA; cbn; intros Hf; try exact Hf.
  - apply negb_true_iff in Hf. apply negb_true_iff. destruct (W' x) eqn:E; [rewrite (HW _ E) in Hf; discriminate|reflexivity].
  - apply negb_true_iff in Hf. apply negb_true_iff. destruct (WA' a) eqn:E; [rewrite (HA _ E) in Hf; discriminate|reflexivity].
  - apply andb_true_iff in Hf. destruct Hf as [H1 H2]. apply andb_true_iff. split.
    + apply negb_true_iff in H1. apply negb_true_iff. destruct (W' v) eqn:E; [rewrite (HW _ E) in H1; discriminate|reflexivity].
    + apply forallb_Forall. apply forallb_Forall in H2. rewrite Forall_forall in *. intros q Hq. eapply H; eauto.
  - apply forallb_Forall. apply forallb_Forall in Hf. rewrite Forall_forall in *. intros q Hq. eapply H; eauto.
  - apply andb_true_iff in Hf. destruct Hf as [H1 H2]. apply andb_true_iff. split.
    + apply forallb_Forall. apply forallb_Forall in H1. rewrite Forall_forall in *. intros q Hq. eapply H; eauto.
    + apply forallb_Forall. apply forallb_Forall in H2. rewrite Forall_forall in *. intros q Hq. eapply H0; eauto.
Qed.

Lemma forallb_nwrites_mono W WA W' WA' l :
  (forall x, W' x = true -> W x = true) -> (forall x, WA' x = true -> WA x = true) ->
  forallb (nwrites W WA) l = true -> forallb (nwrites W' WA') l = true.
Proof.
  intros HD HA Hf. apply forallb_Forall. apply forallb_Forall in Hf. eapply Forall_impl; [|exact Hf].
  intros e He. eapply nwrites_mono; eauto.
Qed.

(** * Part B: execution *)

(** frame: what a statement list does not write stays unchanged *)
Lemma do_loop_frame (run : store -> option store) v d W WA :
  W v = false ->
  (forall s s', run s = Some s' ->
     (forall x, W x = true -> sv s' x = sv s x) /\ (forall a i, WA a = true -> av s' a i = av s a i)) ->
  forall n i s s', do_loop run v d n i s = Some s' ->
     (forall x, W x = true -> sv s' x = sv s x) /\ (forall a i, WA a = true -> av s' a i = av s a i).
Proof.
  intros Hv Hrun. induction n as [|n IH]; intros i s s' E; cbn in E.
  - inversion E; subst. split; [|auto]. intros x Hx. cbn. destruct (String.eqb x v) eqn:Ev; [|reflexivity].
    apply String.eqb_eq in Ev. subst. congruence.
  - apply obind_some in E. destruct E as [s1 [E1 E2]].
    destruct (Hrun _ _ E1) as [A1 A2]. destruct (IH _ _ _ E2) as [B1 B2]. split.
    + intros x Hx. rewrite (B1 _ Hx), (A1 _ Hx). cbn. destruct (String.eqb x v) eqn:Ev; [|reflexivity].
      apply String.eqb_eq in Ev. subst. congruence.
    + intros a j Ha. now rewrite (B2 _ _ Ha), (A2 _ _ Ha).
Qed.

Lemma exec_frame ps W WA : forall f P s s',
  forallb (nwrites W WA) P = true -> exec ps f P s = Some s' ->
  (forall x, W x = true -> sv s' x = sv s x) /\ (forall a i, WA a = true -> av s' a i = av s a i).
Proof.
  induction f as [|f IH]; intros P s s' HP E; [discriminate|].
  destruct P as [|st rest]; [inversion E; subst; split; auto|].
  rewrite exec_unfold in E. apply obind_some in E. destruct E as [s1 [E1 E2]].
  cbn [forallb] in HP. apply andb_true_iff in HP. destruct HP as [Hst Hrest].
  destruct (IH _ _ _ Hrest E2) as [R1 R2].
  assert (S1 : (forall x, W x = true -> sv s1 x = sv s x) /\ (forall a i, WA a = true -> av s1 a i = av s a i)).
  { destruct st as [x e|a idx e|v lo hi stp body|c body|c tb eb|g args|l]; cbn [nwrites] in Hst; cbn [exec1] in E1.
    - apply obind_some in E1. destruct E1 as [v [_ E1]]. inversion E1; subst. split; [|auto].
      intros y Hy. cbn. destruct (String.eqb y x) eqn:Ey; [|reflexivity].
      apply String.eqb_eq in Ey. subst. rewrite Hy in Hst. discriminate.
    - apply obind_some in E1. destruct E1 as [i [_ E1]]. apply obind_some in E1. destruct E1 as [v [_ E1]].
      inversion E1; subst. split; [auto|]. intros b j Hb. cbn.
      destruct (String.eqb b a) eqn:Eb; [|reflexivity]. apply String.eqb_eq in Eb. subst. rewrite Hb in Hst. discriminate.
    - apply andb_true_iff in Hst. destruct Hst as [Hv Hb]. apply negb_true_iff in Hv.
      apply obind_some in E1. destruct E1 as [a [_ E1]]. apply obind_some in E1. destruct E1 as [b [_ E1]].
      apply obind_some in E1. destruct E1 as [d [_ E1]]. destruct (d =? 0); [discriminate|].
      eapply do_loop_frame; [exact Hv| |exact E1]. intros u u' Eu. exact (IH body u u' Hb Eu).
    - apply obind_some in E1. destruct E1 as [b [_ E1]]. destruct b; [|inversion E1; subst; split; auto].
      apply obind_some in E1. destruct E1 as [s2 [E3 E4]].
      destruct (IH _ _ _ Hst E3) as [A1 A2].
      assert (Hw : forallb (nwrites W WA) [SWhile c body] = true) by (cbn; now rewrite Hst).
      destruct (IH _ _ _ Hw E4) as [B1 B2]. split; intros; [rewrite B1, A1|rewrite B2, A2]; auto.
    - apply andb_true_iff in Hst. destruct Hst as [Ht He].
      apply obind_some in E1. destruct E1 as [b [_ E1]]. destruct b; [exact (IH tb s s1 Ht E1)|exact (IH eb s s1 He E1)].
    - discriminate.
    - inversion E1; subst. split; auto. }
  destruct S1 as [S1 S2]. split; intros; [rewrite R1, S1|rewrite R2, S2]; auto.
Qed.

Lemma runs_frame ps W WA P s s' :
  forallb (nwrites W WA) P = true -> runs ps P s s' ->
  (forall x, W x = true -> sv s' x = sv s x) /\ (forall a i, WA a = true -> av s' a i = av s a i).
Proof. intros H [f E]. eapply exec_frame; eauto. Qed.

Lemma sg_ok_frame sg s s' : (forall x, dom sg x = true -> sv s' x = sv s x) -> sg_ok sg s -> sg_ok sg s'.
Proof.
  intros Hf H x r E. destruct (H _ _ E) as [i [-> Hi]]. exists i. split; [reflexivity|].
  rewrite Hf; [exact Hi|]. unfold dom. now rewrite E.
Qed.

Lemma dsub_dminus D sg v x : dminus (dsub D sg) v x = true -> dsub (dminus D v) sg x = true.
Proof.
  unfold dminus, dsub. intros H. apply andb_true_iff in H. destruct H as [H1 H2].
  apply andb_true_iff in H1. destruct H1 as [H1 H3]. now rewrite H1, H2, H3.
Qed.

Lemma dsub_dminus' D sg v x : dsub (dminus D v) sg x = true -> dminus (dsub D sg) v x = true.
Proof.
  unfold dminus, dsub. intros H. apply andb_true_iff in H. destruct H as [H1 H2].
  apply andb_true_iff in H1. destruct H1 as [H1 H3]. now rewrite H1, H2, H3.
Qed.

(** simulation of a program by its substituted version from stores that agree outside [D]/[A] *)
Lemma exec_msubst ps sg A : forall f D P s t s',
  sim D A s t -> sg_ok sg s ->
  forallb (nreads (dsub D sg) A) P = true -> forallb (nwrites (dom sg) dnone) P = true ->
  exec ps f P s = Some s' ->
  exists t', exec ps f (msubst_l sg P) t = Some t' /\ sim D A s' t'.
Proof.
  induction f as [|f IH]; intros D P s t s' Hsim Hsg HR HW E; [discriminate|].
  destruct P as [|st rest]; [inversion E; subst; exists t; split; [reflexivity|exact Hsim]|].
  cbn [msubst_l map]. rewrite exec_unfold in *. apply obind_some in E. destruct E as [s1 [E1 E2]].
  cbn [forallb] in HR, HW. apply andb_true_iff in HR. destruct HR as [HRs HRr].
  apply andb_true_iff in HW. destruct HW as [HWs HWr].
  assert (Hok1 : sg_ok sg s1).
  { eapply sg_ok_frame; [|exact Hsg].
    assert (Ex : exec ps (S f) [st] s = Some s1).
    { rewrite exec_unfold, E1. cbn [obind]. destruct f; [|reflexivity]. cbn in E2. discriminate. }
    refine (proj1 (exec_frame ps (dom sg) dnone (S f) [st] s s1 _ Ex)). cbn. now rewrite HWs. }
  assert (Step : exists t1, exec1 ps f (msubst_s sg st) t = Some t1 /\ sim D A s1 t1).
  { destruct st as [x e|a idx e|v lo hi stp body|c body|c tb eb|g args|l];
      cbn [nreads] in HRs; cbn [nwrites] in HWs; cbn [exec1 msubst_s] in *.
    - apply obind_some in E1. destruct E1 as [z [Ez E1]]. inversion E1; subst.
      rewrite <- (evalZ_msubst D A sg s t e Hsim Hsg HRs), Ez. cbn [obind].
      eexists; split; [reflexivity|]. destruct Hsim as [H1 H2]. split; [|exact H2].
      intros y Hy. cbn. destruct (String.eqb y x); [reflexivity|auto].
    - apply andb_true_iff in HRs. destruct HRs as [Hi He].
      apply obind_some in E1. destruct E1 as [i [Ei E1]]. apply obind_some in E1. destruct E1 as [z [Ez E1]].
      inversion E1; subst.
      rewrite <- (eval_idx_msubst D A sg s t idx Hsim Hsg Hi), Ei. cbn [obind].
      rewrite <- (evalZ_msubst D A sg s t e Hsim Hsg He), Ez. cbn [obind].
      eexists; split; [reflexivity|]. destruct Hsim as [H1 H2]. split; [exact H1|].
      intros b j Hb. cbn. destruct (String.eqb b a && list_z_eqb j i); [reflexivity|auto].
    - repeat (apply andb_true_iff in HRs; destruct HRs as [HRs ?]).
      apply andb_true_iff in HWs. destruct HWs as [Hv Hwb]. apply negb_true_iff in Hv.
      apply obind_some in E1. destruct E1 as [a [Ea E1]]. apply obind_some in E1. destruct E1 as [b [Eb E1]].
      apply obind_some in E1. destruct E1 as [d [Ed E1]].
      rewrite <- (evalZ_msubst D A sg s t lo Hsim Hsg HRs), Ea. cbn [obind].
      rewrite <- (evalZ_msubst D A sg s t hi Hsim Hsg H1), Eb. cbn [obind].
      assert (Ed' : match option_map (msubst_e sg) stp with None => Some 1 | Some e => evalZ (env_st t) e end = Some d).
      { destruct stp as [e|]; cbn in *; [|exact Ed]. now rewrite <- (evalZ_msubst D A sg s t e Hsim Hsg H0). }
      rewrite Ed'. cbn [obind]. destruct (d =? 0); [discriminate|].
      assert (Hb' : forallb (nreads (dsub (dminus D v) sg) A) body = true).
      { eapply forallb_nreads_mono; [| |exact H]; [apply dsub_dminus'|auto]. }
      clear Ea Eb Ed Ed'.
      assert (Loop : forall n i s t s', sim D A s t -> sg_ok sg s ->
                do_loop (exec ps f body) v d n i s = Some s' ->
                exists t', do_loop (exec ps f (map (msubst_s sg) body)) v d n i t = Some t' /\ sim (dminus D v) A s' t').
      { induction n as [|n IHn]; intros i s0 t0 s0' Hs0 Hg0 El; cbn in El |- *.
        - inversion El; subst. eexists; split; [reflexivity|]. now apply sim_set_both.
        - apply obind_some in El. destruct El as [s2 [El1 El2]].
          assert (Hg1 : sg_ok sg (set_sv v i s0)).
          { eapply sg_ok_frame; [|exact Hg0]. intros x Hx. cbn. destruct (String.eqb x v) eqn:Ex; [|reflexivity].
            apply String.eqb_eq in Ex. subst. congruence. }
          destruct (IH (dminus D v) body _ (set_sv v i t0) _ (sim_set_both D A v i _ _ Hs0) Hg1 Hb' Hwb El1) as [t2 [Et2 Hs2]].
          unfold msubst_l in Et2. rewrite Et2. cbn [obind].
          assert (Hg2 : sg_ok sg s2).
          { eapply sg_ok_frame; [|exact Hg1]. exact (proj1 (exec_frame ps (dom sg) dnone f body _ _ Hwb El1)). }
          apply (IHn (i + d) s2 t2 s0'); [|exact Hg2|exact El2].
          eapply sim_weaken; [apply dminus_sub| |exact Hs2]. auto. }
      destruct (Loop _ _ _ _ _ Hsim Hsg E1) as [t1 [Et1 Hs1]].
      exists t1. split; [exact Et1|]. eapply sim_weaken; [apply dminus_sub| |exact Hs1]. auto.
    - apply andb_true_iff in HRs. destruct HRs as [Hc Hb].
      apply obind_some in E1. destruct E1 as [b [Eb E1]].
      rewrite <- (evalB_msubst D A sg s t c Hsim Hsg Hc), Eb. cbn [obind].
      destruct b; [|inversion E1; subst; exists t; split; [reflexivity|exact Hsim]].
      apply obind_some in E1. destruct E1 as [s2 [E3 E4]].
      destruct (IH D body _ t _ Hsim Hsg Hb HWs E3) as [t2 [Et2 Hs2]].
      unfold msubst_l in Et2. rewrite Et2. cbn [obind].
      assert (Hg2 : sg_ok sg s2).
      { eapply sg_ok_frame; [|exact Hsg]. exact (proj1 (exec_frame ps (dom sg) dnone f body _ _ HWs E3)). }
      assert (HRw : forallb (nreads (dsub D sg) A) [SWhile c body] = true) by (cbn; now rewrite Hc, Hb).
      assert (HWw : forallb (nwrites (dom sg) dnone) [SWhile c body] = true) by (cbn; now rewrite HWs).
      exact (IH D [SWhile c body] _ t2 _ Hs2 Hg2 HRw HWw E4).
    - repeat (apply andb_true_iff in HRs; destruct HRs as [HRs ?]).
      apply andb_true_iff in HWs. destruct HWs as [Hwt Hwe].
      apply obind_some in E1. destruct E1 as [b [Eb E1]].
      rewrite <- (evalB_msubst D A sg s t c Hsim Hsg HRs), Eb. cbn [obind].
      destruct b; [exact (IH D tb _ t _ Hsim Hsg H0 Hwt E1)|exact (IH D eb _ t _ Hsim Hsg H Hwe E1)].
    - discriminate.
    - inversion E1; subst. exists t. split; [reflexivity|exact Hsim]. }
  destruct Step as [t1 [Et1 Hs1]]. rewrite Et1. cbn [obind].
  exact (IH D rest _ t1 _ Hs1 Hok1 HRr HWr E2).
Qed.

Lemma runs_msubst ps sg D A P s t s' :
  sim D A s t -> sg_ok sg s ->
  forallb (nreads (dsub D sg) A) P = true -> forallb (nwrites (dom sg) dnone) P = true ->
  runs ps P s s' -> exists t', runs ps (msubst_l sg P) t t' /\ sim D A s' t'.
Proof.
  intros H1 H2 H3 H4 [f E]. destruct (exec_msubst ps sg A f D P s t s' H1 H2 H3 H4 E) as [t' [Et Hs]].
  exists t'. split; [now exists f|exact Hs].
Qed.

(** non-interference: a program that reads nothing of [D]/[A] maps related stores to related stores *)
Lemma runs_sim ps D A P s t s' :
  sim D A s t -> forallb (nreads D A) P = true -> forallb no_call P = true ->
  runs ps P s s' -> exists t', runs ps P t t' /\ sim D A s' t'.
Proof.
  intros H1 H2 Hnc Hr.
  assert (Hw : forallb (nwrites (dom sg_id) dnone) P = true).
  { clear -Hnc. apply forallb_Forall. apply forallb_Forall in Hnc. eapply Forall_impl; [|exact Hnc].
    intros s. induction s using stmt_ind'; cbn; intros Hs; try reflexivity; try exact Hs.
    - apply forallb_Forall. apply forallb_Forall in Hs. rewrite Forall_forall in *. intros q Hq. apply H; auto.
    - apply forallb_Forall. apply forallb_Forall in Hs. rewrite Forall_forall in *. intros q Hq. apply H; auto.
    - apply andb_true_iff in Hs. destruct Hs as [A1 A2]. apply andb_true_iff. split.
      + apply forallb_Forall. apply forallb_Forall in A1. rewrite Forall_forall in *. intros q Hq. apply H; auto.
      + apply forallb_Forall. apply forallb_Forall in A2. rewrite Forall_forall in *. intros q Hq. apply H0; auto. }
  assert (Hr' : forallb (nreads (dsub D sg_id) A) P = true).
  { eapply forallb_nreads_mono; [| |exact H2]; [|auto]. unfold dsub. intros x Hx. apply andb_true_iff in Hx. tauto. }
  destruct (runs_msubst ps sg_id D A P s t s' H1 (sg_ok_id s) Hr' Hw Hr) as [t' [Ht Hs]].
  rewrite msubst_l_id in Ht. eauto.
Qed.
