(** C28 — soundness of the subscript normalisation [norm_stmts] used by the correspondence. *)
From Coq Require Import ZArith List Bool String Lia.
From LV Require Import Base.Expr Base.MiniF Base.MiniFFacts models.M_C28.
Import ListNotations.
Open Scope Z_scope.

(** * generic facts about the evaluators *)
Lemma go_omap rho args :
  (fix go (l : list expr) : option (list Z) :=
     match l with
     | [] => Some []
     | a :: r => obind (evalZ rho a) (fun v => obind (go r) (fun vs => Some (v :: vs)))
     end) args = omap_list (evalZ rho) args.
Proof. induction args as [|a r IH]; cbn; [reflexivity|]. rewrite IH. reflexivity. Qed.

Lemma evalZ_call rho f args :
  evalZ rho (ECall f args) =
  obind (omap_list (evalZ rho) args)
        (fun vs => match intrinsic f vs with Some r => r | None => ev_fun rho f vs end).
Proof. cbn [evalZ]. rewrite go_omap. reflexivity. Qed.

Lemma omap_list_ext {A B C} (f : B -> option C) (g : A -> option C) (h : A -> B) cs :
  Forall (fun c => f (h c) = g c) cs -> omap_list f (map h cs) = omap_list g cs.
Proof.
  induction 1 as [|c cs Hc _ IH]; cbn; [reflexivity|]. rewrite Hc, IH. reflexivity.
Qed.

Lemma fold_obind_ext {A B V} (f : B -> option V) (g : A -> option V) (h : A -> B) (op : V -> V -> V) init cs :
  Forall (fun c => f (h c) = g c) cs ->
  fold_right (fun c acc => obind (f c) (fun v => obind acc (fun a => Some (op v a)))) init (map h cs) =
  fold_right (fun c acc => obind (g c) (fun v => obind acc (fun a => Some (op v a)))) init cs.
Proof.
  induction 1 as [|c cs Hc _ IH]; cbn; [reflexivity|]. rewrite Hc, IH. reflexivity.
Qed.

Lemma Forall_and_l {A} (P Q : A -> Prop) l : Forall (fun x => P x /\ Q x) l -> Forall P l.
Proof. induction 1; constructor; tauto. Qed.
Lemma Forall_and_r {A} (P Q : A -> Prop) l : Forall (fun x => P x /\ Q x) l -> Forall Q l.
Proof. induction 1; constructor; tauto. Qed.

Lemma do_loop_ext (r1 r2 : store -> option store) v d n :
  (forall s, r1 s = r2 s) -> forall i s, do_loop r1 v d n i s = do_loop r2 v d n i s.
Proof.
  intros H. induction n as [|n IH]; intros i s; cbn; [reflexivity|].
  rewrite H. destruct (r2 (set_sv v i s)); cbn; [apply IH|reflexivity].
Qed.

(** * the linear normal form *)
Lemma msum_cons rho y c r : msum rho ((y, c) :: r) = c * rho y + msum rho r.
Proof. reflexivity. Qed.
Lemma msum_nil rho : msum rho [] = 0.
Proof. reflexivity. Qed.

Lemma msum_madd rho x k l : msum rho (madd x k l) = k * rho x + msum rho l.
Proof.
  induction l as [|[y c] r IH]; cbn [madd].
  - destruct (k =? 0) eqn:E; [apply Z.eqb_eq in E; subst; rewrite msum_nil; ring|rewrite msum_cons, msum_nil; ring].
  - destruct (String.eqb x y) eqn:Exy.
    + apply String.eqb_eq in Exy. subst y.
      destruct (c + k =? 0) eqn:E.
      * apply Z.eqb_eq in E. rewrite msum_cons.
        replace (k * rho x + (c * rho x + msum rho r)) with ((c + k) * rho x + msum rho r) by ring.
        rewrite E. ring.
      * rewrite !msum_cons. ring.
    + destruct (String.ltb x y).
      * destruct (k =? 0) eqn:E; [apply Z.eqb_eq in E; subst; ring|rewrite !msum_cons; ring].
      * rewrite !msum_cons, IH. ring.
Qed.

Lemma peval_padd rho p q : peval rho (padd p q) = peval rho p + peval rho q.
Proof.
  destruct p as [c l], q as [d m]. unfold padd, peval. cbn [fst snd].
  induction l as [|[x k] r IH]; cbn [fold_right fst snd].
  - rewrite msum_nil. ring.
  - rewrite msum_madd, msum_cons. lia.
Qed.

Lemma msum_scale rho c l : msum rho (map (fun xk : string * Z => (fst xk, c * snd xk)) l) = c * msum rho l.
Proof.
  induction l as [|[x k] r IH]; cbn [map fst snd]; [rewrite msum_nil; ring|].
  rewrite !msum_cons, IH. ring.
Qed.

Lemma peval_pscale rho c p : peval rho (pscale c p) = c * peval rho p.
Proof.
  destruct p as [d l]. unfold pscale, peval. destruct (c =? 0) eqn:E; cbn [fst snd].
  - apply Z.eqb_eq in E. subst. cbn. ring.
  - rewrite msum_scale. ring.
Qed.

Lemma peval_pmul rho p q r : pmul p q = Some r -> peval rho r = peval rho p * peval rho q.
Proof.
  unfold pmul. destruct p as [c l], q as [d m]; cbn [fst snd].
  destruct l as [|a l].
  - intros H. inversion H. rewrite peval_pscale. unfold peval. cbn. ring.
  - destruct m as [|b m]; [|discriminate].
    intros H. inversion H. rewrite peval_pscale. unfold peval at 3. cbn [fst snd msum fold_right]. ring.
Qed.

Lemma lin_sound e : forall p, lin e = Some p ->
  forall rho, evalZ rho e = Some (peval (ev_var rho) p) /\ evalB rho e = None.
Proof.
  induction e using expr_ind'; intros q Hq rho; cbn [lin] in Hq; try discriminate.
  - inversion Hq. split; [|reflexivity]. unfold peval. cbn [fst snd evalZ]. rewrite msum_nil. f_equal. lia.
  - inversion Hq. split; [|reflexivity]. unfold peval. cbn [fst snd evalZ]. rewrite msum_nil. f_equal. lia.
  - inversion Hq. split; [|reflexivity]. unfold peval. cbn [fst snd evalZ]. rewrite msum_cons, msum_nil. f_equal. lia.
  - split; [|reflexivity]. cbn [evalZ]. revert q Hq.
    induction H as [|c cs Hc _ IH]; intros q Hq; cbn [fold_right] in *.
    + inversion Hq. reflexivity.
    + destruct (lin c) as [pc|] eqn:Ec; [|discriminate].
      match type of Hq with match ?X with _ => _ end = _ => destruct X as [pr|] eqn:Er; [|discriminate] end.
      inversion Hq. destruct (Hc pc eq_refl rho) as [Hz _]. rewrite Hz. cbn [obind].
      rewrite (IH pr eq_refl). cbn [obind]. rewrite peval_padd. reflexivity.
  - split; [|reflexivity]. cbn [evalZ]. revert q Hq.
    induction H as [|c cs Hc _ IH]; intros q Hq; cbn [fold_right] in *.
    + inversion Hq. reflexivity.
    + destruct (lin c) as [pc|] eqn:Ec; [|discriminate].
      match type of Hq with match ?X with _ => _ end = _ => destruct X as [pr|] eqn:Er; [|discriminate] end.
      destruct (Hc pc eq_refl rho) as [Hz _]. rewrite Hz. cbn [obind].
      rewrite (IH pr eq_refl). cbn [obind]. rewrite (peval_pmul _ _ _ _ Hq). reflexivity.
Qed.

Lemma emit_terms rho l :
  fold_right (fun c acc => obind (evalZ rho c) (fun v => obind acc (fun a => Some (v + a)))) (Some 0)
             (map (fun xk : string * Z => EProd false [EInt (snd xk); EVar (fst xk)]) l)
  = Some (msum (ev_var rho) l).
Proof.
  induction l as [|[x k] r IH]; cbn [map fold_right]; [reflexivity|].
  rewrite IH. cbn. f_equal. fold (msum (ev_var rho) r). ring.
Qed.

Lemma emit_sound rho p : evalZ rho (emit p) = Some (peval (ev_var rho) p) /\ evalB rho (emit p) = None.
Proof.
  split; [|reflexivity]. unfold emit. cbn [evalZ fold_right]. rewrite emit_terms. reflexivity.
Qed.

(** * [norm_e] preserves values *)
Lemma norm_e_sound e : forall rho, evalZ rho (norm_e e) = evalZ rho e /\ evalB rho (norm_e e) = evalB rho e.
Proof.
  induction e using expr_ind'; intros rho; cbn [norm_e]; try (split; reflexivity).
  - split; [|reflexivity]. cbn [evalZ]. apply fold_obind_ext.
    eapply Forall_impl; [|exact H]. intros c Hc. apply Hc.
  - split; [|reflexivity]. cbn [evalZ]. apply fold_obind_ext.
    eapply Forall_impl; [|exact H]. intros c Hc. apply Hc.
  - split; [|reflexivity]. cbn [evalZ]. rewrite (proj1 (IHe1 rho)), (proj1 (IHe2 rho)). reflexivity.
  - split; [|reflexivity]. cbn [evalZ]. rewrite (proj1 (IHe1 rho)), (proj1 (IHe2 rho)). reflexivity.
  - split; [reflexivity|]. cbn [evalB]. rewrite (proj1 (IHe1 rho)), (proj1 (IHe2 rho)). reflexivity.
  - split; [reflexivity|]. cbn [evalB]. apply fold_obind_ext.
    eapply Forall_impl; [|exact H]. intros c Hc. apply Hc.
  - split; [reflexivity|]. cbn [evalB]. apply fold_obind_ext.
    eapply Forall_impl; [|exact H]. intros c Hc. apply Hc.
  - split; [reflexivity|]. cbn [evalB]. rewrite (proj2 (IHe rho)). reflexivity.
  - split; [|reflexivity]. rewrite !evalZ_call. f_equal.
    apply omap_list_ext. eapply Forall_impl; [|exact H]. intros c Hc. cbn beta.
    destruct (lin c) as [p|] eqn:El.
    + rewrite (proj1 (emit_sound rho p)). symmetry. apply (lin_sound c p El rho).
    + apply Hc.
Qed.

Lemma norm_i_sound rho a : evalZ rho (norm_i a) = evalZ rho a.
Proof.
  unfold norm_i. destruct (lin a) as [p|] eqn:El.
  - rewrite (proj1 (emit_sound rho p)). symmetry. apply (lin_sound a p El rho).
  - apply norm_e_sound.
Qed.

Lemma eval_idx_norm s idx : eval_idx s (map norm_i idx) = eval_idx s idx.
Proof.
  unfold eval_idx. apply omap_list_ext. apply Forall_forall. intros c _. apply norm_i_sound.
Qed.

(** * [norm_stmts] preserves execution, fuel for fuel *)
Lemma norm_e_var e : (exists x, e = EVar x /\ norm_e e = EVar x) \/ ((forall x, e <> EVar x) /\ (forall x, norm_e e <> EVar x)).
Proof. destruct e; cbn; try (right; split; intros; discriminate). left. eauto. Qed.

Lemma copy_in_norm caller params : forall args callee,
  copy_in caller params (map norm_e args) callee = copy_in caller params args callee.
Proof.
  induction params as [|[d b] ps IH]; intros args callee; destruct args as [|e r]; cbn [map copy_in]; try reflexivity.
  destruct b.
  - destruct (norm_e_var e) as [[x [E1 E2]]|[N1 N2]].
    + rewrite E2. subst e. apply IH.
    + destruct e; try reflexivity; try (exfalso; eapply N1; reflexivity).
  - rewrite (proj1 (norm_e_sound e (env_st caller))).
    destruct (evalZ (env_st caller) e); [apply IH|reflexivity].
Qed.

Lemma copy_out_norm callee params : forall args caller,
  copy_out callee params (map norm_e args) caller = copy_out callee params args caller.
Proof.
  induction params as [|[d b] ps IH]; intros args caller; destruct args as [|e r]; cbn [map copy_out]; try reflexivity.
  destruct (norm_e_var e) as [[x [E1 E2]]|[N1 N2]].
  - rewrite E2. subst e. destruct b; apply IH.
  - destruct b; destruct e; cbn [norm_e]; try apply IH; exfalso; eapply N1; reflexivity.
Qed.

Lemma norm_exec ps : forall f ss s, exec ps f (norm_stmts ss) s = exec ps f ss s.
Proof.
  unfold norm_stmts.
  induction f as [|f IH]; intros ss s; [reflexivity|].
  destruct ss as [|st rest]; [reflexivity|].
  change (map norm_stmt (st :: rest)) with (norm_stmt st :: map norm_stmt rest).
  rewrite !exec_unfold.
  assert (H1 : exec1 ps f (norm_stmt st) s = exec1 ps f st s).
  { destruct st as [x e|a idx e|v lo hi stp body|c body|c tb eb|g args|l]; cbn [norm_stmt exec1].
    - rewrite (proj1 (norm_e_sound e _)). reflexivity.
    - rewrite eval_idx_norm, (proj1 (norm_e_sound e _)). reflexivity.
    - rewrite (proj1 (norm_e_sound lo _)), (proj1 (norm_e_sound hi _)).
      destruct (evalZ (env_st s) lo) as [a|]; [|reflexivity]. cbn [obind].
      destruct (evalZ (env_st s) hi) as [b|]; [|reflexivity]. cbn [obind].
      assert (Hs : match option_map norm_e stp with Some e => evalZ (env_st s) e | None => Some 1 end
                   = match stp with Some e => evalZ (env_st s) e | None => Some 1 end).
      { destruct stp as [e|]; cbn; [apply norm_e_sound|reflexivity]. }
      rewrite Hs. destruct (match stp with Some e => evalZ (env_st s) e | None => Some 1 end) as [d|]; [|reflexivity].
      cbn [obind]. destruct (d =? 0); [reflexivity|].
      apply do_loop_ext. intros s0. apply (IH body s0).
    - rewrite (proj2 (norm_e_sound c _)).
      destruct (evalB (env_st s) c) as [[|]|]; cbn [obind]; try reflexivity.
      rewrite (IH body s). destruct (exec ps f body s) as [s1|]; cbn [obind]; [|reflexivity].
      apply (IH [SWhile c body] s1).
    - rewrite (proj2 (norm_e_sound c _)).
      destruct (evalB (env_st s) c) as [[|]|]; cbn [obind]; try reflexivity; apply IH.
    - destruct (find_proc ps g) as [p|]; cbn [obind]; [|reflexivity].
      rewrite copy_in_norm. destruct (copy_in s (p_params p) args empty_store); cbn [obind]; [|reflexivity].
      destruct (exec ps f (p_body p) s0); cbn [obind]; [|reflexivity].
      rewrite copy_out_norm. reflexivity.
    - reflexivity. }
  rewrite H1. destruct (exec1 ps f st s); cbn [obind]; [apply IH|reflexivity].
Qed.

Lemma norm_sound ps p : equiv ps (norm_stmts p) p.
Proof. intros s s'. unfold runs. split; intros [f E]; exists f; [rewrite <- norm_exec|rewrite norm_exec]; exact E. Qed.
