(** C41 — transformations that only rewrite the body (declarations untouched): loop unrolling, dead-code
    removal, constant propagation.  Each of them only removes occurrences of names (a literal replaces the loop
    variable / a variable with a known value, a branch disappears, operands of a simplified expression are
    rearranged or dropped), so every occurrence of the new body is an occurrence of the old one and the unit
    stays well-scoped ([T_body_preserves] / [T_body_opt_preserves]). *)
From Coq Require Import ZArith List Bool String Ascii Lia.
From LV Require Import Base.Expr Base.MiniF models.M_C41 proofs.P_C41_base.
From LV Require models.M_C10 models.M_C31 models.M_C32.
Import ListNotations.

(* ------------------------------------------------------------------------------------------ *)
(** * inclusion of use lists *)

Lemma incl_cons_same {A} (x : A) a b : incl a b -> incl (x :: a) (x :: b).
Proof. intros H y [E|E]; [left; exact E | right; apply H; exact E]. Qed.

Lemma incl_fm_map {A B} (f : A -> A) (us : A -> list B) l :
  (forall a, In a l -> incl (us (f a)) (us a)) -> incl (flat_map us (map f l)) (flat_map us l).
Proof.
  intros H x Hx. apply in_flat_map in Hx. destruct Hx as [b [Hb Hx]].
  apply in_map_iff in Hb. destruct Hb as [a [E Ha]]. subst.
  apply in_flat_map. exists a. split; [exact Ha | apply (H a Ha); exact Hx].
Qed.

Lemma incl_fm_const {A} (g : A -> list stmt) (U : list use) l :
  (forall a, In a l -> incl (flat_map uses_stmt (g a)) U) -> incl (flat_map uses_stmt (flat_map g l)) U.
Proof.
  intros H x Hx. apply in_flat_map in Hx. destruct Hx as [s [Hs Hx]].
  apply in_flat_map in Hs. destruct Hs as [a [Ha Hs]]. apply (H a Ha).
  apply in_flat_map. exists s. split; assumption.
Qed.

Lemma incl_fm_filter {A B} (P : A -> bool) (us : A -> list B) l : incl (flat_map us (filter P l)) (flat_map us l).
Proof.
  intros x Hx. apply in_flat_map in Hx. destruct Hx as [a [Ha Hx]]. apply filter_In in Ha.
  apply in_flat_map. exists a. split; [apply Ha | exact Hx].
Qed.

(** membership reasoning for the small goals *)
Ltac incl_tac :=
  let z := fresh "z" in let Hz := fresh "Hz" in
  intros z Hz; cbn [app] in *; repeat rewrite in_app_iff in *; cbn [In] in *; tauto.

(* ------------------------------------------------------------------------------------------ *)
(** * loop unrolling (C31) *)

(** substituting literals only removes uses *)
Lemma msubst_e_incl sg e :
  (forall x r, sg x = Some r -> uses_e r = []) ->
  incl (uses_e (M_C31.msubst_e sg e)) (uses_e e).
Proof.
  intros Hsg.
  induction e as [v|v|x|b|p cs IH|p cs IH|p n d IHn IHd|p n d IHn IHd|op n d IHn IHd|cs IH|cs IH|n IHn|f cs IH]
    using expr_ind'; cbn [M_C31.msubst_e uses_e].
  - apply incl_refl.
  - apply incl_refl.
  - destruct (sg x) as [r|] eqn:E; [rewrite (Hsg x r E); apply incl_nil_l | apply incl_refl].
  - apply incl_refl.
  - apply incl_fm_map. rewrite Forall_forall in IH. exact IH.
  - apply incl_fm_map. rewrite Forall_forall in IH. exact IH.
  - apply incl_app_app; assumption.
  - apply incl_app_app; assumption.
  - apply incl_app_app; assumption.
  - apply incl_fm_map. rewrite Forall_forall in IH. exact IH.
  - apply incl_fm_map. rewrite Forall_forall in IH. exact IH.
  - exact IHn.
  - rewrite map_length. apply incl_app_app; [apply incl_refl|].
    apply incl_fm_map. rewrite Forall_forall in IH. exact IH.
Qed.

Lemma msubst_s_incl sg s :
  (forall x r, sg x = Some r -> uses_e r = []) ->
  incl (uses_stmt (M_C31.msubst_s sg s)) (uses_stmt s).
Proof.
  intros Hsg.
  assert (He : forall e, incl (uses_e (M_C31.msubst_e sg e)) (uses_e e)) by (intros e; apply msubst_e_incl; exact Hsg).
  assert (Hl : forall l, incl (uses_es (map (M_C31.msubst_e sg) l)) (uses_es l)).
  { intros l. unfold uses_es. apply incl_fm_map. intros a _. apply He. }
  induction s as [x e|a idx e|v lo hi st b IH|c b IH|c t e IHt IHe|f args|l] using stmt_ind';
    cbn [M_C31.msubst_s uses_stmt].
  - apply incl_cons_same. apply He.
  - rewrite map_length. apply incl_cons_same. apply incl_app_app; [apply Hl | apply He].
  - apply incl_cons_same. apply incl_app_app; [apply He|]. apply incl_app_app; [apply He|].
    apply incl_app_app; [destruct st; cbn; [apply He | apply incl_refl]|].
    apply incl_fm_map. rewrite Forall_forall in IH. exact IH.
  - apply incl_app_app; [apply He|]. apply incl_fm_map. rewrite Forall_forall in IH. exact IH.
  - apply incl_app_app; [apply He|]. apply incl_app_app; apply incl_fm_map.
    + rewrite Forall_forall in IHt. exact IHt.
    + rewrite Forall_forall in IHe. exact IHe.
  - apply Hl.
  - apply incl_refl.
Qed.

Lemma subst1_lit v i x r : M_C31.subst1 v i x = Some r -> uses_e r = [].
Proof. unfold M_C31.subst1. destruct (String.eqb x v); [|discriminate]. intros H. inversion H. reflexivity. Qed.

Lemma msubst_l_incl v i l :
  incl (flat_map uses_stmt (M_C31.msubst_l (M_C31.subst1 v i) l)) (flat_map uses_stmt l).
Proof.
  unfold M_C31.msubst_l. apply incl_fm_map. intros a _. apply msubst_s_incl. apply subst1_lit.
Qed.

Lemma strip_cases s r :
  M_C31.strip_attached (s :: r) = s :: M_C31.strip_attached r
  \/ M_C31.strip_attached (s :: r) = M_C31.strip_attached r.
Proof.
  destruct s; try (left; reflexivity). destruct r as [|[] r']; try (left; reflexivity).
  destruct (M_C31.is_unroll_pragma label) eqn:E; [right|left]; cbn [M_C31.strip_attached]; rewrite E; reflexivity.
Qed.

Lemma strip_in s l : In s (M_C31.strip_attached l) -> In s l.
Proof.
  induction l as [|a r IH]; [intros []|]. destruct (strip_cases a r) as [E|E]; rewrite E.
  - intros [A|A]; [left; exact A | right; apply IH; exact A].
  - intros A. right. apply IH. exact A.
Qed.

Lemma body_in_do v lo hi st b : incl (flat_map uses_stmt b) (uses_stmt (SDo v lo hi st b)).
Proof. cbn [uses_stmt]. intros x Hx. right. rewrite !in_app_iff. tauto. Qed.

Lemma ut_incl fuel : forall d s, incl (flat_map uses_stmt (M_C31.ut fuel d s)) (uses_stmt s).
Proof.
  induction fuel as [|f IH]; intros d s.
  - cbn [M_C31.ut flat_map]. rewrite app_nil_r. apply incl_refl.
  - assert (U : forall d l, incl (flat_map uses_stmt (flat_map (M_C31.ut f d) (M_C31.strip_attached l)))
                                 (flat_map uses_stmt l)).
    { intros d0 l x Hx. apply in_flat_map in Hx. destruct Hx as [s1 [Hs1 Hx]].
      apply in_flat_map in Hs1. destruct Hs1 as [a [Ha Hs1]]. apply strip_in in Ha.
      apply in_flat_map. exists a. split; [exact Ha|]. apply (IH d0 a).
      apply in_flat_map. exists s1. split; assumption. }
    destruct s as [x e|a idx e|v lo hi st body|c body|c t e|g args|l].
    + cbn [M_C31.ut flat_map]. rewrite app_nil_r. apply incl_refl.
    + cbn [M_C31.ut flat_map]. rewrite app_nil_r. apply incl_refl.
    + cbn [M_C31.ut]. destruct (M_C31.lit3 lo hi st) as [[[a b] c]|].
      * destruct (c =? 0)%Z; [cbn; apply incl_nil_l|].
        destruct (M_C31.neighbour_loops body || M_C31.counter_in_bounds v body).
        -- apply incl_fm_const. intros i _. eapply incl_tran; [|apply body_in_do].
           destruct (M_C31.rec_ok (option_map Z.pred d)).
           ++ eapply incl_tran; [apply U | apply msubst_l_incl].
           ++ apply msubst_l_incl.
        -- apply incl_fm_const. intros i _. eapply incl_tran; [|apply body_in_do].
           eapply incl_tran; [apply msubst_l_incl|].
           destruct (M_C31.rec_ok (option_map Z.pred d)); [apply U | apply incl_refl].
      * cbn [flat_map uses_stmt]. rewrite app_nil_r. apply incl_cons_same.
        apply incl_app_app; [apply incl_refl|]. apply incl_app_app; [apply incl_refl|].
        apply incl_app_app; [apply incl_refl|]. apply U.
    + cbn [M_C31.ut flat_map uses_stmt]. rewrite app_nil_r. apply incl_app_app; [apply incl_refl | apply U].
    + cbn [M_C31.ut flat_map uses_stmt]. rewrite app_nil_r. apply incl_app_app; [apply incl_refl|].
      apply incl_app_app; apply U.
    + cbn [M_C31.ut flat_map]. rewrite app_nil_r. apply incl_refl.
    + cbn [M_C31.ut flat_map]. rewrite app_nil_r. apply incl_refl.
Qed.

(** unfolding equations of [pu] *)
Lemma pu_do f v lo hi st b r :
  M_C31.pu (S f) (SDo v lo hi st b :: r) = SDo v lo hi st (M_C31.pu f b) :: M_C31.pu (S f) r.
Proof. reflexivity. Qed.
Lemma pu_while f c b r : M_C31.pu (S f) (SWhile c b :: r) = SWhile c (M_C31.pu f b) :: M_C31.pu (S f) r.
Proof. reflexivity. Qed.
Lemma pu_if f c t e r :
  M_C31.pu (S f) (SIf c t e :: r) = SIf c (M_C31.pu f t) (M_C31.pu f e) :: M_C31.pu (S f) r.
Proof. reflexivity. Qed.
Lemma pu_assign f x e r : M_C31.pu (S f) (SAssign x e :: r) = SAssign x e :: M_C31.pu (S f) r.
Proof. reflexivity. Qed.
Lemma pu_store f a i e r : M_C31.pu (S f) (SStore a i e :: r) = SStore a i e :: M_C31.pu (S f) r.
Proof. reflexivity. Qed.
Lemma pu_call f g a r : M_C31.pu (S f) (SCall g a :: r) = SCall g a :: M_C31.pu (S f) r.
Proof. reflexivity. Qed.
Lemma pu_skip f p r :
  M_C31.pu (S f) (SSkip p :: r)
  = match M_C31.unroll_pragma p, r with
    | Some d, SDo v lo hi st b :: r' => M_C31.pu f (M_C31.ut f d (SDo v lo hi st b)) ++ M_C31.pu (S f) r'
    | _, _ => SSkip p :: M_C31.pu (S f) r
    end.
Proof. reflexivity. Qed.

Lemma pu_incl fuel : forall l, incl (flat_map uses_stmt (M_C31.pu fuel l)) (flat_map uses_stmt l).
Proof.
  induction fuel as [|f IH]; intros l; [apply incl_refl|].
  assert (G : forall n l, (List.length l <= n)%nat ->
                          incl (flat_map uses_stmt (M_C31.pu (S f) l)) (flat_map uses_stmt l)).
  { clear l. induction n as [|n IHn]; intros l Hl.
    - destruct l; [apply incl_refl | cbn in Hl; lia].
    - destruct l as [|s r]; [apply incl_refl|].
      assert (Hr : incl (flat_map uses_stmt (M_C31.pu (S f) r)) (flat_map uses_stmt r))
        by (apply IHn; cbn in Hl; lia).
      destruct s as [x e|a idx e|v lo hi st body|c body|c t e|g args|p].
      + rewrite pu_assign. cbn [flat_map]. apply incl_app_app; [apply incl_refl | exact Hr].
      + rewrite pu_store. cbn [flat_map]. apply incl_app_app; [apply incl_refl | exact Hr].
      + rewrite pu_do. cbn [flat_map uses_stmt]. apply incl_app_app; [|exact Hr]. apply incl_cons_same.
        apply incl_app_app; [apply incl_refl|]. apply incl_app_app; [apply incl_refl|].
        apply incl_app_app; [apply incl_refl|]. apply IH.
      + rewrite pu_while. cbn [flat_map uses_stmt]. apply incl_app_app; [|exact Hr].
        apply incl_app_app; [apply incl_refl | apply IH].
      + rewrite pu_if. cbn [flat_map uses_stmt]. apply incl_app_app; [|exact Hr].
        apply incl_app_app; [apply incl_refl|]. apply incl_app_app; apply IH.
      + rewrite pu_call. cbn [flat_map]. apply incl_app_app; [apply incl_refl | exact Hr].
      + rewrite pu_skip. destruct (M_C31.unroll_pragma p) as [d|].
        * destruct r as [|s' r']; [cbn [flat_map]; apply incl_app_app; [apply incl_refl | exact Hr]|].
          destruct s' as [x e|a idx e|v lo hi st body|c body|c t e|g args|p'];
            try (cbn [flat_map]; apply incl_app_app; [apply incl_refl | exact Hr]).
          rewrite flat_map_app. cbn [flat_map]. apply incl_appr. apply incl_app_app.
          -- eapply incl_tran; [apply IH | apply ut_incl].
          -- apply IHn. cbn in Hl. lia.
        * cbn [flat_map]. apply incl_app_app; [apply incl_refl | exact Hr]. }
  apply (G (List.length l)). lia.
Qed.

Lemma do_unroll_incl l : incl (uses_stmts (M_C31.do_unroll l)) (uses_stmts l).
Proof. unfold M_C31.do_unroll, uses_stmts. apply pu_incl. Qed.

Theorem T_unroll_preserves_well_scoped (u : unit (list stmt)) :
  well_scoped uses_stmts u -> well_scoped uses_stmts (T_unroll u).
Proof. intros W. unfold T_unroll. apply (T_body_preserves uses_stmts); [apply do_unroll_incl | exact W]. Qed.

(* ------------------------------------------------------------------------------------------ *)
(** * the expression simplifier of C32 (any constants map: a known value replaces the variable by a literal) *)

Lemma uses_lit v : uses_e (M_C32.lit v) = [].
Proof. unfold M_C32.lit. destruct (v <? 0)%Z; reflexivity. Qed.

Ltac sval_fin :=
  cbn [M_C32.expr_of uses_e flat_map M_C32.negx]; rewrite ?uses_lit; incl_tac.

Ltac split_ifs E :=
  repeat match type of E with context [if ?c then _ else _] => destruct c end.

Lemma sum2_uses a b s :
  M_C32.sum2 a b = Some s ->
  incl (uses_e (M_C32.expr_of s)) (uses_e (M_C32.expr_of a) ++ uses_e (M_C32.expr_of b)).
Proof.
  destruct a, b; cbn [M_C32.sum2]; intros E; split_ifs E; try discriminate; inversion E; subst; clear E; sval_fin.
Qed.

Lemma coef_uses c y s : M_C32.coef c y = Some s -> incl (uses_e (M_C32.expr_of s)) (uses_e y).
Proof.
  unfold M_C32.coef. intros E. split_ifs E; try discriminate; inversion E; subst; clear E; sval_fin.
Qed.

Lemma prod2_uses a b s :
  M_C32.prod2 a b = Some s ->
  incl (uses_e (M_C32.expr_of s)) (uses_e (M_C32.expr_of a) ++ uses_e (M_C32.expr_of b)).
Proof.
  destruct a, b; cbn [M_C32.prod2]; intros E; try discriminate;
    try (apply coef_uses in E; cbn [M_C32.expr_of]; rewrite ?uses_lit; eapply incl_tran; [exact E|]; incl_tac);
    inversion E; subst; clear E; sval_fin.
Qed.

Lemma quot2_uses force a b s :
  M_C32.quot2 force a b = Some s ->
  incl (uses_e (M_C32.expr_of s)) (uses_e (M_C32.expr_of a) ++ uses_e (M_C32.expr_of b)).
Proof.
  destruct a, b; cbn [M_C32.quot2]; intros E; split_ifs E; try discriminate; inversion E; subst; clear E; sval_fin.
Qed.

Lemma simp_uses force m e : forall s,
  M_C32.simp force m e = Some s -> incl (uses_e (M_C32.expr_of s)) (uses_e e).
Proof.
  induction e as [v|v|x|b|p cs IH|p cs IH|p n d IHn IHd|p n d IHn IHd|op n d IHn IHd|cs IH|cs IH|n IHn|f cs IH]
    using expr_ind'; intros s E; cbn [M_C32.simp] in E; try discriminate.
  - inversion E; subst. cbn [M_C32.expr_of]. rewrite uses_lit. apply incl_nil_l.
  - inversion E; subst. cbn [M_C32.expr_of]. rewrite uses_lit. apply incl_nil_l.
  - destruct (M_C32.lookup m x); inversion E; subst; cbn [M_C32.expr_of].
    + rewrite uses_lit. apply incl_nil_l.
    + apply incl_refl.
  - destruct cs as [|a [|b [|c r]]]; try discriminate.
    inversion IH as [|? ? Ha IH']; subst. inversion IH' as [|? ? Hb _]; subst.
    destruct (M_C32.simp force m a) as [x|] eqn:Ea; [|discriminate].
    destruct (M_C32.simp force m b) as [y|] eqn:Eb; [|discriminate].
    specialize (Ha _ eq_refl). specialize (Hb _ eq_refl). apply sum2_uses in E.
    cbn [uses_e flat_map]. rewrite app_nil_r. eapply incl_tran; [exact E|]. apply incl_app_app; assumption.
  - destruct cs as [|a [|b [|c r]]]; try discriminate.
    inversion IH as [|? ? Ha IH']; subst. inversion IH' as [|? ? Hb _]; subst.
    destruct (M_C32.simp force m a) as [x|] eqn:Ea; [|discriminate].
    destruct (M_C32.simp force m b) as [y|] eqn:Eb; [|discriminate].
    specialize (Ha _ eq_refl). specialize (Hb _ eq_refl). apply prod2_uses in E.
    cbn [uses_e flat_map]. rewrite app_nil_r. eapply incl_tran; [exact E|]. apply incl_app_app; assumption.
  - destruct (M_C32.simp force m n) as [x|] eqn:Ea; [|discriminate].
    destruct (M_C32.simp force m d) as [y|] eqn:Eb; [|discriminate].
    specialize (IHn _ eq_refl). specialize (IHd _ eq_refl). apply quot2_uses in E.
    cbn [uses_e]. eapply incl_tran; [exact E|]. apply incl_app_app; assumption.
  - destruct (M_C32.is_intr f); [discriminate|]. inversion E; subst. apply incl_refl.
Qed.

Lemma simp_e_uses force m e e' : M_C32.simp_e force m e = Some e' -> incl (uses_e e') (uses_e e).
Proof.
  unfold M_C32.simp_e. destruct (M_C32.simp force m e) as [s|] eqn:E; [|discriminate].
  intros H. inversion H; subst. apply (simp_uses _ _ _ _ E).
Qed.

Lemma simp_list_uses force m l : forall l', M_C32.simp_list force m l = Some l' -> incl (uses_es l') (uses_es l).
Proof.
  induction l as [|e r IH]; intros l' H; cbn [M_C32.simp_list] in H.
  - inversion H. apply incl_refl.
  - destruct (M_C32.simp_e force m e) as [e'|] eqn:Ee; [|discriminate].
    destruct (M_C32.simp_list force m r) as [r'|]; [|discriminate]. inversion H; subst.
    unfold uses_es. cbn [flat_map]. apply incl_app_app; [apply (simp_e_uses _ _ _ _ Ee) | apply IH; reflexivity].
Qed.

Lemma simp_list_length force m l : forall l', M_C32.simp_list force m l = Some l' -> List.length l' = List.length l.
Proof.
  induction l as [|q r IH]; intros l' H; cbn [M_C32.simp_list] in H.
  - inversion H. reflexivity.
  - destruct (M_C32.simp_e force m q); [|discriminate].
    destruct (M_C32.simp_list force m r) as [r'|]; [|discriminate]. inversion H; subst.
    cbn [List.length]. rewrite (IH r' eq_refl). reflexivity.
Qed.

(** the operand loop of [simp_cond] *)
Definition go_c (f : expr -> option expr) : list expr -> option (list expr) :=
  fix go (l : list expr) : option (list expr) :=
    match l with
    | [] => Some []
    | x :: r => match f x, go r with Some x', Some r' => Some (x' :: r') | _, _ => None end
    end.

Lemma go_c_cons f x r :
  go_c f (x :: r) = match f x, go_c f r with Some x', Some r' => Some (x' :: r') | _, _ => None end.
Proof. reflexivity. Qed.

Lemma go_c_uses f l :
  Forall (fun c => forall c', f c = Some c' -> incl (uses_e c') (uses_e c)) l ->
  forall l', go_c f l = Some l' -> incl (flat_map uses_e l') (flat_map uses_e l).
Proof.
  induction 1 as [|x r Hx Hr IH]; intros l' E.
  - inversion E. apply incl_refl.
  - rewrite go_c_cons in E. destruct (f x) as [x'|] eqn:Ex; [|discriminate].
    destruct (go_c f r) as [r'|]; [|discriminate]. inversion E; subst. cbn [flat_map].
    apply incl_app_app; [apply Hx; reflexivity | apply IH; reflexivity].
Qed.

Lemma simp_cond_cmp force m op l r :
  M_C32.simp_cond force m (ECmp op l r)
  = match M_C32.simp force m l, M_C32.simp force m r with
    | Some (M_C32.SV a), Some (M_C32.SV b) => Some (ELog (cmp_z op a b))
    | Some x, Some y => Some (ECmp op (M_C32.expr_of x) (M_C32.expr_of y))
    | _, _ => None
    end.
Proof. reflexivity. Qed.

Lemma simp_cond_and force m cs :
  M_C32.simp_cond force m (EAnd cs)
  = match go_c (M_C32.simp_cond force m) cs with
    | Some cs' =>
        if existsb M_C32.is_false cs' then (if forallb M_C32.total_c cs' then Some (ELog false) else None)
        else match filter (fun x => negb (M_C32.is_true x)) cs' with
             | [] => Some (ELog true)
             | rest => Some (EAnd rest)
             end
    | None => None
    end.
Proof. reflexivity. Qed.

Lemma simp_cond_or force m cs :
  M_C32.simp_cond force m (EOr cs)
  = match go_c (M_C32.simp_cond force m) cs with
    | Some cs' =>
        if existsb M_C32.is_true cs' then (if forallb M_C32.total_c cs' then Some (ELog true) else None)
        else match filter (fun x => negb (M_C32.is_false x)) cs' with
             | [] => Some (ELog false)
             | rest => Some (EOr rest)
             end
    | None => None
    end.
Proof. reflexivity. Qed.

Lemma simp_cond_not force m x :
  M_C32.simp_cond force m (ENot x)
  = match M_C32.simp_cond force m x with
    | Some (ELog b) => Some (ELog (negb b))
    | Some x' => Some (ENot x')
    | None => None
    end.
Proof. reflexivity. Qed.

Lemma simp_cond_uses force m c : forall c',
  M_C32.simp_cond force m c = Some c' -> incl (uses_e c') (uses_e c).
Proof.
  induction c as [v|v|x|b|p cs IH|p cs IH|p n d IHn IHd|p n d IHn IHd|op n d IHn IHd|cs IH|cs IH|n IHn|f cs IH]
    using expr_ind'; intros c' E; try discriminate.
  - cbn in E. inversion E. apply incl_refl.
  - rewrite simp_cond_cmp in E.
    destruct (M_C32.simp force m n) as [x|] eqn:Ea; [|discriminate].
    destruct (M_C32.simp force m d) as [y|] eqn:Eb; [|destruct x; discriminate].
    apply simp_uses in Ea. apply simp_uses in Eb.
    assert (R : (exists b, c' = ELog b) \/ c' = ECmp op (M_C32.expr_of x) (M_C32.expr_of y)).
    { destruct x, y; inversion E; subst; try (right; reflexivity). left. eexists. reflexivity. }
    destruct R as [[b R]|R]; subst c'; [apply incl_nil_l|]. cbn [uses_e]. apply incl_app_app; assumption.
  - rewrite simp_cond_and in E. destruct (go_c (M_C32.simp_cond force m) cs) as [cs'|] eqn:Eg; [|discriminate].
    apply (go_c_uses _ _ IH) in Eg.
    destruct (existsb M_C32.is_false cs').
    + destruct (forallb M_C32.total_c cs'); [|discriminate]. inversion E. apply incl_nil_l.
    + destruct (filter (fun x => negb (M_C32.is_true x)) cs') as [|e0 l0] eqn:F; inversion E; subst; [apply incl_nil_l|].
      cbn [uses_e]. rewrite <- F. eapply incl_tran; [apply incl_fm_filter | exact Eg].
  - rewrite simp_cond_or in E. destruct (go_c (M_C32.simp_cond force m) cs) as [cs'|] eqn:Eg; [|discriminate].
    apply (go_c_uses _ _ IH) in Eg.
    destruct (existsb M_C32.is_true cs').
    + destruct (forallb M_C32.total_c cs'); [|discriminate]. inversion E. apply incl_nil_l.
    + destruct (filter (fun x => negb (M_C32.is_false x)) cs') as [|e0 l0] eqn:F; inversion E; subst; [apply incl_nil_l|].
      cbn [uses_e]. rewrite <- F. eapply incl_tran; [apply incl_fm_filter | exact Eg].
  - rewrite simp_cond_not in E. destruct (M_C32.simp_cond force m n) as [x'|]; [|discriminate].
    specialize (IHn _ eq_refl).
    destruct x'; inversion E; subst; cbn [uses_e]; exact IHn.
Qed.

(* ------------------------------------------------------------------------------------------ *)
(** * dead-code removal (C32) *)

Definition go_s (f : stmt -> option (list stmt)) : list stmt -> option (list stmt) :=
  fix go (l : list stmt) : option (list stmt) :=
    match l with
    | [] => Some []
    | s :: r => match f s, go r with Some a, Some b => Some (a ++ b) | _, _ => None end
    end.

Lemma go_s_cons f s r :
  go_s f (s :: r) = match f s, go_s f r with Some a, Some b => Some (a ++ b) | _, _ => None end.
Proof. reflexivity. Qed.

Lemma go_s_uses f l :
  Forall (fun s => forall a, f s = Some a -> incl (flat_map uses_stmt a) (uses_stmt s)) l ->
  forall l', go_s f l = Some l' -> incl (flat_map uses_stmt l') (flat_map uses_stmt l).
Proof.
  induction 1 as [|x r Hx Hr IH]; intros l' E.
  - inversion E. apply incl_refl.
  - rewrite go_s_cons in E. destruct (f x) as [a|] eqn:Ex; [|discriminate].
    destruct (go_s f r) as [b|]; [|discriminate]. inversion E; subst. rewrite flat_map_app. cbn [flat_map].
    apply incl_app_app; [apply Hx; reflexivity | apply IH; reflexivity].
Qed.

Lemma dce1_do u v lo hi st b :
  M_C32.dce1 u (SDo v lo hi st b)
  = match go_s (M_C32.dce1 u) b with Some b' => Some [SDo v lo hi st b'] | None => None end.
Proof. reflexivity. Qed.

Lemma dce1_while u c b :
  M_C32.dce1 u (SWhile c b) = match go_s (M_C32.dce1 u) b with Some b' => Some [SWhile c b'] | None => None end.
Proof. reflexivity. Qed.

Lemma dce1_if u c t e :
  M_C32.dce1 u (SIf c t e)
  = match (if u then M_C32.simp_cond false [] c else Some c), go_s (M_C32.dce1 u) t, go_s (M_C32.dce1 u) e with
    | Some c', Some t', Some e' =>
        match c' with
        | ELog true => Some t'
        | ELog false => Some e'
        | _ => if M_C32.is_elseif e && M_C32.is_nil e' then None else Some [SIf c' t' e']
        end
    | _, _, _ => None
    end.
Proof. reflexivity. Qed.

Lemma dce_go u l : M_C32.dce u l = go_s (M_C32.dce1 u) l.
Proof. induction l as [|s r IH]; [reflexivity|]. rewrite go_s_cons, <- IH. reflexivity. Qed.

Lemma dce1_incl u s : forall l', M_C32.dce1 u s = Some l' -> incl (flat_map uses_stmt l') (uses_stmt s).
Proof.
  induction s as [x e|a idx e|v lo hi st b IH|c b IH|c t e IHt IHe|f args|l] using stmt_ind'; intros l' E.
  - cbn in E. inversion E. cbn [flat_map]. rewrite app_nil_r. apply incl_refl.
  - cbn in E. inversion E. cbn [flat_map]. rewrite app_nil_r. apply incl_refl.
  - rewrite dce1_do in E. destruct (go_s (M_C32.dce1 u) b) as [b'|] eqn:Eb; [|discriminate].
    apply (go_s_uses _ _ IH) in Eb. inversion E; subst. cbn [flat_map uses_stmt]. rewrite app_nil_r.
    apply incl_cons_same. apply incl_app_app; [apply incl_refl|]. apply incl_app_app; [apply incl_refl|].
    apply incl_app_app; [apply incl_refl | exact Eb].
  - rewrite dce1_while in E. destruct (go_s (M_C32.dce1 u) b) as [b'|] eqn:Eb; [|discriminate].
    apply (go_s_uses _ _ IH) in Eb. inversion E; subst. cbn [flat_map uses_stmt]. rewrite app_nil_r.
    apply incl_app_app; [apply incl_refl | exact Eb].
  - rewrite dce1_if in E.
    destruct (if u then M_C32.simp_cond false [] c else Some c) as [c'|] eqn:Ec; [|discriminate].
    destruct (go_s (M_C32.dce1 u) t) as [t'|] eqn:Et; [|discriminate].
    destruct (go_s (M_C32.dce1 u) e) as [e'|] eqn:Ee; [|discriminate].
    apply (go_s_uses _ _ IHt) in Et. apply (go_s_uses _ _ IHe) in Ee.
    assert (Hc : incl (uses_e c') (uses_e c)).
    { destruct u; [apply (simp_cond_uses _ _ _ _ Ec) | inversion Ec; apply incl_refl]. }
    assert (R : l' = t' \/ l' = e' \/ l' = [SIf c' t' e']).
    { destruct c' as [| | |[]| | | | | | | | |];
        try (destruct (M_C32.is_elseif e && M_C32.is_nil e'); [discriminate|]); inversion E; auto. }
    cbn [uses_stmt]. destruct R as [R|[R|R]]; subst l'.
    + apply incl_appr. apply incl_appl. exact Et.
    + apply incl_appr. apply incl_appr. exact Ee.
    + cbn [flat_map uses_stmt]. rewrite app_nil_r. apply incl_app_app; [exact Hc|]. apply incl_app_app; assumption.
  - cbn in E. inversion E. cbn [flat_map]. rewrite app_nil_r. apply incl_refl.
  - cbn in E. inversion E. cbn [flat_map]. rewrite app_nil_r. apply incl_refl.
Qed.

Lemma dce_incl u l l' : M_C32.dce u l = Some l' -> incl (uses_stmts l') (uses_stmts l).
Proof.
  rewrite dce_go. unfold uses_stmts. apply go_s_uses. apply Forall_forall. intros s _. apply dce1_incl.
Qed.

Theorem T_dce_preserves_well_scoped simp (u u' : unit (list stmt)) :
  well_scoped uses_stmts u -> T_dce simp u = Some u' -> well_scoped uses_stmts u'.
Proof.
  intros W E. unfold T_dce in E.
  apply (T_body_opt_preserves uses_stmts uses_stmts (M_C32.dce simp) u u'); [|exact W | exact E].
  intros b' Hb. apply (dce_incl _ _ _ Hb).
Qed.

(* ------------------------------------------------------------------------------------------ *)
(** * constant propagation (C32) *)

Lemma simp_step_uses m st sst :
  M_C32.simp_step m st = Some sst -> incl (uses_oe (M_C32.expr_of_step sst)) (uses_oe st).
Proof.
  unfold M_C32.simp_step. destruct st as [e|].
  - destruct (M_C32.simp true m e) as [s|] eqn:E; [|discriminate]. intros H. inversion H; subst.
    cbn [M_C32.expr_of_step uses_oe]. apply (simp_uses _ _ _ _ E).
  - intros H. inversion H; subst. apply incl_refl.
Qed.

Lemma cp1_incl strict rec wl m st st' m1 :
  (forall wl m l l' m', rec wl m l = Some (l', m') -> incl (flat_map uses_stmt l') (flat_map uses_stmt l)) ->
  M_C32.cp1 strict rec wl m st = Some (st', m1) -> incl (uses_stmt st') (uses_stmt st).
Proof.
  intros Hrec E. destruct st as [x e|a idx e|v lo hi stp body|c body|c t e|g args|l]; cbn [M_C32.cp1] in E.
  - destruct (wl && M_C32.mem_expr (EVar x) (M_C32.syms e)).
    + destruct (strict && negb (M_C32.unknown m x)); [discriminate|]. inversion E; subst. apply incl_refl.
    + destruct (M_C32.simp true m e) as [s|] eqn:Es; [|discriminate]. inversion E; subst.
      cbn [uses_stmt]. apply incl_cons_same. apply (simp_uses _ _ _ _ Es).
  - destruct (wl && M_C32.mem_expr (ECall a idx) (M_C32.syms e)).
    + inversion E; subst. apply incl_refl.
    + destruct (M_C32.simp_list true m idx) as [idx'|] eqn:Ei; [|discriminate].
      destruct (M_C32.simp_e true m e) as [e'|] eqn:Ee; [|discriminate]. inversion E; subst.
      cbn [uses_stmt].
      assert (Hlen : List.length idx' = List.length idx) by (apply (simp_list_length _ _ _ _ Ei)).
      rewrite Hlen. apply incl_cons_same.
      apply incl_app_app; [apply (simp_list_uses _ _ _ _ Ei) | apply (simp_e_uses _ _ _ _ Ee)].
  - destruct (M_C32.simp true m lo) as [slo|] eqn:E1; [|discriminate].
    destruct (M_C32.simp true m hi) as [shi|] eqn:E2; [|discriminate].
    destruct (M_C32.simp_step m stp) as [sst|] eqn:E3; [|discriminate].
    destruct (rec true (M_C32.remove m v) body) as [[body' mm]|] eqn:E4; [|discriminate].
    assert (R : st' = SDo v (M_C32.expr_of slo) (M_C32.expr_of shi) (M_C32.expr_of_step sst) body').
    { destruct (strict && negb (M_C32.disjoint (M_C32.writes_l body) m)); [discriminate|].
      destruct (M_C32.bounds_const slo shi sst) as [[[a b] d]|].
      - match type of E with context [M_C32.post_const ?lv ?mm ?asg] => destruct (M_C32.post_const lv mm asg) end;
          [|discriminate].
        match type of E with context [if ?c then _ else _] => destruct c end; [discriminate|].
        inversion E. reflexivity.
      - inversion E. reflexivity. }
    subst st'. cbn [uses_stmt]. apply incl_cons_same.
    apply incl_app_app; [apply (simp_uses _ _ _ _ E1)|].
    apply incl_app_app; [apply (simp_uses _ _ _ _ E2)|].
    apply incl_app_app; [apply (simp_step_uses _ _ _ E3)|]. apply (Hrec _ _ _ _ _ E4).
  - destruct (rec wl m body) as [[body' mm]|] eqn:E1; [|discriminate].
    match type of E with context [if ?c then _ else _] => destruct c end; [discriminate|].
    inversion E; subst. cbn [uses_stmt]. apply incl_app_app; [apply incl_refl | apply (Hrec _ _ _ _ _ E1)].
  - destruct (M_C32.simp_cond true m c) as [c'|] eqn:E1; [|discriminate].
    destruct (rec wl m t) as [[t' mt]|] eqn:E2; [|discriminate].
    destruct (rec wl m e) as [[e' me]|] eqn:E3; [|discriminate]. inversion E; subst.
    cbn [uses_stmt]. apply incl_app_app; [apply (simp_cond_uses _ _ _ _ E1)|].
    apply incl_app_app; [apply (Hrec _ _ _ _ _ E2) | apply (Hrec _ _ _ _ _ E3)].
  - match type of E with context [if ?c then _ else _] => destruct c end; [discriminate|].
    inversion E; subst. apply incl_refl.
  - inversion E; subst. apply incl_refl.
Qed.

Lemma cp_incl strict n : forall wl m l l' m',
  M_C32.cp strict n wl m l = Some (l', m') -> incl (flat_map uses_stmt l') (flat_map uses_stmt l).
Proof.
  induction n as [|k IH]; intros wl m l l' m' E; [discriminate|]. cbn [M_C32.cp] in E.
  destruct l as [|st r]; [inversion E; apply incl_refl|].
  destruct (M_C32.cp1 strict (M_C32.cp strict k) wl m st) as [[st' m1]|] eqn:E1; [|discriminate].
  destruct (M_C32.cp strict k wl m1 r) as [[r' m2]|] eqn:E2; [|discriminate]. inversion E; subst.
  cbn [flat_map]. apply incl_app_app; [apply (cp1_incl _ _ _ _ _ _ _ IH E1) | apply (IH _ _ _ _ _ E2)].
Qed.

Lemma constprop_incl n p p' : M_C32.constprop n p = Some p' -> incl (uses_stmts p') (uses_stmts p).
Proof.
  unfold M_C32.constprop. destruct (M_C32.cp true n false [] p) as [[q mm]|] eqn:E; [|discriminate].
  intros H. inversion H; subst. apply (cp_incl _ _ _ _ _ _ _ E).
Qed.

Lemma constprop_raw_incl n p p' : M_C32.constprop_raw n p = Some p' -> incl (uses_stmts p') (uses_stmts p).
Proof.
  unfold M_C32.constprop_raw. destruct (M_C32.cp false n false [] p) as [[q mm]|] eqn:E; [|discriminate].
  intros H. inversion H; subst. apply (cp_incl _ _ _ _ _ _ _ E).
Qed.

Theorem T_constprop_preserves_well_scoped n (u u' : unit (list stmt)) :
  well_scoped uses_stmts u -> T_body_opt (M_C32.constprop n) u = Some u' -> well_scoped uses_stmts u'.
Proof.
  intros W E.
  apply (T_body_opt_preserves uses_stmts uses_stmts (M_C32.constprop n) u u'); [|exact W | exact E].
  intros b' Hb. apply (constprop_incl _ _ _ Hb).
Qed.

(* ------------------------------------------------------------------------------------------ *)
(** * the transformations do something on well-scoped units *)

Open Scope string_scope.
Open Scope Z_scope.

Definition ex_u : unit (list stmt) :=
  mkUnit ["n"] [("n", KScalar); ("i", KScalar); ("a", KArray 1); ("t", KScalar)] [] [] []
    [SSkip "$loki loop-unroll";
     SDo "i" (EInt 1) (EInt 2) None [SStore "a" [EVar "i"] (ESum false [EVar "i"; EVar "n"])];
     SAssign "t" (EInt 3);
     SIf (EAnd [ELog true; ECmp Clt (EInt 1) (EInt 2)]) [SAssign "t" (ESum false [EVar "t"; EInt 1])]
         [SAssign "n" (EVar "t")]].

Example T_same_inhabited :
  well_scopedb uses_stmts ex_u
  && well_scopedb uses_stmts (T_unroll ex_u)
  && negb (stmts_eqb (u_body (T_unroll ex_u)) (u_body ex_u))
  && (match T_dce true ex_u with
      | Some u' => well_scopedb uses_stmts u' && negb (stmts_eqb (u_body u') (u_body ex_u))
      | None => false end)
  && (match T_body_opt (M_C32.constprop 10) ex_u with
      | Some u' => well_scopedb uses_stmts u' && negb (stmts_eqb (u_body u') (u_body ex_u))
      | None => false end)
  = true.
Proof. vm_compute. reflexivity. Qed.

Print Assumptions T_unroll_preserves_well_scoped.
Print Assumptions T_dce_preserves_well_scoped.
Print Assumptions T_constprop_preserves_well_scoped.
