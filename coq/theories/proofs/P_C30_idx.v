(** C30 — proofs about the index-normalising transformations (Part C of the model):
    column-major flattening (injectivity in bounds, range, store-level preservation), the generic
    re-indexing simulation instantiated for shift_to_zero_indexing and invert_array_indices,
    bound-normalisation arithmetic, explicit-dimension round trips. *)
From Coq Require Import ZArith List Bool String Lia.
From LV Require Import Base.Expr Base.MiniF Base.MiniFFacts models.M_C30 proofs.P_C30_lin proofs.P_C30.
Import ListNotations.
Open Scope Z_scope.

(* ------------------------------------------------------------------------------------------ *)
(** * flatten_arrays: the offset formula *)

Lemma flat_offset_cons c n q i j r : flat_offset c (n :: q) (i :: j :: r) = i + n * (flat_offset c q (j :: r) - c).
Proof. reflexivity. Qed.

Lemma prodZ_pos c ns idx : in_box c ns idx -> idx <> [] -> 0 < prodZ ns.
Proof.
  revert idx. induction ns as [|n q IH]; intros [|i r] B NE; cbn in B; try contradiction; try congruence.
  destruct B as [B1 B2]. cbn [prodZ]. destruct r as [|j r].
  - destruct q; [cbn; lia|contradiction].
  - assert (0 < prodZ q) by (apply (IH (j :: r)); [exact B2|discriminate]). nia.
Qed.

(** in bounds, the flattened subscript lies in c .. c + size - 1 *)
Theorem flatten_index_in_range c : forall ns idx, in_box c ns idx -> idx <> [] ->
  c <= flat_offset c ns idx <= c + prodZ ns - 1.
Proof.
  induction ns as [|n q IH]; intros [|i r] B NE; cbn in B; try contradiction; try congruence.
  destruct B as [B1 B2]. destruct r as [|j r].
  - destruct q; [|contradiction]. cbn. lia.
  - rewrite flat_offset_cons. cbn [prodZ].
    assert (NE' : j :: r <> []) by discriminate.
    specialize (IH _ B2 NE'). pose proof (prodZ_pos c q (j :: r) B2 NE'). nia.
Qed.

(** in bounds, the offset formula is injective: distinct elements never share a flattened subscript *)
Theorem flatten_index_injective_in_bounds c : forall ns i i',
  in_box c ns i -> in_box c ns i' -> flat_offset c ns i = flat_offset c ns i' -> i = i'.
Proof.
  induction ns as [|n q IH]; intros [|x r] [|y r'] B B' E; cbn in B, B'; try contradiction; [reflexivity|].
  destruct B as [B1 B2], B' as [B1' B2'].
  destruct r as [|j r], r' as [|j' r'].
  - cbn in E. now subst.
  - destruct q; cbn in B2, B2'; contradiction.
  - destruct q; cbn in B2, B2'; contradiction.
  - rewrite !flat_offset_cons in E.
    assert (NE : j :: r <> []) by discriminate. assert (NE' : j' :: r' <> []) by discriminate.
    pose proof (flatten_index_in_range c q _ B2 NE) as R1. pose proof (flatten_index_in_range c q _ B2' NE') as R2.
    assert (F : flat_offset c q (j :: r) = flat_offset c q (j' :: r')) by nia.
    assert (X : x = y) by nia. subst. f_equal. now apply IH.
Qed.

(** the same formula on reversed lists with an accumulator, as the code computes it *)
Fixpoint flat_rev (c accv : Z) (rvals rns : list Z) : Z :=
  match rvals, rns with
  | v :: rv, n :: rn => flat_rev c (v + n * (accv - c)) rv rn
  | _, _ => accv
  end.

Lemma flat_rev_snoc c : forall xs ys acc i n, List.length xs = List.length ys ->
  flat_rev c acc (xs ++ [i]) (ys ++ [n]) = i + n * (flat_rev c acc xs ys - c).
Proof.
  induction xs as [|x xs IH]; intros [|y ys] acc i n L; cbn in L; try discriminate; [reflexivity|].
  cbn [app flat_rev]. apply IH. lia.
Qed.

Lemma flat_rev_offset c : forall init ns_init last nlast, List.length init = List.length ns_init ->
  flat_rev c last (rev init) (rev ns_init) = flat_offset c (ns_init ++ [nlast]) (init ++ [last]).
Proof.
  induction init as [|i r IH]; intros [|n q] last nlast L; cbn in L; try discriminate; [reflexivity|].
  cbn [rev]. rewrite flat_rev_snoc by (rewrite !rev_length; lia).
  rewrite (IH q last nlast) by lia. cbn [app].
  destruct (r ++ [last]) eqn:E; [destruct r; discriminate|]. reflexivity.
Qed.

Lemma sum_snoc_eval rho p cs x :
  evalZ rho (ESum p (cs ++ [x])) =
  obind (evalZ rho (ESum p cs)) (fun a => obind (evalZ rho x) (fun b => Some (a + b))).
Proof.
  cbn [evalZ]. induction cs as [|c cs IH]; cbn [app fold_right].
  - destruct (evalZ rho x); cbn; [f_equal; lia|reflexivity].
  - rewrite IH. destruct (evalZ rho c); cbn [obind]; [|reflexivity].
    destruct (fold_right _ (Some 0) cs); cbn [obind]; [|reflexivity].
    destruct (evalZ rho x); cbn [obind]; [f_equal; lia|reflexivity].
Qed.

Lemma sub_py_eval rho d c : evalZ rho (sub_py d c) = option_map (fun x => x - c) (evalZ rho d).
Proof.
  unfold sub_py. destruct (c =? 0) eqn:E0.
  - apply Z.eqb_eq in E0. subst. destruct (evalZ rho d); cbn; [f_equal; lia|reflexivity].
  - assert (G : evalZ rho (if is_falsy d then EPy (- c) else ESum false [d; EPy (- c)]) = option_map (fun x => x - c) (evalZ rho d)).
    { destruct (is_falsy d) eqn:F.
      - destruct d; cbn in F; try discriminate. apply Z.eqb_eq in F. subst. cbn. f_equal.
      - cbn. destruct (evalZ rho d); cbn; [f_equal; lia|reflexivity]. }
    destruct d; try exact G.
    rewrite sum_snoc_eval. fold (evalZ rho (ESum paren cs)).
    assert (S : evalZ rho (ESum false cs) = evalZ rho (ESum paren cs)) by reflexivity. rewrite S.
    destruct (evalZ rho (ESum paren cs)); cbn; [f_equal; lia|reflexivity].
Qed.

Lemma sub_lit1_eval rho d : evalZ rho (sub_lit1 d) = option_map (fun x => x - 1) (evalZ rho d).
Proof.
  unfold sub_lit1.
  assert (M : evalZ rho m1 = Some (-1)) by reflexivity.
  assert (G : evalZ rho (if is_falsy d then m1 else ESum false [d; m1]) = option_map (fun x => x - 1) (evalZ rho d)).
  { destruct (is_falsy d) eqn:F.
    - destruct d; cbn in F; try discriminate. apply Z.eqb_eq in F. subst. reflexivity.
    - cbn [evalZ fold_right]. fold (evalZ rho m1). rewrite M. destruct (evalZ rho d); cbn; [f_equal; lia|reflexivity]. }
  destruct d; try exact G.
  rewrite sum_snoc_eval, M.
  assert (S : evalZ rho (ESum false cs) = evalZ rho (ESum paren cs)) by reflexivity. rewrite S.
  destruct (evalZ rho (ESum paren cs)); cbn; [f_equal; lia|reflexivity].
Qed.

(** the syntactic result of the model of flatten_arrays evaluates to the offset formula *)
Lemma flat_go_eval rho c : forall rd rs acc accv rvals rns e,
  flat_go c acc rd rs = Some e -> evalZ rho acc = Some accv ->
  omap_list (evalZ rho) rd = Some rvals ->
  omap_list (fun s => match s with DSize n => evalZ rho n | DRange _ _ => None end) (firstn (List.length rd) rs) = Some rns ->
  evalZ rho e = Some (flat_rev c accv rvals rns).
Proof.
  induction rd as [|d rd IH]; intros rs acc accv rvals rns e G Ea Ed En.
  - cbn in G, Ed. inversion G. inversion Ed. subst. cbn. exact Ea.
  - cbn [flat_go] in G. destruct rs as [|[n|] rs]; try discriminate.
    cbn [omap_list] in Ed. apply obind_some in Ed. destruct Ed as [v [Ev Ed]]. apply obind_some in Ed. destruct Ed as [vs [Evs Ed]].
    inversion Ed. subst. cbn [List.length firstn omap_list] in En.
    apply obind_some in En. destruct En as [nv [Env En]]. apply obind_some in En. destruct En as [nvs [Envs En]]. inversion En. subst.
    cbn [flat_rev]. apply (IH rs _ (v + nv * (accv - c)) vs nvs e G); [|exact Evs|exact Envs].
    cbn [evalZ fold_right]. rewrite Ev, Env, sub_py_eval, Ea. cbn. f_equal. lia.
Qed.

(** store-level preservation for one flattened array: element (i1,..,ik) of [a] in [s] lives at the flattened
    subscript in [s']; in-bounds reads agree and in-bounds writes keep the relation (injectivity is what makes
    the write case work) *)
Definition flat_rel (c : Z) (a : string) (ns : list Z) (s s' : store) : Prop :=
  forall i, in_box c ns i -> av s' a [flat_offset c ns i] = av s a i.

Theorem flatten_preserves_partial c a ns s s' i v :
  flat_rel c a ns s s' -> in_box c ns i ->
  av s' a [flat_offset c ns i] = av s a i /\
  flat_rel c a ns (set_av a i v s) (set_av a [flat_offset c ns i] v s').
Proof.
  intros R B. split; [now apply R|].
  intros j Bj. cbn. rewrite String.eqb_refl. cbn [andb list_z_eqb].
  destruct (list_z_eqb j i) eqn:E.
  - apply list_z_eqb_eq in E. subst. now rewrite Z.eqb_refl.
  - destruct (flat_offset c ns j =? flat_offset c ns i) eqn:F; cbn [andb].
    + apply Z.eqb_eq in F. apply (flatten_index_injective_in_bounds c ns j i Bj B) in F. subst.
      assert (list_z_eqb i i = true) by now apply list_z_eqb_eq. congruence.
    + now apply R.
Qed.

(* ------------------------------------------------------------------------------------------ *)
(** * bound normalisation arithmetic *)

(** normalize_array_shape_and_access: per dimension the map i |-> i - lo + 1 is a bijection of the declared
    range lo:hi onto 1:(hi-lo+1), which is exactly the new declaration *)
Theorem normalize_shape_access_bijection lo hi :
  (forall i, lo <= i <= hi <-> 1 <= i - lo + 1 <= hi - lo + 1) /\
  (forall i i', i - lo + 1 = i' - lo + 1 -> i = i') /\
  (forall k, 1 <= k <= hi - lo + 1 -> exists i, lo <= i <= hi /\ i - lo + 1 = k).
Proof. repeat split; intros; try lia. exists (k + lo - 1). lia. Qed.

Lemma norm_sub_eval rho i lo vi vl : evalZ rho i = Some vi -> evalZ rho lo = Some vl ->
  evalZ rho (norm_sub i lo) = Some (vi - vl + 1).
Proof. intros Ei El. unfold norm_sub. cbn [evalZ fold_right]. rewrite Ei, El. cbn [obind]. f_equal. lia. Qed.

(** declared bounds denoted by a shape entry *)
Definition dshape_bounds (rho : env) (d : dshape) : option (Z * Z) :=
  match d with
  | DSize n => option_map (fun h => (1, h)) (evalZ rho n)
  | DRange lo hi => obind (evalZ rho lo) (fun l => option_map (fun h => (l, h)) (evalZ rho hi))
  end.

(** normalize_range_indexing only rewrites declarations 1:n to n: the declared bounds are unchanged, so no
    access has to change (and the code changes none) *)
Theorem normalize_range_decl_sound rho d : dshape_bounds rho (normrange_shape d) = dshape_bounds rho d.
Proof.
  destruct d as [n|lo hi]; [reflexivity|]. cbn [normrange_shape]. destruct (is_one lo) eqn:E; [|reflexivity].
  destruct lo; cbn in E; try discriminate. apply Z.eqb_eq in E. subst. reflexivity.
Qed.

(** normalize_array_shape_and_access on a declaration: 1:(hi-lo+1) *)
Theorem normshape_decl_bounds rho d l h : dshape_bounds rho d = Some (l, h) ->
  dshape_bounds rho (normshape_shape d) = Some (1, h - l + 1).
Proof.
  destruct d as [n|lo hi]; cbn [dshape_bounds normshape_shape].
  - intros E. apply option_map_some in E. destruct E as [x [E1 E2]]. inversion E2. subst. rewrite E1. cbn [option_map].
    do 2 f_equal. lia.
  - intros E. apply obind_some in E. destruct E as [vl [El E]]. apply option_map_some in E. destruct E as [vh [Eh E]].
    inversion E. subst vl vh.
    destruct (is_one lo) eqn:O.
    + destruct lo; cbn in O; try discriminate. apply Z.eqb_eq in O. subst. cbn in El. inversion El. subst.
      cbn [dshape_bounds]. rewrite Eh. cbn [option_map]. do 2 f_equal. lia.
    + cbn [dshape_bounds]. rewrite (norm_sub_eval rho hi lo h l Eh El). reflexivity.
Qed.

(* ------------------------------------------------------------------------------------------ *)
(** * generic simulation for total injective re-indexings *)

Lemma no_calls_eval r1 r2 : (forall x, ev_var r1 x = ev_var r2 x) -> forall e, no_calls e = true -> evalZ r1 e = evalZ r2 e.
Proof.
  intros Hv. induction e using expr_ind'; intros C; cbn [no_calls] in C; try reflexivity.
  - cbn. f_equal. apply Hv.
  - apply forallb_Forall in C. cbn [evalZ]. induction H as [|c cs Hc _ IH]; [reflexivity|].
    inversion C; subst. cbn [fold_right]. rewrite (Hc H1), (IH H2). reflexivity.
  - apply forallb_Forall in C. cbn [evalZ]. induction H as [|c cs Hc _ IH]; [reflexivity|].
    inversion C; subst. cbn [fold_right]. rewrite (Hc H1), (IH H2). reflexivity.
  - apply andb_prop in C. destruct C as [C1 C2]. cbn [evalZ]. now rewrite (IHe1 C1), (IHe2 C2).
  - apply andb_prop in C. destruct C as [C1 C2]. cbn [evalZ]. now rewrite (IHe1 C1), (IHe2 C2).
  - apply andb_prop in C. destruct C as [C1 C2]. apply forallb_Forall in C2. rewrite !evalZ_call.
    assert (E : omap_list (evalZ r1) args = omap_list (evalZ r2) args).
    { induction H as [|c cs Hc _ IH]; [reflexivity|]. inversion C2; subst. cbn [omap_list]. now rewrite (Hc H1), (IH H2). }
    rewrite E. destruct (omap_list (evalZ r2) args) as [vs|]; cbn [obind]; [|reflexivity].
    destruct (intrinsic_some f vs C1) as [r Hr]. now rewrite Hr.
Qed.

Lemma no_calls_omap r1 r2 : (forall x, ev_var r1 x = ev_var r2 x) -> forall es, forallb no_calls es = true ->
  omap_list (evalZ r1) es = omap_list (evalZ r2) es.
Proof.
  intros Hv. induction es as [|e es IH]; intros C; [reflexivity|]. cbn [forallb] in C. apply andb_prop in C. destruct C as [C1 C2].
  cbn [omap_list]. now rewrite (no_calls_eval r1 r2 Hv e C1), (IH C2).
Qed.

Lemma no_calls_flat_subs e : no_calls e = true -> flat_subs e = true.
Proof.
  induction e using expr_ind'; intros C; cbn [no_calls flat_subs] in *; try reflexivity.
  - apply forallb_Forall in C. apply forallb_forall. intros x Hx. rewrite Forall_forall in H, C. apply H; auto.
  - apply forallb_Forall in C. apply forallb_forall. intros x Hx. rewrite Forall_forall in H, C. apply H; auto.
  - apply andb_prop in C. destruct C. now rewrite IHe1, IHe2.
  - apply andb_prop in C. destruct C. now rewrite IHe1, IHe2.
  - apply andb_prop in C. destruct C. now rewrite IHe1, IHe2.
  - apply forallb_Forall in C. apply forallb_forall. intros x Hx. rewrite Forall_forall in H, C. apply H; auto.
  - apply forallb_Forall in C. apply forallb_forall. intros x Hx. rewrite Forall_forall in H, C. apply H; auto.
  - auto.
  - apply andb_prop in C. destruct C as [C1 C2]. rewrite C1.
    apply forallb_Forall in C2. apply forallb_forall. intros x Hx. rewrite Forall_forall in H, C2. apply H; auto.
Qed.

Definition rel_opt (R : store -> store -> Prop) (o o' : option store) : Prop :=
  match o, o' with Some t, Some t' => R t t' | None, None => True | _, _ => False end.

Section sim.
  Variable T : string -> list expr -> tres.
  Variable phi : string -> list Z -> list Z.
  Hypothesis phi_inj : forall a i j, phi a i = phi a j -> i = j.
  Hypothesis T_name : forall a idx idx', T a idx = TNew idx' -> is_intrinsic_name a = false.
  Hypothesis T_new : forall a idx idx' rho, T a idx = TNew idx' -> forallb no_calls idx = true ->
    forallb no_calls idx' = true /\
    omap_list (evalZ rho) idx' = option_map (phi a) (omap_list (evalZ rho) idx).
  Hypothesis T_keep : forall a idx rho vs, T a idx = TKeep -> omap_list (evalZ rho) idx = Some vs -> phi a vs = vs.

  Let R := reidx_rel phi.

  Lemma R_env_var s s' : R s s' -> forall x, ev_var (env_st s') x = ev_var (env_st s) x.
  Proof. intros [H _] x. apply H. Qed.

  Lemma R_set_sv s s' x v : R s s' -> R (set_sv x v s) (set_sv x v s').
  Proof. intros [H1 H2]. split; intros; cbn; [now rewrite H1|apply H2]. Qed.

  Lemma R_set_av s s' a i v : R s s' -> R (set_av a i v s) (set_av a (phi a i) v s').
  Proof.
    intros [H1 H2]. split; [intros; cbn; apply H1|]. intros b j. cbn.
    destruct (String.eqb b a) eqn:E; cbn [andb]; [|apply H2].
    apply String.eqb_eq in E. subst b.
    destruct (list_z_eqb j i) eqn:Eji.
    - apply list_z_eqb_eq in Eji. subst. assert (list_z_eqb (phi a i) (phi a i) = true) by now apply list_z_eqb_eq.
      now rewrite H.
    - destruct (list_z_eqb (phi a j) (phi a i)) eqn:Ep; [|apply H2].
      apply list_z_eqb_eq in Ep. apply phi_inj in Ep. subst.
      assert (list_z_eqb i i = true) by now apply list_z_eqb_eq. congruence.
  Qed.

  Lemma tr_go_f2 cs rs :
    (fix go (l : list expr) : option (list expr) :=
       match l with
       | [] => Some []
       | x :: r => obind (tr_expr T x) (fun y => obind (go r) (fun ys => Some (y :: ys)))
       end) cs = Some rs -> Forall2 (fun c r => tr_expr T c = Some r) cs rs.
  Proof.
    revert rs. induction cs as [|c cs IH]; intros rs E.
    - inversion E. constructor.
    - apply obind_some in E. destruct E as [y [E1 E]]. apply obind_some in E. destruct E as [ys [E2 E]]. inversion E. subst.
      constructor; [exact E1|now apply IH].
  Qed.

  Definition sim_e (s s' : store) (e e' : expr) : Prop :=
    evalZ (env_st s') e' = evalZ (env_st s) e /\ evalB (env_st s') e' = evalB (env_st s) e.

  Lemma f2_sim s s' cs rs :
    Forall (fun e => flat_subs e = true -> forall e', tr_expr T e = Some e' -> sim_e s s' e e') cs ->
    forallb flat_subs cs = true -> Forall2 (fun c r => tr_expr T c = Some r) cs rs -> Forall2 (sim_e s s') cs rs.
  Proof.
    intros F C F2. induction F2 as [|c r cs rs Hc _ IH]; [constructor|].
    inversion F; subst. cbn [forallb] in C. apply andb_prop in C. destruct C as [C1 C2].
    constructor; [now apply H1|now apply IH].
  Qed.

  Lemma tr_expr_sim s s' : R s s' -> forall e, flat_subs e = true -> forall e', tr_expr T e = Some e' -> sim_e s s' e e'.
  Proof.
    intros HR. pose proof (R_env_var s s' HR) as HV.
    induction e using expr_ind'; intros C e' E; cbn [flat_subs] in C.
    - inversion E. split; reflexivity.
    - inversion E. split; reflexivity.
    - inversion E. split; [cbn; f_equal; apply HV|reflexivity].
    - inversion E. split; reflexivity.
    - cbn [tr_expr] in E. apply option_map_some in E. destruct E as [rs [E1 E2]]. subst. apply tr_go_f2 in E1.
      pose proof (f2_sim s s' _ _ H C E1) as F. split; [|reflexivity]. cbn [evalZ]. clear - F.
      induction F as [|c r cs rs [Hc _] _ IH]; [reflexivity|]. cbn [fold_right]. now rewrite Hc, IH.
    - cbn [tr_expr] in E. apply option_map_some in E. destruct E as [rs [E1 E2]]. subst. apply tr_go_f2 in E1.
      pose proof (f2_sim s s' _ _ H C E1) as F. split; [|reflexivity]. cbn [evalZ]. clear - F.
      induction F as [|c r cs rs [Hc _] _ IH]; [reflexivity|]. cbn [fold_right]. now rewrite Hc, IH.
    - cbn [tr_expr] in E. apply obind_some in E. destruct E as [x [E1 E]]. apply obind_some in E. destruct E as [y [E2 E]]. inversion E. subst.
      apply andb_prop in C. destruct C as [C1 C2]. split; [|reflexivity]. cbn [evalZ].
      now rewrite (proj1 (IHe1 C1 _ E1)), (proj1 (IHe2 C2 _ E2)).
    - cbn [tr_expr] in E. apply obind_some in E. destruct E as [x [E1 E]]. apply obind_some in E. destruct E as [y [E2 E]]. inversion E. subst.
      apply andb_prop in C. destruct C as [C1 C2]. split; [|reflexivity]. cbn [evalZ].
      now rewrite (proj1 (IHe1 C1 _ E1)), (proj1 (IHe2 C2 _ E2)).
    - cbn [tr_expr] in E. apply obind_some in E. destruct E as [x [E1 E]]. apply obind_some in E. destruct E as [y [E2 E]]. inversion E. subst.
      apply andb_prop in C. destruct C as [C1 C2]. split; [reflexivity|]. cbn [evalB].
      now rewrite (proj1 (IHe1 C1 _ E1)), (proj1 (IHe2 C2 _ E2)).
    - cbn [tr_expr] in E. apply option_map_some in E. destruct E as [rs [E1 E2]]. subst. apply tr_go_f2 in E1.
      pose proof (f2_sim s s' _ _ H C E1) as F. split; [reflexivity|]. cbn [evalB]. clear - F.
      induction F as [|c r cs rs [_ Hc] _ IH]; [reflexivity|]. cbn [fold_right]. now rewrite Hc, IH.
    - cbn [tr_expr] in E. apply option_map_some in E. destruct E as [rs [E1 E2]]. subst. apply tr_go_f2 in E1.
      pose proof (f2_sim s s' _ _ H C E1) as F. split; [reflexivity|]. cbn [evalB]. clear - F.
      induction F as [|c r cs rs [_ Hc] _ IH]; [reflexivity|]. cbn [fold_right]. now rewrite Hc, IH.
    - cbn [tr_expr] in E. apply option_map_some in E. destruct E as [x [E1 E2]]. subst. split; [reflexivity|]. cbn [evalB].
      now rewrite (proj2 (IHe C _ E1)).
    - (* call / array read *)
      cbn [tr_expr] in E. destruct (T f args) as [|idx'|] eqn:ET; [| |discriminate].
      + (* kept *)
        apply option_map_some in E. destruct E as [rs [E1 E2]]. subst. apply tr_go_f2 in E1.
        assert (C' : forallb flat_subs args = true).
        { destruct (is_intrinsic_name f); [exact C|].
          apply forallb_forall. intros x Hx. apply no_calls_flat_subs. rewrite forallb_forall in C. now apply C. }
        pose proof (f2_sim s s' _ _ H C' E1) as F. split; [|reflexivity]. rewrite !evalZ_call.
        assert (G : omap_list (evalZ (env_st s')) rs = omap_list (evalZ (env_st s)) args).
        { clear -F. induction F as [|c r cs rs [Hc _] _ IH]; [reflexivity|]. cbn [omap_list]. now rewrite Hc, IH. }
        rewrite G. destruct (omap_list (evalZ (env_st s)) args) as [vs|] eqn:Ev; cbn [obind]; [|reflexivity].
        destruct (intrinsic f vs); [reflexivity|]. cbn. f_equal.
        rewrite <- (T_keep f args (env_st s) vs ET Ev) at 1. apply HR.
      + (* rewritten array reference *)
        inversion E. subst e'.
        pose proof (T_name f args idx' ET) as EI. rewrite EI in C.
        destruct (T_new f args idx' (env_st s') ET C) as [NC' EQ].
        split; [|reflexivity]. rewrite !evalZ_call. rewrite EQ.
        rewrite (no_calls_omap (env_st s') (env_st s) HV args C).
        destruct (omap_list (evalZ (env_st s)) args) as [vs|]; cbn [option_map obind]; [|reflexivity].
        rewrite !intrinsic_none by exact EI. cbn. f_equal. apply HR.
  Qed.

  Lemma tr_list_f2 : forall idx i', tr_list T idx = Some i' -> Forall2 (fun c r => tr_expr T c = Some r) idx i'.
  Proof.
    induction idx as [|c cs IH]; intros rs E.
    - inversion E. constructor.
    - cbn [tr_list] in E. apply obind_some in E. destruct E as [y [E1 E]]. apply obind_some in E. destruct E as [ys [E2 E]].
      inversion E. subst. constructor; [exact E1|now apply IH].
  Qed.

  Lemma tr_list_sim s s' : R s s' -> forall idx i', forallb no_calls idx = true -> tr_list T idx = Some i' ->
    eval_idx s' i' = eval_idx s idx.
  Proof.
    intros HR idx i' C E. apply tr_list_f2 in E. unfold eval_idx.
    induction E as [|c r cs rs Hc _ IH]; [reflexivity|].
    cbn [forallb] in C. apply andb_prop in C. destruct C as [C1 C2]. cbn [omap_list].
    rewrite (proj1 (tr_expr_sim s s' HR c (no_calls_flat_subs c C1) r Hc)), (IH C2). reflexivity.
  Qed.

  Lemma store_idx_sim s s' a idx i' : R s s' -> forallb no_calls idx = true ->
    (match T a idx with TNew i => Some i | TErr => None | TKeep => tr_list T idx end) = Some i' ->
    eval_idx s' i' = option_map (phi a) (eval_idx s idx).
  Proof.
    intros HR C E. destruct (T a idx) as [|i|] eqn:ET; [| |discriminate].
    - rewrite (tr_list_sim s s' HR idx i' C E). unfold eval_idx.
      destruct (omap_list (evalZ (env_st s)) idx) as [vs|] eqn:Ev; [|reflexivity].
      cbn. now rewrite (T_keep a idx (env_st s) vs ET Ev).
    - inversion E. subst i'. unfold eval_idx.
      destruct (T_new a idx i (env_st s') ET C) as [_ EQ]. rewrite EQ.
      now rewrite (no_calls_omap (env_st s') (env_st s) (R_env_var s s' HR) idx C).
  Qed.

  Lemma rel_opt_bind o o' (k k' : store -> option store) :
    rel_opt R o o' -> (forall t t', R t t' -> rel_opt R (k t) (k' t')) -> rel_opt R (obind o k) (obind o' k').
  Proof. destruct o, o'; cbn; intros H K; try contradiction; auto. Qed.

  Lemma do_loop_sim (run run' : store -> option store) v d :
    (forall t t', R t t' -> rel_opt R (run t) (run' t')) ->
    forall n i t t', R t t' -> rel_opt R (do_loop run v d n i t) (do_loop run' v d n i t').
  Proof.
    intros H. induction n as [|n IH]; intros i t t' HR; cbn [do_loop].
    - cbn. now apply R_set_sv.
    - apply rel_opt_bind; [apply H; now apply R_set_sv|]. intros u u' Hu. now apply IH.
  Qed.

  Lemma tr_stmt_unfold s :
    tr_stmt T s =
    match s with
    | SAssign x e => option_map (SAssign x) (tr_expr T e)
    | SStore a idx e =>
        obind (match T a idx with TNew i => Some i | TErr => None | TKeep => tr_list T idx end) (fun i =>
        obind (tr_expr T e) (fun v => Some (SStore a i v)))
    | SDo v lo hi st b =>
        obind (tr_expr T lo) (fun l => obind (tr_expr T hi) (fun h =>
        obind (match st with None => Some None | Some e => option_map Some (tr_expr T e) end) (fun st' =>
        obind (tr_stmts T b) (fun b' => Some (SDo v l h st' b')))))
    | SWhile c b => obind (tr_expr T c) (fun c' => obind (tr_stmts T b) (fun b' => Some (SWhile c' b')))
    | SIf c t e => obind (tr_expr T c) (fun c' => obind (tr_stmts T t) (fun t' => obind (tr_stmts T e) (fun e' => Some (SIf c' t' e'))))
    | SCall f args => option_map (SCall f) (tr_list T args)
    | SSkip l => Some (SSkip l)
    end.
  Proof. destruct s; reflexivity. Qed.

  Lemma exec_sim : forall f p p' s s', R s s' -> forallb flat_subs_stmt p = true -> tr_stmts T p = Some p' ->
    rel_opt R (exec [] f p s) (exec [] f p' s').
  Proof.
    induction f as [|f IH]; intros p p' s s' HR C E; [exact I|].
    destruct p as [|st rest].
    - inversion E. subst. cbn. exact HR.
    - cbn [tr_stmts] in E. apply obind_some in E. destruct E as [st' [Est E]]. apply obind_some in E. destruct E as [rest' [Erest E]].
      inversion E. subst p'. cbn [forallb] in C. apply andb_prop in C. destruct C as [Cst Crest].
      rewrite !exec_unfold. apply rel_opt_bind; [|intros t t' Ht; now apply IH].
      rewrite tr_stmt_unfold in Est.
      destruct st as [x e|a idx e|v lo hi stp b|c b|c tb eb|g args|l]; cbn [flat_subs_stmt] in Cst.
      + apply option_map_some in Est. destruct Est as [e' [E1 E2]]. subst st'. cbn [exec1].
        rewrite (proj1 (tr_expr_sim s s' HR e Cst e' E1)).
        destruct (evalZ (env_st s) e); cbn; [now apply R_set_sv|exact I].
      + apply obind_some in Est. destruct Est as [i' [E1 Est]]. apply obind_some in Est. destruct Est as [e' [E2 Est]].
        inversion Est. subst st'. apply andb_prop in Cst. destruct Cst as [Cst C3]. apply andb_prop in Cst. destruct Cst as [C1 C2].
        cbn [exec1]. rewrite (store_idx_sim s s' a idx i' HR C2 E1), (proj1 (tr_expr_sim s s' HR e C3 e' E2)).
        destruct (eval_idx s idx) as [i|]; cbn [option_map obind]; [|exact I].
        destruct (evalZ (env_st s) e); cbn; [now apply R_set_av|exact I].
      + apply obind_some in Est. destruct Est as [lo' [E1 Est]]. apply obind_some in Est. destruct Est as [hi' [E2 Est]].
        apply obind_some in Est. destruct Est as [stp' [E3 Est]]. apply obind_some in Est. destruct Est as [b' [E4 Est]].
        inversion Est. subst st'.
        apply andb_prop in Cst. destruct Cst as [Cst C4]. apply andb_prop in Cst. destruct Cst as [Cst C3].
        apply andb_prop in Cst. destruct Cst as [C1 C2].
        cbn [exec1]. rewrite (proj1 (tr_expr_sim s s' HR lo C1 lo' E1)), (proj1 (tr_expr_sim s s' HR hi C2 hi' E2)).
        assert (S3 : match stp' with None => Some 1 | Some e => evalZ (env_st s') e end =
                     match stp with None => Some 1 | Some e => evalZ (env_st s) e end).
        { destruct stp as [e|]; [|inversion E3; reflexivity].
          apply option_map_some in E3. destruct E3 as [e' [E3 E3']]. subst. apply (proj1 (tr_expr_sim s s' HR e C3 e' E3)). }
        rewrite S3.
        destruct (evalZ (env_st s) lo); cbn [obind]; [|exact I].
        destruct (evalZ (env_st s) hi); cbn [obind]; [|exact I].
        destruct (match stp with None => Some 1 | Some e => evalZ (env_st s) e end); cbn [obind]; [|exact I].
        destruct (z1 =? 0); [exact I|]. apply do_loop_sim; [|exact HR]. intros t t' Ht. now apply IH.
      + apply obind_some in Est. destruct Est as [c' [E1 Est]]. apply obind_some in Est. destruct Est as [b' [E2 Est]].
        inversion Est. subst st'. apply andb_prop in Cst. destruct Cst as [C1 C2].
        cbn [exec1]. rewrite (proj2 (tr_expr_sim s s' HR c C1 c' E1)).
        destruct (evalB (env_st s) c) as [[|]|]; cbn [obind]; [|exact HR|exact I].
        apply rel_opt_bind; [now apply IH|]. intros t t' Ht. apply IH; [exact Ht| |].
        * cbn [forallb flat_subs_stmt]. now rewrite C1, C2.
        * cbn [tr_stmts]. rewrite tr_stmt_unfold, E1, E2. reflexivity.
      + apply obind_some in Est. destruct Est as [c' [E1 Est]]. apply obind_some in Est. destruct Est as [tb' [E2 Est]].
        apply obind_some in Est. destruct Est as [eb' [E3 Est]]. inversion Est. subst st'.
        apply andb_prop in Cst. destruct Cst as [Cst C3]. apply andb_prop in Cst. destruct Cst as [C1 C2].
        cbn [exec1]. rewrite (proj2 (tr_expr_sim s s' HR c C1 c' E1)).
        destruct (evalB (env_st s) c) as [[|]|]; cbn [obind]; [now apply IH|now apply IH|exact I].
      + discriminate.
      + inversion Est. subst. cbn. exact HR.
  Qed.

  (** the transformed program on the re-indexed store runs exactly like the original, and ends in the
      re-indexed final store *)
  Theorem reindex_preserves p p' s s' :
    R s s' -> forallb flat_subs_stmt p = true -> tr_stmts T p = Some p' ->
    (forall t, runs [] p s t -> exists t', runs [] p' s' t' /\ R t t') /\
    (forall t', runs [] p' s' t' -> exists t, runs [] p s t /\ R t t').
  Proof.
    intros HR C E. split.
    - intros t [f Hf]. pose proof (exec_sim f p p' s s' HR C E) as S. rewrite Hf in S.
      destruct (exec [] f p' s') as [t'|] eqn:E'; [|contradiction]. exists t'. split; [now exists f|exact S].
    - intros t' [f Hf]. pose proof (exec_sim f p p' s s' HR C E) as S. rewrite Hf in S.
      destruct (exec [] f p s) as [t|] eqn:E'; [|contradiction]. exists t. split; [now exists f|exact S].
  Qed.
End sim.

(* ------------------------------------------------------------------------------------------ *)
(** * instances: shift_to_zero_indexing and invert_array_indices *)

Definition phi_shift (ds : decls) (a : string) (i : list Z) : list Z :=
  if is_array ds a then map (fun x => x - 1) i else i.
Definition phi_unshift (ds : decls) (a : string) (i : list Z) : list Z :=
  if is_array ds a then map (fun x => x + 1) i else i.
Definition phi_invert (ds : decls) (a : string) (i : list Z) : list Z :=
  if is_array ds a then rev i else i.

Definition arrays_not_intrinsic (ds : decls) : Prop := forall a, is_array ds a = true -> is_intrinsic_name a = false.

Lemma map_pred_inj : forall i j : list Z, map (fun x => x - 1) i = map (fun x => x - 1) j -> i = j.
Proof.
  induction i as [|x i IH]; intros [|y j] E; cbn in E; try discriminate; [reflexivity|].
  inversion E. f_equal; [lia|now apply IH].
Qed.

Lemma no_calls_sub_lit1 d : no_calls d = true -> no_calls (sub_lit1 d) = true.
Proof.
  intros C. unfold sub_lit1.
  assert (G : no_calls (if is_falsy d then m1 else ESum false [d; m1]) = true).
  { destruct (is_falsy d); [reflexivity|]. cbn [no_calls forallb]. now rewrite C. }
  destruct d; try exact G.
  cbn [no_calls] in *. rewrite forallb_app, C. reflexivity.
Qed.

Lemma omap_sub_lit1 rho : forall idx,
  omap_list (evalZ rho) (map sub_lit1 idx) = option_map (map (fun x => x - 1)) (omap_list (evalZ rho) idx).
Proof.
  induction idx as [|d idx IH]; [reflexivity|]. cbn [map omap_list]. rewrite sub_lit1_eval, IH.
  destruct (evalZ rho d); cbn; [|reflexivity]. destruct (omap_list (evalZ rho) idx); reflexivity.
Qed.

Lemma omap_app {A B} (f : A -> option B) l1 l2 :
  omap_list f (l1 ++ l2) = obind (omap_list f l1) (fun a => obind (omap_list f l2) (fun b => Some (a ++ b))).
Proof.
  induction l1 as [|x l1 IH]; cbn [app omap_list obind].
  - destruct (omap_list f l2); reflexivity.
  - rewrite IH. destruct (f x); cbn [obind]; [|reflexivity].
    destruct (omap_list f l1); cbn [obind]; [|reflexivity]. destruct (omap_list f l2); reflexivity.
Qed.

Lemma omap_rev {A B} (f : A -> option B) l : omap_list f (rev l) = option_map (@rev B) (omap_list f l).
Proof.
  induction l as [|x l IH]; [reflexivity|]. cbn [rev]. rewrite omap_app, IH. cbn [omap_list].
  destruct (f x); destruct (omap_list f l); reflexivity.
Qed.

Theorem shift_to_zero_preserves ds p p' s s' :
  arrays_not_intrinsic ds -> reidx_rel (phi_shift ds) s s' ->
  forallb flat_subs_stmt p = true -> tr_stmts (T_shift ds) p = Some p' ->
  (forall t, runs [] p s t -> exists t', runs [] p' s' t' /\ reidx_rel (phi_shift ds) t t') /\
  (forall t', runs [] p' s' t' -> exists t, runs [] p s t /\ reidx_rel (phi_shift ds) t t').
Proof.
  intros HA. apply reindex_preserves.
  - intros a i j. unfold phi_shift. destruct (is_array ds a); [apply map_pred_inj|auto].
  - intros a idx idx'. unfold T_shift. destruct (is_array ds a) eqn:E; [|discriminate]. intros _. now apply HA.
  - intros a idx idx' rho. unfold T_shift, phi_shift. destruct (is_array ds a); [|discriminate].
    intros E C. inversion E. subst. split; [|apply omap_sub_lit1].
    apply forallb_forall. intros x Hx. apply in_map_iff in Hx. destruct Hx as [d [Hd Hin]]. subst.
    apply no_calls_sub_lit1. rewrite forallb_forall in C. now apply C.
  - intros a idx rho vs. unfold T_shift, phi_shift. destruct (is_array ds a); [discriminate|reflexivity].
Qed.

Theorem invert_indices_preserves ds p p' s s' :
  arrays_not_intrinsic ds -> reidx_rel (phi_invert ds) s s' ->
  forallb flat_subs_stmt p = true -> tr_stmts (T_invert ds) p = Some p' ->
  (forall t, runs [] p s t -> exists t', runs [] p' s' t' /\ reidx_rel (phi_invert ds) t t') /\
  (forall t', runs [] p' s' t' -> exists t, runs [] p s t /\ reidx_rel (phi_invert ds) t t').
Proof.
  intros HA. apply reindex_preserves.
  - intros a i j. unfold phi_invert. destruct (is_array ds a); [|auto].
    intros E. rewrite <- (rev_involutive i), <- (rev_involutive j). now rewrite E.
  - intros a idx idx'. unfold T_invert. destruct (is_array ds a) eqn:E; [|discriminate]. intros _. now apply HA.
  - intros a idx idx' rho. unfold T_invert, phi_invert. destruct (is_array ds a); [|discriminate].
    intros E C. inversion E. subst. split; [|apply omap_rev].
    apply forallb_forall. intros x Hx. apply in_rev in Hx. rewrite forallb_forall in C. now apply C.
  - intros a idx rho vs. unfold T_invert, phi_invert. destruct (is_array ds a); [discriminate|reflexivity].
Qed.

(** shift_to_zero_indexing followed by invert_array_indices (the C-backend pipeline): the composed re-indexing
    i |-> rev (i - 1) relates initial and final stores of original and doubly transformed program *)
Definition phi_zero_inv (ds : decls) (a : string) (i : list Z) : list Z := phi_invert ds a (phi_shift ds a i).

Theorem zero_shift_invert_preserves ds p p1 p2 s s2 :
  arrays_not_intrinsic ds -> reidx_rel (phi_zero_inv ds) s s2 ->
  forallb flat_subs_stmt p = true -> tr_stmts (T_shift ds) p = Some p1 ->
  forallb flat_subs_stmt p1 = true -> tr_stmts (T_invert ds) p1 = Some p2 ->
  (forall t, runs [] p s t -> exists t2, runs [] p2 s2 t2 /\ reidx_rel (phi_zero_inv ds) t t2) /\
  (forall t2, runs [] p2 s2 t2 -> exists t, runs [] p s t /\ reidx_rel (phi_zero_inv ds) t t2).
Proof.
  intros HA [R1 R2] C E1 C1 E2.
  set (mid := fun u : store => {| sv := sv u; av := fun a j => av u a (phi_unshift ds a j) |}).
  assert (UN : forall a i, phi_unshift ds a (phi_shift ds a i) = i).
  { intros a i. unfold phi_unshift, phi_shift. destruct (is_array ds a); [|reflexivity].
    rewrite map_map. rewrite <- (map_id i) at 2. apply map_ext. intros; lia. }
  assert (SH : forall a j, phi_shift ds a (phi_unshift ds a j) = j).
  { intros a j. unfold phi_unshift, phi_shift. destruct (is_array ds a); [|reflexivity].
    rewrite map_map. rewrite <- (map_id j) at 2. apply map_ext. intros; lia. }
  assert (M1 : forall u, reidx_rel (phi_shift ds) u (mid u)).
  { intros u. split; [reflexivity|]. intros a i. cbn. now rewrite UN. }
  assert (M2 : forall u u2, reidx_rel (phi_zero_inv ds) u u2 -> reidx_rel (phi_invert ds) (mid u) u2).
  { intros u u2 [A1 A2]. split; [intros x; cbn; apply A1|]. intros a j. cbn.
    rewrite <- (A2 a (phi_unshift ds a j)). unfold phi_zero_inv. now rewrite SH. }
  assert (M3 : forall u u1 u2, reidx_rel (phi_shift ds) u u1 -> reidx_rel (phi_invert ds) u1 u2 -> reidx_rel (phi_zero_inv ds) u u2).
  { intros u u1 u2 [A1 A2] [B1 B2]. split; [intros x; now rewrite B1, A1|]. intros a i. unfold phi_zero_inv. now rewrite B2, A2. }
  pose proof (shift_to_zero_preserves ds p p1 s (mid s) HA (M1 s) C E1) as [F1 G1].
  pose proof (invert_indices_preserves ds p1 p2 (mid s) s2 HA (M2 s s2 (conj R1 R2)) C1 E2) as [F2 G2].
  split.
  - intros t Ht. destruct (F1 t Ht) as [t1 [Ht1 Q1]]. destruct (F2 t1 Ht1) as [t2 [Ht2 Q2]].
    exists t2. split; [exact Ht2|]. now apply (M3 t t1 t2).
  - intros t2 Ht2. destruct (G2 t2 Ht2) as [t1 [Ht1 Q2]]. destruct (G1 t1 Ht1) as [t [Ht Q1]].
    exists t. split; [exact Ht|]. now apply (M3 t t1 t2).
Qed.

(** consistency with the declarations: an element is inside the declared box iff its image is inside the
    zero-based, reversed box (what the C backend declares after invert_array_indices) *)
Definition in_bounds (box : list (Z * Z)) (i : list Z) : Prop := Forall2 (fun x b => fst b <= x <= snd b) i box.

Lemma forall2_rev {A B} (P : A -> B -> Prop) l1 l2 : Forall2 P l1 l2 -> Forall2 P (rev l1) (rev l2).
Proof.
  induction 1 as [|x y l1 l2 H _ IH]; [constructor|]. cbn [rev]. apply Forall2_app; [exact IH|]. now constructor.
Qed.

Theorem zero_shift_invert_bounds box i :
  in_bounds box i <-> in_bounds (rev (map (fun b => (fst b - 1, snd b - 1)) box)) (rev (map (fun x => x - 1) i)).
Proof.
  unfold in_bounds. split.
  - intros H. apply forall2_rev. induction H as [|x b i box Hx _ IH]; [constructor|].
    cbn [map]. constructor; [cbn; lia|exact IH].
  - intros H. apply forall2_rev in H. rewrite !rev_involutive in H.
    revert box H. induction i as [|x i IH]; intros [|b box] H; cbn [map] in H; inversion H; subst; constructor.
    + cbn in *. lia.
    + now apply IH.
Qed.

(* ------------------------------------------------------------------------------------------ *)
(** * add/remove_explicit_array_dimensions *)

Section vstmt_ind'.
  Variable P : vstmt -> Prop.
  Hypothesis HP : forall s, P (VPlain s).
  Hypothesis HA : forall a i r, P (VAssign a i r).
  Hypothesis HD : forall v lo hi st b, Forall P b -> P (VDo v lo hi st b).
  Hypothesis HI : forall c t e, Forall P t -> Forall P e -> P (VIf c t e).
  Hypothesis HW : forall c b e, Forall P b -> Forall P e -> P (VWhere c b e).
  Fixpoint vstmt_ind' (s : vstmt) : P s :=
    let fix go (l : list vstmt) : Forall P l :=
      match l with [] => Forall_nil P | x :: r => Forall_cons x (vstmt_ind' x) (go r) end in
    match s with
    | VPlain s => HP s
    | VAssign a i r => HA a i r
    | VDo v lo hi st b => HD v lo hi st b (go b)
    | VIf c t e => HI c t e (go t) (go e)
    | VWhere c b e => HW c b e (go b) (go e)
    end.
End vstmt_ind'.

Lemma forallb_colon_map (sh : list dshape) : forallb is_colon (map (fun _ => IRange None None None) sh) = true.
Proof. induction sh; cbn; auto. Qed.

Lemma remove_add_idx ds a idx : idx_not_full_colon idx = true -> remove_idx (add_idx ds a idx) = idx.
Proof.
  intros H. unfold add_idx, remove_idx. destruct idx as [|d idx].
  - destruct (lookup_decl ds a) as [sh|]; [|reflexivity]. now rewrite forallb_colon_map.
  - cbn [idx_not_full_colon] in H. apply negb_true_iff in H. now rewrite H.
Qed.

Lemma map_ext_Forall {A} (f : A -> A) l : Forall (fun x => f x = x) l -> map f l = l.
Proof. induction 1 as [|x l H _ IH]; cbn; [reflexivity|]. now rewrite H, IH. Qed.

Lemma roundtrip_vexpr ds e : all_refs_vexpr (fun _ => idx_not_full_colon) e = true ->
  map_refs_vexpr (fun _ => remove_idx) (map_refs_vexpr (add_idx ds) e) = e.
Proof.
  induction e as [e0|b bidx|p cs IH|p cs IH|p n d IHn IHd|f cs IH] using vexpr_ind'; intros C; cbn [all_refs_vexpr] in C; cbn [map_refs_vexpr].
  - reflexivity.
  - now rewrite remove_add_idx.
  - f_equal. rewrite map_map. apply map_ext_Forall. apply forallb_Forall in C. rewrite Forall_forall in *. intros x Hx. apply IH; auto.
  - f_equal. rewrite map_map. apply map_ext_Forall. apply forallb_Forall in C. rewrite Forall_forall in *. intros x Hx. apply IH; auto.
  - apply andb_prop in C. destruct C. now rewrite IHn, IHd.
  - f_equal. rewrite map_map. apply map_ext_Forall. apply forallb_Forall in C. rewrite Forall_forall in *. intros x Hx. apply IH; auto.
Qed.

Lemma roundtrip_stmt ds s : all_refs_stmt (fun _ => idx_not_full_colon) s = true ->
  map_refs_stmt (fun _ => remove_idx) (map_refs_stmt (add_idx ds) s) = s.
Proof.
  induction s as [s0|a i r|v lo hi st b IH|c t e IHt IHe|c b e IHb IHe] using vstmt_ind'; intros C; cbn [all_refs_stmt] in C; cbn [map_refs_stmt].
  - reflexivity.
  - apply andb_prop in C. destruct C as [C1 C2]. now rewrite remove_add_idx, roundtrip_vexpr.
  - f_equal. rewrite map_map. apply map_ext_Forall. apply forallb_Forall in C. rewrite Forall_forall in *. intros x Hx. apply IH; auto.
  - apply andb_prop in C. destruct C as [C1 C2]. apply forallb_Forall in C1. apply forallb_Forall in C2.
    f_equal; rewrite map_map; apply map_ext_Forall; rewrite Forall_forall in *; intros x Hx; [apply IHt|apply IHe]; auto.
  - apply andb_prop in C. destruct C as [C C4]. apply andb_prop in C. destruct C as [C C3]. apply andb_prop in C. destruct C as [C1 C2].
    apply forallb_Forall in C3. apply forallb_Forall in C4. destruct c as [op l r]. cbn [vc_op vc_l vc_r] in *.
    rewrite !roundtrip_vexpr by assumption.
    f_equal; rewrite map_map; apply map_ext_Forall; rewrite Forall_forall in *; intros x Hx; [apply IHb|apply IHe]; auto.
Qed.

(** remove_explicit_array_dimensions undoes add_explicit_array_dimensions on bodies that do not already
    contain a reference written with ":" in every position *)
Theorem explicit_dims_roundtrip ds b : no_full_colon b = true -> remove_explicit (add_explicit ds b) = b.
Proof.
  unfold no_full_colon, remove_explicit, add_explicit. intros C. rewrite map_map. apply map_ext_Forall.
  apply forallb_Forall in C. rewrite Forall_forall in *. intros x Hx. apply roundtrip_stmt. now apply C.
Qed.

(** adding explicit dimensions does not change the meaning of a reference: ":" in every position and the
    bare name are qualified to the same declared ranges *)
Lemma qualify_add_idx ds a idx : qualify_idx ds a (add_idx ds a idx) = qualify_idx ds a idx.
Proof.
  unfold add_idx, qualify_idx. destruct idx as [|d idx]; [|reflexivity].
  destruct (lookup_decl ds a) as [[|s sh]|]; reflexivity.
Qed.

Lemma qualify_add_vexpr ds e : qualify_vexpr ds (map_refs_vexpr (add_idx ds) e) = qualify_vexpr ds e.
Proof.
  induction e as [e0|b bidx|p cs IH|p cs IH|p n d IHn IHd|f cs IH] using vexpr_ind'; cbn [map_refs_vexpr qualify_vexpr].
  - reflexivity.
  - now rewrite qualify_add_idx.
  - f_equal. rewrite map_map. apply map_ext_in. rewrite Forall_forall in IH. auto.
  - f_equal. rewrite map_map. apply map_ext_in. rewrite Forall_forall in IH. auto.
  - now rewrite IHn, IHd.
  - f_equal. rewrite map_map. apply map_ext_in. rewrite Forall_forall in IH. auto.
Qed.

Theorem add_explicit_preserves ds a idx rhs s :
  vexec ds a (add_idx ds a idx) (map_refs_vexpr (add_idx ds) rhs) s = vexec ds a idx rhs s.
Proof. unfold vexec. now rewrite qualify_add_idx, qualify_add_vexpr. Qed.

(* ------------------------------------------------------------------------------------------ *)
(** * the model of flatten_arrays computes the offset formula *)

Lemma omap_map_DSize rho (es : list expr) :
  omap_list (fun s => match s with DSize n => evalZ rho n | DRange _ _ => None end) (map DSize es) = omap_list (evalZ rho) es.
Proof. induction es as [|e es IH]; [reflexivity|]. cbn [map omap_list]. now rewrite IH. Qed.

(** subscripts init ++ [last] of an array with extents sizes ++ [_]: the expression produced by [flat_go]
    (what T_flatten puts into the rewritten reference) evaluates to [flat_offset] of the subscript values *)
Theorem flatten_model_offset rho c init last sizes e ivs lv nvs nlast :
  flat_go c last (rev init) (rev (map DSize sizes)) = Some e ->
  List.length init = List.length sizes ->
  omap_list (evalZ rho) init = Some ivs -> evalZ rho last = Some lv -> omap_list (evalZ rho) sizes = Some nvs ->
  evalZ rho e = Some (flat_offset c (nvs ++ [nlast]) (ivs ++ [lv])).
Proof.
  intros G L Ei El En.
  assert (Li : List.length ivs = List.length init).
  { clear -Ei. revert ivs Ei. induction init as [|x l IH]; intros ivs E; cbn in E; [inversion E; reflexivity|].
    apply obind_some in E. destruct E as [v [_ E]]. apply obind_some in E. destruct E as [vs [E1 E]]. inversion E. cbn. now rewrite (IH _ E1). }
  assert (Ln : List.length nvs = List.length sizes).
  { clear -En. revert nvs En. induction sizes as [|x l IH]; intros nvs E; cbn in E; [inversion E; reflexivity|].
    apply obind_some in E. destruct E as [v [_ E]]. apply obind_some in E. destruct E as [vs [E1 E]]. inversion E. cbn. now rewrite (IH _ E1). }
  rewrite <- (flat_rev_offset c ivs nvs lv nlast) by lia.
  apply (flat_go_eval rho c (rev init) (rev (map DSize sizes)) last lv (rev ivs) (rev nvs) e G El).
  - now rewrite omap_rev, Ei.
  - rewrite firstn_all2 by (rewrite !rev_length, map_length; lia).
    now rewrite omap_rev, omap_map_DSize, En.
Qed.
