(** C07 — proofs, part 1: the parser model builds, on the yield of every derivation of the arithmetic
    levels (and of every logical derivation without [.not.] on a comparison), a tree that is described
    by the functions [tr_*] below.  No class hypothesis is needed for the arithmetic levels: [tr_*]
    describes what Loki builds, including the re-association after [*] and the binding of a leading
    minus to the first primary. *)
From Coq Require Import ZArith List Bool String Ascii Lia Arith.
From LV Require Import Base.Expr models.M_C07.
Import ListNotations.
Open Scope Z_scope.

Notation len := (@List.length token).

(** * The trees Loki builds *)
Definition negp (x : pexp) : pexp := PProd false PM1 x.
Definition idp (x : pexp) : pexp := x.
Definition wrap_of (s : option sign) : pexp -> pexp :=
  match s with Some SMinus => negp | _ => idp end.

Fixpoint tr_prim (p : prim) : pexp :=
  match p with
  | PrInt n => PNum n
  | PrVar x => PVar x
  | PrParen e => parenthesise (tr_l2 e)
  | PrCall f a => PCall (PVar f) (tr_args a)
  end
with tr_mulw (w : pexp -> pexp) (m : mulopd) {struct m} : pexp :=
  match m with
  | MBase p => w (tr_prim p)
  | MPow p m' => PPow false (w (tr_prim p)) (tr_mulw idp m')
  end
with tr_mtail (l : pexp) (t : mtail) {struct t} : pexp :=
  match t with
  | MNil => l
  | MDiv m r => tr_mtail (PQuot false l (tr_mulw idp m)) r
  | MMul m r => mul_reassoc l (tr_mtail (tr_mulw idp m) r)
  end
with tr_add (a : addopd) : pexp :=
  match a with AO m t => tr_mtail (tr_mulw idp m) t end
with tr_atail (l : pexp) (t : atail) {struct t} : pexp :=
  match t with
  | ANil => l
  | AAdd a r => tr_atail (PSum false l (tr_add a)) r
  | ASub a r => tr_atail (PSum false l (negp (tr_add a))) r
  end
with tr_l2 (e : lvl2) : pexp :=
  match e with
  | L2 s (AO m mt) t => tr_atail (tr_mtail (tr_mulw (wrap_of s) m) mt) t
  end
with tr_args (a : args) : list pexp :=
  match a with
  | AOne e => [tr_l2 e]
  | ACons e r => tr_l2 e :: tr_args r
  end.

Notation tr_mul := (tr_mulw idp).

Fixpoint tr_lprim (p : lprim) : pexp :=
  match p with
  | LTrue => PLog true
  | LFalse => PLog false
  | LVar x => PVar x
  | LParen e => parenthesise (tr_lexpr e)
  end
with tr_l4 (x : l4) : pexp :=
  match x with
  | L4Prim p => tr_lprim p
  | L4Cmp a op b => PCmp op (tr_l2 a) (tr_l2 b)
  end
with tr_and (x : andopd) : pexp :=
  match x with
  | AndBase y => tr_l4 y
  | AndNot y => PNot (tr_l4 y)
  end
with tr_andtail (l : pexp) (t : andtail) {struct t} : pexp :=
  match t with
  | DNil => l
  | DAnd x r => tr_andtail (PAnd l (tr_and x)) r
  end
with tr_or (x : oropd) : pexp :=
  match x with OrO y t => tr_andtail (tr_and y) t end
with tr_ortail (l : pexp) (t : ortail) {struct t} : pexp :=
  match t with
  | ONil => l
  | OOr x r => tr_ortail (POr l (tr_or x)) r
  end
with tr_lexpr (e : lexpr) : pexp :=
  match e with LE x t => tr_ortail (tr_or x) t end.

(** * Stop condition of the postfix loop *)
Definition tprec (t : token) : nat :=
  match t with
  | TPct | TLp => P_CALL
  | TPow => P_POWER
  | TStar | TSlash => P_TIMES
  | TPlus | TMinus => P_PLUS
  | TCmp _ => P_CMP
  | TAnd => P_AND
  | TOr => P_OR
  | TComma => P_COMMA
  | _ => 0%nat
  end.

Definition stops (k : nat) (ts : list token) : Prop :=
  match ts with [] => True | t :: _ => (tprec t <= k)%nat end.

Lemma stops_mono k k' ts : (k <= k')%nat -> stops k ts -> stops k' ts.
Proof. destruct ts; simpl; auto; lia. Qed.

Ltac ltb_false :=
  match goal with
  | |- context [(?a <? ?b)%nat] =>
      let H := fresh in assert (H : (a <? b)%nat = false) by (apply Nat.ltb_ge; cbv in *; lia); rewrite H; clear H
  end.
Ltac ltb_true :=
  match goal with
  | |- context [(?a <? ?b)%nat] =>
      let H := fresh in assert (H : (a <? b)%nat = true) by (apply Nat.ltb_lt; cbv in *; lia); rewrite H; clear H
  end.

Lemma ploop_stop rec minp l ts f :
  stops minp ts -> (1 <= f)%nat -> ploop rec f minp l ts = Ok (l, ts).
Proof.
  intros Hs Hf. destruct f as [|f]; [lia|].
  destruct ts as [|t r]; [reflexivity|].
  destruct t; simpl in Hs; cbn [ploop]; try reflexivity; ltb_false; reflexivity.
Qed.

Definition LoopOk (rec : parser) (f0 : nat) (minp : prec) (l : pexp) (ts : list token) (res : pexp * list token) : Prop :=
  forall f, (f0 <= f)%nat -> ploop rec f minp l ts = Ok res.
Definition ContOk (rec : parser) (f0 : nat) (minp : prec) (ts : list token) (res : pexp * list token) : Prop :=
  forall f, (f0 <= f)%nat -> pcont rec f minp ts = Ok res.

Lemma LoopOk_weaken rec f0 f1 minp l ts res :
  (f0 <= f1)%nat -> LoopOk rec f0 minp l ts res -> LoopOk rec f1 minp l ts res.
Proof. intros H1 H f Hf. apply H. lia. Qed.

Lemma LoopOk_stop rec minp l ts : stops minp ts -> LoopOk rec 1 minp l ts (l, ts).
Proof. intros H f Hf. now apply ploop_stop. Qed.

(** one iteration of the loop, per operator *)
Section steps.
  Variable rec : parser.
  Variables (f0 : nat) (minp : prec) (l e : pexp) (r r' : list token) (res : pexp * list token).

  Lemma step_plus : (minp < P_PLUS)%nat -> rec P_PLUS r = Ok (e, r') ->
    LoopOk rec f0 minp (PSum false l e) r' res -> LoopOk rec (S f0) minp l (TPlus :: r) res.
  Proof. intros Hm Hr H f Hf. destruct f; [lia|]. cbn [ploop]. ltb_true. rewrite Hr. cbn [bind fst snd]. apply H. lia. Qed.

  Lemma step_minus : (minp < P_PLUS)%nat -> rec P_PLUS r = Ok (e, r') ->
    LoopOk rec f0 minp (PSum false l (negp e)) r' res -> LoopOk rec (S f0) minp l (TMinus :: r) res.
  Proof. intros Hm Hr H f Hf. destruct f; [lia|]. cbn [ploop]. ltb_true. rewrite Hr. cbn [bind fst snd]. apply H. lia. Qed.

  Lemma step_star : (minp < P_TIMES)%nat -> rec P_PLUS r = Ok (e, r') ->
    LoopOk rec f0 minp (mul_reassoc l e) r' res -> LoopOk rec (S f0) minp l (TStar :: r) res.
  Proof. intros Hm Hr H f Hf. destruct f; [lia|]. cbn [ploop]. ltb_true. rewrite Hr. cbn [bind fst snd]. apply H. lia. Qed.

  Lemma step_slash : (minp < P_TIMES)%nat -> rec P_TIMES r = Ok (e, r') ->
    LoopOk rec f0 minp (PQuot false l e) r' res -> LoopOk rec (S f0) minp l (TSlash :: r) res.
  Proof. intros Hm Hr H f Hf. destruct f; [lia|]. cbn [ploop]. ltb_true. rewrite Hr. cbn [bind fst snd]. apply H. lia. Qed.

  Lemma step_pow : (minp < P_POWER)%nat -> rec P_TIMES r = Ok (e, r') ->
    LoopOk rec f0 minp (PPow false l e) r' res -> LoopOk rec (S f0) minp l (TPow :: r) res.
  Proof. intros Hm Hr H f Hf. destruct f; [lia|]. cbn [ploop]. ltb_true. rewrite Hr. cbn [bind fst snd]. apply H. lia. Qed.

  Lemma step_cmp op : (minp < P_CMP)%nat -> rec P_CMP r = Ok (e, r') ->
    LoopOk rec f0 minp (PCmp op l e) r' res -> LoopOk rec (S f0) minp l (TCmp op :: r) res.
  Proof. intros Hm Hr H f Hf. destruct f; [lia|]. cbn [ploop]. ltb_true. rewrite Hr. cbn [bind fst snd]. apply H. lia. Qed.

  Lemma step_and : (minp < P_AND)%nat -> rec P_AND r = Ok (e, r') ->
    LoopOk rec f0 minp (PAnd l e) r' res -> LoopOk rec (S f0) minp l (TAnd :: r) res.
  Proof. intros Hm Hr H f Hf. destruct f; [lia|]. cbn [ploop]. ltb_true. rewrite Hr. cbn [bind fst snd]. apply H. lia. Qed.

  Lemma step_or : (minp < P_OR)%nat -> rec P_OR r = Ok (e, r') ->
    LoopOk rec f0 minp (POr l e) r' res -> LoopOk rec (S f0) minp l (TOr :: r) res.
  Proof. intros Hm Hr H f Hf. destruct f; [lia|]. cbn [ploop]. ltb_true. rewrite Hr. cbn [bind fst snd]. apply H. lia. Qed.
End steps.

(** * First tokens of yields *)
Definition starts_operand (ts : list token) : Prop :=
  match ts with
  | TInt _ :: _ | TId _ :: _ | TLp :: _ | TPlus :: _ | TMinus :: _ | TTrue :: _ | TFalse :: _ | TNot :: _ => True
  | _ => False
  end.

Lemma y_prim_starts p rest : starts_operand (y_prim p ++ rest).
Proof. destruct p; simpl; exact I. Qed.
Lemma y_mul_starts m rest : starts_operand (y_mul m ++ rest).
Proof. destruct m; simpl; [apply y_prim_starts|rewrite <- app_assoc; apply y_prim_starts]. Qed.
Lemma y_add_starts a rest : starts_operand (y_add a ++ rest).
Proof. destruct a; simpl. rewrite <- app_assoc. apply y_mul_starts. Qed.
Lemma y_l2_starts e rest : starts_operand (y_l2 e ++ rest).
Proof. destruct e as [[[]|] a t]; simpl; try exact I. rewrite <- app_assoc. apply y_add_starts. Qed.

(** * Arithmetic levels *)
Definition base_of (m : mulopd) : prim := match m with MBase p => p | MPow p _ => p end.
Definition ptail_y (m : mulopd) : list token := match m with MBase _ => [] | MPow _ m' => TPow :: y_mul m' end.
Definition ptail_tr (l : pexp) (m : mulopd) : pexp := match m with MBase _ => l | MPow _ m' => PPow false l (tr_mul m') end.

Lemma y_mul_split m : y_mul m = y_prim (base_of m) ++ ptail_y m.
Proof. destruct m; simpl; [now rewrite app_nil_r|reflexivity]. Qed.
Lemma tr_mulw_split w m : tr_mulw w m = ptail_tr (w (tr_prim (base_of m))) m.
Proof. destruct m; reflexivity. Qed.

Definition GoodA (rec : parser) (N : nat) : Prop :=
  (forall p minp rest, (len (y_prim p) < N)%nat -> (minp < P_CALL)%nat -> stops minp rest ->
      rec minp (y_prim p ++ rest) = Ok (tr_prim p, rest)) /\
  (forall m minp rest, (len (y_mul m) < N)%nat -> (minp < P_POWER)%nat -> stops minp rest ->
      rec minp (y_mul m ++ rest) = Ok (tr_mul m, rest)) /\
  (forall a minp rest, (len (y_add a) < N)%nat -> (minp < P_TIMES)%nat -> stops minp rest ->
      rec minp (y_add a ++ rest) = Ok (tr_add a, rest)) /\
  (forall e minp rest, (len (y_l2 e) < N)%nat -> (minp < P_PLUS)%nat -> stops minp rest ->
      rec minp (y_l2 e ++ rest) = Ok (tr_l2 e, rest)).

Section arith.
  Variable rec : parser.
  Variable N : nat.
  Hypothesis Hrec : GoodA rec N.

  Let Hrec_prim := proj1 Hrec.
  Let Hrec_mul := proj1 (proj2 Hrec).
  Let Hrec_add := proj1 (proj2 (proj2 Hrec)).
  Let Hrec_l2 := proj2 (proj2 (proj2 Hrec)).

  (** argument lists *)
  Lemma arglist_ok a : forall fuel later, (len (y_args a) < N)%nat -> (len (y_args a) < fuel)%nat ->
    parglist rec fuel false (y_args a ++ TRp :: later) = Ok (tr_args a, later) /\
    parglist rec fuel true (TComma :: y_args a ++ TRp :: later) = Ok (tr_args a, later).
  Proof.
    induction a as [e|e r IH]; intros fuel later HN Hf.
    - cbn [y_args tr_args] in *.
      assert (Hr : rec P_COMMA (y_l2 e ++ TRp :: later) = Ok (tr_l2 e, TRp :: later)).
      { apply Hrec_l2; [lia|cbv; lia|simpl; cbv; lia]. }
      destruct fuel as [|fuel]; [lia|].
      assert (Hf1 : (1 <= fuel)%nat).
      { pose proof (y_l2_starts e []) as S0. rewrite app_nil_r in S0. destruct (y_l2 e); [destruct S0|simpl in Hf; lia]. }
      assert (Harg : bind (rec P_COMMA (y_l2 e ++ TRp :: later))
                 (fun p => bind (parglist rec fuel true (snd p)) (fun q => Ok (fst p :: fst q, snd q)))
               = Ok ([tr_l2 e], later)).
      { rewrite Hr. cbn [bind fst snd]. destruct fuel; [lia|]. reflexivity. }
      split.
      + pose proof (y_l2_starts e (TRp :: later)) as S1.
        cbn [parglist]. destruct (y_l2 e ++ TRp :: later) as [|t q] eqn:E; [destruct S1|].
        destruct t; try destruct S1; exact Harg.
      + pose proof (y_l2_starts e (TRp :: later)) as S1.
        cbn [parglist]. destruct (y_l2 e ++ TRp :: later) as [|t q] eqn:E; [destruct S1|].
        destruct t; try destruct S1; exact Harg.
    - cbn [y_args tr_args] in *. rewrite app_length in HN, Hf. cbn [List.length] in HN, Hf.
      assert (Hr : rec P_COMMA (y_l2 e ++ TComma :: y_args r ++ TRp :: later) = Ok (tr_l2 e, TComma :: y_args r ++ TRp :: later)).
      { apply Hrec_l2; [lia|cbv; lia|simpl; cbv; lia]. }
      destruct fuel as [|fuel]; [lia|].
      destruct (IH fuel later) as [_ IH2]; [lia|lia|].
      assert (Harg : bind (rec P_COMMA (y_l2 e ++ TComma :: y_args r ++ TRp :: later))
                 (fun p => bind (parglist rec fuel true (snd p)) (fun q => Ok (fst p :: fst q, snd q)))
               = Ok (tr_l2 e :: tr_args r, later)).
      { rewrite Hr. cbn [bind fst snd]. rewrite IH2. reflexivity. }
      rewrite <- app_assoc. cbn [app].
      split.
      + pose proof (y_l2_starts e (TComma :: y_args r ++ TRp :: later)) as S1.
        cbn [parglist]. destruct (y_l2 e ++ TComma :: y_args r ++ TRp :: later) as [|t q] eqn:E; [destruct S1|].
        destruct t; try destruct S1; exact Harg.
      + pose proof (y_l2_starts e (TComma :: y_args r ++ TRp :: later)) as S1.
        cbn [parglist]. destruct (y_l2 e ++ TComma :: y_args r ++ TRp :: later) as [|t q] eqn:E; [destruct S1|].
        destruct t; try destruct S1; exact Harg.
  Qed.

  (** a primary, then whatever the loop does next *)
  Lemma K_prim p minp f0 later res :
    (len (y_prim p) <= N)%nat -> (minp < P_CALL)%nat ->
    LoopOk rec f0 minp (tr_prim p) later res ->
    ContOk rec (f0 + len (y_prim p)) minp (y_prim p ++ later) res.
  Proof.
    intros HN Hm HL f Hf. unfold pcont.
    destruct p as [n|x|e|g a]; cbn [y_prim tr_prim] in *.
    - cbn [app pprefix bind fst snd]. apply HL. simpl in Hf. lia.
    - cbn [app pprefix bind fst snd]. apply HL. simpl in Hf. lia.
    - cbn [app List.length] in *. rewrite app_length in HN, Hf. cbn [List.length] in HN, Hf.
      rewrite <- app_assoc. cbn [app].
      assert (Hr : rec 0%nat (y_l2 e ++ TRp :: later) = Ok (tr_l2 e, TRp :: later)).
      { apply Hrec_l2; [lia|cbv; lia|simpl; cbv; lia]. }
      pose proof (y_l2_starts e (TRp :: later)) as S1.
      cbn [pprefix].
      destruct (y_l2 e ++ TRp :: later) as [|t q] eqn:E; [destruct S1|].
      destruct t; try destruct S1; rewrite Hr; cbn [bind fst snd]; apply HL; lia.
    - cbn [app List.length] in *. rewrite app_length in HN, Hf. cbn [List.length] in HN, Hf.
      cbn [pprefix bind fst snd].
      destruct f as [|f]; [lia|]. cbn [ploop]. ltb_true.
      rewrite <- app_assoc. cbn [app].
      destruct (arglist_ok a f later) as [H1 _]; [lia|lia|].
      rewrite H1. cbn [bind fst snd]. apply HL. lia.
  Qed.

  Lemma stops_ptail m later : stops P_TIMES later -> stops P_UNARY (ptail_y m ++ later).
  Proof. destruct m; simpl; [apply stops_mono; cbv; lia|cbv; lia]. Qed.

  (** the [**] tail of a mult-operand *)
  Lemma T_pow w m minp f0 later res :
    (len (y_mul m) <= N)%nat -> (minp < P_POWER)%nat -> stops P_TIMES later ->
    LoopOk rec f0 minp (tr_mulw w m) later res ->
    LoopOk rec (f0 + len (ptail_y m)) minp (w (tr_prim (base_of m))) (ptail_y m ++ later) res.
  Proof.
    intros HN Hm Hs HL. destruct m as [p|p m']; cbn [ptail_y base_of tr_mulw app] in *.
    - simpl. rewrite Nat.add_0_r. exact HL.
    - cbn [y_mul] in HN. rewrite app_length in HN. cbn [List.length] in *.
      replace (f0 + S (len (y_mul m')))%nat with (S (f0 + len (y_mul m')))%nat by lia.
      eapply step_pow; [exact Hm| |].
      + apply Hrec_mul; [|cbv; lia|exact Hs].
        pose proof (y_prim_starts p []) as S0. rewrite app_nil_r in S0.
        destruct (y_prim p); [destruct S0|]. simpl in HN. lia.
      + eapply LoopOk_weaken; [|exact HL]. lia.
  Qed.

  Lemma stops_mtail r later : stops P_PLUS later -> stops P_TIMES (y_mtail r ++ later).
  Proof. destruct r; simpl; [apply stops_mono; cbv; lia|cbv; lia|cbv; lia]. Qed.

  (** the [*] [/] tail of an add-operand *)
  Lemma T_mtail mt : forall l minp f0 later res,
    (len (y_mtail mt) <= N)%nat -> (minp < P_TIMES)%nat -> stops P_PLUS later ->
    LoopOk rec f0 minp (tr_mtail l mt) later res ->
    LoopOk rec (f0 + len (y_mtail mt)) minp l (y_mtail mt ++ later) res.
  Proof.
    induction mt as [|m r IH|m r IH]; intros l minp f0 later res HN Hm Hs HL.
    - simpl. rewrite Nat.add_0_r. exact HL.
    - cbn [y_mtail tr_mtail List.length app] in *. rewrite app_length in HN.
      replace (f0 + S (len (y_mul m ++ y_mtail r)))%nat with (S (f0 + len (y_mul m ++ y_mtail r)))%nat by lia.
      eapply step_star; [exact Hm| |].
      + rewrite <- app_assoc.
        change (y_mul m ++ y_mtail r ++ later) with (y_mul m ++ (y_mtail r ++ later)).
        rewrite app_assoc. change (y_mul m ++ y_mtail r) with (y_add (AO m r)).
        apply (Hrec_add (AO m r)); [cbn [y_add]; rewrite app_length; lia|cbv; lia|exact Hs].
      + eapply LoopOk_weaken; [|exact HL]. lia.
    - cbn [y_mtail tr_mtail List.length app] in *. rewrite app_length in *.
      replace (f0 + S (len (y_mul m) + len (y_mtail r)))%nat with (S ((f0 + len (y_mtail r)) + len (y_mul m)))%nat by lia.
      eapply step_slash; [exact Hm| |].
      + rewrite <- app_assoc. apply Hrec_mul; [lia|cbv; lia|]. now apply stops_mtail.
      + eapply LoopOk_weaken; [|apply IH; [lia|exact Hm|exact Hs|exact HL]]. lia.
  Qed.

  Lemma stops_atail r later : stops P_PLUS later -> stops P_PLUS (y_atail r ++ later).
  Proof. destruct r; simpl; auto; cbv; lia. Qed.

  (** the [+] [-] tail of a level-2 expression *)
  Lemma T_atail t : forall l minp f0 later res,
    (len (y_atail t) <= N)%nat -> (minp < P_PLUS)%nat -> stops P_PLUS later ->
    LoopOk rec f0 minp (tr_atail l t) later res ->
    LoopOk rec (f0 + len (y_atail t)) minp l (y_atail t ++ later) res.
  Proof.
    induction t as [|a r IH|a r IH]; intros l minp f0 later res HN Hm Hs HL.
    - simpl. rewrite Nat.add_0_r. exact HL.
    - cbn [y_atail tr_atail List.length app] in *. rewrite app_length in *.
      replace (f0 + S (len (y_add a) + len (y_atail r)))%nat with (S ((f0 + len (y_atail r)) + len (y_add a)))%nat by lia.
      eapply step_plus; [exact Hm| |].
      + rewrite <- app_assoc. apply Hrec_add; [lia|cbv; lia|]. now apply stops_atail.
      + eapply LoopOk_weaken; [|apply IH; [lia|exact Hm|exact Hs|exact HL]]. lia.
    - cbn [y_atail tr_atail List.length app] in *. rewrite app_length in *.
      replace (f0 + S (len (y_add a) + len (y_atail r)))%nat with (S ((f0 + len (y_atail r)) + len (y_add a)))%nat by lia.
      eapply step_minus; [exact Hm| |].
      + rewrite <- app_assoc. apply Hrec_add; [lia|cbv; lia|]. now apply stops_atail.
      + eapply LoopOk_weaken; [|apply IH; [lia|exact Hm|exact Hs|exact HL]]. lia.
  Qed.

  (** mult-operand, add-operand in continuation form *)
  Lemma K_mul m minp f0 later res :
    (len (y_mul m) <= N)%nat -> (minp < P_POWER)%nat -> stops P_TIMES later ->
    LoopOk rec f0 minp (tr_mul m) later res ->
    ContOk rec (f0 + len (y_mul m)) minp (y_mul m ++ later) res.
  Proof.
    intros HN Hm Hs HL. rewrite y_mul_split in *. rewrite app_length in *. rewrite <- app_assoc.
    replace (f0 + (len (y_prim (base_of m)) + len (ptail_y m)))%nat
      with ((f0 + len (ptail_y m)) + len (y_prim (base_of m)))%nat by lia.
    apply K_prim; [lia|cbv in *; lia|].
    apply (T_pow idp m); [rewrite y_mul_split, app_length; lia|exact Hm|exact Hs|exact HL].
  Qed.

  Lemma K_add a minp f0 later res :
    (len (y_add a) <= N)%nat -> (minp < P_TIMES)%nat -> stops P_PLUS later ->
    LoopOk rec f0 minp (tr_add a) later res ->
    ContOk rec (f0 + len (y_add a)) minp (y_add a ++ later) res.
  Proof.
    intros HN Hm Hs HL. destruct a as [m mt]. cbn [y_add tr_add] in *. rewrite app_length in *. rewrite <- app_assoc.
    replace (f0 + (len (y_mul m) + len (y_mtail mt)))%nat with ((f0 + len (y_mtail mt)) + len (y_mul m))%nat by lia.
    apply K_mul; [lia|cbv in *; lia|now apply stops_mtail|].
    apply T_mtail; [lia|exact Hm|exact Hs|exact HL].
  Qed.

  (** after the prefix of a level-2 expression (optional sign and first primary) *)
  Lemma after_first w m mt t minp f0 later res :
    (len (y_mul m ++ y_mtail mt ++ y_atail t) <= N)%nat -> (minp < P_PLUS)%nat -> stops P_PLUS later ->
    LoopOk rec f0 minp (tr_atail (tr_mtail (tr_mulw w m) mt) t) later res ->
    LoopOk rec (f0 + len (ptail_y m ++ y_mtail mt ++ y_atail t)) minp (w (tr_prim (base_of m)))
      (ptail_y m ++ y_mtail mt ++ y_atail t ++ later) res.
  Proof.
    intros HN Hm Hs HL. rewrite y_mul_split in HN. rewrite !app_length in *.
    replace (f0 + (len (ptail_y m) + (len (y_mtail mt) + len (y_atail t))))%nat
      with (((f0 + len (y_atail t)) + len (y_mtail mt)) + len (ptail_y m))%nat by lia.
    apply T_pow; [rewrite y_mul_split, app_length; lia|cbv in *; lia| |].
    { apply stops_mtail. now apply stops_atail. }
    apply T_mtail; [lia|cbv in *; lia|now apply stops_atail|].
    apply T_atail; [lia|exact Hm|exact Hs|exact HL].
  Qed.

  Lemma stops_after_prim m mt t later : stops P_PLUS later -> stops P_UNARY (ptail_y m ++ y_mtail mt ++ y_atail t ++ later).
  Proof.
    intros Hs. apply stops_ptail. apply stops_mtail. now apply stops_atail.
  Qed.

  Lemma K_l2 e minp f0 later res :
    (len (y_l2 e) <= N)%nat -> (minp < P_PLUS)%nat -> stops P_PLUS later ->
    LoopOk rec f0 minp (tr_l2 e) later res ->
    ContOk rec (f0 + len (y_l2 e)) minp (y_l2 e ++ later) res.
  Proof.
    intros HN Hm Hs HL. destruct e as [s [m mt] t]. cbn [tr_l2] in HL.
    assert (Hy : forall pre, pre ++ y_add (AO m mt) ++ y_atail t
                  = pre ++ y_prim (base_of m) ++ ptail_y m ++ y_mtail mt ++ y_atail t).
    { intros pre. cbn [y_add]. rewrite y_mul_split. now rewrite <- !app_assoc. }
    destruct s as [[|]|].
    - (* leading plus *)
      cbn [y_l2] in *. pose proof (Hy []) as Hy0. cbn [app] in Hy0. rewrite Hy0 in *. clear Hy Hy0.
      cbn [List.length app] in *. rewrite !app_length in *.
      intros f Hf. unfold pcont. cbn [pprefix].
      rewrite <- !app_assoc.
      rewrite (Hrec_prim (base_of m) P_UNARY); [|lia|cbv; lia|now apply stops_after_prim].
      cbn [bind fst snd].
      apply (after_first idp m mt t minp f0 later res); [rewrite y_mul_split, !app_length; lia|exact Hm|exact Hs|exact HL|].
      rewrite !app_length. lia.
    - (* leading minus *)
      cbn [y_l2] in *. pose proof (Hy []) as Hy0. cbn [app] in Hy0. rewrite Hy0 in *. clear Hy Hy0.
      cbn [List.length app] in *. rewrite !app_length in *.
      intros f Hf. unfold pcont. cbn [pprefix].
      rewrite <- !app_assoc.
      rewrite (Hrec_prim (base_of m) P_UNARY); [|lia|cbv; lia|now apply stops_after_prim].
      cbn [bind fst snd].
      apply (after_first negp m mt t minp f0 later res); [rewrite y_mul_split, !app_length; lia|exact Hm|exact Hs|exact HL|].
      rewrite !app_length. lia.
    - cbn [y_l2] in *. pose proof (Hy []) as Hy0. cbn [app] in Hy0. rewrite Hy0 in *. clear Hy Hy0.
      rewrite !app_length in *. rewrite <- !app_assoc.
      replace (f0 + (len (y_prim (base_of m)) + (len (ptail_y m) + (len (y_mtail mt) + len (y_atail t)))))%nat
        with ((f0 + len (ptail_y m ++ y_mtail mt ++ y_atail t)) + len (y_prim (base_of m)))%nat
        by (rewrite !app_length; lia).
      apply K_prim; [lia|cbv in *; lia|].
      apply (after_first idp m mt t minp f0 later res); [rewrite y_mul_split, !app_length; lia|exact Hm|exact Hs|exact HL].
  Qed.
End arith.

(** closing the induction on the fuel for the arithmetic levels *)
Lemma pexpr_goodA : forall F, GoodA (pexpr F) (F - 1).
Proof.
  induction F as [|F IH].
  - repeat split; intros; simpl in *; lia.
  - replace (S F - 1)%nat with F by lia.
    repeat split.
    + intros p minp rest Hl Hm Hs. change (pexpr (S F) minp (y_prim p ++ rest)) with (pcont (pexpr F) F minp (y_prim p ++ rest)).
      apply (K_prim (pexpr F) (F - 1) IH p minp 1 rest (tr_prim p, rest)); [lia|exact Hm|now apply LoopOk_stop|lia].
    + intros m minp rest Hl Hm Hs. change (pexpr (S F) minp (y_mul m ++ rest)) with (pcont (pexpr F) F minp (y_mul m ++ rest)).
      apply (K_mul (pexpr F) (F - 1) IH m minp 1 rest (tr_mul m, rest)); [lia|exact Hm| |now apply LoopOk_stop|lia].
      eapply stops_mono; [|exact Hs]. cbv in *; lia.
    + intros a minp rest Hl Hm Hs. change (pexpr (S F) minp (y_add a ++ rest)) with (pcont (pexpr F) F minp (y_add a ++ rest)).
      apply (K_add (pexpr F) (F - 1) IH a minp 1 rest (tr_add a, rest)); [lia|exact Hm| |now apply LoopOk_stop|lia].
      eapply stops_mono; [|exact Hs]. cbv in *; lia.
    + intros e minp rest Hl Hm Hs. change (pexpr (S F) minp (y_l2 e ++ rest)) with (pcont (pexpr F) F minp (y_l2 e ++ rest)).
      apply (K_l2 (pexpr F) (F - 1) IH e minp 1 rest (tr_l2 e, rest)); [lia|exact Hm| |now apply LoopOk_stop|lia].
      eapply stops_mono; [|exact Hs]. cbv in *; lia.
Qed.

(** * Logical levels (for derivations in the class: [.not.] is not applied to a comparison) *)
Lemma y_lprim_starts p rest : starts_operand (y_lprim p ++ rest).
Proof. destruct p; simpl; exact I. Qed.
Lemma y_l4_starts x rest : starts_operand (y_l4 x ++ rest).
Proof. destruct x; simpl; [apply y_lprim_starts|rewrite <- app_assoc; apply y_l2_starts]. Qed.
Lemma y_and_starts x rest : starts_operand (y_and x ++ rest).
Proof. destruct x; simpl; [apply y_l4_starts|exact I]. Qed.
Lemma y_or_starts x rest : starts_operand (y_or x ++ rest).
Proof. destruct x; simpl. rewrite <- app_assoc. apply y_and_starts. Qed.
Lemma y_lexpr_starts e rest : starts_operand (y_lexpr e ++ rest).
Proof. destruct e; simpl. rewrite <- app_assoc. apply y_or_starts. Qed.

Definition GoodL (rec : parser) (N : nat) : Prop :=
  (forall p minp rest, std_lprim p = true -> (len (y_lprim p) < N)%nat -> (minp < P_CALL)%nat -> stops minp rest ->
      rec minp (y_lprim p ++ rest) = Ok (tr_lprim p, rest)) /\
  (forall x minp rest, std_l4 x = true -> (len (y_l4 x) < N)%nat -> (minp < P_CMP)%nat -> stops minp rest ->
      rec minp (y_l4 x ++ rest) = Ok (tr_l4 x, rest)) /\
  (forall x minp rest, std_and x = true -> (len (y_and x) < N)%nat -> (minp < P_CMP)%nat -> stops minp rest ->
      rec minp (y_and x ++ rest) = Ok (tr_and x, rest)) /\
  (forall x minp rest, std_or x = true -> (len (y_or x) < N)%nat -> (minp < P_AND)%nat -> stops minp rest ->
      rec minp (y_or x ++ rest) = Ok (tr_or x, rest)) /\
  (forall e minp rest, std_lexpr e = true -> (len (y_lexpr e) < N)%nat -> (minp < P_OR)%nat -> stops minp rest ->
      rec minp (y_lexpr e ++ rest) = Ok (tr_lexpr e, rest)).

Section logic.
  Variable rec : parser.
  Variable N : nat.
  Hypothesis HA : GoodA rec N.
  Hypothesis HL : GoodL rec N.

  Let HA_l2 := proj2 (proj2 (proj2 HA)).
  Let HL_lprim := proj1 HL.
  Let HL_l4 := proj1 (proj2 HL).
  Let HL_and := proj1 (proj2 (proj2 HL)).
  Let HL_or := proj1 (proj2 (proj2 (proj2 HL))).
  Let HL_lexpr := proj2 (proj2 (proj2 (proj2 HL))).

  Lemma K_lprim p minp f0 later res :
    std_lprim p = true -> (len (y_lprim p) <= N)%nat -> (minp < P_CALL)%nat ->
    LoopOk rec f0 minp (tr_lprim p) later res ->
    ContOk rec (f0 + len (y_lprim p)) minp (y_lprim p ++ later) res.
  Proof.
    intros Hstd HN Hm HK f Hf. unfold pcont.
    destruct p as [| |x|e]; cbn [y_lprim tr_lprim std_lprim] in *.
    - cbn [app pprefix bind fst snd]. apply HK. simpl in Hf. lia.
    - cbn [app pprefix bind fst snd]. apply HK. simpl in Hf. lia.
    - cbn [app pprefix bind fst snd]. apply HK. simpl in Hf. lia.
    - cbn [app List.length] in *. rewrite app_length in HN, Hf. cbn [List.length] in HN, Hf.
      rewrite <- app_assoc. cbn [app].
      assert (Hr : rec 0%nat (y_lexpr e ++ TRp :: later) = Ok (tr_lexpr e, TRp :: later)).
      { apply HL_lexpr; [exact Hstd|lia|cbv; lia|simpl; cbv; lia]. }
      pose proof (y_lexpr_starts e (TRp :: later)) as S1.
      cbn [pprefix].
      destruct (y_lexpr e ++ TRp :: later) as [|t q] eqn:E; [destruct S1|].
      destruct t; try destruct S1; rewrite Hr; cbn [bind fst snd]; apply HK; lia.
  Qed.

  Lemma K_l4 x minp f0 later res :
    std_l4 x = true -> (len (y_l4 x) <= N)%nat -> (minp < P_CMP)%nat -> stops P_CMP later ->
    LoopOk rec f0 minp (tr_l4 x) later res ->
    ContOk rec (f0 + len (y_l4 x)) minp (y_l4 x ++ later) res.
  Proof.
    intros Hstd HN Hm Hs HK. destruct x as [p|a op b]; cbn [y_l4 tr_l4 std_l4] in *.
    - apply K_lprim; [exact Hstd|exact HN|cbv in *; lia|exact HK].
    - rewrite app_length in *. cbn [List.length] in *. rewrite <- app_assoc. cbn [app].
      replace (f0 + (len (y_l2 a) + S (len (y_l2 b))))%nat with (S (f0 + len (y_l2 b)) + len (y_l2 a))%nat by lia.
      apply (K_l2 rec N HA); [lia|cbv in *; lia|simpl; cbv; lia|].
      eapply step_cmp; [exact Hm| |].
      + apply HA_l2; [lia|cbv; lia|exact Hs].
      + eapply LoopOk_weaken; [|exact HK]. lia.
  Qed.

  Lemma K_and x minp f0 later res :
    std_and x = true -> (len (y_and x) <= N)%nat -> (minp < P_CMP)%nat -> stops P_CMP later ->
    LoopOk rec f0 minp (tr_and x) later res ->
    ContOk rec (f0 + len (y_and x)) minp (y_and x ++ later) res.
  Proof.
    intros Hstd HN Hm Hs HK. destruct x as [y|y]; cbn [y_and tr_and std_and] in *.
    - now apply K_l4.
    - destruct y as [p|a op b]; [|discriminate]. cbn [y_l4 tr_l4] in *.
      cbn [List.length app] in *.
      intros f Hf. unfold pcont. cbn [pprefix].
      rewrite (HL_lprim p P_UNARY later); [|exact Hstd|lia|cbv; lia|].
      + cbn [bind fst snd]. apply HK. lia.
      + eapply stops_mono; [|exact Hs]. cbv; lia.
  Qed.

  Lemma stops_andtail r later : stops P_AND later -> stops P_AND (y_andtail r ++ later).
  Proof. destruct r; simpl; auto; cbv; lia. Qed.

  Lemma T_andtail t : forall l minp f0 later res,
    std_andtail t = true -> (len (y_andtail t) <= N)%nat -> (minp < P_AND)%nat -> stops P_AND later ->
    LoopOk rec f0 minp (tr_andtail l t) later res ->
    LoopOk rec (f0 + len (y_andtail t)) minp l (y_andtail t ++ later) res.
  Proof.
    induction t as [|x r IH]; intros l minp f0 later res Hstd HN Hm Hs HK.
    - simpl. rewrite Nat.add_0_r. exact HK.
    - cbn [y_andtail tr_andtail std_andtail List.length app] in *. rewrite app_length in *.
      apply andb_true_iff in Hstd. destruct Hstd as [Hx Hr].
      replace (f0 + S (len (y_and x) + len (y_andtail r)))%nat with (S ((f0 + len (y_andtail r)) + len (y_and x)))%nat by lia.
      eapply step_and; [exact Hm| |].
      + rewrite <- app_assoc. apply HL_and; [exact Hx|lia|cbv; lia|]. now apply stops_andtail.
      + eapply LoopOk_weaken; [|apply IH; [exact Hr|lia|exact Hm|exact Hs|exact HK]]. lia.
  Qed.

  Lemma K_or x minp f0 later res :
    std_or x = true -> (len (y_or x) <= N)%nat -> (minp < P_AND)%nat -> stops P_AND later ->
    LoopOk rec f0 minp (tr_or x) later res ->
    ContOk rec (f0 + len (y_or x)) minp (y_or x ++ later) res.
  Proof.
    intros Hstd HN Hm Hs HK. destruct x as [y t]. cbn [y_or tr_or std_or] in *. rewrite app_length in *. rewrite <- app_assoc.
    apply andb_true_iff in Hstd. destruct Hstd as [Hy Ht].
    replace (f0 + (len (y_and y) + len (y_andtail t)))%nat with ((f0 + len (y_andtail t)) + len (y_and y))%nat by lia.
    apply K_and; [exact Hy|lia|cbv in *; lia| |].
    - eapply stops_mono; [|apply stops_andtail; exact Hs]. cbv; lia.
    - apply T_andtail; [exact Ht|lia|exact Hm|exact Hs|exact HK].
  Qed.

  Lemma stops_ortail r later : stops P_OR later -> stops P_OR (y_ortail r ++ later).
  Proof. destruct r; simpl; auto; cbv; lia. Qed.

  Lemma T_ortail t : forall l minp f0 later res,
    std_ortail t = true -> (len (y_ortail t) <= N)%nat -> (minp < P_OR)%nat -> stops P_OR later ->
    LoopOk rec f0 minp (tr_ortail l t) later res ->
    LoopOk rec (f0 + len (y_ortail t)) minp l (y_ortail t ++ later) res.
  Proof.
    induction t as [|x r IH]; intros l minp f0 later res Hstd HN Hm Hs HK.
    - simpl. rewrite Nat.add_0_r. exact HK.
    - cbn [y_ortail tr_ortail std_ortail List.length app] in *. rewrite app_length in *.
      apply andb_true_iff in Hstd. destruct Hstd as [Hx Hr].
      replace (f0 + S (len (y_or x) + len (y_ortail r)))%nat with (S ((f0 + len (y_ortail r)) + len (y_or x)))%nat by lia.
      eapply step_or; [exact Hm| |].
      + rewrite <- app_assoc. apply HL_or; [exact Hx|lia|cbv; lia|]. now apply stops_ortail.
      + eapply LoopOk_weaken; [|apply IH; [exact Hr|lia|exact Hm|exact Hs|exact HK]]. lia.
  Qed.

  Lemma K_lexpr e minp f0 later res :
    std_lexpr e = true -> (len (y_lexpr e) <= N)%nat -> (minp < P_OR)%nat -> stops P_OR later ->
    LoopOk rec f0 minp (tr_lexpr e) later res ->
    ContOk rec (f0 + len (y_lexpr e)) minp (y_lexpr e ++ later) res.
  Proof.
    intros Hstd HN Hm Hs HK. destruct e as [x t]. cbn [y_lexpr tr_lexpr std_lexpr] in *. rewrite app_length in *. rewrite <- app_assoc.
    apply andb_true_iff in Hstd. destruct Hstd as [Hx Ht].
    replace (f0 + (len (y_or x) + len (y_ortail t)))%nat with ((f0 + len (y_ortail t)) + len (y_or x))%nat by lia.
    apply K_or; [exact Hx|lia|cbv in *; lia| |].
    - eapply stops_mono; [|apply stops_ortail; exact Hs]. cbv; lia.
    - apply T_ortail; [exact Ht|lia|exact Hm|exact Hs|exact HK].
  Qed.
End logic.

Lemma GoodA_mono rec N N' : (N' <= N)%nat -> GoodA rec N -> GoodA rec N'.
Proof.
  intros H (H1 & H2 & H3 & H4). repeat split; intros; [apply H1|apply H2|apply H3|apply H4]; auto; lia.
Qed.

Lemma pexpr_goodL : forall F, GoodL (pexpr F) (F - 1).
Proof.
  induction F as [|F IH].
  - repeat split; intros; simpl in *; lia.
  - replace (S F - 1)%nat with F by lia.
    pose proof (pexpr_goodA F) as IA.
    repeat split.
    + intros p minp rest Hstd Hl Hm Hs. change (pexpr (S F) minp (y_lprim p ++ rest)) with (pcont (pexpr F) F minp (y_lprim p ++ rest)).
      apply (K_lprim (pexpr F) (F - 1) IH p minp 1 rest (tr_lprim p, rest)); [exact Hstd|lia|exact Hm|now apply LoopOk_stop|lia].
    + intros x minp rest Hstd Hl Hm Hs. change (pexpr (S F) minp (y_l4 x ++ rest)) with (pcont (pexpr F) F minp (y_l4 x ++ rest)).
      apply (K_l4 (pexpr F) (F - 1) IA IH x minp 1 rest (tr_l4 x, rest)); [exact Hstd|lia|exact Hm| |now apply LoopOk_stop|lia].
      eapply stops_mono; [|exact Hs]. cbv in *; lia.
    + intros x minp rest Hstd Hl Hm Hs. change (pexpr (S F) minp (y_and x ++ rest)) with (pcont (pexpr F) F minp (y_and x ++ rest)).
      apply (K_and (pexpr F) (F - 1) IA IH x minp 1 rest (tr_and x, rest)); [exact Hstd|lia|exact Hm| |now apply LoopOk_stop|lia].
      eapply stops_mono; [|exact Hs]. cbv in *; lia.
    + intros x minp rest Hstd Hl Hm Hs. change (pexpr (S F) minp (y_or x ++ rest)) with (pcont (pexpr F) F minp (y_or x ++ rest)).
      apply (K_or (pexpr F) (F - 1) IA IH x minp 1 rest (tr_or x, rest)); [exact Hstd|lia|exact Hm| |now apply LoopOk_stop|lia].
      eapply stops_mono; [|exact Hs]. cbv in *; lia.
    + intros e minp rest Hstd Hl Hm Hs. change (pexpr (S F) minp (y_lexpr e ++ rest)) with (pcont (pexpr F) F minp (y_lexpr e ++ rest)).
      apply (K_lexpr (pexpr F) (F - 1) IA IH e minp 1 rest (tr_lexpr e, rest)); [exact Hstd|lia|exact Hm| |now apply LoopOk_stop|lia].
      eapply stops_mono; [|exact Hs]. cbv in *; lia.
Qed.

(** * The pymbolic-level result of the entry point *)
Theorem parse_p_l2 e : parse_p (y_l2 e) = Ok (tr_l2 e).
Proof.
  unfold parse_p, parse_fuel.
  destruct (pexpr_goodA (S (S (len (y_l2 e))))) as (_ & _ & _ & H).
  specialize (H e 0%nat [] ltac:(simpl; lia) ltac:(cbv; lia) I).
  rewrite app_nil_r in H. rewrite H. reflexivity.
Qed.

Theorem parse_p_lexpr e : std_lexpr e = true -> parse_p (y_lexpr e) = Ok (tr_lexpr e).
Proof.
  intros Hstd. unfold parse_p, parse_fuel.
  destruct (pexpr_goodL (S (S (len (y_lexpr e))))) as (_ & _ & _ & _ & H).
  specialize (H e 0%nat [] Hstd ltac:(simpl; lia) ltac:(cbv; lia) I).
  rewrite app_nil_r in H. rewrite H. reflexivity.
Qed.
