(** C16 — lemmas (work in progress) *)
From Coq Require Import ZArith List Bool String Ascii Arith Lia.
From LV Require Import Base.Strings models.M_C16.
Import ListNotations.
Lemma up_attr_idem a : up_attr (up_attr a) = up_attr a.
Proof. destruct a; reflexivity. Qed.
