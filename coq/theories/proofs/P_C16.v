(** C16 — lemmas: induction principle for the rose tree, and the PragmaAttacher / PragmaDetacher part. *)
From Coq Require Import ZArith List Bool String Ascii Arith Lia.
From LV Require Import Base.Strings models.M_C16.
Import ListNotations.
Open Scope list_scope.

(** * Induction principle for trees with nested lists *)
Section TreeInd.
  Variable P : tree -> Prop.
  Hypothesis HP : forall p, P (TP p).
  Hypothesis HN : forall i k a b d ss ms,
      Forall (Forall P) ss -> Forall (Forall P) ms -> P (TN i k a b d ss ms).
  Hypothesis HR : forall s e d b, Forall P b -> P (TR s e d b).

  Fixpoint tree_ind' (t : tree) : P t :=
    let go2 := fix go2 (l : list tree) : Forall P l :=
                 match l with
                 | [] => Forall_nil _
                 | x :: r => Forall_cons x (tree_ind' x) (go2 r)
                 end in
    let go := fix go (l : list (list tree)) : Forall (Forall P) l :=
                match l with
                | [] => Forall_nil _
                | s :: r => Forall_cons s (go2 s) (go r)
                end in
    match t with
    | TP p => HP p
    | TN i k a b d ss ms => HN i k a b d ss ms (go ss) (go ms)
    | TR s e d b => HR s e d b (go2 b)
    end.
End TreeInd.

(** * small list facts *)
Lemma map_ext_Forall {A B} (f g : A -> B) l : Forall (fun x => f x = g x) l -> map f l = map g l.
Proof. induction 1; cbn; congruence. Qed.

Lemma flat_map_ext_Forall {A B} (f g : A -> list B) l : Forall (fun x => f x = g x) l -> flat_map f l = flat_map g l.
Proof. induction 1; cbn; congruence. Qed.

Lemma forallb_Forall {A} (f : A -> bool) l : forallb f l = true <-> Forall (fun x => f x = true) l.
Proof.
  induction l as [|x r IH]; cbn.
  - split; auto.
  - rewrite andb_true_iff, IH. split.
    + intros [? ?]; constructor; auto.
    + intros H; inversion H; auto.
Qed.

Lemma Forall_and_impl {A} (P Q R : A -> Prop) l :
  Forall P l -> Forall Q l -> (forall x, P x -> Q x -> R x) -> Forall R l.
Proof. induction 1; intros HQ HR; inversion HQ; subst; constructor; auto. Qed.

Lemma flat_map_map {A B C} (f : B -> list C) (g : A -> B) l : flat_map f (map g l) = flat_map (fun x => f (g x)) l.
Proof. induction l; cbn; congruence. Qed.

Lemma map_flat_map {A B C} (f : B -> C) (g : A -> list B) l : map f (flat_map g l) = flat_map (fun x => map f (g x)) l.
Proof. induction l; cbn; [reflexivity|]. now rewrite map_app, IHl. Qed.

Lemma deep_unfold f t :
  deep f t = f t && match t with
                    | TP _ => true
                    | TN _ _ _ _ _ ss ms => forallb (forallb (deep f)) ss && forallb (forallb (deep f)) ms
                    | TR _ _ _ b => forallb (deep f) b
                    end.
Proof. destruct t; reflexivity. Qed.

(** * 1. PragmaAttacher / PragmaDetacher *)

Section PragmaPass.
  Variable nt : kind -> bool.
  Variable pf : bool.

  Lemma det_pass_TP l : det_pass nt pf (map TP l) = map TP l.
  Proof. induction l; cbn; [reflexivity|]. unfold det_pass in IHl. now rewrite IHl. Qed.

  Lemma det_pass_app a b : det_pass nt pf (a ++ b) = det_pass nt pf a ++ det_pass nt pf b.
  Proof. unfold det_pass. apply flat_map_app. Qed.

  (** ** the tuple pass, for a view [f] of the nodes ([up_top] or the identity) *)
  Section View.
    Variable f : tree -> tree.
    Hypothesis f_TP : forall p, f (TP p) = TP p.

    Definition fTP (p : prag) : tree := TP p.

    Lemma map_f_TP l : map f (map TP l) = map TP l.
    Proof. induction l; cbn; [reflexivity|]. now rewrite f_TP, IHl. Qed.

    (** the element in the [last] position can still receive a [pragma_post] *)
    Definition Lok (y : tree) : Prop :=
      pf = true -> is_nt nt y = true -> forall l, l <> [] ->
      map f (det1 nt pf (set_post y l)) = map f (det1 nt pf y) ++ map TP l.

    Definition G (x : tree) : Prop :=
      map f (det1 nt pf x) = [f x] /\ Lok x /\
      (is_nt nt x = true -> forall l, l <> [] ->
         map f (det1 nt pf (set_pre x l)) = map TP l ++ [f x] /\ Lok (set_pre x l)).

    Lemma G_TP p : G (TP p).
    Proof.
      split; [cbn; reflexivity|]. split.
      - intros _ H; discriminate.
      - intros H; discriminate.
    Qed.

    Lemma det_pass_cons x l : det_pass nt pf (x :: l) = det1 nt pf x ++ det_pass nt pf l.
    Proof. reflexivity. Qed.
    Lemma det_pass_nil : det_pass nt pf [] = [].
    Proof. reflexivity. Qed.

    (** what the state stands for *)
    Definition V (s : pst) : list tree :=
      map f (det_pass nt pf (done s ++ olist (last s))) ++ map TP (pend s).

    Ltac nrm :=
      unfold V, push; cbn [done last pend olist];
      rewrite ?det_pass_app, ?det_pass_cons, ?det_pass_nil, ?det_pass_TP, ?map_app, ?map_f_TP, ?app_nil_r;
      rewrite <- ?app_assoc.

    Lemma att_step_nonpragma s x :
      not_pragma x = true ->
      att_step nt pf s x =
      match pend s with
      | [] => push s x
      | _ :: _ =>
        if is_nt nt x then push s (set_pre x (pend s))
        else match last s with
             | Some y => if pf && is_nt nt y && has_post y
                         then push (mkSt (done s) (Some (set_post y (pend s))) []) x
                         else push (mkSt (done s ++ [y] ++ map TP (pend s)) None []) x
             | None => push (mkSt (done s ++ map TP (pend s)) None []) x
             end
      end.
    Proof.
      destruct x; cbn; [discriminate| |]; intros _; [reflexivity|].
      destruct (pend s); reflexivity.
    Qed.

    Lemma att_step_view s x :
      G x -> (forall y, last s = Some y -> Lok y) ->
      V (att_step nt pf s x) = V s ++ [f x] /\ (forall y, last (att_step nt pf s x) = Some y -> Lok y).
    Proof.
      intros [G1 [G2 G3]] Hl.
      destruct (not_pragma x) eqn:Enp.
      - rewrite (att_step_nonpragma s x Enp). unfold V.
        destruct (pend s) as [|p ps] eqn:Ep.
        + split.
          * nrm. rewrite G1. reflexivity.
          * cbn. intros y Hy. inversion Hy; subst; assumption.
        + destruct (is_nt nt x) eqn:Ent.
          * destruct (G3 eq_refl (p :: ps)) as [G3a G3b]; [discriminate|]. split.
            -- nrm. rewrite G3a. now rewrite <- ?app_assoc.
            -- cbn. intros y Hy. inversion Hy; subst; assumption.
          * destruct (last s) as [y0|] eqn:El.
            -- destruct (pf && is_nt nt y0 && has_post y0) eqn:Ec.
               ++ apply andb_true_iff in Ec as [Ec E3]. apply andb_true_iff in Ec as [E1 E2]. split.
                  ** nrm. rewrite G1. rewrite (Hl y0 eq_refl E1 E2) by discriminate.
                     now rewrite <- ?app_assoc.
                  ** cbn. intros y Hy. inversion Hy; subst; assumption.
               ++ split.
                  ** nrm. rewrite G1. reflexivity.
                  ** cbn. intros y Hy. inversion Hy; subst; assumption.
            -- split.
               ++ nrm. rewrite G1. reflexivity.
               ++ cbn. intros y Hy. inversion Hy; subst; assumption.
      - destruct x as [p| |]; try discriminate. split.
        + cbn [att_step]. nrm. rewrite f_TP. reflexivity.
        + cbn. assumption.
    Qed.

    Lemma att_finish_view s :
      (forall y, last s = Some y -> Lok y) ->
      map f (det_pass nt pf (att_finish nt pf s)) = V s.
    Proof.
      intros Hl. unfold att_finish, V.
      destruct (pend s) as [|p ps] eqn:Ep.
      - nrm. destruct (last s); reflexivity.
      - destruct (last s) as [y|] eqn:El.
        + destruct (pf && is_nt nt y) eqn:Ec.
          * apply andb_true_iff in Ec as [E1 E2]. nrm.
            rewrite (Hl y eq_refl E1 E2) by discriminate. reflexivity.
          * nrm. reflexivity.
        + nrm. reflexivity.
    Qed.

    Lemma att_run_view rest : forall s,
        Forall G rest ->
        (forall y, last s = Some y -> Lok y) ->
        map f (det_pass nt pf (att_run nt pf rest s)) = V s ++ map f rest.
    Proof.
      induction rest as [|x r IH]; intros s HG Hl.
      - cbn [att_run map]. rewrite app_nil_r. now apply att_finish_view.
      - inversion HG as [|? ? Gx Gr]; subst.
        destruct (att_step_view s x Gx Hl) as [E1 E2].
        cbn [att_run map]. rewrite IH by assumption. rewrite E1. now rewrite <- app_assoc.
    Qed.

    Lemma att_pass_view l : Forall G l -> map f (det_pass nt pf (att_pass nt pf l)) = map f l.
    Proof.
      intros H. unfold att_pass. rewrite att_run_view; [reflexivity|assumption|].
      cbn. discriminate.
    Qed.
  End View.

  (** ** the two instances *)
  Lemma map_up_top_TP l : map up_top (map TP l) = map TP l.
  Proof. induction l; cbn; congruence. Qed.

  Lemma attr_free_up a : attr_free a = true -> up_attr a = ANone.
  Proof. destruct a; cbn; congruence. Qed.

  Ltac g_cases lemTP :=
    unfold G, Lok; cbn [is_nt set_pre set_post det1];
    repeat match goal with H : nt _ = _ |- _ => rewrite ?H end;
    repeat match goal with H : pf = _ |- _ => rewrite ?H end;
    repeat split; intros;
    repeat match goal with
           | H : ?l <> [] |- _ => destruct l as [|? ?]; [congruence|clear H]
           end;
    try congruence;
    cbn [fst snd app map up_top up_attr];
    do 3 (rewrite ?map_app, ?lemTP, ?map_id; cbn [fst snd app map up_top up_attr]);
    rewrite <- ?app_assoc; try reflexivity.

  Lemma G_up_top x : npa_top nt pf x = true -> G up_top x.
  Proof.
    destruct x as [p|i k a b d ss ms|s e d b]; intros H.
    - apply G_TP; reflexivity.
    - cbn in H. destruct (nt k) eqn:Ek.
      + destruct a as [| |la], b as [| |lb], pf eqn:Epf; cbn in H; try discriminate H;
          g_cases map_up_top_TP.
      + g_cases map_up_top_TP.
    - g_cases map_up_top_TP.
  Qed.

  Lemma attr_is_none_eq a : attr_is_none a = true -> a = ANone.
  Proof. destruct a; cbn; congruence. Qed.

  Lemma G_id x : clean_top nt pf x = true -> G (fun t => t) x.
  Proof.
    destruct x as [p|i k a b d ss ms|s e d b]; intros H.
    - apply G_TP; reflexivity.
    - cbn in H. destruct (nt k) eqn:Ek.
      + destruct a as [| |la], b as [| |lb], pf eqn:Epf; cbn in H; try discriminate H;
          g_cases map_up_top_TP.
      + g_cases map_up_top_TP.
    - g_cases map_up_top_TP.
  Qed.

  Lemma det_att_pass_up l :
    Forall (fun x => npa_top nt pf x = true) l ->
    map up_top (det_pass nt pf (att_pass nt pf l)) = map up_top l.
  Proof.
    intros H. apply att_pass_view; [reflexivity|].
    eapply Forall_impl; [|exact H]. intros x. apply G_up_top.
  Qed.

  Lemma det_att_pass_id l :
    Forall (fun x => clean_top nt pf x = true) l ->
    det_pass nt pf (att_pass nt pf l) = l.
  Proof.
    intros H.
    pose proof (att_pass_view (fun t => t) (fun p => eq_refl) l) as E.
    rewrite !map_id in E. apply E.
    eapply Forall_impl; [|exact H]. intros x. apply G_id.
  Qed.

  (** ** the tuple pass commutes with any map that leaves the top of every element alone *)
  Definition top_preserving (g : tree -> tree) : Prop :=
    (forall p, g (TP p) = TP p) /\
    (forall i k a b d ss ms, exists ss' ms', g (TN i k a b d ss ms) = TN i k a b d ss' ms') /\
    (forall s e d b, exists b', g (TR s e d b) = TR s e d b') /\
    (forall x l, g (set_pre x l) = set_pre (g x) l) /\
    (forall x l, g (set_post x l) = set_post (g x) l).

  Definition map_st (g : tree -> tree) (s : pst) : pst :=
    mkSt (map g (done s)) (option_map g (last s)) (pend s).

  Lemma tp_is_nt g x : top_preserving g -> is_nt nt (g x) = is_nt nt x.
  Proof.
    intros (H1 & H2 & H3 & _). destruct x as [p|i k a b d ss ms|s e d b].
    - now rewrite H1.
    - destruct (H2 i k a b d ss ms) as (ss' & ms' & E). now rewrite E.
    - destruct (H3 s e d b) as (b' & E). now rewrite E.
  Qed.

  Lemma tp_has_post g x : top_preserving g -> has_post (g x) = has_post x.
  Proof.
    intros (H1 & H2 & H3 & _). destruct x as [p|i k a b d ss ms|s e d b].
    - now rewrite H1.
    - destruct (H2 i k a b d ss ms) as (ss' & ms' & E). now rewrite E.
    - destruct (H3 s e d b) as (b' & E). now rewrite E.
  Qed.

  Lemma olist_map {A B} (g : A -> B) o : olist (option_map g o) = map g (olist o).
  Proof. destruct o; reflexivity. Qed.

  Lemma map_map_TP g l : (forall p, g (TP p) = TP p) -> map g (map TP l) = map TP l.
  Proof. intros H. induction l; cbn; [reflexivity|]. now rewrite H, IHl. Qed.

  Lemma tp_not_pragma g x : top_preserving g -> not_pragma (g x) = not_pragma x.
  Proof.
    intros (H1 & H2 & H3 & _). destruct x as [p|i k a b d ss ms|s e d b].
    - now rewrite H1.
    - destruct (H2 i k a b d ss ms) as (ss' & ms' & E). now rewrite E.
    - destruct (H3 s e d b) as (b' & E). now rewrite E.
  Qed.

  Lemma att_step_commute g s x :
    top_preserving g -> att_step nt pf (map_st g s) (g x) = map_st g (att_step nt pf s x).
  Proof.
    intros Hg. pose proof Hg as (H1 & H2 & H3 & H4 & H5).
    destruct (not_pragma x) eqn:Enp.
    - assert (Enp' : not_pragma (g x) = true) by (now rewrite tp_not_pragma).
      rewrite (att_step_nonpragma _ _ Enp'), (att_step_nonpragma _ _ Enp).
      cbn [map_st pend last done].
      rewrite (tp_is_nt g x Hg).
      destruct (pend s) as [|p ps] eqn:Ep.
      + unfold push, map_st; cbn [done last pend option_map]. now rewrite map_app, olist_map.
      + destruct (is_nt nt x).
        * unfold push, map_st; cbn [done last pend option_map]. now rewrite map_app, olist_map, H4.
        * destruct (last s) as [y|]; cbn [option_map].
          -- rewrite (tp_is_nt g y Hg), (tp_has_post g y Hg).
             destruct (pf && is_nt nt y && has_post y);
               unfold push, map_st; cbn [done last pend olist option_map];
               rewrite !map_app, ?(map_map_TP g _ H1); cbn [map]; now rewrite ?H5.
          -- unfold push, map_st; cbn [done last pend olist option_map].
             rewrite !map_app, ?(map_map_TP g _ H1). reflexivity.
    - destruct x as [p| |]; try discriminate. rewrite H1. reflexivity.
  Qed.

  Lemma att_finish_commute g s :
    top_preserving g -> att_finish nt pf (map_st g s) = map g (att_finish nt pf s).
  Proof.
    intros Hg. pose proof Hg as (H1 & H2 & H3 & H4 & H5).
    unfold att_finish, map_st. cbn [done last pend].
    destruct (pend s) as [|p ps]; destruct (last s) as [y|]; cbn [option_map olist].
    - rewrite !map_app. reflexivity.
    - rewrite !map_app. reflexivity.
    - rewrite (tp_is_nt g y Hg). destruct (pf && is_nt nt y).
      + rewrite map_app. cbn. now rewrite H5.
      + rewrite !map_app, (map_map_TP g _ H1). reflexivity.
    - rewrite !map_app, (map_map_TP g _ H1). reflexivity.
  Qed.

  Lemma att_run_commute g l : forall s,
      top_preserving g -> att_run nt pf (map g l) (map_st g s) = map g (att_run nt pf l s).
  Proof.
    induction l as [|x r IH]; intros s Hg; cbn [att_run map].
    - now apply att_finish_commute.
    - rewrite att_step_commute by assumption. now apply IH.
  Qed.

  Lemma att_pass_commute g l : top_preserving g -> att_pass nt pf (map g l) = map g (att_pass nt pf l).
  Proof. intros Hg. unfold att_pass. now rewrite <- att_run_commute. Qed.
End PragmaPass.

Lemma attP_top_preserving nt pf : top_preserving (attP nt pf).
Proof.
  repeat split.
  - intros; cbn; eauto.
  - intros; cbn; eauto.
  - intros x l; destruct x; reflexivity.
  - intros x l; destruct x; reflexivity.
Qed.

Lemma detP_top_preserving nt df : top_preserving (detP nt df).
Proof.
  repeat split.
  - intros; cbn; eauto.
  - intros; cbn; eauto.
  - intros x l; destruct x; reflexivity.
  - intros x l; destruct x; reflexivity.
Qed.

Lemma npa_top_detP_attP nt pf x : npa_top nt pf (detP nt pf (attP nt pf x)) = npa_top nt pf x.
Proof. destruct x; reflexivity. Qed.

Lemma up_up_top x : up (up_top x) = up x.
Proof. destruct x; cbn; [reflexivity| |reflexivity]. destruct pre, post; reflexivity. Qed.

Lemma map_up_up_top l : map up (map up_top l) = map up l.
Proof. rewrite map_map. apply map_ext. apply up_up_top. Qed.

(** one tuple of the tree *)
Lemma slot_roundtrip_up nt pf s :
  Forall (fun t => no_preattached nt pf t = true -> up (detP nt pf (attP nt pf t)) = up t) s ->
  forallb (no_preattached nt pf) s = true ->
  map up (det_pass nt pf (map (detP nt pf) (att_pass nt pf (map (attP nt pf) s)))) = map up s.
Proof.
  intros IH Hs. apply forallb_Forall in Hs.
  rewrite <- att_pass_commute by apply detP_top_preserving.
  rewrite map_map.
  rewrite <- map_up_up_top. rewrite det_att_pass_up.
  - rewrite map_up_up_top, map_map. apply map_ext_Forall.
    eapply Forall_and_impl; [exact IH|exact Hs|]. cbn. auto.
  - rewrite Forall_map. eapply Forall_impl; [|exact Hs].
    intros x Hx. rewrite npa_top_detP_attP. unfold no_preattached in Hx. rewrite deep_unfold in Hx.
    now apply andb_true_iff in Hx as [? _].
Qed.

Lemma detach_attach_up nt pf t :
  no_preattached nt pf t = true -> up (detP nt pf (attP nt pf t)) = up t.
Proof.
  induction t as [p|i k a b d ss ms IHs IHm|s e d b IHb] using tree_ind'; intros H.
  - reflexivity.
  - unfold no_preattached in H. rewrite deep_unfold in H.
    apply andb_true_iff in H as [_ H]. apply andb_true_iff in H as [Hss Hms].
    cbn. f_equal.
    + rewrite !map_map. apply map_ext_Forall.
      apply forallb_Forall in Hss.
      eapply Forall_and_impl; [exact IHs|exact Hss|]. cbn. intros s0 IH0 H0.
      now apply slot_roundtrip_up.
    + rewrite !map_map. apply map_ext_Forall.
      apply forallb_Forall in Hms.
      eapply Forall_and_impl; [exact IHm|exact Hms|]. cbn. intros s0 IH0 H0.
      now apply slot_roundtrip_up.
  - unfold no_preattached in H. rewrite deep_unfold in H.
    apply andb_true_iff in H as [_ H].
    cbn. f_equal. now apply slot_roundtrip_up.
Qed.

Lemma slot_roundtrip_id nt pf s :
  Forall (fun t => clean nt pf t = true -> detP nt pf (attP nt pf t) = t) s ->
  forallb (clean nt pf) s = true ->
  det_pass nt pf (map (detP nt pf) (att_pass nt pf (map (attP nt pf) s))) = s.
Proof.
  intros IH Hs. apply forallb_Forall in Hs.
  rewrite <- att_pass_commute by apply detP_top_preserving.
  rewrite map_map.
  assert (E : map (fun x => detP nt pf (attP nt pf x)) s = s).
  { rewrite <- (map_id s) at 2. apply map_ext_Forall.
    eapply Forall_and_impl; [exact IH|exact Hs|]. cbn. auto. }
  rewrite E. apply det_att_pass_id.
  eapply Forall_impl; [|exact Hs].
  intros x Hx. unfold clean in Hx. rewrite deep_unfold in Hx. now apply andb_true_iff in Hx as [? _].
Qed.

Lemma detach_attach_strict nt pf t :
  clean nt pf t = true -> detP nt pf (attP nt pf t) = t.
Proof.
  induction t as [p|i k a b d ss ms IHs IHm|s e d b IHb] using tree_ind'; intros H.
  - reflexivity.
  - unfold clean in H. rewrite deep_unfold in H.
    apply andb_true_iff in H as [_ H]. apply andb_true_iff in H as [Hss Hms].
    cbn. f_equal.
    + rewrite map_map. rewrite <- (map_id ss) at 2. apply map_ext_Forall.
      apply forallb_Forall in Hss.
      eapply Forall_and_impl; [exact IHs|exact Hss|]. cbn. intros s0 IH0 H0.
      now apply slot_roundtrip_id.
    + rewrite map_map. rewrite <- (map_id ms) at 2. apply map_ext_Forall.
      apply forallb_Forall in Hms.
      eapply Forall_and_impl; [exact IHm|exact Hms|]. cbn. intros s0 IH0 H0.
      now apply slot_roundtrip_id.
  - unfold clean in H. rewrite deep_unfold in H.
    apply andb_true_iff in H as [_ H].
    cbn. f_equal. now apply slot_roundtrip_id.
Qed.

(** ** attaching / detaching pragmas never touches another node: the skeleton is invariant (no hypothesis) *)
Definition sk (x : tree) : list tree := if not_pragma x then [skel x] else [].

Lemma sk_set_pre x l : sk (set_pre x l) = sk x.
Proof. destruct x; reflexivity. Qed.
Lemma sk_set_post x l : sk (set_post x l) = sk x.
Proof. destruct x; reflexivity. Qed.
Lemma sk_TPs l : flat_map sk (map TP l) = [].
Proof. induction l; cbn; auto. Qed.

Section Skeleton.
  Variable nt : kind -> bool.
  Variable pf : bool.

  Lemma sk_att_step s x :
    flat_map sk (done (att_step nt pf s x) ++ olist (last (att_step nt pf s x)))
    = flat_map sk (done s ++ olist (last s)) ++ sk x.
  Proof.
    destruct (not_pragma x) eqn:Enp.
    - rewrite (att_step_nonpragma nt pf s x Enp).
      destruct (pend s) as [|p ps].
      + unfold push; cbn [done last olist]. now rewrite !flat_map_app; cbn; rewrite app_nil_r.
      + destruct (is_nt nt x).
        * unfold push; cbn [done last olist]. rewrite !flat_map_app. cbn. now rewrite app_nil_r, sk_set_pre.
        * destruct (last s) as [y|].
          -- destruct (pf && is_nt nt y && has_post y); unfold push; cbn [done last olist];
               rewrite !flat_map_app; cbn [flat_map]; rewrite ?sk_TPs, ?sk_set_post, ?app_nil_r; reflexivity.
          -- unfold push; cbn [done last olist]. rewrite !flat_map_app. cbn [flat_map].
             now rewrite ?sk_TPs, ?app_nil_r.
    - destruct x; try discriminate. cbn. now rewrite app_nil_r.
  Qed.

  Lemma sk_att_run rest : forall s,
      flat_map sk (att_run nt pf rest s) = flat_map sk (done s ++ olist (last s)) ++ flat_map sk rest.
  Proof.
    induction rest as [|x r IH]; intros s.
    - cbn [att_run flat_map]. rewrite app_nil_r. unfold att_finish.
      destruct (pend s) as [|p ps]; destruct (last s) as [y|]; cbn [olist];
        try destruct (pf && is_nt nt y);
        rewrite ?flat_map_app; cbn [flat_map]; rewrite ?sk_TPs, ?sk_set_post, ?app_nil_r; reflexivity.
    - cbn [att_run flat_map]. rewrite IH, sk_att_step. now rewrite <- app_assoc.
  Qed.

  Lemma sk_att_pass l : flat_map sk (att_pass nt pf l) = flat_map sk l.
  Proof. unfold att_pass. now rewrite sk_att_run. Qed.

  Lemma sk_detached_part (a : attr) :
    flat_map sk (fst (match a with ATup (p :: l) => (map TP (p :: l), ANone) | _ => ([], a) end)) = [].
  Proof. destruct a as [| |[|p l]]; try reflexivity. cbn [fst]. apply sk_TPs. Qed.

  Lemma sk_det1 x : flat_map sk (det1 nt pf x) = sk x.
  Proof.
    destruct x as [p|i k a b d ss ms|s e d b]; cbn [det1]; try reflexivity.
    destruct (nt k); [|reflexivity].
    rewrite !flat_map_app, sk_detached_part.
    replace (flat_map sk (fst (if pf then match b with ATup (p :: l) => (map TP (p :: l), ANone) | _ => ([], b) end
                                else ([], b)))) with (@nil tree).
    - reflexivity.
    - destruct pf; [now rewrite sk_detached_part|reflexivity].
  Qed.

  Lemma sk_det_pass l : flat_map sk (det_pass nt pf l) = flat_map sk l.
  Proof.
    unfold det_pass. induction l as [|x r IH]; [reflexivity|].
    cbn [flat_map]. now rewrite flat_map_app, sk_det1, IH.
  Qed.
End Skeleton.

Lemma skel_slot (g : tree -> tree) s :
  Forall (fun t => skel (g t) = skel t) s ->
  (forall x, not_pragma (g x) = not_pragma x) ->
  flat_map sk (map g s) = flat_map sk s.
Proof.
  intros IH Hn. rewrite flat_map_map. apply flat_map_ext_Forall.
  eapply Forall_impl; [|exact IH]. intros x Hx. unfold sk. now rewrite Hn, Hx.
Qed.

Lemma skel_unfold_slot s : flat_map (fun x => if not_pragma x then [skel x] else []) s = flat_map sk s.
Proof. reflexivity. Qed.

Lemma attach_preserves_skeleton nt pf t : skel (attP nt pf t) = skel t.
Proof.
  induction t as [p|i k a b d ss ms IHs IHm|s e d b IHb] using tree_ind'.
  - reflexivity.
  - cbn. f_equal; rewrite map_map; apply map_ext_Forall;
      (eapply Forall_impl; [|eassumption]); intros s0 IH0; cbn;
      rewrite !skel_unfold_slot, sk_att_pass; apply skel_slot; auto;
      intros x; destruct x; reflexivity.
  - cbn. f_equal. rewrite !skel_unfold_slot, sk_att_pass. apply skel_slot; auto.
    intros x; destruct x; reflexivity.
Qed.

Lemma detach_preserves_skeleton nt df t : skel (detP nt df t) = skel t.
Proof.
  induction t as [p|i k a b d ss ms IHs IHm|s e d b IHb] using tree_ind'.
  - reflexivity.
  - cbn. f_equal; rewrite map_map; apply map_ext_Forall;
      (eapply Forall_impl; [|eassumption]); intros s0 IH0; cbn;
      rewrite !skel_unfold_slot, sk_det_pass; apply skel_slot; auto;
      intros x; destruct x; reflexivity.
  - cbn. f_equal. rewrite !skel_unfold_slot, sk_det_pass. apply skel_slot; auto.
    intros x; destruct x; reflexivity.
Qed.

(** ** attach after detach *)
Lemma attach_detach_on_image nt pf t0 :
  clean nt pf t0 = true ->
  attP nt pf (detP nt pf (attP nt pf t0)) = attP nt pf t0.
Proof. intros H. now rewrite detach_attach_strict. Qed.

Definition p_ (n : Z) : prag := mkP n n "loki" "foo" false.
(** a loop that already carries a pragma and has another one in front of it *)
Definition preattached_witness : tree :=
  TN 1 KSection NoAttr NoAttr false [[TP (p_ 2); TN 3 KLoop (ATup [p_ 4]) ANone false [[]] []]] [].

Lemma attach_detach_refuted :
  attP (nt_of [KLoop]) true (detP (nt_of [KLoop]) true preattached_witness) <> preattached_witness.
Proof. vm_compute. discriminate. Qed.

(** attaching on top of an attached pragma loses it (the attribute is overwritten) *)
Lemma detach_attach_preattached_refuted :
  up (detP (nt_of [KLoop]) true (attP (nt_of [KLoop]) true preattached_witness)) <> up preattached_witness
  /\ doc_prags (attP (nt_of [KLoop]) true preattached_witness) = [p_ 2].
Proof. vm_compute. split; [discriminate|reflexivity]. Qed.

(** a class without the field: the round trip leaves a dangling [pragma_post = None] attribute *)
Definition call_witness : tree :=
  TN 1 KSection NoAttr NoAttr false [[TN 2 KCall ANone NoAttr false [] []; TP (p_ 3)]] [].
Lemma strict_needs_fields :
  no_preattached (nt_of [KCall]) true call_witness = true /\
  detP (nt_of [KCall]) true (attP (nt_of [KCall]) true call_witness)
  = TN 1 KSection NoAttr NoAttr false [[TN 2 KCall ANone ANone false [] []; TP (p_ 3)]] [].
Proof. vm_compute. split; reflexivity. Qed.

Example clean_nontrivial :
  let t := TN 1 KSection NoAttr NoAttr false
              [[TP (p_ 2); TP (p_ 3); TN 4 KLoop ANone ANone false [[TP (p_ 5); TN 6 KAssign NoAttr NoAttr false [] []]] [];
                TP (p_ 7); TN 8 KComment NoAttr NoAttr false [] []; TN 9 KLoop ANone ANone false [[]] []; TP (p_ 10)]] [] in
  clean (nt_of [KLoop]) true t = true /\ attP (nt_of [KLoop]) true t <> t.
Proof. vm_compute. split; [reflexivity|discriminate]. Qed.
