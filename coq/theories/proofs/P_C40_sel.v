(** C40 — proofs, part 9: do_remove_dead_code on programs with SELECT CASE (own model [kdce]) is idempotent. *)
From Coq Require Import ZArith List Bool String Lia.
From LV Require Import Base.Expr Base.MiniF models.M_C32 models.M_C40 proofs.P_C40_base proofs.P_C40_dce.
Import ListNotations.
Open Scope Z_scope.
Open Scope list_scope.

Section kstmt_ind'.
  Variable P : kstmt -> Prop.
  Hypothesis HS : forall s, P (KS s).
  Hypothesis HD : forall v lo hi st b, Forall P b -> P (KDo v lo hi st b).
  Hypothesis HW : forall c b, Forall P b -> P (KWhile c b).
  Hypothesis HI : forall c t e, Forall P t -> Forall P e -> P (KIf c t e).
  Hypothesis HL : forall sel vals bodies d, Forall (Forall P) bodies -> Forall P d -> P (KSel sel vals bodies d).
  Fixpoint kstmt_ind' (s : kstmt) : P s :=
    let fix go (l : list kstmt) : Forall P l :=
      match l with [] => Forall_nil P | x :: r => Forall_cons x (kstmt_ind' x) (go r) end in
    let fix gos (ll : list (list kstmt)) : Forall (Forall P) ll :=
      match ll with [] => Forall_nil (Forall P) | l :: r => Forall_cons l (go l) (gos r) end in
    match s with
    | KS s => HS s
    | KDo v lo hi st b => HD v lo hi st b (go b)
    | KWhile c b => HW c b (go b)
    | KIf c t e => HI c t e (go t) (go e)
    | KSel sel vals bodies d => HL sel vals bodies d (gos bodies) (go d)
    end.
End kstmt_ind'.

Fixpoint kdces (u : bool) (ll : list (list kstmt)) : option (list (list kstmt)) :=
  match ll with
  | [] => Some []
  | l :: r => match kdce u l, kdces u r with Some a, Some b => Some (a :: b) | _, _ => None end
  end.

Lemma kgo u : forall l,
  (fix go (l : list kstmt) : option (list kstmt) :=
     match l with
     | [] => Some []
     | s :: r => match kdce1 u s, go r with Some a, Some b => Some (a ++ b) | _, _ => None end
     end) l = kdce u l.
Proof. induction l as [|x r IH]; [reflexivity|]. cbn [kdce]. now rewrite <- IH. Qed.

Lemma kgos u : forall ll,
  (fix gos (ll : list (list kstmt)) : option (list (list kstmt)) :=
     match ll with
     | [] => Some []
     | l :: r =>
         match (fix go (l : list kstmt) : option (list kstmt) :=
                  match l with
                  | [] => Some []
                  | s :: r => match kdce1 u s, go r with Some a, Some b => Some (a ++ b) | _, _ => None end
                  end) l, gos r with
         | Some a, Some b => Some (a :: b)
         | _, _ => None
         end
     end) ll = kdces u ll.
Proof. induction ll as [|x r IH]; [reflexivity|]. cbn [kdces]. now rewrite <- IH, <- kgo. Qed.

Lemma kdce1_if u c t e :
  kdce1 u (KIf c t e) =
  match (if u then simp_cond false [] c else Some c), kdce u t, kdce u e with
  | Some c', Some t', Some e' =>
      match c' with
      | ELog true => Some t'
      | ELog false => Some e'
      | _ => if k_is_elseif e && k_is_nil e' then None else Some [KIf c' t' e']
      end
  | _, _, _ => None
  end.
Proof. cbn [kdce1]. now rewrite !kgo. Qed.

Lemma kdce1_do u v lo hi stp b :
  kdce1 u (KDo v lo hi stp b) = match kdce u b with Some b' => Some [KDo v lo hi stp b'] | None => None end.
Proof. cbn [kdce1]. now rewrite kgo. Qed.

Lemma kdce1_while u c b :
  kdce1 u (KWhile c b) = match kdce u b with Some b' => Some [KWhile c b'] | None => None end.
Proof. cbn [kdce1]. now rewrite kgo. Qed.

Lemma kdce1_sel u sel vals bodies dflt :
  kdce1 u (KSel sel vals bodies dflt) =
  match kdces u bodies, kdce u dflt with
  | Some bs, Some d =>
      if sel_class sel vals bs then
        match first_match sel vals with
        | Some i => nth_error bs i
        | None => Some [KSel sel vals bs d]
        end
      else None
  | _, _ => None
  end.
Proof. cbn [kdce1]. now rewrite kgos, kgo. Qed.

Lemma k_elseif_nil_false e : k_is_elseif e && k_is_nil e = false.
Proof. destruct e as [|[] [|]]; reflexivity. Qed.

(** * normal form => fixed point *)
Lemma kdce_fix_list u q :
  Forall (fun s => knf u s = true -> kdce1 u s = Some [s]) q -> forallb (knf u) q = true -> kdce u q = Some q.
Proof.
  induction 1 as [|s r H _ IH]; intros Hc; [reflexivity|].
  cbn [forallb] in Hc. apply andb_true_iff in Hc. destruct Hc as [H1 H2].
  cbn [kdce]. now rewrite (H H1), (IH H2).
Qed.

Lemma kdces_fix_list u ll :
  Forall (Forall (fun s => knf u s = true -> kdce1 u s = Some [s])) ll ->
  forallb (forallb (knf u)) ll = true -> kdces u ll = Some ll.
Proof.
  induction 1 as [|l r H _ IH]; intros Hc; [reflexivity|].
  cbn [forallb] in Hc. apply andb_true_iff in Hc. destruct Hc as [H1 H2].
  cbn [kdces]. now rewrite (kdce_fix_list u l H H1), (IH H2).
Qed.

Lemma kdce1_fix u : forall s, knf u s = true -> kdce1 u s = Some [s].
Proof.
  induction s using kstmt_ind'; intros Hc.
  - reflexivity.
  - cbn [knf] in Hc. now rewrite kdce1_do, (kdce_fix_list u b H Hc).
  - cbn [knf] in Hc. now rewrite kdce1_while, (kdce_fix_list u b H Hc).
  - cbn [knf] in Hc. apply andb_true_iff in Hc. destruct Hc as [Hc H2].
    apply andb_true_iff in Hc. destruct Hc as [H0' H1].
    destruct (cond_nf_simp u c H0') as [Ec Hl].
    rewrite kdce1_if, Ec, (kdce_fix_list u t H H1), (kdce_fix_list u e H0 H2).
    rewrite (not_lit_match c _ _ _ Hl). now rewrite k_elseif_nil_false.
  - cbn [knf] in Hc. apply andb_true_iff in Hc. destruct Hc as [Hc H4].
    apply andb_true_iff in Hc. destruct Hc as [Hc H3]. apply andb_true_iff in Hc. destruct Hc as [H1 H2].
    rewrite kdce1_sel, (kdces_fix_list u bodies H H3), (kdce_fix_list u d H0 H4), H1.
    unfold no_match in H2. destruct (first_match sel vals); [discriminate|reflexivity].
Qed.

Theorem kdce_nf_fix u q : knf_l u q = true -> kdce u q = Some q.
Proof. intros H. apply kdce_fix_list; [|exact H]. apply Forall_forall. intros s _. apply kdce1_fix. Qed.

(** * the output is in normal form *)
Definition kout_nf (u : bool) (q : list kstmt) : Prop := (u = true -> kconds_stable q = true) -> knf_l u q = true.

Lemma kdce_out_list u l :
  Forall (fun s => forall q, kdce1 u s = Some q -> kout_nf u q) l ->
  forall q, kdce u l = Some q -> kout_nf u q.
Proof.
  induction 1 as [|s r H _ IH]; intros q E.
  - cbn [kdce] in E. inversion E; subst. intros _. reflexivity.
  - cbn [kdce] in E. destruct (kdce1 u s) as [a|] eqn:E1; [|discriminate].
    destruct (kdce u r) as [b|] eqn:E2; [|discriminate]. inversion E; subst.
    intros Hs. unfold knf_l. rewrite forallb_app. apply andb_true_iff. split.
    + apply (H a eq_refl). intros Hu. specialize (Hs Hu). unfold kconds_stable in *.
      rewrite forallb_app in Hs. now apply andb_true_iff in Hs.
    + apply (IH b eq_refl). intros Hu. specialize (Hs Hu). unfold kconds_stable in *.
      rewrite forallb_app in Hs. now apply andb_true_iff in Hs.
Qed.

(** all visited bodies: normal form (given stability), as one statement about the list of bodies *)
Lemma kdces_out u ll :
  Forall (Forall (fun s => forall q, kdce1 u s = Some q -> kout_nf u q)) ll ->
  forall bs, kdces u ll = Some bs ->
  (u = true -> forallb (forallb kconds_stable_stmt) bs = true) -> forallb (forallb (knf u)) bs = true.
Proof.
  induction 1 as [|l r H _ IH]; intros bs E Hs; cbn [kdces] in E.
  - inversion E; subst. reflexivity.
  - destruct (kdce u l) as [a|] eqn:E1; [|discriminate]. destruct (kdces u r) as [b|] eqn:E2; [|discriminate].
    inversion E; subst. cbn [forallb]. apply andb_true_iff. split.
    + apply (kdce_out_list u l H a E1). intros Hu. specialize (Hs Hu). cbn [forallb] in Hs. now apply andb_true_iff in Hs.
    + apply (IH b eq_refl). intros Hu. specialize (Hs Hu). cbn [forallb] in Hs. now apply andb_true_iff in Hs.
Qed.

Lemma kdces_nth_out u ll :
  Forall (Forall (fun s => forall q, kdce1 u s = Some q -> kout_nf u q)) ll ->
  forall bs i q, kdces u ll = Some bs -> nth_error bs i = Some q -> kout_nf u q.
Proof.
  induction 1 as [|l r Hl _ IH]; intros bs i q Eb E; cbn [kdces] in Eb.
  - inversion Eb; subst. destruct i; discriminate.
  - destruct (kdce u l) as [a|] eqn:E1; [|discriminate]. destruct (kdces u r) as [b|] eqn:E2; [|discriminate].
    inversion Eb; subst. destruct i as [|i]; cbn [nth_error] in E.
    + inversion E; subst. now apply (kdce_out_list u l Hl q E1).
    + now apply (IH b i q eq_refl E).
Qed.

Lemma forallb_nth {A} (f : A -> bool) l i x : forallb f l = true -> nth_error l i = Some x -> f x = true.
Proof.
  revert i. induction l as [|y l IH]; intros [|i] H E; cbn in *; try discriminate.
  - inversion E; subst. now apply andb_true_iff in H.
  - apply andb_true_iff in H. now apply (IH i).
Qed.

Lemma kdce1_out u : forall s q, kdce1 u s = Some q -> kout_nf u q.
Proof.
  induction s using kstmt_ind'; intros q E.
  - cbn [kdce1] in E. inversion E; subst. intros _. reflexivity.
  - rewrite kdce1_do in E. destruct (kdce u b) as [b'|] eqn:Eb; [|discriminate]. inversion E; subst.
    intros Hs. unfold knf_l. cbn [forallb knf]. rewrite andb_true_r.
    apply (kdce_out_list u b H b' Eb). intros Hu. specialize (Hs Hu).
    unfold kconds_stable in Hs. cbn [forallb kconds_stable_stmt] in Hs. now rewrite andb_true_r in Hs.
  - rewrite kdce1_while in E. destruct (kdce u b) as [b'|] eqn:Eb; [|discriminate]. inversion E; subst.
    intros Hs. unfold knf_l. cbn [forallb knf]. rewrite andb_true_r.
    apply (kdce_out_list u b H b' Eb). intros Hu. specialize (Hs Hu).
    unfold kconds_stable in Hs. cbn [forallb kconds_stable_stmt] in Hs. now rewrite andb_true_r in Hs.
  - rewrite kdce1_if in E.
    destruct (if u then simp_cond false [] c else Some c) as [c'|] eqn:Ec; [|discriminate].
    destruct (kdce u t) as [t'|] eqn:Et; [|discriminate].
    destruct (kdce u e) as [e'|] eqn:Ee; [|discriminate].
    destruct (lit_cases c') as [L|[L|L]].
    + subst c'. inversion E; subst. apply (kdce_out_list u t H q Et).
    + subst c'. inversion E; subst. apply (kdce_out_list u e H0 q Ee).
    + rewrite (not_lit_match c' _ _ _ L) in E.
      destruct (k_is_elseif e && k_is_nil e'); [discriminate|]. inversion E; subst.
      intros Hs. unfold knf_l. cbn [forallb knf]. rewrite andb_true_r.
      assert (Hs' : u = true -> cond_stable c' = true /\ kconds_stable t' = true /\ kconds_stable e' = true).
      { intros Hu. specialize (Hs Hu). unfold kconds_stable in Hs. cbn [forallb kconds_stable_stmt] in Hs.
        rewrite andb_true_r in Hs. apply andb_true_iff in Hs. destruct Hs as [Hs H3].
        apply andb_true_iff in Hs. destruct Hs as [H1 H2]. auto. }
      apply andb_true_iff. split; [apply andb_true_iff; split|].
      * unfold cond_nf. rewrite L. cbn [negb andb]. destruct u; [|reflexivity]. cbn [negb orb]. now apply Hs'.
      * apply (kdce_out_list u t H t' Et). intros Hu. now apply Hs'.
      * apply (kdce_out_list u e H0 e' Ee). intros Hu. now apply Hs'.
  - rewrite kdce1_sel in E.
    destruct (kdces u bodies) as [bs|] eqn:Eb; [|discriminate].
    destruct (kdce u d) as [d'|] eqn:Ed; [|discriminate].
    destruct (sel_class sel vals bs) eqn:Ecl; [|discriminate].
    destruct (first_match sel vals) as [i|] eqn:Ef.
    + (* a case matches: the (visited) body is spliced in *)
      exact (kdces_nth_out u bodies H bs i q Eb E).
    + inversion E; subst. intros Hs. unfold knf_l. cbn [forallb knf]. rewrite andb_true_r.
      rewrite Ecl. unfold no_match. rewrite Ef. cbn [andb].
      assert (Hs' : u = true -> forallb (forallb kconds_stable_stmt) bs = true /\ kconds_stable d' = true).
      { intros Hu. specialize (Hs Hu). unfold kconds_stable in Hs. cbn [forallb kconds_stable_stmt] in Hs.
        rewrite andb_true_r in Hs. now apply andb_true_iff in Hs. }
      apply andb_true_iff. split.
      * apply (kdces_out u bodies H bs Eb). intros Hu. now apply Hs'.
      * apply (kdce_out_list u d H0 d' Ed). intros Hu. now apply Hs'.
Qed.

Theorem kdce_out_nf u p q : kdce u p = Some q -> (u = true -> kconds_stable q = true) -> knf_l u q = true.
Proof.
  intros E. apply (kdce_out_list u p); [|exact E]. apply Forall_forall. intros s _. apply kdce1_out.
Qed.

(** * idempotence *)
Theorem kdce_idem_nosimplify p q : kdce false p = Some q -> kdce false q = Some q.
Proof. intros E. apply kdce_nf_fix. apply (kdce_out_nf false p q E). discriminate. Qed.

Theorem kdce_idem_simplify_validated p q : kdce true p = Some q -> kconds_stable q = true -> kdce true q = Some q.
Proof. intros E Hs. apply kdce_nf_fix. apply (kdce_out_nf true p q E). intros _. exact Hs. Qed.

(** a constant selector matching the second case; the surviving body contains a dead IF and a constant SELECT:
    everything is removed by ONE application *)
Open Scope string_scope.
Example kdce_select_one_pass :
  let inner := KSel (EInt 7) [[EInt 7]] [[KS (SAssign "b" (EInt 4))]] [] in
  let body2 := [KIf (ECmp Ceq (EInt 1) (EInt 2)) [KS (SAssign "b" (EInt 2))] [inner]; KS (SAssign "a" (EInt 1))] in
  let p := [KSel (EInt 2) [[EInt 1]; [EInt 5; EInt 2]] [[KS (SAssign "a" (EInt 0))]; body2] [KS (SAssign "a" (EInt 3))]] in
  kdce true p = Some [KS (SAssign "b" (EInt 4)); KS (SAssign "a" (EInt 1))]
  /\ knf_l true [KS (SAssign "b" (EInt 4)); KS (SAssign "a" (EInt 1))] = true.
Proof. split; vm_compute; reflexivity. Qed.
