(** C03 — lemmas, part 2: the Transformer model and the text expected after an edit. *)
From Coq Require Import ZArith List Bool String Ascii Lia.
From LV Require Import Base.Strings models.M_C03 proofs.P_C03.
Import ListNotations.
Open Scope list_scope.
Open Scope Z_scope.

(** * unfolding equations *)
Definition tr_child (M : mapper) (c : tree) : list tree :=
  match M (uid c) with
  | None => [trn M c]
  | Some ADrop => []
  | Some (AOne r) => [r]
  | Some (AMany rs) => map (fun r => if uid r =? uid c then trn M c else r) rs
  end.

Lemma trslot_eq M sl : trslot M sl = flat_map (tr_child M) sl.
Proof. reflexivity. Qed.

Definition new_src (tm : tmode) (src : option source) (slots' : list (list tree)) : option source :=
  match tm, src with
  | TN, Some s => if is_valid s && has_node_child slots' then Some (invalidate true s) else src
  | _, _ => src
  end.

Lemma trn_eq M k u lbl src tm grp lits alt slots :
  trn M (T k u lbl src tm grp lits alt slots) =
  match tm with
  | TN | TS => let '(grp', slots') := strip_grp grp (map (trslot M) slots) in
               T k u lbl (new_src tm src slots') tm grp' lits alt slots'
  | TO => T k u lbl (match src with
                     | Some s => if is_valid s then Some (invalidate true s) else src
                     | None => None
                     end) tm grp lits alt slots
  | _ => T k u lbl src tm grp lits alt slots
  end.
Proof. destruct tm; reflexivity. Qed.

Definition spl_child (strong : bool) (M : mapper) (dir : bool) (e : bool) (c : tree) : option (list text) :=
  match M (uid c) with
  | None => option_map (fun x => [x]) (sitem dir (lbl_of c) (spl strong M e c))
  | Some ADrop => Some []
  | Some (AOne r) => option_map (fun x => [x]) (sitem dir (lbl_of r) (cp e r))
  | Some (AMany rs) =>
      omap (fun r => if uid r =? uid c then sitem dir (lbl_of c) (spl strong M e c)
                     else sitem dir (lbl_of r) (cp e r)) rs
  end.

Definition spl_slot (strong : bool) (M : mapper) (dir : bool) (e : bool) (sl : list tree) : option text :=
  match sl with
  | [] => Some []
  | _ => match omap (spl_child strong M dir e) sl with
         | Some parts =>
             let blocks := List.concat parts in
             match blocks with
             | [] => Some []
             | _ => let out := List.concat blocks in
                    Some (if dir then out else match out with [] => [EmptyString] | _ => out end)
             end
         | None => None
         end
  end.

Lemma spl_eq strong M ei k u lbl src tm grp lits alt slots :
  spl strong M ei (T k u lbl src tm grp lits alt slots) =
  match tm with
  | TN | TS =>
      if forallb is_nil slots then (if strong then text_of (T k u lbl src tm grp lits alt slots)
                                    else cp ei (T k u lbl src tm grp lits alt slots))
      else
        match omapi (fun i sl => match child_ei k (fmode k src) ei i with
                                 | None => None
                                 | Some e => spl_slot strong M (direct k i) e sl
                                 end) 0%nat slots with
        | Some ps => assemble k src lits alt (map sinfo (snd (strip_grp grp (map (trslot M) slots)))) (fmode k src) ei ps
        | None => None
        end
  | TO => if strong then text_of (T k u lbl src tm grp lits alt slots) else cp ei (trn M (T k u lbl src tm grp lits alt slots))
  | _ => if strong then text_of (T k u lbl src tm grp lits alt slots) else cp ei (T k u lbl src tm grp lits alt slots)
  end.
Proof. destruct tm; reflexivity. Qed.

Lemma text_of_trn M t : text_of (trn M t) = text_of t.
Proof.
  destruct t as [k u lbl src tm grp lits alt slots]. rewrite trn_eq. unfold text_of.
  destruct tm; try reflexivity.
  1,2: destruct (strip_grp grp (map (trslot M) slots)) as [g' s']; cbn [src_of]; unfold new_src;
       destruct src as [s|]; try reflexivity; destruct (is_valid s && has_node_child s'); reflexivity.
  cbn [src_of]. destruct src as [s|]; [|reflexivity]. destruct (is_valid s); reflexivity.
Qed.

Lemma lbl_trn M t : lbl_of (trn M t) = lbl_of t.
Proof.
  destruct t as [k u lbl src tm grp lits alt slots]. rewrite trn_eq.
  destruct tm; try reflexivity; destruct (strip_grp grp (map (trslot M) slots)); reflexivity.
Qed.

(** * list lemmas *)
Lemma omap_length {A B} (f : A -> option B) l ys : omap f l = Some ys -> List.length ys = List.length l.
Proof.
  revert ys; induction l as [|a l IH]; cbn; intros ys E; [now inversion E|].
  destruct (f a); [|discriminate]. destruct (omap f l); [|discriminate]. inversion E; subst. cbn. now rewrite (IH l0).
Qed.

Lemma omap_app {A B} (f : A -> option B) l1 l2 :
  omap f (l1 ++ l2) = match omap f l1, omap f l2 with Some a, Some b => Some (a ++ b) | _, _ => None end.
Proof.
  induction l1 as [|x l1 IH]; cbn.
  - destruct (omap f l2); reflexivity.
  - destruct (f x); [|reflexivity]. rewrite IH. destruct (omap f l1); [|reflexivity]. destruct (omap f l2); reflexivity.
Qed.

Lemma omap_flat_map {A B C} (g : B -> option C) (h : A -> list B) l :
  omap g (flat_map h l) = option_map (@List.concat C) (omap (fun c => omap g (h c)) l).
Proof.
  induction l as [|x l IH]; cbn; [reflexivity|].
  rewrite omap_app, IH. destruct (omap g (h x)); [|reflexivity].
  destruct (omap (fun c => omap g (h c)) l); reflexivity.
Qed.

Lemma omap_map {A B C} (g : B -> option C) (h : A -> B) l : omap g (map h l) = omap (fun x => g (h x)) l.
Proof. induction l as [|x l IH]; cbn; [reflexivity|]. now rewrite IH. Qed.

Lemma omapi_map {A B C} (f : nat -> B -> option C) (h : A -> B) l : forall i,
  omapi f i (map h l) = omapi (fun i x => f i (h x)) i l.
Proof. induction l as [|x l IH]; cbn; intros; [reflexivity|]. now rewrite IH. Qed.

Lemma flat_map_nil_length {A B C} (h : A -> list B) l (parts : list (list C)) :
  Forall2 (fun c p => List.length p = List.length (h c)) l parts ->
  List.length (List.concat parts) = List.length (flat_map h l).
Proof.
  induction 1 as [|c p l parts Hc _ IH]; cbn; [reflexivity|]. rewrite !app_length. congruence.
Qed.

Lemma Forall2_imp {A B} (P Q : A -> B -> Prop) l1 l2 :
  (forall a b, P a b -> Q a b) -> Forall2 P l1 l2 -> Forall2 Q l1 l2.
Proof. intros H; induction 1; constructor; auto. Qed.

Lemma omap_Forall2 {A B} (f : A -> option B) l ys : omap f l = Some ys -> Forall2 (fun x y => f x = Some y) l ys.
Proof.
  revert ys; induction l as [|a l IH]; cbn; intros ys E; [inversion E; constructor|].
  destruct (f a) eqn:Ea; [|discriminate]. destruct (omap f l) eqn:El; [|discriminate]. inversion E; subst.
  constructor; auto.
Qed.

Lemma all_nil_map {A} (f : list A -> list A) (slots : list (list A)) :
  (f [] = []) -> forallb is_nil slots = true -> map f slots = slots.
Proof.
  intros Hf. induction slots as [|sl r IH]; cbn; [reflexivity|]. intros E. apply andb_true_iff in E as [E1 E2].
  destruct sl; [|discriminate]. now rewrite Hf, IH.
Qed.

Lemma all_nil_no_child slots : forallb is_nil slots = true -> has_node_child slots = false.
Proof.
  induction slots as [|sl r IH]; cbn; [reflexivity|]. intros E. apply andb_true_iff in E as [E1 E2].
  destruct sl; [|discriminate]. cbn. now apply IH.
Qed.

(** * the frame of a node does not look at the status of its source *)
Lemma assemble_status k s b lits alt si md ei ps :
  assemble k (Some (invalidate b s)) lits alt si md ei ps = assemble k (Some s) lits alt si md ei ps.
Proof. destruct s; reflexivity. Qed.

Lemma assemble_new_src k tm src slots' lits alt si md ei ps :
  assemble k (new_src tm src slots') lits alt si md ei ps = assemble k src lits alt si md ei ps.
Proof.
  unfold new_src. destruct tm, src as [s|]; try reflexivity.
  destruct (is_valid s && has_node_child slots'); [apply assemble_status|reflexivity].
Qed.

Lemma fmode_not_MT k src : fmode k src <> MT.
Proof. unfold fmode, cmode. destruct src; [destruct (has_crule k)|]; discriminate. Qed.

(** * one slot: printing the rebuilt items = the expected blocks *)
Lemma slot_lemma (strong : bool) M dir e sl :
  (forall c, In c sl ->
      (M (uid c) = None -> cp e (trn M c) = spl strong M e c) /\
      (forall rs, M (uid c) = Some (AMany rs) -> existsb (fun r => uid r =? uid c) rs = true ->
                  cp e (trn M c) = spl strong M e c)) ->
  pslot dir (cp e) (trslot M sl) = spl_slot strong M dir e sl.
Proof.
  intros Hc. rewrite trslot_eq.
  assert (Hitems : omap (fun c => omap (pitem dir (cp e)) (tr_child M c)) sl = omap (spl_child strong M dir e) sl).
  { apply omap_ext_in. intros c Hin. destruct (Hc c Hin) as [H1 H2].
    unfold tr_child, spl_child. destruct (M (uid c)) as [[|r|rs]|] eqn:EM.
    - reflexivity.
    - cbn. unfold pitem, sitem. destruct (cp e r); [|reflexivity]. destruct dir; [reflexivity|]. now destruct (apply_label (lbl_of r) t).
    - rewrite omap_map. apply omap_ext_in. intros r Hr.
      destruct (uid r =? uid c) eqn:Eu.
      + unfold pitem, sitem. rewrite lbl_trn. rewrite (H2 rs eq_refl).
        * reflexivity.
        * apply existsb_exists. exists r. split; assumption.
      + reflexivity.
    - cbn. unfold pitem, sitem. rewrite lbl_trn, (H1 eq_refl).
      destruct (spl strong M e c); [|reflexivity]. destruct dir; [reflexivity|]. now destruct (apply_label (lbl_of c) t). }
  unfold spl_slot. destruct sl as [|c0 sl']; [reflexivity|].
  unfold pslot.
  assert (Hom := omap_flat_map (pitem dir (cp e)) (tr_child M) (c0 :: sl')).
  rewrite Hitems in Hom.
  destruct (omap (spl_child strong M dir e) (c0 :: sl')) as [parts|] eqn:Ep.
  - cbn [option_map] in Hom.
    assert (Hlen : List.length (List.concat parts) = List.length (flat_map (tr_child M) (c0 :: sl'))).
    { apply flat_map_nil_length. pose proof (omap_Forall2 _ _ _ Hitems) as HF.
      eapply Forall2_imp; [|exact HF]. intros c p Hp. cbn in Hp. now apply omap_length in Hp. }
    destruct (flat_map (tr_child M) (c0 :: sl')) as [|y ys] eqn:Ef.
    + destruct (List.concat parts); [reflexivity|discriminate].
    + rewrite Hom. destruct (List.concat parts) as [|b bs] eqn:Eb; [discriminate|]. reflexivity.
  - cbn [option_map] in Hom.
    destruct (flat_map (tr_child M) (c0 :: sl')) as [|y ys] eqn:Ef.
    + cbn in Hom. discriminate.
    + now rewrite Hom.
Qed.

(** * the rebuilt tree is printed as the expected text *)
Definition edit_spec (strong : bool) (t : tree) : Prop :=
  forall M ei, nt strong M ei t = true -> cp ei (trn M t) = spl false M ei t.

Lemma strip0 (sls : list (list tree)) : strip_grp 0 sls = (0%nat, sls).
Proof. destruct sls; reflexivity. Qed.

Lemma edit_weak : forall t, edit_spec false t.
Proof.
  induction t as [k u lbl src tm grp lits alt slots IH] using tree_ind'. intros M ei Hnt.
  rewrite spl_eq. pose proof Hnt as Hnt0. cbn [nt] in Hnt.
  destruct tm; try (rewrite trn_eq; reflexivity); try reflexivity.
  all: apply andb_true_iff in Hnt as [Hg Hnt]; apply Nat.eqb_eq in Hg; subst grp.
  all: destruct (forallb is_nil slots) eqn:Enil.
  1,3: rewrite trn_eq, (all_nil_map (trslot M) slots eq_refl Enil), strip0; cbv iota beta;
       unfold new_src; cbv iota beta; try rewrite (all_nil_no_child _ Enil);
       try (destruct src as [s0|]; [rewrite andb_false_r|]; reflexivity); reflexivity.
  all: apply andb_true_iff in Hnt as [Hnt Hkids]; apply andb_true_iff in Hnt as [Hmode _];
       apply mode_eqb_eq in Hmode;
       rewrite trn_eq, strip0 in Hmode |- *;
       pose proof (fmode_not_MT k src) as HnotMT;
       cbv iota beta in Hmode |- *; cbn [src_of] in Hmode; cbn [cp]; rewrite Hmode; rewrite omapi_map; cbn [snd];
       assert (Hsame : omapi (fun i x => match child_ei k (fmode k src) ei i with
                                         | Some e => pslot (direct k i) (cp e) (trslot M x)
                                         | None => None end) 0%nat slots
                       = omapi (fun i sl => match child_ei k (fmode k src) ei i with
                                            | None => None
                                            | Some e => spl_slot false M (direct k i) e sl end) 0%nat slots).
  1,3: apply omapi_ext_in; intros j sl Hj; cbn [Nat.add];
       pose proof (forallbi_nth _ _ _ Hkids j sl Hj) as Hf; cbn [Nat.add] in Hf;
       destruct (child_ei k (fmode k src) ei j) as [e|]; [|reflexivity];
       apply slot_lemma; intros c Hin;
       pose proof (Forall_nth _ _ _ _ IH Hj) as IHsl; rewrite Forall_forall in IHsl;
       rewrite forallb_forall in Hf; specialize (Hf c Hin); split;
       [ intros EM; rewrite EM in Hf; apply (IHsl c Hin); exact Hf
       | intros rs EM Hex; rewrite EM, Hex in Hf; cbn [implb] in Hf; apply (IHsl c Hin); exact Hf ].
  all: destruct (fmode k src) eqn:Efm; [congruence| |];
       rewrite Hsame; clear Hsame;
       match goal with |- match ?o with _ => _ end = _ => destruct o as [ps|]; [|reflexivity] end;
       apply assemble_new_src.
Qed.

(** * the strong class: untouched parts are printed as their own text *)
Lemma forallbi_imp {A} (f g : nat -> A -> bool) l i :
  (forall j x, nth_error l j = Some x -> f (i + j)%nat x = true -> g (i + j)%nat x = true) ->
  forallbi f i l = true -> forallbi g i l = true.
Proof.
  intros H Hf. apply forallbi_intro. intros j x Hj. apply H; auto. eapply forallbi_nth; eauto.
Qed.

Lemma nt_weaken : forall t M ei, nt true M ei t = true -> nt false M ei t = true.
Proof.
  induction t as [k u lbl src tm grp lits alt slots IH] using tree_ind'. intros M ei Hnt.
  cbn [nt] in *. destruct tm; try reflexivity.
  all: apply andb_true_iff in Hnt as [Hg Hnt]; rewrite Hg; cbn [andb];
       destruct (forallb is_nil slots); [reflexivity|];
       apply andb_true_iff in Hnt as [Hnt Hkids]; apply andb_true_iff in Hnt as [Hmode _];
       rewrite Hmode; cbn [andb];
       revert Hkids; apply forallbi_imp; intros j sl Hj; cbn [Nat.add];
       destruct (child_ei k (fmode k src) ei j) as [e|]; [|discriminate];
       pose proof (Forall_nth _ _ _ _ IH Hj) as IHsl; rewrite Forall_forall in IHsl;
       rewrite !forallb_forall; intros Hf c Hin; specialize (Hf c Hin);
       destruct (M (uid c)) as [[|r|rs]|]; auto;
       destruct (existsb (fun r => uid r =? uid c) rs); cbn [implb] in *; auto.
Qed.

Lemma pitem_sitem dir f c : pitem dir f c = sitem dir (lbl_of c) (f c).
Proof. reflexivity. Qed.

Lemma spl_strong : forall t M ei, nt true M ei t = true -> spl false M ei t = spl true M ei t.
Proof.
  induction t as [k u lbl src tm grp lits alt slots IH] using tree_ind'. intros M ei Hnt.
  rewrite !spl_eq. cbn [nt] in Hnt.
  destruct tm; try (apply verb_cp; exact Hnt);
    try (rewrite (verb_cp _ _ Hnt); apply text_of_trn).
  all: apply andb_true_iff in Hnt as [Hg Hnt];
       destruct (forallb is_nil slots); [apply verb_cp; exact Hnt|];
       apply andb_true_iff in Hnt as [Hnt Hkids];
       assert (Hsame : omapi (fun i sl => match child_ei k (fmode k src) ei i with
                                          | None => None
                                          | Some e => spl_slot false M (direct k i) e sl end) 0%nat slots
                     = omapi (fun i sl => match child_ei k (fmode k src) ei i with
                                          | None => None
                                          | Some e => spl_slot true M (direct k i) e sl end) 0%nat slots).
  1,3: apply omapi_ext_in; intros j sl Hj; cbn [Nat.add];
       pose proof (forallbi_nth _ _ _ Hkids j sl Hj) as Hf; cbn [Nat.add] in Hf;
       destruct (child_ei k (fmode k src) ei j) as [e|]; [|reflexivity];
       pose proof (Forall_nth _ _ _ _ IH Hj) as IHsl; rewrite Forall_forall in IHsl;
       rewrite forallb_forall in Hf;
       unfold spl_slot; destruct sl as [|c0 sl']; [reflexivity|];
       rewrite (omap_ext_in (spl_child false M (direct k j) e) (spl_child true M (direct k j) e)); [reflexivity|];
       intros c Hin; specialize (Hf c Hin); unfold spl_child;
       destruct (M (uid c)) as [[|r|rs]|] eqn:EM; try reflexivity;
       [ apply omap_ext_in; intros r Hr; destruct (uid r =? uid c) eqn:Eu; [|reflexivity];
         assert (Hex : existsb (fun r => uid r =? uid c) rs = true) by (apply existsb_exists; exists r; split; assumption);
         rewrite Hex in Hf; cbn [implb] in Hf; now rewrite (IHsl c Hin M e Hf)
       | now rewrite (IHsl c Hin M e Hf) ].
  all: rewrite Hsame; reflexivity.
Qed.

Lemma src_l0_trn M t : option_map s_l0 (src_of (trn M t)) = option_map s_l0 (src_of t).
Proof.
  destruct t as [k u lbl src tm grp lits alt slots]. rewrite trn_eq.
  destruct tm; try reflexivity.
  1,2: destruct (strip_grp grp (map (trslot M) slots)) as [g' s']; cbn [src_of];
       unfold new_src; destruct src as [s|]; try reflexivity;
       destruct (is_valid s && has_node_child s'); reflexivity.
  cbn [src_of]. destruct src as [s|]; [|reflexivity]. destruct (is_valid s); reflexivity.
Qed.

Lemma untouched_children M slots :
  existsb (existsb (fun c => mapped M c || touched M c)) slots = false ->
  forall j sl c, nth_error slots j = Some sl -> In c sl -> M (uid c) = None /\ touched M c = false.
Proof.
  intros E j sl c Hj Hin.
  assert (E2 : existsb (fun c => mapped M c || touched M c) sl = false).
  { destruct (existsb (fun c => mapped M c || touched M c) sl) eqn:E3; [|reflexivity].
    assert (existsb (existsb (fun c => mapped M c || touched M c)) slots = true)
      by (apply existsb_exists; exists sl; split; [eapply nth_error_In; eauto|assumption]). congruence. }
  assert (E4 : mapped M c || touched M c = false).
  { destruct (mapped M c || touched M c) eqn:E5; [|reflexivity].
    assert (existsb (fun c => mapped M c || touched M c) sl = true) by (apply existsb_exists; exists c; split; assumption).
    congruence. }
  apply orb_false_iff in E4 as [Em Et]. split; [|assumption].
  unfold mapped in Em. destruct (M (uid c)); [discriminate|reflexivity].
Qed.

Lemma omap_single {A B} (g : A -> option B) l :
  omap (fun c => option_map (fun x => [x]) (g c)) l = option_map (map (fun x => [x])) (omap g l).
Proof.
  induction l as [|a l IH]; cbn; [reflexivity|]. rewrite IH.
  destruct (g a); [|reflexivity]. destruct (omap g l); reflexivity.
Qed.

Lemma concat_single {A} (l : list A) : List.concat (map (fun x => [x]) l) = l.
Proof. induction l; cbn; congruence. Qed.

Lemma spl_slot_untouched M dir e sl :
  (forall c, In c sl -> M (uid c) = None /\ spl true M e c = text_of c) ->
  spl_slot true M dir e sl = pslot dir text_of sl.
Proof.
  intros Hc. unfold spl_slot, pslot. destruct sl as [|c0 sl']; [reflexivity|].
  rewrite (omap_ext_in (spl_child true M dir e) (fun c => option_map (fun x => [x]) (pitem dir text_of c))).
  2:{ intros c Hin. destruct (Hc c Hin) as [EM Es]. unfold spl_child. rewrite EM, Es. reflexivity. }
  rewrite omap_single.
  destruct (omap (pitem dir text_of) (c0 :: sl')) as [ys|] eqn:Ey; [|reflexivity].
  cbn [option_map]. rewrite concat_single.
  destruct ys as [|y ys]; [apply omap_length in Ey; discriminate|]. reflexivity.
Qed.

Lemma sinfo_untouched M sl :
  (forall c, In c sl -> M (uid c) = None) -> sinfo (trslot M sl) = sinfo sl.
Proof.
  destruct sl as [|c sl]; [reflexivity|]. intros H. rewrite trslot_eq. cbn [flat_map].
  unfold tr_child at 1. rewrite (H c (or_introl eq_refl)). cbn. now rewrite src_l0_trn.
Qed.

Lemma spl_untouched : forall t M ei, nt true M ei t = true -> touched M t = false -> spl true M ei t = text_of t.
Proof.
  induction t as [k u lbl src tm grp lits alt slots IH] using tree_ind'. intros M ei Hnt Hto.
  rewrite spl_eq. cbn [nt] in Hnt. cbn [touched tm_of slots_of] in Hto.
  destruct tm; try reflexivity.
  all: apply andb_true_iff in Hnt as [Hg Hnt]; apply Nat.eqb_eq in Hg; subst grp;
       destruct (forallb is_nil slots); [reflexivity|];
       apply andb_true_iff in Hnt as [Hnt Hkids]; apply andb_true_iff in Hnt as [Hmode Ht1];
       apply andb_true_iff in Ht1 as [Hleaf Ht1];
       pose proof (untouched_children M slots Hto) as Hun;
       cbn [tiled1] in Ht1; destruct src as [s|]; [|discriminate];
       cbn [fmode] in *;
       assert (Hsame : omapi (fun i sl => match child_ei k (cmode k) ei i with
                                          | None => None
                                          | Some e => spl_slot true M (direct k i) e sl end) 0%nat slots
                     = omapi (fun i sl => pslot (direct k i) text_of sl) 0%nat slots).
  1,3: apply omapi_ext_in; intros j sl Hj; cbn [Nat.add];
       pose proof (forallbi_nth _ _ _ Hkids j sl Hj) as Hf; cbn [Nat.add] in Hf;
       destruct (child_ei k (cmode k) ei j) as [e|]; [|discriminate];
       apply spl_slot_untouched; intros c Hin;
       destruct (Hun j sl c Hj Hin) as [EM Et]; split; [assumption|];
       pose proof (Forall_nth _ _ _ _ IH Hj) as IHsl; rewrite Forall_forall in IHsl;
       rewrite forallb_forall in Hf; specialize (Hf c Hin); rewrite EM in Hf;
       apply IHsl; assumption.
  all: rewrite Hsame, strip0; cbn [snd];
       assert (Hsi : map sinfo (map (trslot M) slots) = map sinfo slots)
         by (rewrite map_map; apply map_ext_in; intros sl Hsl; apply sinfo_untouched; intros c Hin;
             destruct (In_nth_error _ _ Hsl) as [j Hj]; exact (proj1 (Hun j sl c Hj Hin)));
       rewrite Hsi, assemble_ei_opt;
       cbn [text_of src_of option_map];
       destruct k; cbn [is_leaf_kind negb] in Hleaf; try discriminate; cbv iota in Ht1;
       (destruct (omapi (fun i sl => pslot (direct _ i) text_of sl) 0%nat slots) as [ts|]; [|discriminate]);
       (match type of Ht1 with
        | match ?a with _ => _ end = true => destruct a as [x|] eqn:Ea; [|discriminate]
        end);
       apply text_eqb_eq in Ht1; subst x; first [exact Ea | reflexivity].
Qed.

(** * above the transformed sections: program units, contains-sections, the file *)
Lemma tr_eq sel M k u lbl src tm grp lits alt slots :
  tr sel M (T k u lbl src tm grp lits alt slots) =
  if sel u then trn M (T k u lbl src tm grp lits alt slots)
  else if has_sel sel (T k u lbl src tm grp lits alt slots)
       then T k u lbl (set_children_invalid src) tm grp lits alt (map (map (tr sel M)) slots)
       else T k u lbl src tm grp lits alt slots.
Proof. reflexivity. Qed.

Lemma splp_eq strong sel M k u lbl src tm grp lits alt slots :
  splp strong sel M (T k u lbl src tm grp lits alt slots) =
  if sel u then spl strong M false (T k u lbl src tm grp lits alt slots)
  else if has_sel sel (T k u lbl src tm grp lits alt slots) then
    match omapi (fun i sl => match child_ei k (fmode k src) false i with
                             | Some e => if e then None else pslot (direct k i) (splp strong sel M) sl
                             | None => None
                             end) 0%nat slots with
    | Some ps => assemble k src lits alt (map sinfo (map (map (tr sel M)) slots)) (fmode k src) false ps
    | None => None
    end
  else if strong then text_of (T k u lbl src tm grp lits alt slots) else cp false (T k u lbl src tm grp lits alt slots).
Proof. reflexivity. Qed.

Lemma ntp_eq strong sel M k u lbl src tm grp lits alt slots :
  ntp strong sel M (T k u lbl src tm grp lits alt slots) =
  if sel u then nt strong M false (T k u lbl src tm grp lits alt slots)
  else if has_sel sel (T k u lbl src tm grp lits alt slots) then
    mode_eqb (mode_of k (set_children_invalid src)) (fmode k src) &&
    (if strong then negb (is_leaf_kind k) && tiled1 (T k u lbl src tm grp lits alt slots) else true) &&
    forallbi (fun i sl => match child_ei k (fmode k src) false i with
                          | Some false => forallb (ntp strong sel M) sl
                          | _ => false
                          end) 0%nat slots
  else if strong then verb false (T k u lbl src tm grp lits alt slots) else true.
Proof. reflexivity. Qed.

Lemma lbl_tr sel M t : lbl_of (tr sel M t) = lbl_of t.
Proof.
  destruct t as [k u lbl src tm grp lits alt slots]. rewrite tr_eq.
  destruct (sel u); [apply lbl_trn|]. destruct (has_sel sel _); reflexivity.
Qed.

Lemma pslot_map dir (f : tree -> option text) (h : tree -> tree) sl :
  (forall c, lbl_of (h c) = lbl_of c) -> pslot dir f (map h sl) = pslot dir (fun c => f (h c)) sl.
Proof.
  intros Hl. unfold pslot. destruct sl as [|c0 sl']; [reflexivity|]. cbn [map].
  change (h c0 :: map h sl') with (map h (c0 :: sl')). rewrite omap_map.
  rewrite (omap_ext_in (fun x => pitem dir f (h x)) (pitem dir (fun c => f (h c)))); [reflexivity|].
  intros c _. unfold pitem. now rewrite Hl.
Qed.

Lemma assemble_set k src lits alt si md ei ps :
  assemble k (set_children_invalid src) lits alt si md ei ps = assemble k src lits alt si md ei ps.
Proof. destruct src as [s|]; [apply assemble_status|reflexivity]. Qed.

Lemma edit_weak_p : forall t sel M, ntp false sel M t = true -> cp false (tr sel M t) = splp false sel M t.
Proof.
  induction t as [k u lbl src tm grp lits alt slots IH] using tree_ind'. intros sel M Hnt.
  rewrite tr_eq, splp_eq. rewrite ntp_eq in Hnt.
  destruct (sel u); [apply edit_weak; exact Hnt|].
  destruct (has_sel sel _); [|reflexivity].
  apply andb_true_iff in Hnt as [Hnt Hkids]. apply andb_true_iff in Hnt as [Hmode _]. apply mode_eqb_eq in Hmode.
  cbn [cp]. rewrite Hmode. pose proof (fmode_not_MT k src) as HnotMT.
  rewrite omapi_map.
  assert (Hsame : omapi (fun i x => match child_ei k (fmode k src) false i with
                                    | Some e => pslot (direct k i) (cp e) (map (tr sel M) x)
                                    | None => None end) 0%nat slots
                  = omapi (fun i sl => match child_ei k (fmode k src) false i with
                                       | Some e => if e then None else pslot (direct k i) (splp false sel M) sl
                                       | None => None end) 0%nat slots).
  { apply omapi_ext_in. intros j sl Hj. cbn [Nat.add].
    pose proof (forallbi_nth _ _ _ Hkids j sl Hj) as Hf. cbn [Nat.add] in Hf.
    destruct (child_ei k (fmode k src) false j) as [[|]|]; try discriminate.
    rewrite pslot_map by (intros; apply lbl_tr). apply pslot_ext. intros c Hin.
    pose proof (Forall_nth _ _ _ _ IH Hj) as IHsl. rewrite Forall_forall in IHsl.
    rewrite forallb_forall in Hf. apply IHsl; auto. }
  destruct (fmode k src) eqn:Efm; [congruence| |]; rewrite Hsame;
    match goal with |- match ?o with _ => _ end = _ => destruct o as [ps|]; [|reflexivity] end;
    apply assemble_set.
Qed.

Lemma ntp_weaken : forall t sel M, ntp true sel M t = true -> ntp false sel M t = true.
Proof.
  induction t as [k u lbl src tm grp lits alt slots IH] using tree_ind'. intros sel M Hnt.
  rewrite ntp_eq in *. destruct (sel u); [apply nt_weaken; exact Hnt|].
  destruct (has_sel sel _); [|reflexivity].
  apply andb_true_iff in Hnt as [Hnt Hkids]. apply andb_true_iff in Hnt as [Hmode _].
  rewrite Hmode. cbn [andb]. revert Hkids. apply forallbi_imp. intros j sl Hj. cbn [Nat.add].
  destruct (child_ei k (fmode k src) false j) as [[|]|]; try discriminate.
  pose proof (Forall_nth _ _ _ _ IH Hj) as IHsl. rewrite Forall_forall in IHsl.
  rewrite !forallb_forall. intros Hf c Hin. apply IHsl; auto.
Qed.

Lemma splp_strong : forall t sel M, ntp true sel M t = true -> splp false sel M t = splp true sel M t.
Proof.
  induction t as [k u lbl src tm grp lits alt slots IH] using tree_ind'. intros sel M Hnt.
  rewrite !splp_eq. rewrite ntp_eq in Hnt.
  destruct (sel u); [apply spl_strong; exact Hnt|].
  destruct (has_sel sel _); [|apply verb_cp; exact Hnt].
  apply andb_true_iff in Hnt as [Hnt Hkids].
  assert (Hsame : omapi (fun i sl => match child_ei k (fmode k src) false i with
                                     | Some e => if e then None else pslot (direct k i) (splp false sel M) sl
                                     | None => None end) 0%nat slots
                  = omapi (fun i sl => match child_ei k (fmode k src) false i with
                                       | Some e => if e then None else pslot (direct k i) (splp true sel M) sl
                                       | None => None end) 0%nat slots).
  { apply omapi_ext_in. intros j sl Hj. cbn [Nat.add].
    pose proof (forallbi_nth _ _ _ Hkids j sl Hj) as Hf. cbn [Nat.add] in Hf.
    destruct (child_ei k (fmode k src) false j) as [[|]|]; try discriminate.
    apply pslot_ext. intros c Hin.
    pose proof (Forall_nth _ _ _ _ IH Hj) as IHsl. rewrite Forall_forall in IHsl.
    rewrite forallb_forall in Hf. apply IHsl; auto. }
  now rewrite Hsame.
Qed.

(** * invalidation *)
Lemma invalidation_sound M k u lbl s grp lits alt slots :
  has_node_child (slots_of (trn M (T k u lbl (Some s) TN grp lits alt slots))) = true ->
  forall s', src_of (trn M (T k u lbl (Some s) TN grp lits alt slots)) = Some s' -> is_valid s' = false.
Proof.
  rewrite trn_eq. destruct (strip_grp grp (map (trslot M) slots)) as [g' sl'] eqn:Es.
  cbn [slots_of src_of new_src]. intros Hc s' Hs. rewrite Hc, andb_true_r in Hs.
  destruct (is_valid s) eqn:Ev; inversion Hs; subst; [reflexivity|assumption].
Qed.

(** * statements used by T_C03 *)
Lemma local_edit_text M ei t : nt true M ei t = true -> cp ei (trn M t) = spl true M ei t.
Proof. intros H. rewrite (edit_weak t M ei (nt_weaken t M ei H)). apply spl_strong. exact H. Qed.

Lemma untouched_verbatim M ei t : nt true M ei t = true -> touched M t = false -> cp ei (trn M t) = text_of t.
Proof. intros H Ht. rewrite local_edit_text by assumption. apply spl_untouched; assumption. Qed.

Lemma local_edit_file_text sel M t : ntp true sel M t = true -> cp false (tr sel M t) = splp true sel M t.
Proof. intros H. rewrite (edit_weak_p t sel M (ntp_weaken t sel M H)). apply splp_strong. exact H. Qed.

Lemma tiling_verbatim t ei : tiled t = true -> all_valid t = true -> cp ei t = text_of t.
Proof. intros H1 H2. apply verb_cp. apply tiled_valid_verb. now rewrite H1, H2. Qed.

Lemma over_invalidation_harmless t : tiled t = true -> okstatus t = true -> ei_free t = true -> cp false t = text_of t.
Proof. intros H1 H2 H3. apply verb_cp. apply tiled_ok_verb. now rewrite H1, H2, H3. Qed.

Lemma touched_nomap : forall t, touched (fun _ => None) t = false.
Proof.
  induction t as [k u lbl src tm grp lits alt slots IH] using tree_ind'.
  cbn [touched tm_of slots_of]. destruct tm; try reflexivity.
  all: induction IH as [|sl r Hsl _ IHr]; cbn [existsb]; [reflexivity|]; rewrite IHr, orb_false_r;
       induction Hsl as [|c l Hc _ IHl]; cbn [existsb]; [reflexivity|]; rewrite IHl, orb_false_r;
       unfold mapped; cbn; exact Hc.
Qed.

Lemma identity_pass_on_class ei t : nt true (fun _ => None) ei t = true -> cp ei (trn (fun _ => None) t) = text_of t.
Proof. intros H. apply untouched_verbatim; [exact H|apply touched_nomap]. Qed.
