(** C24 — the plan lists of CMakePlanTransformation and pipelines of item-set effects (model M_C24). *)
From Coq Require Import List Bool String Ascii Arith Permutation.
From LV Require Import models.M_C24 proofs.P_C24_path.
Import ListNotations.
Open Scope string_scope.
Open Scope list_scope.

(** * insertion-ordered dictionaries of lists *)

Lemma key_eqb_eq a b : key_eqb a b = true <-> a = b.
Proof.
  destruct a as [x|], b as [y|]; cbn; try (split; [discriminate|congruence]).
  - rewrite String.eqb_eq. split; congruence.
  - split; reflexivity.
Qed.

Lemma key_eqb_refl a : key_eqb a a = true.
Proof. now apply key_eqb_eq. Qed.

Lemma key_eqb_neq a b : key_eqb a b = false <-> a <> b.
Proof. rewrite <- key_eqb_eq. destruct (key_eqb a b); split; congruence. Qed.

Lemma flat_cons k vs r : flat ((k, vs) :: r) = vs ++ flat r.
Proof. reflexivity. Qed.

Lemma flat_al_add k v l : Permutation (flat (al_add k v l)) (flat l ++ [v]).
Proof.
  induction l as [|[k' vs] r IH]; cbn [al_add].
  - cbn. apply Permutation_refl.
  - destruct (key_eqb k' k).
    + rewrite !flat_cons. rewrite <- !app_assoc.
      apply Permutation_app_head, Permutation_app_comm.
    + rewrite !flat_cons, <- app_assoc. now apply Permutation_app_head.
Qed.

Lemma al_get_add_same k v l : al_get k (al_add k v l) = al_get k l ++ [v].
Proof.
  induction l as [|[k' vs] r IH]; cbn [al_add al_get].
  - now rewrite key_eqb_refl.
  - destruct (key_eqb k' k) eqn:E; cbn [al_get]; rewrite E; [reflexivity|exact IH].
Qed.

Lemma al_get_add_other k k2 v l : k2 <> k -> al_get k2 (al_add k v l) = al_get k2 l.
Proof.
  intros N. induction l as [|[k' vs] r IH]; cbn [al_add al_get].
  - apply key_eqb_neq in N. destruct (key_eqb k k2) eqn:E; [|reflexivity].
    apply key_eqb_eq in E. apply key_eqb_neq in N. congruence.
  - destruct (key_eqb k' k) eqn:E; cbn [al_get].
    + apply key_eqb_eq in E as ->. destruct (key_eqb k k2) eqn:E2; [|reflexivity].
      apply key_eqb_eq in E2. congruence.
    + destruct (key_eqb k' k2); [reflexivity|exact IH].
Qed.

Lemma al_get_add k k2 v l : al_get k2 (al_add k v l) = al_get k2 l ++ (if key_eqb k k2 then [v] else []).
Proof.
  destruct (key_eqb k k2) eqn:E.
  - apply key_eqb_eq in E as ->. apply al_get_add_same.
  - rewrite app_nil_r. apply al_get_add_other. apply key_eqb_neq in E. congruence.
Qed.

(** keys stay distinct, hence the flattened list is the union of the per-library lists *)
Definition keys (l : alist) : list key := map fst l.

Lemma keys_al_add k v l : keys (al_add k v l) = if existsb (fun k' => key_eqb k' k) (keys l) then keys l else keys l ++ [k].
Proof.
  induction l as [|[k' vs] r IH]; cbn [al_add keys map existsb fst]; [reflexivity|].
  destruct (key_eqb k' k) eqn:E; cbn [map fst orb]; [reflexivity|].
  fold (keys (al_add k v r)). fold (keys r). rewrite IH. destruct (existsb _ (keys r)); reflexivity.
Qed.

Lemma NoDup_keys_al_add k v l : NoDup (keys l) -> NoDup (keys (al_add k v l)).
Proof.
  intros H. rewrite keys_al_add. destruct (existsb _ (keys l)) eqn:E; [assumption|].
  apply Permutation_NoDup with (l := k :: keys l); [apply Permutation_cons_append|].
  constructor; [|assumption]. intros I.
  assert (existsb (fun k' => key_eqb k' k) (keys l) = true) by (apply existsb_exists; exists k; split; [assumption|apply key_eqb_refl]).
  congruence.
Qed.

Lemma in_flat_iff l x : NoDup (keys l) -> (In x (flat l) <-> exists k, In x (al_get k l)).
Proof.
  induction l as [|[k vs] r IH]; intros ND.
  - cbn. split; [contradiction|intros [k []]].
  - inversion ND as [|? ? Hk ND']; subst. rewrite flat_cons, in_app_iff, (IH ND'). cbn [al_get]. split.
    + intros [H|[k2 H]].
      * exists k. now rewrite key_eqb_refl.
      * exists k2. destruct (key_eqb k k2) eqn:E; [|assumption].
        apply key_eqb_eq in E as <-. exfalso. apply Hk.
        clear -H. induction r as [|[k' vs'] r IH]; [contradiction|]. cbn [al_get] in H. cbn.
        destruct (key_eqb k' k) eqn:E; [left; now apply key_eqb_eq|right; now apply IH].
    + intros [k2 H]. destruct (key_eqb k k2); [now left|right; now exists k2].
Qed.

(** * the planner *)

Definition tr_of (root : option string) (i : fitem) : list string :=
  (if f_exists i then match rel root (f_path i) (f_res i) with Some s => [s] | None => [] end else []) ++
  (if f_repl i && (f_oexists i && negb (f_exists i))
   then match rel root (f_orig i) (f_ores i) with Some s => [s] | None => [] end else []).
Definition ap_of (cfg : fwcfg) (i : fitem) : list string :=
  match file_path cfg i with Some n => [n] | None => [] end.
Definition rm_of (root : option string) (i : fitem) : list string :=
  if f_exists i && negb (f_repl i) then match rel root (f_path i) (f_res i) with Some s => [s] | None => [] end else [].

Definition for_key (k : key) (i : fitem) (l : list string) : list string := if key_eqb (f_lib i) k then l else [].

(** one visited item: what is appended to each per-library list *)
Lemma plan_item_visited root cfg st i st' :
  visited i = true -> plan_item root cfg st i = Some st' ->
  (exists n, file_path cfg i = Some n) /\
  (forall k, al_get k (p_tr st') = al_get k (p_tr st) ++ for_key k i (tr_of root i)) /\
  (forall k, al_get k (p_ap st') = al_get k (p_ap st) ++ for_key k i (ap_of cfg i)) /\
  (forall k, al_get k (p_rm st') = al_get k (p_rm st) ++ for_key k i (rm_of root i)) /\
  Permutation (flat (p_tr st')) (flat (p_tr st) ++ tr_of root i) /\
  Permutation (flat (p_ap st')) (flat (p_ap st) ++ ap_of cfg i) /\
  Permutation (flat (p_rm st')) (flat (p_rm st) ++ rm_of root i) /\
  (NoDup (keys (p_tr st)) -> NoDup (keys (p_tr st'))) /\
  (NoDup (keys (p_ap st)) -> NoDup (keys (p_ap st'))) /\
  (NoDup (keys (p_rm st)) -> NoDup (keys (p_rm st'))).
Proof.
  intros V. unfold plan_item, tr_of, ap_of, rm_of, for_key. rewrite V. cbn [negb].
  destruct (file_path cfg i) as [n|] eqn:En; [|discriminate].
  destruct (rel root (f_path i) (f_res i)) as [src|] eqn:Es; [|discriminate].
  destruct (f_repl i) eqn:Er.
  - destruct (rel root (f_orig i) (f_ores i)) as [osrc|] eqn:Eo; [|discriminate].
    intros H; inversion H; subst; clear H.
    destruct (f_exists i) eqn:Ex, (f_oexists i) eqn:Eox; cbn [andb negb add_tr add_ap add_rm p_tr p_ap p_rm app];
      (split; [eauto|]);
      repeat split; intros;
      rewrite ?al_get_add, ?app_nil_r; try reflexivity;
      try (destruct (key_eqb (f_lib i) k); rewrite ?app_nil_r; reflexivity);
      try apply flat_al_add; try apply Permutation_refl;
      try (now repeat apply NoDup_keys_al_add).
  - intros H.
    destruct (f_exists i) eqn:Ex; inversion H; subst; clear H;
      cbn [andb negb add_tr add_ap add_rm p_tr p_ap p_rm app];
      (split; [eauto|]);
      repeat split; intros;
      rewrite ?al_get_add, ?app_nil_r; try reflexivity;
      try (destruct (key_eqb (f_lib i) k); rewrite ?app_nil_r; reflexivity);
      try apply flat_al_add; try apply Permutation_refl;
      try (now repeat apply NoDup_keys_al_add).
Qed.

Lemma plan_item_unvisited root cfg st i : visited i = false -> plan_item root cfg st i = Some st.
Proof. intros V. unfold plan_item. now rewrite V. Qed.

Definition vis (s : list fitem) : list fitem := filter visited s.

Lemma plan_all_spec root cfg items : forall st P,
  plan_all root cfg st items = Some P ->
  (forall i, In i (vis items) -> exists n, file_path cfg i = Some n) /\
  (forall k, al_get k (p_tr P) = al_get k (p_tr st) ++ flat_map (fun i => for_key k i (tr_of root i)) (vis items)) /\
  (forall k, al_get k (p_ap P) = al_get k (p_ap st) ++ flat_map (fun i => for_key k i (ap_of cfg i)) (vis items)) /\
  (forall k, al_get k (p_rm P) = al_get k (p_rm st) ++ flat_map (fun i => for_key k i (rm_of root i)) (vis items)) /\
  Permutation (flat (p_tr P)) (flat (p_tr st) ++ flat_map (tr_of root) (vis items)) /\
  Permutation (flat (p_ap P)) (flat (p_ap st) ++ flat_map (ap_of cfg) (vis items)) /\
  Permutation (flat (p_rm P)) (flat (p_rm st) ++ flat_map (rm_of root) (vis items)) /\
  (NoDup (keys (p_tr st)) -> NoDup (keys (p_tr P))) /\
  (NoDup (keys (p_ap st)) -> NoDup (keys (p_ap P))) /\
  (NoDup (keys (p_rm st)) -> NoDup (keys (p_rm P))).
Proof.
  induction items as [|i r IH]; intros st P H.
  - cbn in H. inversion H; subst. cbn. rewrite !app_nil_r.
    repeat split; intros; rewrite ?app_nil_r; try reflexivity; try contradiction; try apply Permutation_refl; assumption.
  - cbn [plan_all] in H. destruct (plan_item root cfg st i) as [st1|] eqn:E1; [|discriminate].
    destruct (IH _ _ H) as (I0 & I1 & I2 & I3 & I4 & I5 & I6 & I7 & I8 & I9).
    unfold vis in *. cbn [filter]. destruct (visited i) eqn:V.
    + destruct (plan_item_visited _ _ _ _ _ V E1) as (J0 & J1 & J2 & J3 & J4 & J5 & J6 & J7 & J8 & J9).
      cbn [flat_map]. repeat split.
      * intros j [<-|Hj]; [exact J0|now apply I0].
      * intros k. now rewrite I1, J1, app_assoc.
      * intros k. now rewrite I2, J2, app_assoc.
      * intros k. now rewrite I3, J3, app_assoc.
      * rewrite app_assoc. eapply Permutation_trans; [exact I4|]. now apply Permutation_app_tail.
      * rewrite app_assoc. eapply Permutation_trans; [exact I5|]. now apply Permutation_app_tail.
      * rewrite app_assoc. eapply Permutation_trans; [exact I6|]. now apply Permutation_app_tail.
      * auto.
      * auto.
      * auto.
    + rewrite (plan_item_unvisited _ _ _ _ V) in E1. inversion E1; subst.
      repeat split; auto.
Qed.

(** ** the appended list is what the conversion writes (same item list) *)
Lemma somes_map_some (l : list fitem) cfg :
  (forall i, In i l -> exists n, file_path cfg i = Some n) ->
  somes (map (file_path cfg) l) = Some (flat_map (ap_of cfg) l).
Proof.
  induction l as [|i r IH]; intros H; [reflexivity|].
  cbn [map somes flat_map]. destruct (H i (or_introl eq_refl)) as [n En].
  unfold ap_of at 1. rewrite En. rewrite IH; [reflexivity|]. intros j Hj. apply H. now right.
Qed.

Lemma append_is_written root cfg items P :
  run_planner root cfg items = Some P ->
  exists w, somes (written cfg items) = Some w /\ Permutation (flat (p_ap P)) w.
Proof.
  intros H. destruct (plan_all_spec _ _ _ _ _ H) as (I0 & _ & _ & _ & _ & I5 & _).
  exists (flat_map (ap_of cfg) (vis items)). split.
  - unfold written. now apply somes_map_some.
  - exact I5.
Qed.

Lemma in_somes l w x : somes l = Some w -> (In x w <-> In (Some x) l).
Proof.
  revert w. induction l as [|[y|] r IH]; cbn; intros w H.
  - inversion H; subst. tauto.
  - destruct (somes r) as [t|]; [|discriminate]. inversion H; subst. cbn. rewrite (IH _ eq_refl).
    split; intros [E|E]; auto; [left; congruence|left; congruence].
  - discriminate.
Qed.

Lemma append_in_iff_written root cfg items P :
  run_planner root cfg items = Some P ->
  forall p, In p (flat (p_ap P)) <-> In (Some p) (written cfg items).
Proof.
  intros H p. destruct (append_is_written _ _ _ _ H) as (w & Hw & Pw).
  rewrite <- (in_somes _ _ _ Hw). split; apply Permutation_in; [assumption|now apply Permutation_sym].
Qed.

(** ** sources to transform / remove *)
Lemma in_tr_of root i p :
  In p (tr_of root i) <->
  (f_exists i = true /\ rel root (f_path i) (f_res i) = Some p) \/
  (f_repl i = true /\ f_oexists i = true /\ f_exists i = false /\ rel root (f_orig i) (f_ores i) = Some p).
Proof.
  unfold tr_of. rewrite in_app_iff. split.
  - intros [H|H].
    + destruct (f_exists i); [|contradiction]. destruct (rel _ _ _); [|contradiction].
      destruct H as [<-|[]]. now left.
    + destruct (f_repl i), (f_oexists i), (f_exists i); cbn in H; try contradiction.
      destruct (rel root (f_orig i) _); [|contradiction]. destruct H as [<-|[]]. right. auto.
  - intros [[E R]|(E1 & E2 & E3 & R)].
    + left. rewrite E, R. now left.
    + right. rewrite E1, E2, E3, R. now left.
Qed.

Lemma in_rm_of root i p :
  In p (rm_of root i) <-> f_exists i = true /\ f_repl i = false /\ rel root (f_path i) (f_res i) = Some p.
Proof.
  unfold rm_of. split.
  - destruct (f_exists i), (f_repl i); cbn; try contradiction.
    destruct (rel _ _ _); [|contradiction]. intros [<-|[]]. auto.
  - intros (E1 & E2 & R). rewrite E1, E2, R. now left.
Qed.

Lemma to_transform_spec root cfg items P :
  run_planner root cfg items = Some P ->
  forall p, In p (flat (p_tr P)) <->
    exists i, In i items /\ visited i = true /\
      ((f_exists i = true /\ rel root (f_path i) (f_res i) = Some p) \/
       (f_repl i = true /\ f_oexists i = true /\ f_exists i = false /\ rel root (f_orig i) (f_ores i) = Some p)).
Proof.
  intros H p. destruct (plan_all_spec _ _ _ _ _ H) as (_ & _ & _ & _ & I4 & _).
  cbn in I4. split.
  - intros Hp. apply (Permutation_in _ I4) in Hp. apply in_flat_map in Hp as (i & Hi & Hp).
    apply filter_In in Hi as [Hi V]. exists i. repeat split; auto. now apply in_tr_of.
  - intros (i & Hi & V & Hc). apply (Permutation_in _ (Permutation_sym I4)). apply in_flat_map.
    exists i. split; [apply filter_In; now split|now apply in_tr_of].
Qed.

Lemma to_remove_spec root cfg items P :
  run_planner root cfg items = Some P ->
  forall p, In p (flat (p_rm P)) <->
    exists i, In i items /\ visited i = true /\ f_exists i = true /\ f_repl i = false /\
              rel root (f_path i) (f_res i) = Some p.
Proof.
  intros H p. destruct (plan_all_spec _ _ _ _ _ H) as (_ & _ & _ & _ & _ & _ & I6 & _).
  cbn in I6. split.
  - intros Hp. apply (Permutation_in _ I6) in Hp. apply in_flat_map in Hp as (i & Hi & Hp).
    apply filter_In in Hi as [Hi V]. exists i. apply in_rm_of in Hp. tauto.
  - intros (i & Hi & V & Hc). apply (Permutation_in _ (Permutation_sym I6)). apply in_flat_map.
    exists i. split; [apply filter_In; now split|now apply in_rm_of].
Qed.

Lemma remove_subset_transform root cfg items P :
  run_planner root cfg items = Some P -> incl (flat (p_rm P)) (flat (p_tr P)).
Proof.
  intros H p Hp. apply (to_remove_spec _ _ _ _ H) in Hp as (i & Hi & V & E1 & E2 & R).
  apply (to_transform_spec _ _ _ _ H). exists i. repeat split; auto.
Qed.

(** ** per-library sections *)
Lemma per_lib_append root cfg items P k :
  run_planner root cfg items = Some P ->
  forall p, In p (al_get k (p_ap P)) <->
    exists i, In i items /\ visited i = true /\ f_lib i = k /\ file_path cfg i = Some p.
Proof.
  intros H p. destruct (plan_all_spec _ _ _ _ _ H) as (_ & _ & I2 & _). rewrite I2. cbn [plan0 p_ap al_get app].
  rewrite in_flat_map. split.
  - intros (i & Hi & Hp). apply filter_In in Hi as [Hi V]. unfold for_key in Hp.
    destruct (key_eqb (f_lib i) k) eqn:E; [|contradiction]. apply key_eqb_eq in E.
    unfold ap_of in Hp. destruct (file_path cfg i) eqn:F; [|contradiction]. destruct Hp as [<-|[]].
    exists i. auto.
  - intros (i & Hi & V & <- & F). exists i. split; [apply filter_In; now split|].
    unfold for_key, ap_of. rewrite key_eqb_refl, F. now left.
Qed.

Lemma flat_is_union_of_libs root cfg items P :
  run_planner root cfg items = Some P ->
  forall p, (In p (flat (p_ap P)) <-> exists k, In p (al_get k (p_ap P))) /\
            (In p (flat (p_tr P)) <-> exists k, In p (al_get k (p_tr P))) /\
            (In p (flat (p_rm P)) <-> exists k, In p (al_get k (p_rm P))).
Proof.
  intros H p. destruct (plan_all_spec _ _ _ _ _ H) as (_ & _ & _ & _ & _ & _ & _ & N1 & N2 & N3).
  repeat split; apply in_flat_iff; (apply N1 || apply N2 || apply N3); constructor.
Qed.

(** ** when the planner raises *)
Lemma planner_fails_iff root cfg items :
  run_planner root cfg items = None <->
  exists i, In i items /\ visited i = true /\
    (file_path cfg i = None \/ rel root (f_path i) (f_res i) = None \/
     (f_repl i = true /\ rel root (f_orig i) (f_ores i) = None)).
Proof.
  unfold run_planner. generalize plan0. induction items as [|i r IH]; intros st; cbn [plan_all].
  - split; [discriminate|intros (i & [] & _)].
  - destruct (plan_item root cfg st i) as [st1|] eqn:E.
    + rewrite IH. split.
      * intros (j & Hj & R). exists j. split; [now right|exact R].
      * intros (j & [Ej|Hj] & V & R); [subst j|exists j; auto]. exfalso.
        unfold plan_item in E. rewrite V in E. cbn [negb] in E.
        destruct R as [R|[R|[R1 R2]]].
        -- now rewrite R in E.
        -- destruct (file_path cfg i); [|discriminate]. now rewrite R in E.
        -- destruct (file_path cfg i); [|discriminate]. destruct (rel root (f_path i) _); [|discriminate].
           now rewrite R1, R2 in E.
    + split; [intros _|reflexivity]. exists i. split; [now left|].
      unfold plan_item in E. destruct (visited i) eqn:V; [|discriminate]. split; [reflexivity|]. cbn [negb] in E.
      destruct (file_path cfg i); [|now left]. right.
      destruct (rel root (f_path i) _); [|now left]. right.
      destruct (f_repl i); [|destruct (f_exists i); discriminate].
      split; [reflexivity|]. destruct (rel root (f_orig i) _); [discriminate|reflexivity].
Qed.

(** * pipelines *)

Lemma weq_refl s : weq s s. Proof. intros k; tauto. Qed.
Lemma weq_sym s t : weq s t -> weq t s. Proof. intros H k; now rewrite (H k). Qed.
Lemma weq_trans s t u : weq s t -> weq t u -> weq s u. Proof. intros H1 H2 k; now rewrite (H1 k), (H2 k). Qed.

Lemma in_written_iff cfg s o :
  In o (written cfg s) <-> exists p m, In (p, m, true) (map ikey s) /\ file_path_k cfg p m = o.
Proof.
  unfold written. rewrite in_map_iff. split.
  - intros (i & <- & Hi). apply filter_In in Hi as [Hi V]. exists (f_path i), (f_mode i). split; [|reflexivity].
    apply in_map_iff. exists i. split; [unfold ikey; now rewrite V|assumption].
  - intros (p & m & Hk & <-). apply in_map_iff in Hk as (i & E & Hi). unfold ikey in E. inversion E; subst.
    exists i. split; [reflexivity|]. apply filter_In. now split.
Qed.

Lemma weq_written cfg s s' : weq s s' -> forall o, In o (written cfg s) <-> In o (written cfg s').
Proof.
  intros W o. rewrite !in_written_iff. split; intros (p & m & Hk & E); exists p, m; (split; [|exact E]); now apply W.
Qed.

Lemma run_weq pipe : Forall agrees pipe -> forall s s', weq s s' -> weq (run t_plan pipe s) (run t_conv pipe s').
Proof.
  unfold run. induction 1 as [|T r HT _ IH]; intros s s' W; cbn [fold_left]; [exact W|].
  apply IH. now apply HT.
Qed.

(** the main statement: if every transformation of the pipeline changes the item set in planning mode as it does in
    conversion mode, the plan's sources to append are exactly the files the conversion writes *)
Theorem plan_append_eq_written root cfg pipe s s' P :
  Forall agrees pipe -> weq s s' ->
  run_planner root cfg (run t_plan pipe s) = Some P ->
  forall p, In p (flat (p_ap P)) <-> In (Some p) (written cfg (run t_conv pipe s')).
Proof.
  intros HA W H p. rewrite (append_in_iff_written _ _ _ _ H).
  apply weq_written. now apply run_weq.
Qed.

(** as multisets when both runs reach the same item list *)
Theorem plan_append_perm_written root cfg pipe s P :
  run t_plan pipe s = run t_conv pipe s ->
  run_planner root cfg (run t_plan pipe s) = Some P ->
  exists w, somes (written cfg (run t_conv pipe s)) = Some w /\ Permutation (flat (p_ap P)) w.
Proof. intros E H. rewrite <- E. now apply (append_is_written root). Qed.

(** ** the concrete effects satisfy the hypothesis *)
Lemma agrees_keep : agrees T_keep.
Proof. intros s s' W. exact W. Qed.

Lemma mem_str_In p l : mem_str p l = true <-> In p l.
Proof.
  induction l as [|q r IH]; cbn; [split; [discriminate|contradiction]|].
  rewrite orb_true_iff, String.eqb_eq, IH. tauto.
Qed.

Lemma in_ikey_filter_path (f : string -> bool) s k :
  In k (map ikey (filter (fun i => f (f_path i)) s)) <-> In k (map ikey s) /\ f (fst (fst k)) = true.
Proof.
  rewrite !in_map_iff. split.
  - intros (i & <- & Hi). apply filter_In in Hi as [Hi F]. split; [exists i; auto|exact F].
  - intros [(i & <- & Hi) F]. exists i. split; [reflexivity|]. apply filter_In. now split.
Qed.

Lemma agrees_drop ps : agrees (T_drop ps).
Proof.
  intros s s' W k. cbn [t_plan t_conv T_drop]. unfold eff_drop.
  rewrite (in_ikey_filter_path (fun p => negb (mem_str p ps))), (in_ikey_filter_path (fun p => negb (mem_str p ps))).
  now rewrite (W k).
Qed.

Lemma mem_path_ikey p s : mem_path p s = true <-> exists m v, In (p, m, v) (map ikey s).
Proof.
  induction s as [|i r IH]; cbn [mem_path map In].
  - split; [discriminate|intros (m & v & [])].
  - rewrite orb_true_iff, String.eqb_eq, IH. split.
    + intros [<-|(m & v & H)]; [exists (f_mode i), (visited i); now left|exists m, v; now right].
    + intros (m & v & [E|H]); [left; unfold ikey in E; congruence|right; eauto].
Qed.

Lemma weq_mem_path p s s' : weq s s' -> mem_path p s = mem_path p s'.
Proof.
  intros W. destruct (mem_path p s) eqn:E, (mem_path p s') eqn:E'; try reflexivity.
  - apply mem_path_ikey in E as (m & v & H). apply W in H.
    assert (mem_path p s' = true) by (apply mem_path_ikey; eauto). congruence.
  - apply mem_path_ikey in E' as (m & v & H). apply W in H.
    assert (mem_path p s = true) by (apply mem_path_ikey; eauto). congruence.
Qed.

Lemma weq_app_one s s' n : weq s s' -> weq (s ++ [n]) (s' ++ [n]).
Proof. intros W k. rewrite !map_app, !in_app_iff. now rewrite (W k). Qed.

Lemma agrees_create news : agrees (T_create news).
Proof.
  cbn. induction news as [|n r IH]; intros s s' W; cbn [t_plan t_conv T_create eff_create]; [exact W|].
  apply IH. rewrite (weq_mem_path _ _ _ W). destruct (mem_path (f_path n) s'); [exact W|now apply weq_app_one].
Qed.

(** ** a pipeline of the concrete effects, and a pipeline outside the hypothesis *)
Inductive builtin : trafo -> Prop :=
| B_keep : builtin T_keep
| B_create news : builtin (T_create news)
| B_drop ps : builtin (T_drop ps).

Lemma builtin_agrees T : builtin T -> agrees T.
Proof. destruct 1; [apply agrees_keep|apply agrees_create|apply agrees_drop]. Qed.

Corollary builtin_pipeline_plan_eq_written root cfg pipe s P :
  Forall builtin pipe ->
  run_planner root cfg (run t_plan pipe s) = Some P ->
  forall p, In p (flat (p_ap P)) <-> In (Some p) (written cfg (run t_conv pipe s)).
Proof.
  intros HB. apply plan_append_eq_written; [|apply weq_refl].
  eapply Forall_impl; [|exact HB]. apply builtin_agrees.
Qed.

(** example / witness data: driver, a module kernel, a free kernel *)
Definition ex_cfg := mk_fwcfg None (Some "/R/build").
Definition ex_drv := mk_fitem "/R/src/driver.F90" true "/R/src/driver.F90" "/R/src/driver.F90" true "/R/src/driver.F90" false None (Some "idem") false true.
Definition ex_k1 := mk_fitem "/R/src/k1_mod.F90" true "/R/src/k1_mod.F90" "/R/src/k1_mod.F90" true "/R/src/k1_mod.F90" true (Some "lib.a") (Some "idem") false true.
Definition ex_k2 := mk_fitem "/R/src/sub/k2.f90" true "/R/src/sub/k2.f90" "/R/src/sub/k2.f90" true "/R/src/sub/k2.f90" false None (Some "scc-stack") false true.
Definition ex_hdr := mk_fitem "/R/src/hdr_mod.F90" true "/R/src/hdr_mod.F90" "/R/src/hdr_mod.F90" true "/R/src/hdr_mod.F90" false None (Some "idem") false false.
Definition ex_s := [ex_drv; ex_k1; ex_k2; ex_hdr].
Definition ex_pipe := [T_create [dup_item ex_k2 "k2_dup" false "/R/src/sub/k2_dup.f90"]; T_drop ["/R/src/k1_mod.F90"]; T_keep].

(** the hypotheses of the main theorem are satisfiable by a non-trivial instance, with these lists *)
Example example_pipeline :
  Forall builtin ex_pipe /\
  exists P, run_planner (Some "/R") ex_cfg (run t_plan ex_pipe ex_s) = Some P /\
    flat (p_ap P) = ["/R/build/driver.idem.F90"; "/R/build/k2.scc_stack.f90"; "/R/build/k2_dup.scc_stack.f90"] /\
    flat (p_tr P) = ["src/driver.F90"; "src/sub/k2.f90"] /\
    flat (p_rm P) = ["src/driver.F90"; "src/sub/k2.f90"].
Proof.
  split; [repeat constructor|]. eexists. split; [vm_compute; reflexivity|]. repeat split.
Qed.

(** a renaming transformation without planning counterpart followed by a name-based removal: the plan appends a
    file the conversion never writes (finding F-C24-1) *)
Lemma plan_differs_without_hypothesis :
  exists pipe s root cfg P p,
    run_planner root cfg (run t_plan pipe s) = Some P /\
    In p (flat (p_ap P)) /\ ~ In (Some p) (written cfg (run t_conv pipe s)).
Proof.
  exists [T_keep; T_drop_conv_only ["/R/src/sub/k2.f90"]], ex_s, (Some "/R"), ex_cfg.
  eexists. exists "/R/build/k2.scc_stack.f90". split; [vm_compute; reflexivity|]. split.
  - vm_compute. tauto.
  - vm_compute. intros [H|[H|[]]]; discriminate.
Qed.

(** a duplicated item whose original left the graph: its origin is not among the sources to transform
    unless it is replicated (finding F-C24-4) *)
Lemma origin_of_duplicate_not_listed :
  exists items root cfg P i,
    run_planner root cfg items = Some P /\ In i items /\ visited i = true /\
    f_exists i = false /\ f_oexists i = true /\ ~ In "src/sub/k2.f90" (flat (p_tr P)) /\
    rel root (f_orig i) (f_ores i) = Some "src/sub/k2.f90".
Proof.
  exists [ex_drv; dup_item ex_k2 "k2_dup" false "/R/src/sub/k2_dup.f90"], (Some "/R"), ex_cfg.
  eexists. exists (dup_item ex_k2 "k2_dup" false "/R/src/sub/k2_dup.f90").
  split; [vm_compute; reflexivity|]. repeat split; try reflexivity.
  - right. now left.
  - vm_compute. intros [H|[]]. discriminate.
Qed.
