(** C18 — lemmas about the pickling model. *)
From Coq Require Import ZArith List Bool String Lia.
From LV Require Import models.M_C17 models.M_C18 proofs.P_C17 proofs.P_C17_types.
Import ListNotations.
Open Scope Z_scope.

(** * getstate keeps identities, kinds, names *)
Lemma getstate_id : forall u, u_id (getstate u) = u_id u. Proof. destruct u; reflexivity. Qed.
Lemma getstate_kind : forall u, u_kind (getstate u) = u_kind u. Proof. destruct u; reflexivity. Qed.
Lemma getstate_name : forall u, u_name (getstate u) = u_name u. Proof. destruct u; reflexivity. Qed.

Lemma ids_getstate : forall u, ids (getstate u) = ids u.
Proof.
  intros u. induction u as [i k nm p tab occs ch IH] using unit_ind'. simpl. f_equal.
  rewrite flat_map_map. apply flat_map_ext_Forall. exact IH.
Qed.

Lemma member_id_getstate : forall ch n, member_id (map getstate ch) n = member_id ch n.
Proof.
  induction ch as [|u r IH]; intros n; simpl; [reflexivity|].
  rewrite getstate_kind, getstate_name, getstate_id, IH. reflexivity.
Qed.

(** * new objects *)
Lemma ids_setstate_u : forall d own u above par, ids (setstate_u d own above par u) = map (fun i => i + d) (ids u).
Proof.
  intros d own u. induction u as [i k nm p tab occs ch IH] using unit_ind'. intros above par.
  simpl. f_equal. rewrite flat_map_map, map_flat_map. apply flat_map_ext_Forall.
  eapply Forall_impl; [|exact IH]. intros c Hc. simpl in Hc.
  destruct (is_proc_kind k && is_proc_kind (u_kind c)); apply Hc.
Qed.

Theorem unpickle_fresh : forall d u, ids (unpickle d u) = map (fun i => i + d) (ids u).
Proof. intros. unfold unpickle. rewrite ids_setstate_u, ids_getstate. reflexivity. Qed.

(** * closedness: every pointer of the loaded unit is one of its own new scope objects (or a detached copy) *)
Lemma lookup_scope_In : forall c n j, lookup_scope c n = Some j -> In j (map fst c).
Proof.
  induction c as [|[i t] r IH]; simpl; intros n j H; [discriminate|].
  destruct (thas t n); [inversion H; left; reflexivity | right; eapply IH; exact H].
Qed.

Lemma opt_lookup_In : forall c n r, In r (opt_list (lookup_scope c n)) -> In r (map fst c).
Proof.
  intros c n r H. destruct (lookup_scope c n) as [x|] eqn:E; simpl in H; [|contradiction].
  destruct H as [H|[]]. subst r. eapply lookup_scope_In. exact E.
Qed.

Lemma refs_setstate_getstate : forall d own u above par r,
  In r (refs (setstate_u d own above par (getstate u))) ->
  In r (opt_list par) \/ In r (map fst above) \/ In r (map (fun i => i + d) (ids u)) \/ In r (map (fun i => i + d) own) \/ r = foreign.
Proof.
  intros d own u. induction u as [i k nm p tab occs ch IH] using unit_ind'. intros above par r H.
  cbn [getstate setstate_u refs] in H.
  apply in_app_or in H. destruct H as [H|H]; [left; exact H|].
  apply in_app_or in H. destruct H as [H|H].
  - (* table *)
    unfold table_refs in H. apply in_flat_map in H. destruct H as [ne [Hne Hr]].
    apply in_map_iff in Hne. destruct Hne as [ne0 [E Hne0]]. subst ne.
    apply in_map_iff in Hne0. destruct Hne0 as [[n e] [E Hin]]. subst ne0.
    unfold set_entry, strip_entry, entry_refs in Hr. cbn [fst snd e_link e_trefs] in Hr.
    apply in_app_or in Hr. destruct Hr as [Hr|Hr].
    + unfold set_link in Hr. rewrite member_id_getstate in Hr.
      destruct (member_id ch n) as [j|] eqn:Em.
      * simpl in Hr. destruct Hr as [Hr|[]]. subst r. right. right. left.
        apply in_map_iff. exists j. split; [reflexivity|]. simpl. right. eapply member_id_In. exact Em.
      * destruct (e_link e) as [|x|x]; simpl in Hr; try contradiction.
        destruct (memZ x own) eqn:Mx; simpl in Hr; destruct Hr as [Hr|[]]; subst r.
        -- right. right. right. left. apply in_map_iff. exists x. split; [reflexivity | apply memZ_In; exact Mx].
        -- right. right. right. right. reflexivity.
    + apply in_flat_map in Hr. destruct Hr as [t [Ht Hr]]. apply in_map_iff in Ht. destruct Ht as [t0 [E Ht0]]. subst t.
      apply in_map_iff in Ht0. destruct Ht0 as [t1 [E Ht1]]. subst t0.
      unfold set_tref, strip_tref in Hr. cbn [tr_resc tr_name tr_ref] in Hr.
      destruct (tr_resc t1); cbn [tr_ref] in Hr; [|simpl in Hr; contradiction].
      apply opt_lookup_In in Hr. simpl in Hr.
      destruct Hr as [El|El]; [right; right; left; simpl; left; exact El | right; left; exact El].
  - apply in_app_or in H. destruct H as [H|H].
    + (* occurrences *)
      unfold occ_refs in H. apply in_flat_map in H. destruct H as [o [Ho Hr]].
      apply in_map_iff in Ho. destruct Ho as [o0 [E Ho0]]. subst o. unfold set_occ in Hr. cbn [o_ref] in Hr.
      apply opt_lookup_In in Hr. simpl in Hr.
      destruct Hr as [El|El]; [right; right; left; simpl; left; exact El | right; left; exact El].
    + (* children *)
      apply in_flat_map in H. destruct H as [c' [Hc' Hr]]. apply in_map_iff in Hc'. destruct Hc' as [c0 [E Hc0]]. subst c'.
      apply in_map_iff in Hc0. destruct Hc0 as [c [E Hc]]. subst c0.
      rewrite Forall_forall in IH. specialize (IH c Hc).
      assert (Hsub : forall x, In x (map (fun i0 => i0 + d) (ids c)) -> In x (map (fun i0 => i0 + d) (ids (Unit i k nm p tab occs ch)))).
      { intros x Hx. apply in_map_iff in Hx. destruct Hx as [y [E Hy]]. subst x. apply in_map_iff. exists y. split; [reflexivity|]. simpl. right.
        apply in_flat_map. exists c. split; assumption. }
      destruct (is_proc_kind k && is_proc_kind (u_kind (getstate c))).
      * apply IH in Hr. destruct Hr as [Hr|[Hr|[Hr|Hr]]]; try contradiction.
        -- right. right. left. apply Hsub. exact Hr.
        -- right. right. right. exact Hr.
      * apply IH in Hr. destruct Hr as [Hr|[Hr|[Hr|Hr]]].
        -- simpl in Hr. destruct Hr as [Hr|[]]. subst r. right. right. left. simpl. left. reflexivity.
        -- simpl in Hr. destruct Hr as [Hr|Hr]; [right; right; left; simpl; left; exact Hr | right; left; exact Hr].
        -- right. right. left. apply Hsub. exact Hr.
        -- right. right. right. exact Hr.
Qed.

Theorem unpickle_closed : forall d u r,
  In r (refs (unpickle d u)) -> In r (ids (unpickle d u)) \/ r = foreign.
Proof.
  intros d u r H. unfold unpickle in H. apply refs_setstate_getstate in H.
  rewrite unpickle_fresh. destruct H as [H|[H|[H|[H|H]]]]; try contradiction; auto.
Qed.

(** * on the class, loading = renaming *)
Definition chain_keys (c c' : chain) : Prop :=
  Forall2 (fun x y => fst x = fst y /\ forall n, thas (snd x) n = thas (snd y) n) c c'.

Lemma lookup_scope_keys : forall c c' n, chain_keys c c' -> lookup_scope c n = lookup_scope c' n.
Proof.
  intros c c' n H. induction H as [|[i t] [i' t'] r r' [E Ht] Hr IH]; simpl; [reflexivity|].
  simpl in E, Ht. subst i'. rewrite Ht, IH. reflexivity.
Qed.

Lemma thas_strip : forall t n, thas (map strip_entry t) n = thas t n.
Proof.
  intros t n. unfold thas. induction t as [|[k v] r IH]; simpl; [reflexivity|].
  destruct (String.eqb k n); [reflexivity | exact IH].
Qed.

Lemma set_occ_ren : forall d own c c' o,
  chain_keys c' (ren_chain (ren d own) c) -> wfp_ref c (o_name o) (o_ref o) = true ->
  set_occ c' (strip_occ o) = map_occ (ren d own) o.
Proof.
  intros d own c c' o K W. unfold set_occ, strip_occ, map_occ. cbn [o_name].
  rewrite (lookup_scope_keys _ _ _ K), lookup_scope_ren.
  unfold wfp_ref in W. apply opt_sid_eqb_eq in W. rewrite W. reflexivity.
Qed.

Lemma setstate_skeleton : forall d own u above above' par,
  (forall i, In i (ids u) -> In i own) ->
  chain_keys above' (ren_chain (ren d own) above) ->
  wfp_u above par u = true -> no_sub_members u = true ->
  skeleton (setstate_u d own above' (option_map (ren d own) par) (getstate u)) = skeleton (rename (ren d own) u).
Proof.
  intros d own u. induction u as [i k nm p tab occs ch IH] using unit_ind'.
  intros above above' par Hsub K W N. simpl in W, N.
  apply andb_prop in W. destruct W as [W Wch]. apply andb_prop in W. destruct W as [W Wtab].
  apply andb_prop in W. destruct W as [Wp Wocc]. apply opt_sid_eqb_eq in Wp. subst p.
  assert (Hi : ren d own i = i + d) by (apply ren_in; apply Hsub; simpl; left; reflexivity).
  assert (K' : chain_keys ((i + d, map strip_entry tab) :: above') (ren_chain (ren d own) ((i, tab) :: above))).
  { rewrite ren_chain_cons, Hi. constructor; [split; [reflexivity | intro n; apply thas_strip] | exact K]. }
  cbn [getstate setstate_u skeleton rename]. rewrite Hi. f_equal.
  - rewrite !map_map. apply map_ext. intros [n e]. reflexivity.
  - rewrite map_map. apply map_ext_Forall. apply Forall_forall. intros o Ho.
    rewrite forallb_forall in Wocc. eapply set_occ_ren; [exact K' | apply Wocc; exact Ho].
  - rewrite !map_map. apply map_ext_Forall. rewrite Forall_forall in IH |- *. intros c Hc.
    rewrite forallb_forall in Wch, N. specialize (N c Hc). apply andb_prop in N. destruct N as [N1 N2].
    rewrite getstate_kind. apply negb_true_iff in N1. rewrite N1.
    replace (Some (i + d)) with (option_map (ren d own) (Some i)) by (simpl; rewrite Hi; reflexivity).
    eapply IH; [exact Hc | | exact K' | apply Wch; exact Hc | exact N2].
    intros j Hj. apply Hsub. simpl. right. apply in_flat_map. exists c. split; assumption.
Qed.

Theorem unpickle_skeleton_iso : forall d u,
  self_contained u = true -> no_sub_members u = true ->
  skeleton (unpickle d u) = skeleton (rename (ren d (ids u)) u).
Proof.
  intros d u S N. unfold unpickle, self_contained in *.
  change None with (option_map (ren d (ids u)) (@None sid)).
  apply (setstate_skeleton d (ids u) u [] [] None); [auto | constructor | exact S | exact N].
Qed.

(** the full statement: when nothing is present that the hooks do not rebuild *)
Lemma set_tref_ren : forall d own c c' t,
  chain_keys c' (ren_chain (ren d own) c) -> wfp_tref c t = true -> cleanp_tref t = true ->
  set_tref c' (strip_tref t) = map_tref (ren d own) t.
Proof.
  intros d own c c' [n r b] K W C. unfold set_tref, strip_tref, map_tref, wfp_tref, cleanp_tref in *. cbn in *.
  destruct b; cbn in *.
  - rewrite (lookup_scope_keys _ _ _ K), lookup_scope_ren. unfold wfp_ref in W. apply opt_sid_eqb_eq in W. rewrite W. reflexivity.
  - destruct r; [discriminate | reflexivity].
Qed.

Lemma set_link_ren : forall d own ch n l,
  (forall j, In j (flat_map ids ch) -> In j own) ->
  cleanp_link own ch n l = true ->
  set_link d own (map getstate ch) n (strip_link l) = map_link (ren d own) l.
Proof.
  intros d own ch n l Hsub C. unfold set_link. rewrite member_id_getstate.
  destruct l as [|i|i]; simpl in *; destruct (member_id ch n) as [j|] eqn:E; try discriminate.
  - reflexivity.
  - apply Z.eqb_eq in C. subst i. rewrite ren_in; [reflexivity|]. apply Hsub. eapply member_id_In. exact E.
  - rewrite C. apply memZ_In in C. rewrite ren_in by assumption. reflexivity.
Qed.

Lemma setstate_rename : forall d own u above above' par,
  (forall i, In i (ids u) -> In i own) ->
  chain_keys above' (ren_chain (ren d own) above) ->
  wfp_u above par u = true -> no_sub_members u = true -> cleanp_u own u = true ->
  setstate_u d own above' (option_map (ren d own) par) (getstate u) = rename (ren d own) u.
Proof.
  intros d own u. induction u as [i k nm p tab occs ch IH] using unit_ind'.
  intros above above' par Hsub K W N C. simpl in W, N, C.
  apply andb_prop in W. destruct W as [W Wch]. apply andb_prop in W. destruct W as [W Wtab].
  apply andb_prop in W. destruct W as [Wp Wocc]. apply opt_sid_eqb_eq in Wp. subst p.
  apply andb_prop in C. destruct C as [Ctab Cch].
  assert (Hi : ren d own i = i + d) by (apply ren_in; apply Hsub; simpl; left; reflexivity).
  assert (K' : chain_keys ((i + d, map strip_entry tab) :: above') (ren_chain (ren d own) ((i, tab) :: above))).
  { rewrite ren_chain_cons, Hi. constructor; [split; [reflexivity | intro n; apply thas_strip] | exact K]. }
  cbn [getstate setstate_u rename]. rewrite Hi. f_equal.
  - rewrite map_map. apply map_ext_Forall. apply Forall_forall. intros [n e] Hin.
    rewrite forallb_forall in Wtab, Ctab. specialize (Wtab _ Hin). specialize (Ctab _ Hin). simpl in Wtab, Ctab.
    apply andb_prop in Ctab. destruct Ctab as [Cl Ct].
    unfold set_entry, strip_entry, map_entry. cbn [fst snd e_tag e_link e_trefs]. f_equal. f_equal.
    + apply set_link_ren; [|exact Cl]. intros j Hj. apply Hsub. simpl. right. exact Hj.
    + rewrite map_map. apply map_ext_Forall. apply Forall_forall. intros t Ht.
      rewrite forallb_forall in Wtab, Ct. eapply set_tref_ren; [exact K' | apply Wtab; exact Ht | apply Ct; exact Ht].
  - rewrite map_map. apply map_ext_Forall. apply Forall_forall. intros o Ho.
    rewrite forallb_forall in Wocc. eapply set_occ_ren; [exact K' | apply Wocc; exact Ho].
  - rewrite map_map. apply map_ext_Forall. rewrite Forall_forall in IH |- *. intros c Hc.
    rewrite forallb_forall in Wch, N, Cch. specialize (N c Hc). apply andb_prop in N. destruct N as [N1 N2].
    rewrite getstate_kind. apply negb_true_iff in N1. rewrite N1.
    replace (Some (i + d)) with (option_map (ren d own) (Some i)) by (simpl; rewrite Hi; reflexivity).
    eapply IH; [exact Hc | | exact K' | apply Wch; exact Hc | exact N2 | apply Cch; exact Hc].
    intros j Hj. apply Hsub. simpl. right. apply in_flat_map. exists c. split; assumption.
Qed.

Theorem unpickle_iso : forall d u,
  self_contained u = true -> no_sub_members u = true -> cleanp u = true ->
  unpickle d u = rename (ren d (ids u)) u.
Proof.
  intros d u S N C. unfold unpickle, self_contained, cleanp in *.
  change None with (option_map (ren d (ids u)) (@None sid)).
  apply (setstate_rename d (ids u) u [] [] None); [auto | constructor | exact S | exact N | exact C].
Qed.

(** * the symbols of the loaded unit read the types the symbols of the original read *)
Theorem unpickle_types_equal : forall d u,
  bounded d [] u = true -> self_contained u = true -> no_sub_members u = true ->
  occ_types [] (unpickle d u) = occ_types [] u.
Proof.
  intros d u B S N.
  rewrite <- occ_types_skeleton, (unpickle_skeleton_iso _ _ S N), occ_types_skeleton, rename_gmap.
  apply occ_types_gmap; [apply map_entry_tag | apply ren_conditions with (ctx := []); exact B].
Qed.
