(** C20 — Source.find / clone_with_string. *)
From Coq Require Import ZArith List Bool String Ascii Lia Arith.
From LV Require Import Base.Strings models.M_C20 proofs.P_C20_base proofs.P_C20_span.
Import ListNotations.
Open Scope Z_scope.

Lemma prefixb_spec p : forall s, prefixb p s = true <-> stake (len p) s = p.
Proof.
  induction p as [|a p IH]; intros s.
  - cbn. split; reflexivity.
  - destruct s as [|b s]; cbn [prefixb len stake].
    + split; discriminate.
    + split.
      * intros H. apply andb_prop in H. destruct H as [H1 H2].
        apply Ascii.eqb_eq in H1. subst b. f_equal. apply IH. exact H2.
      * intros H. injection H as -> H. rewrite Ascii.eqb_refl. cbn. apply IH. exact H.
Qed.

Lemma prefixb_len p : forall s, prefixb p s = true -> (len p <= len s)%nat.
Proof.
  induction p as [|a p IH]; intros s H; cbn; [lia|].
  destruct s as [|b s]; cbn in *; [discriminate|].
  apply andb_prop in H. destruct H as [_ H]. specialize (IH s H). lia.
Qed.

Lemma find_sub_unfold p s :
  find_sub p s = if prefixb p s then Some O
                 else match s with
                      | EmptyString => None
                      | String _ r => match find_sub p r with Some i => Some (S i) | None => None end
                      end.
Proof. destruct s; reflexivity. Qed.

Lemma find_sub_sound p : forall s i, find_sub p s = Some i ->
  prefixb p (sskip i s) = true /\ (i + len p <= len s)%nat.
Proof.
  induction s as [|c r IH]; intros i H; rewrite find_sub_unfold in H.
  - destruct (prefixb p "") eqn:E; [|discriminate]. injection H as <-. split; [exact E|].
    apply prefixb_len in E. cbn in *. lia.
  - destruct (prefixb p (String c r)) eqn:E.
    + injection H as <-. split; [exact E|]. apply prefixb_len in E. lia.
    + destruct (find_sub p r) as [k|] eqn:F; [|discriminate]. injection H as <-.
      destruct (IH k eq_refl) as [H1 H2]. split; [exact H1|]. cbn [len]. lia.
Qed.

Lemma find_sub_first p : forall s i, find_sub p s = Some i ->
  forall k, (k < i)%nat -> prefixb p (sskip k s) = false.
Proof.
  induction s as [|c r IH]; intros i H k Hk; rewrite find_sub_unfold in H.
  - destruct (prefixb p ""); [injection H as <-; lia|discriminate].
  - destruct (prefixb p (String c r)) eqn:E; [injection H as <-; lia|].
    destruct (find_sub p r) as [j|] eqn:F; [|discriminate]. injection H as <-.
    destruct k as [|k]; [exact E|]. cbn [sskip]. apply (IH j eq_refl). lia.
Qed.

Lemma find_sub_none p : forall s, find_sub p s = None -> forall k, prefixb p (sskip k s) = false.
Proof.
  induction s as [|c r IH]; intros H k; rewrite find_sub_unfold in H.
  - destruct (prefixb p "") eqn:E; [discriminate|]. destruct k; exact E.
  - destruct (prefixb p (String c r)) eqn:E; [discriminate|].
    destruct (find_sub p r) eqn:F; [discriminate|].
    destruct k as [|k]; [exact E|]. cbn [sskip]. apply IH. reflexivity.
Qed.

Lemma prefixb_false_slice p s k : prefixb p (sskip k s) = false -> slice k (k + len p) s <> p.
Proof.
  intros H E. unfold slice in E. replace (k + len p - k)%nat with (len p) in E by lia.
  apply prefixb_spec in E. congruence.
Qed.

Lemma fold_slice ic a b s : fold_case ic (slice a b s) = slice a b (fold_case ic s).
Proof. destruct ic; cbn; [apply lower_slice|reflexivity]. Qed.
Lemma len_fold ic s : len (fold_case ic s) = len s.
Proof. destruct ic; cbn; [apply len_lower|reflexivity]. Qed.
Lemma sempty_fold ic s : sempty (fold_case ic s) = sempty s.
Proof. destruct ic, s; reflexivity. Qed.

(** when the (case-folded) string occurs as it is, [find] returns its first occurrence, whatever ignore_space is *)
Lemma find_exact hay needle ic isp i :
  sempty hay = false -> find_sub (fold_case ic needle) (fold_case ic hay) = Some i ->
  find hay needle ic isp = FSpan i (i + slen needle).
Proof. intros Hne H. unfold find. rewrite Hne, H. unfold slen. now rewrite len_fold. Qed.

Lemma find_locates_lemma hay needle ic isp a b :
  (isp = false \/ find_sub (fold_case ic needle) (fold_case ic hay) <> None) ->
  find hay needle ic isp = FSpan a b ->
  b = (a + slen needle)%nat /\ (b <= slen hay)%nat /\
  fold_case ic (slice a b hay) = fold_case ic needle /\
  (forall k, (k < a)%nat -> fold_case ic (slice k (k + slen needle) hay) <> fold_case ic needle).
Proof.
  intros Hc H. unfold find in H. destruct (sempty hay) eqn:Hne; [discriminate|].
  destruct (find_sub (fold_case ic needle) (fold_case ic hay)) as [i|] eqn:F.
  - injection H as <- <-. unfold slen. rewrite len_fold.
    destruct (find_sub_sound _ _ _ F) as [P L]. rewrite !len_fold in L.
    split; [reflexivity|]. split; [exact L|]. split.
    + rewrite fold_slice. unfold slice. replace (i + len needle - i)%nat with (len (fold_case ic needle)) by (rewrite len_fold; lia).
      apply prefixb_spec. exact P.
    + intros k Hk. rewrite fold_slice. rewrite <- (len_fold ic needle).
      apply prefixb_false_slice. exact (find_sub_first _ _ _ F k Hk).
  - destruct Hc as [-> | Hc]; [discriminate|congruence].
Qed.

(** with ignore_space=False, None means that the string really does not occur *)
Lemma find_none_lemma hay needle ic :
  find hay needle ic false = FNone ->
  hay = EmptyString \/ forall k, fold_case ic (slice k (k + slen needle) hay) <> fold_case ic needle.
Proof.
  unfold find. destruct (sempty hay) eqn:Hne; [destruct hay; [now left|discriminate]|].
  destruct (find_sub (fold_case ic needle) (fold_case ic hay)) eqn:F; [discriminate|].
  intros _. right. intros k. rewrite fold_slice. unfold slen. rewrite <- (len_fold ic needle).
  apply prefixb_false_slice. exact (find_sub_none _ _ F k).
Qed.

(** what the ignore_space fall-back really returns: from the first occurrence of the first blank-separated
    token to the end of the first occurrence of the last token - wherever these are *)
Lemma find_space_partial_lemma hay needle ic a b :
  find_sub (fold_case ic needle) (fold_case ic hay) = None ->
  find hay needle ic true = FSpan a b ->
  exists t0 tl il, hd_error (split_ws (fold_case ic needle)) = Some t0 /\
    tl = List.last (split_ws (fold_case ic needle)) t0 /\
    find_sub t0 (fold_case ic hay) = Some a /\ find_sub tl (fold_case ic hay) = Some il /\ b = (il + slen tl)%nat /\
    slice a (a + slen t0) (fold_case ic hay) = t0 /\ slice il b (fold_case ic hay) = tl.
Proof.
  intros F H. unfold find in H. destruct (sempty hay); [discriminate|]. rewrite F in H.
  destruct (split_ws (fold_case ic needle)) as [|t0 ts] eqn:S; [discriminate|].
  destruct (find_sub t0 (fold_case ic hay)) as [i0|] eqn:F0; [|discriminate].
  destruct (forallb _ (t0 :: ts)); [|discriminate].
  remember (List.last (t0 :: ts) t0) as tl eqn:Etl.
  destruct (find_sub tl (fold_case ic hay)) as [il|] eqn:Fl; [|discriminate].
  injection H as <- <-.
  exists t0, tl, il.
  split; [reflexivity|]. split; [exact Etl|]. split; [exact F0|]. split; [exact Fl|]. split; [reflexivity|]. split.
  - destruct (find_sub_sound _ _ _ F0) as [P _]. apply prefixb_spec in P. unfold slice, slen.
    replace (i0 + len t0 - i0)%nat with (len t0) by lia. exact P.
  - destruct (find_sub_sound _ _ _ Fl) as [P _]. apply prefixb_spec in P. unfold slice, slen.
    replace (il + len tl - il)%nat with (len tl) by lia. exact P.
Qed.

(** clone_with_string is clone_with_span at the span found *)
Lemma cws_span src needle ic isp a b :
  find (s_str src) needle ic isp = FSpan a b ->
  clone_with_string src needle ic isp = Some (clone_with_span src a (Some b)).
Proof. intros H. unfold clone_with_string, clone_with_span, py_slice. now rewrite H. Qed.

Lemma cws_none src needle ic isp :
  find (s_str src) needle ic isp = FNone ->
  clone_with_string src needle ic isp = Some (mk (s_l0 src) (s_l1 src) needle (s_file src)).
Proof. intros H. unfold clone_with_string. now rewrite H. Qed.

(** located sub-source of a text given by its lines *)
Lemma clone_with_string_located_lemma ls l0 f needle ic isp r :
  forallb no_nl ls = true -> ls <> [] ->
  (isp = false \/ find_sub (fold_case ic needle) (fold_case ic (join_nl ls)) <> None) ->
  find (join_nl ls) needle ic isp <> FNone ->
  clone_with_string (mk l0 (Some (l0 + zlen ls - 1)) (join_nl ls) f) needle ic isp = Some r ->
  exists i ca j cb,
    (i <= j < List.length ls)%nat /\
    s_l0 r = l0 + Z.of_nat i /\ s_l1 r = Some (l0 + Z.of_nat j) /\
    s_str r = text_between ls i ca j cb /\ fold_case ic (s_str r) = fold_case ic needle /\ s_file r = f.
Proof.
  intros Hn Hne Hc Hnn H.
  set (src := mk l0 (Some (l0 + zlen ls - 1)) (join_nl ls) f) in *.
  destruct (find (join_nl ls) needle ic isp) as [|a b|] eqn:F; [congruence| |].
  2:{ unfold clone_with_string in H. cbn [s_str src mk] in H. rewrite F in H. discriminate. }
  destruct (find_locates_lemma _ _ _ _ _ _ Hc F) as (Eb & Lb & Ef & _).
  rewrite (cws_span src needle ic isp a b F) in H. injection H as <-.
  unfold slen in *.
  destruct (offset_line_exists ls Hne a ltac:(lia)) as (i & la & ca & Hi & Hca & Ea).
  destruct (offset_line_exists ls Hne b Lb) as (j & lb & cb & Hj & Hcb & Eb').
  destruct (span_lines_correct_lemma ls l0 f i la ca j lb cb a b Hn Hi Hca Ea Hj Hcb Eb' ltac:(lia))
    as (R0 & R1 & R2 & R3 & R4).
  exists i, ca, j, cb. fold src in R0, R1, R2, R3, R4.
  assert (Hij : (i <= j)%nat).
  { destruct (le_lt_dec i j) as [L|G]; [exact L|]. exfalso.
    pose proof (line_start_shift ls j (i - S j) lb Hj) as S1.
    replace (S j + (i - S j))%nat with i in S1 by lia. lia. }
  assert (Hjl : (j < List.length ls)%nat) by (apply nth_error_Some; congruence).
  split; [lia|]. split; [exact R0|]. split; [exact R1|]. split; [exact R3|]. split; [|exact R4].
  rewrite R2. exact Ef.
Qed.
