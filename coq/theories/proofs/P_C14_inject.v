(** C14 — [_inject_tuple_mapping]: the index-based loops of the code equal a one-pass splice on the class
    "keys are nodes, pairwise different, and the members of a one-to-many replacement are the replaced node
    itself or no key at all". *)
From Coq Require Import ZArith List Bool Lia Arith.
From LV Require Import models.M_C14 proofs.P_C14.
Import ListNotations.
Open Scope Z_scope.

Definition splice1 (k : item) (new : list item) (x : item) : list item := if ieqb x k then new else [x].

Lemma flat_map_id {A} (f : A -> list A) l : (forall x, In x l -> f x = [x]) -> flat_map f l = l.
Proof.
  induction l as [|x l IH]; intros H; cbn; [reflexivity|].
  rewrite (H x (or_introl eq_refl)), IH; [reflexivity|]. intros y Hy. apply H. now right.
Qed.

Lemma flat_map_ext_in {A B} (f g : A -> list B) l : (forall x, In x l -> f x = g x) -> flat_map f l = flat_map g l.
Proof.
  induction l as [|x l IH]; intros H; cbn; [reflexivity|].
  rewrite (H x (or_introl eq_refl)), IH; [reflexivity|]. intros y Hy. apply H. now right.
Qed.

Lemma flat_map_flat_map {A B C} (f : B -> list C) (g : A -> list B) l :
  flat_map f (flat_map g l) = flat_map (fun x => flat_map f (g x)) l.
Proof. induction l as [|x l IH]; cbn; [reflexivity|]. now rewrite flat_map_app, IH. Qed.

Lemma mem_false k l : mem k l = false -> forall x, In x l -> ieqb x k = false.
Proof.
  unfold mem. intros H x Hx. destruct (ieqb x k) eqn:E; [|reflexivity].
  assert (existsb (ieqb k) l = true) by (apply existsb_exists; exists x; split; [exact Hx|now rewrite ieqb_sym]).
  congruence.
Qed.

(** [nodes.index(old, i)] *)
Lemma index_from_app k a : forall t, index_from k (a ++ t) (length a) = option_map (fun j => (length a + j)%nat) (index_from k t O).
Proof.
  induction a as [|y a IH]; intros t; cbn [app length].
  - destruct (index_from k t 0); reflexivity.
  - cbn [index_from]. rewrite IH. destruct (index_from k t 0); reflexivity.
Qed.

Lemma index_from_0 k t :
  match index_from k t O with
  | Some j => exists pre x post, t = pre ++ x :: post /\ length pre = j /\ ieqb x k = true /\
                                 (forall y, In y pre -> ieqb y k = false)
  | None => forall y, In y t -> ieqb y k = false
  end.
Proof.
  induction t as [|x t IH]; cbn [index_from].
  - intros y [].
  - destruct (ieqb x k) eqn:E.
    + exists [], x, t. repeat split; auto. intros y [].
    + destruct (index_from k t 0) as [j|]; cbn [option_map].
      * destruct IH as (pre & x' & post & -> & L & Hx & Hp). exists (x :: pre), x', post.
        repeat split; cbn; auto. intros y [<-|Hy]; auto.
      * intros y [<-|Hy]; auto.
Qed.

Lemma firstn_len_app {A} (u v : list A) : firstn (length u) (u ++ v) = u.
Proof. rewrite firstn_app, Nat.sub_diag, firstn_all. cbn. apply app_nil_r. Qed.
Lemma skipn_len_app {A} (u v : list A) : skipn (length u) (u ++ v) = v.
Proof. rewrite skipn_app, Nat.sub_diag, skipn_all. reflexivity. Qed.

Lemma inject_loop_spec k new : forall fuel a t, (length t <= fuel)%nat ->
  inject_loop fuel (a ++ t) (length a) k new = a ++ flat_map (splice1 k new) t.
Proof.
  induction fuel as [|f IH]; intros a t Hl.
  - destruct t; [|cbn in Hl; lia]. cbn. reflexivity.
  - cbn [inject_loop]. rewrite skipn_len_app.
    destruct (mem k t) eqn:Hm.
    + unfold inject_handle. rewrite index_from_app.
      pose proof (index_from_0 k t) as H0. destruct (index_from k t 0) as [j0|].
      * destruct H0 as (pre & x & post & -> & L & Hx & Hp). cbn [option_map].
        assert (E1 : firstn (length a + j0) (a ++ pre ++ x :: post) = a ++ pre).
        { rewrite <- L, <- app_length, app_assoc. apply firstn_len_app. }
        assert (E2 : skipn (S (length a + j0)) (a ++ pre ++ x :: post) = post).
        { replace (a ++ pre ++ x :: post) with ((a ++ pre ++ [x]) ++ post) by (now rewrite <- !app_assoc).
          replace (S (length a + j0)) with (length (a ++ pre ++ [x])) by (rewrite !app_length; cbn; lia).
          apply skipn_len_app. }
        rewrite E1, E2.
        replace ((a ++ pre) ++ new ++ post) with ((a ++ pre ++ new) ++ post) by (now rewrite <- !app_assoc).
        replace (length a + j0 + length new)%nat with (length (a ++ pre ++ new)) by (rewrite !app_length; lia).
        rewrite IH by (rewrite app_length in Hl; cbn in Hl; lia).
        rewrite flat_map_app. cbn [flat_map]. unfold splice1 at 3. rewrite Hx.
        rewrite (flat_map_id (splice1 k new) pre) by (intros y Hy; unfold splice1; now rewrite (Hp y Hy)).
        now rewrite <- !app_assoc.
      * exfalso. unfold mem in Hm. apply existsb_exists in Hm as (y & Hy & E). rewrite ieqb_sym in E.
        rewrite (H0 y Hy) in E. discriminate.
    + rewrite flat_map_id; [reflexivity|]. intros y Hy. unfold splice1. now rewrite (mem_false _ _ Hm y Hy).
Qed.

Lemma inject_all_spec o k new : inject_all o k new = flat_map (splice1 k new) o.
Proof. unfold inject_all. apply (inject_loop_spec k new (length o) [] o). lia. Qed.

Lemma inject_step_nd o k h : is_nd k = true ->
  inject_step o (k, h) = match h with HTup new => flat_map (splice1 k new) o | _ => o end.
Proof.
  intros Hk. unfold inject_step. destruct k; try discriminate. destruct h as [|h|new]; try reflexivity.
  destruct (mem _ o) eqn:Hm.
  - apply inject_all_spec.
  - symmetry. apply flat_map_id. intros y Hy. unfold splice1. now rewrite (mem_false _ _ Hm y Hy).
Qed.

(** * The whole mapper *)
Definition splice (M : mapper) (x : item) : list item :=
  match mfind M x with Some (_, HTup hs) => hs | _ => [x] end.

Definition inj_ok (M : mapper) (x : item) : Prop :=
  forall k hs, mfind M x = Some (k, HTup hs) -> forall h, In h hs -> h = x \/ mfind M h = None.

Lemma mfind_some M x k h : mfind M x = Some (k, h) -> ieqb k x = true /\ In (k, h) M.
Proof.
  induction M as [|[k' h'] M IH]; cbn; [discriminate|].
  destruct (ieqb k' x) eqn:E.
  - intros H. inversion H; subst. split; [exact E|now left].
  - intros H. destruct (IH H). split; [assumption|now right].
Qed.

Lemma mfind_none M x : mfind M x = None -> forall k h, In (k, h) M -> ieqb k x = false.
Proof.
  induction M as [|[k' h'] M IH]; cbn; [intros _ k h []|].
  destruct (ieqb k' x) eqn:E; [discriminate|]. intros H k h [Heq|Hin].
  - inversion Heq; subst. exact E.
  - eapply IH; eauto.
Qed.

Lemma keys_ok_cons k h M : keys_ok ((k, h) :: M) = true ->
  is_nd k = true /\ (forall k2 h2, In (k2, h2) M -> ieqb k2 k = false) /\ keys_ok M = true.
Proof.
  cbn. intros H. apply andb_true_iff in H as [H H3]. apply andb_true_iff in H as [H1 H2].
  repeat split; auto. intros k2 h2 Hin. apply negb_true_iff in H2.
  destruct (ieqb k2 k) eqn:E; [|reflexivity].
  assert (existsb (fun e => ieqb (fst e) k) M = true) by (apply existsb_exists; exists (k2, h2); auto).
  congruence.
Qed.

Lemma unique_first k h M y : keys_ok ((k, h) :: M) = true -> ieqb k y = true -> mfind M y = None.
Proof.
  intros HK Hy. apply keys_ok_cons in HK as (_ & HU & _).
  destruct (mfind M y) as [[k2 h2]|] eqn:E; [|reflexivity].
  apply mfind_some in E as [E1 E2]. specialize (HU _ _ E2).
  assert (ieqb k2 k = true).
  { eapply ieqb_trans; [exact E1|]. now rewrite ieqb_sym. }
  congruence.
Qed.

Lemma inject_spec : forall M l, keys_ok M = true -> (forall x, In x l -> inj_ok M x) ->
  inject M l = flat_map (splice M) l.
Proof.
  induction M as [|[k h] M IH]; intros l HK HL.
  - cbn. symmetry. apply flat_map_id. reflexivity.
  - unfold inject. cbn [fold_left]. fold (inject M (inject_step l (k, h))).
    pose proof (keys_ok_cons _ _ _ HK) as (Hnd & HU & HK').
    rewrite (inject_step_nd _ _ _ Hnd).
    assert (Hne : forall x, ieqb k x = false -> mfind ((k, h) :: M) x = mfind M x) by (intros x E; cbn; now rewrite E).
    assert (Hok : forall x, In x l -> ieqb k x = false -> inj_ok M x).
    { intros x Hx E k2 hs F h' Hh'. rewrite <- (Hne x E) in F. destruct (HL x Hx _ _ F h' Hh') as [->|N]; [now left|right].
      cbn in N. destruct (ieqb k h'); [discriminate|exact N]. }
    assert (Hvac : forall y, mfind M y = None -> inj_ok M y) by (intros y N k2 hs F; congruence).
    destruct h as [|h|new].
    + rewrite IH; [|exact HK'|].
      * apply flat_map_ext_in. intros x Hx. unfold splice. destruct (ieqb k x) eqn:E.
        -- rewrite (unique_first _ _ _ _ HK E). cbn. now rewrite E.
        -- now rewrite Hne.
      * intros x Hx. destruct (ieqb k x) eqn:E; [apply Hvac; eapply unique_first; eauto | now apply Hok].
    + rewrite IH; [|exact HK'|].
      * apply flat_map_ext_in. intros x Hx. unfold splice. destruct (ieqb k x) eqn:E.
        -- rewrite (unique_first _ _ _ _ HK E). cbn. now rewrite E.
        -- now rewrite Hne.
      * intros x Hx. destruct (ieqb k x) eqn:E; [apply Hvac; eapply unique_first; eauto | now apply Hok].
    + assert (Hnew : forall x, In x l -> ieqb k x = true -> forall h', In h' new -> mfind M h' = None).
      { intros x Hx E h' Hh'. assert (F : mfind ((k, HTup new) :: M) x = Some (k, HTup new)) by (cbn; now rewrite E).
        destruct (HL x Hx _ _ F h' Hh') as [->|N]; [eapply unique_first; eauto|].
        cbn in N. destruct (ieqb k h'); [discriminate|exact N]. }
      rewrite IH; [|exact HK'|].
      * rewrite flat_map_flat_map. apply flat_map_ext_in. intros x Hx. unfold splice1, splice at 2.
        rewrite (ieqb_sym x k). destruct (ieqb k x) eqn:E.
        -- cbn [mfind]. rewrite E. apply flat_map_id. intros h' Hh'. unfold splice. now rewrite (Hnew x Hx E h' Hh').
        -- rewrite Hne by exact E. cbn. apply app_nil_r.
      * intros y Hy. apply in_flat_map in Hy as (x & Hx & Hy). unfold splice1 in Hy. rewrite (ieqb_sym x k) in Hy.
        destruct (ieqb k x) eqn:E.
        -- apply Hvac. eapply Hnew; eauto.
        -- destruct Hy as [<-|[]]. now apply Hok.
Qed.
