(** C14 — [MaskedTransformer] without mapper: the pre-order node sequence of the result is the sub-sequence of
    the pre-order node sequence of the input made of the nodes visited while the transformer is switched on. *)
From Coq Require Import ZArith List Bool Lia Arith.
From LV Require Import models.M_C14 proofs.P_C14 proofs.P_C14_spec.
Import ListNotations.
Open Scope Z_scope.

Fixpoint scan_list (c : cfg) (l : list item) (ms : mstate) : list (Z * Z * bool) * mstate :=
  match l with
  | [] => ([], ms)
  | x :: r => let '(a, ms1) := scan c x ms in let '(b, ms2) := scan_list c r ms1 in (a ++ b, ms2)
  end.

Lemma scan_Tup c l ms : scan c (Tup l) ms = scan_list c l (mask_pre c (Tup l) ms).
Proof.
  cbn [scan]. generalize (mask_pre c (Tup l) ms). induction l as [|x l IH]; intros m; cbn [scan_list]; [reflexivity|].
  destruct (scan c x m) as [a ms1]. rewrite IH. reflexivity.
Qed.

Lemma scan_Nd c i k s p ch ms :
  scan c (Nd i k s p ch) ms =
  let ms1 := mask_pre c (Nd i k s p ch) ms in
  let '(r, ms2) := scan_list c ch ms1 in ((k, p, m_active ms1) :: r, ms2).
Proof.
  cbn [scan]. cbv zeta. generalize (mask_pre c (Nd i k s p ch) ms). intros m.
  assert (E : forall l m0, (fix go (l : list item) (ms : mstate) {struct l} : list (Z * Z * bool) * mstate :=
             match l with
             | [] => ([], ms)
             | x :: r => let '(a, ms1) := scan c x ms in let '(b, ms2) := go r ms1 in (a ++ b, ms2)
             end) l m0 = scan_list c l m0).
  { induction l as [|x l IH]; intros m0; cbn [scan_list]; [reflexivity|].
    destruct (scan c x m0) as [a ms1]. rewrite IH. reflexivity. }
  rewrite E. reflexivity.
Qed.

Lemma selected_app a b : selected (a ++ b) = selected a ++ selected b.
Proof. unfold selected. now rewrite filter_app, map_app. Qed.

(** * pre-order sequences survive the clean-up steps *)
Lemma preorder_strip vs : flat_map preorder (strip vs) = flat_map preorder vs.
Proof.
  unfold strip. induction vs as [|x vs IH]; cbn; [reflexivity|].
  destruct x as [v| |[|y l]|i k s p ch]; cbn; rewrite ?IH; reflexivity.
Qed.

Lemma preorder_inactive vs : preorder (inactive_result vs) = flat_map preorder vs.
Proof.
  unfold inactive_result.
  assert (E : flat_map preorder (filter (fun i => negb (is_none i)) vs) = flat_map preorder vs).
  { induction vs as [|x vs IH]; cbn; [reflexivity|]. destruct x; cbn; rewrite ?IH; reflexivity. }
  destruct (filter _ vs) eqn:F; rewrite <- E; reflexivity.
Qed.

Lemma preorder_flatten_item : forall x, flat_map preorder (flatten_item x) = preorder x.
Proof.
  induction x using item_ind'; try (cbn; now rewrite ?app_nil_r).
  cbn [flatten_item preorder]. induction H; cbn; [reflexivity|]. now rewrite flat_map_app, H, IHForall.
Qed.

Lemma preorder_flatten l : flat_map preorder (flatten l) = flat_map preorder l.
Proof.
  unfold flatten. induction l as [|x l IH]; cbn; [reflexivity|].
  now rewrite flat_map_app, preorder_flatten_item, IH.
Qed.

Lemma preorder_as_tuple x : flat_map preorder (as_tuple x) = preorder x.
Proof. destruct x; cbn; rewrite ?app_nil_r; reflexivity. Qed.

Lemma preorder_sanitize x : flat_map preorder (sanitize x) = preorder x.
Proof.
  unfold sanitize. rewrite <- (preorder_as_tuple x), <- (preorder_flatten (as_tuple x)).
  induction (flatten (as_tuple x)) as [|y l IH]; cbn; [reflexivity|]. destruct y; cbn; rewrite ?IH; reflexivity.
Qed.

Lemma preorder_norm_slot n x y : norm_slot n x = Some y -> preorder y = preorder x.
Proof.
  destruct n; cbn [norm_slot].
  - intros H. now inversion H.
  - destruct (forallb is_nd (sanitize x)); [|discriminate]. intros H. inversion H. cbn [preorder]. apply preorder_sanitize.
  - intros H. inversion H. cbn [preorder]. apply preorder_sanitize.
  - intros H. inversion H. clear. cbn [preorder]. rewrite <- (preorder_as_tuple x).
    induction (as_tuple x) as [|z l IH]; cbn [map flat_map preorder]; [reflexivity|]. now rewrite IH, preorder_sanitize.
  - destruct (is_none x); [discriminate|]. intros H. now inversion H.
  - destruct x; try discriminate; try (intros H; now inversion H).
    destruct (forallb is_nd l); [|discriminate]. intros H. now inversion H.
  - destruct x; try discriminate. destruct (forallb _ l); [|discriminate]. intros H. now inversion H.
Qed.

Lemma preorder_norm_children : forall ch ns ch', norm_children ns ch = Some ch' ->
  flat_map preorder ch' = flat_map preorder ch.
Proof.
  induction ch as [|x ch IH]; intros ns ch'; cbn [norm_children].
  - intros H. now inversion H.
  - destruct (norm_slot _ x) eqn:E1; [|discriminate]. destruct (norm_children (tl ns) ch) eqn:E2; [|discriminate].
    intros H. inversion H. cbn. now rewrite (preorder_norm_slot _ _ _ E1), (IH _ _ E2).
Qed.

Lemma preorder_mk_node k s p ch n : mk_node k s p ch = Some n -> preorder n = (k, p) :: flat_map preorder ch.
Proof.
  intros H. apply mk_node_inv in H as (ch' & En & _ & ->). cbn. now rewrite (preorder_norm_children _ _ _ En).
Qed.

Lemma preorder_do_rebuild c i k s p ch vs ms r same ms' lg rb :
  length vs = length ch ->
  do_rebuild c (Nd i k s p ch) None vs ms = Ok r same ms' lg rb ->
  preorder r = (k, p) :: flat_map preorder vs /\ ms' = ms.
Proof.
  intros L. unfold do_rebuild. rewrite (zip_children_same _ _ L). destruct (c_inplace c).
  - intros H. inversion H. auto.
  - destruct (mk_node _ _ _ _) eqn:E; [|discriminate]. intros H. inversion H; subst. split; [|reflexivity].
    now apply preorder_mk_node in E.
Qed.

Definition scans (c : cfg) (f : item -> mstate -> res) (x : item) : Prop :=
  forall ms r same ms' lg rb, f x ms = Ok r same ms' lg rb ->
    preorder r = selected (fst (scan c x ms)) /\ ms' = snd (scan c x ms).

Lemma visit_list_scan c f l : (forall x, In x l -> scans c f x) ->
  forall ms vs ms' lg rb, visit_list f l ms = OkL vs ms' lg rb ->
    flat_map preorder vs = selected (fst (scan_list c l ms)) /\ ms' = snd (scan_list c l ms).
Proof.
  induction l as [|x l IH]; intros H ms vs ms' lg rb; cbn [visit_list scan_list].
  - intros E. inversion E. auto.
  - destruct (f x ms) as [y sm ms1 lg1 rb1|e] eqn:E1; [|discriminate].
    destruct (visit_list f l ms1) as [ys ms2 lg2 rb2|e] eqn:E2; [|discriminate].
    intros E. inversion E; subst.
    destruct (H x (or_introl eq_refl) _ _ _ _ _ _ E1) as [P1 S1].
    destruct (IH (fun y Hy => H y (or_intror Hy)) _ _ _ _ _ E2) as [P2 S2].
    destruct (scan c x ms) as [a m1]. cbn [fst snd] in *. subst ms1.
    destruct (scan_list c l m1) as [b m2]. cbn [fst snd] in *.
    cbn. now rewrite selected_app, P1, P2.
Qed.

Section Masked.
  Variable c : cfg.
  Hypothesis Hc : c_cls c = TMasked.
  Hypothesis HM : c_map c = [].

  Lemma masked_scan : forall n o pa, normalized o = true -> scans c (visit n c pa) o.
  Proof.
    induction n as [|n IH]; intros o pa Hn ms0 r same ms' lg rb; [discriminate|].
    cbn [visit]. unfold visit_body, is_masked. rewrite Hc.
    set (ms := mask_pre c o ms0).
    destruct o as [v| |l|i k s p ch].
    - cbn [scan fst snd]. fold ms. destruct pa as [[|]|]; try discriminate; intros E; inversion E; auto.
    - cbn [scan fst snd]. fold ms. destruct pa as [[|]|]; try discriminate; intros E; inversion E; auto.
    - unfold h_tuple. rewrite Hc, HM. cbn [inject fold_left].
      destruct (visit_list (visit n c pa) l ms) as [vs ms1 lg1 rb1|e] eqn:EV; [|discriminate].
      intros E. inversion E; subst. rewrite scan_Tup. fold ms. cbn [preorder]. rewrite preorder_strip.
      eapply visit_list_scan; [|exact EV].
      intros x Hx. apply IH. cbn [normalized] in Hn. rewrite forallb_forall in Hn. auto.
    - rewrite scan_Nd. cbv zeta. fold ms.
      assert (Hch : forall pa' x, In x ch -> scans c (visit n c pa') x).
      { intros pa' x Hx. apply IH. cbn [normalized] in Hn. apply andb_true_iff in Hn as [_ Hn].
        rewrite forallb_forall in Hn. auto. }
      unfold h_masked_node. rewrite HM. cbn [mfind kind_of].
      match goal with |- match ?X with _ => _ end = _ -> _ => destruct X as [r0 same0 ms1 lg0 rb0|e] eqn:E0 end; [|discriminate].
      intros E. inversion E; subst r0 same0 ms1 lg0. clear E.
      destruct (kind_scoped k) eqn:Hsc.
      + unfold h_scoped_tail in E0. cbn [andb children_of] in E0.
        assert (F : (exists o1 same1 lg1,
                   (if c_rebuild_scopes c then do_rebuild c (Nd i k s p ch) None ch ms else Ok (Nd i k s p ch) true ms [] [])
                   = Ok o1 same1 ms lg1 [] /\ children_of o1 = ch /\ kind_of o1 = k /\ pay_of o1 = p) \/
                   exists e, (if c_rebuild_scopes c then do_rebuild c (Nd i k s p ch) None ch ms else Ok (Nd i k s p ch) true ms [] []) = Err e).
        { destruct (c_rebuild_scopes c).
          - unfold do_rebuild. rewrite (zip_children_same ch ch eq_refl). destruct (c_inplace c).
            + left. do 3 eexists. repeat split.
            + destruct (mk_node k (inv_src c s ch) p ch) as [o1|] eqn:Emk.
              * apply mk_node_inv in Emk as (ch' & En & _ & ->).
                assert (ch' = ch).
                { cbn [normalized] in Hn. rewrite Hsc, En in Hn. apply andb_true_iff in Hn as [Hn _].
                  now apply list_ideqb_eq. }
                subst ch'. left. do 3 eexists. repeat split.
              * right. eexists. reflexivity.
          - left. do 3 eexists. repeat split. }
        destruct F as [(o1 & same1 & lg1 & F & Hc1 & Hk1 & Hp1)|(e & F)]; rewrite F in E0; [|discriminate].
        rewrite Hc1 in E0.
        destruct (visit_list (visit n c (Some (m_active ms))) ch ms) as [vs ms2 lg2 rb2|e] eqn:EV; [|discriminate].
        pose proof (visit_list_scan c _ ch (Hch (Some (m_active ms))) _ _ _ _ _ EV) as [P S].
        destruct (scan_list c ch ms) as [b m2]. cbn [fst snd] in *.
        destruct (m_active ms) eqn:Ha; cbn [negb] in E0; inversion E0; subst.
        * destruct o1; try discriminate. cbn [set_children preorder children_of kind_of pay_of] in *. subst.
          rewrite zip_children_same by (eapply visit_list_length; eauto).
          unfold selected. cbn. fold (selected b). now rewrite P.
        * rewrite preorder_inactive. unfold selected. cbn. fold (selected b). auto.
      + cbn [children_of] in E0.
        destruct (visit_list (visit n c (Some (m_active ms))) ch ms) as [vs ms2 lg2 rb2|e] eqn:EV; [|discriminate].
        pose proof (visit_list_scan c _ ch (Hch (Some (m_active ms))) _ _ _ _ _ EV) as [P S].
        destruct (scan_list c ch ms) as [b m2]. cbn [fst snd] in *.
        destruct (m_active ms) eqn:Ha.
        * destruct (do_rebuild c (Nd i k s p ch) None vs ms2) as [r1 same1 ms3 lg3 rb3|e] eqn:ED; [|discriminate].
          inversion E0; subst.
          apply preorder_do_rebuild in ED as [PD ->]; [|eapply visit_list_length; eauto].
          unfold selected. cbn. fold (selected b). now rewrite PD, P.
        * inversion E0; subst. rewrite preorder_inactive. unfold selected. cbn. fold (selected b). auto.
  Qed.
End Masked.

Theorem masked_preorder_spec : forall c n t pa ms r same ms' lg rb,
  c_cls c = TMasked -> c_map c = [] -> normalized t = true ->
  visit n c pa t ms = Ok r same ms' lg rb ->
  preorder r = selected (fst (scan c t ms)) /\ ms' = snd (scan c t ms).
Proof.
  intros c n t pa ms r same ms' lg rb Hc HM Hn E.
  exact (masked_scan c Hc HM n t pa Hn ms r same ms' lg rb E).
Qed.
