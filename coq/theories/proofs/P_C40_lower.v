(** C40 — proofs, part 5: convert_to_lower_case.  Idempotent on the class where the ten iterations of
    [recursive_expression_map_update] reach every name; refuted beyond it (nesting deeper than the budget,
    initial values of wholesale-replaced declared symbols). *)
From Coq Require Import ZArith List Bool String Ascii Lia.
From LV Require Import Base.Strings Base.Expr Base.MiniF models.M_C40 proofs.P_C40_base.
Import ListNotations.
Open Scope Z_scope.
Open Scope list_scope.

Lemma forallb_map {A B} (f : B -> bool) (g : A -> B) l : forallb f (map g l) = forallb (fun x => f (g x)) l.
Proof. induction l as [|x l IH]; cbn; [reflexivity|]. now rewrite IH. Qed.

Lemma forallb_ext_F {A} (f g : A -> bool) l : Forall (fun x => f x = g x) l -> forallb f l = forallb g l.
Proof. induction 1 as [|x l H _ IH]; cbn; [reflexivity|]. now rewrite H, IH. Qed.

(** * lists of depths *)
Lemma maxl_le l n : (maxl l <= n)%nat <-> Forall (fun k => (k <= n)%nat) l.
Proof.
  induction l as [|k l IH]; cbn [maxl fold_right]; [split; [constructor|lia]|].
  fold (maxl l). split.
  - intros H. constructor; [lia|]. apply IH. lia.
  - intros H. inversion H; subst. apply IH in H3. lia.
Qed.

Lemma Forall_map_iff {A B} (f : A -> B) (P : B -> Prop) l : Forall P (map f l) <-> Forall (fun x => P (f x)) l.
Proof. apply Forall_map. Qed.

(** * normal form => identity *)
Lemma lcv_fix : forall e n, lowv e = true -> lcv n e = e.
Proof.
  induction e using expr_ind'; intros n Hl; cbn [lcv]; try reflexivity.
  - cbn [lowv] in Hl. apply negb_true_iff in Hl. now rewrite (has_upper_false _ Hl).
  - cbn [lowv] in Hl. f_equal. apply map_id_F. apply forallb_F in Hl.
    eapply Forall_mp; [|exact Hl]. eapply Forall_impl; [|exact H]. intros a Ha Hb. now apply Ha.
  - cbn [lowv] in Hl. f_equal. apply map_id_F. apply forallb_F in Hl.
    eapply Forall_mp; [|exact Hl]. eapply Forall_impl; [|exact H]. intros a Ha Hb. now apply Ha.
  - cbn [lowv] in Hl. apply andb_true_iff in Hl. destruct Hl. now rewrite IHe1, IHe2.
  - cbn [lowv] in Hl. apply andb_true_iff in Hl. destruct Hl. now rewrite IHe1, IHe2.
  - cbn [lowv] in Hl. apply andb_true_iff in Hl. destruct Hl. now rewrite IHe1, IHe2.
  - cbn [lowv] in Hl. f_equal. apply map_id_F. apply forallb_F in Hl.
    eapply Forall_mp; [|exact Hl]. eapply Forall_impl; [|exact H]. intros a Ha Hb. now apply Ha.
  - cbn [lowv] in Hl. f_equal. apply map_id_F. apply forallb_F in Hl.
    eapply Forall_mp; [|exact Hl]. eapply Forall_impl; [|exact H]. intros a Ha Hb. now apply Ha.
  - cbn [lowv] in Hl. now rewrite IHe.
  - cbn [lowv] in Hl. apply andb_true_iff in Hl. destruct Hl as [H1 H2].
    assert (M : forall k, map (lcv k) args = args).
    { intros k. apply map_id_F. apply forallb_F in H2.
      eapply Forall_mp; [|exact H2]. eapply Forall_impl; [|exact H]. intros a Ha Hb. now apply Ha. }
    destruct (is_intr_ci f) eqn:Ei; [now rewrite M|].
    cbn [orb] in H1. apply negb_true_iff in H1. rewrite H1. now rewrite M.
Qed.

Lemma lcc_fix : forall e n, lowi e = true -> lcc n e = e.
Proof.
  induction e using expr_ind'; intros n Hl; cbn [lcc]; try reflexivity.
  - cbn [lowi] in Hl. f_equal. apply map_id_F. apply forallb_F in Hl.
    eapply Forall_mp; [|exact Hl]. eapply Forall_impl; [|exact H]. intros a Ha Hb. now apply Ha.
  - cbn [lowi] in Hl. f_equal. apply map_id_F. apply forallb_F in Hl.
    eapply Forall_mp; [|exact Hl]. eapply Forall_impl; [|exact H]. intros a Ha Hb. now apply Ha.
  - cbn [lowi] in Hl. apply andb_true_iff in Hl. destruct Hl. now rewrite IHe1, IHe2.
  - cbn [lowi] in Hl. apply andb_true_iff in Hl. destruct Hl. now rewrite IHe1, IHe2.
  - cbn [lowi] in Hl. apply andb_true_iff in Hl. destruct Hl. now rewrite IHe1, IHe2.
  - cbn [lowi] in Hl. f_equal. apply map_id_F. apply forallb_F in Hl.
    eapply Forall_mp; [|exact Hl]. eapply Forall_impl; [|exact H]. intros a Ha Hb. now apply Ha.
  - cbn [lowi] in Hl. f_equal. apply map_id_F. apply forallb_F in Hl.
    eapply Forall_mp; [|exact Hl]. eapply Forall_impl; [|exact H]. intros a Ha Hb. now apply Ha.
  - cbn [lowi] in Hl. now rewrite IHe.
  - cbn [lowi] in Hl. apply andb_true_iff in Hl. destruct Hl as [H1 H2].
    assert (M : forall k, map (lcc k) args = args).
    { intros k. apply map_id_F. apply forallb_F in H2.
      eapply Forall_mp; [|exact H2]. eapply Forall_impl; [|exact H]. intros a Ha Hb. now apply Ha. }
    destruct (is_intr_ci f) eqn:Ei; [|now rewrite M].
    cbn [negb orb] in H1. apply negb_true_iff in H1. rewrite H1. now rewrite M.
Qed.

(** * within the budget every name is reached *)
Lemma vdepth0_lowv : forall e, vdepth e = 0%nat -> lowv e = true.
Proof.
  induction e using expr_ind'; intros Hd; cbn [lowv]; try reflexivity.
  - discriminate.
  - cbn [vdepth] in Hd. apply forallb_F. assert (L : (maxl (map vdepth cs) <= 0)%nat) by lia.
    apply maxl_le, Forall_map_iff in L. eapply Forall_mp; [|exact L]. eapply Forall_impl; [|exact H]. intros a Ha Hb. cbn beta in Hb. apply Ha. lia.
  - cbn [vdepth] in Hd. apply forallb_F. assert (L : (maxl (map vdepth cs) <= 0)%nat) by lia.
    apply maxl_le, Forall_map_iff in L. eapply Forall_mp; [|exact L]. eapply Forall_impl; [|exact H]. intros a Ha Hb. cbn beta in Hb. apply Ha. lia.
  - cbn [vdepth] in Hd. rewrite IHe1, IHe2 by lia. reflexivity.
  - cbn [vdepth] in Hd. rewrite IHe1, IHe2 by lia. reflexivity.
  - cbn [vdepth] in Hd. rewrite IHe1, IHe2 by lia. reflexivity.
  - cbn [vdepth] in Hd. apply forallb_F. assert (L : (maxl (map vdepth cs) <= 0)%nat) by lia.
    apply maxl_le, Forall_map_iff in L. eapply Forall_mp; [|exact L]. eapply Forall_impl; [|exact H]. intros a Ha Hb. cbn beta in Hb. apply Ha. lia.
  - cbn [vdepth] in Hd. apply forallb_F. assert (L : (maxl (map vdepth cs) <= 0)%nat) by lia.
    apply maxl_le, Forall_map_iff in L. eapply Forall_mp; [|exact L]. eapply Forall_impl; [|exact H]. intros a Ha Hb. cbn beta in Hb. apply Ha. lia.
  - cbn [vdepth] in Hd. now apply IHe.
  - cbn [vdepth] in Hd. destruct (is_intr_ci f) eqn:Ei; [|discriminate]. cbn [orb andb].
    apply forallb_F. assert (L : (maxl (map vdepth args) <= 0)%nat) by lia.
    apply maxl_le, Forall_map_iff in L. eapply Forall_mp; [|exact L]. eapply Forall_impl; [|exact H]. intros a Ha Hb. cbn beta in Hb. apply Ha. lia.
Qed.

Lemma lcv_reaches : forall e n, (vdepth e <= S n)%nat -> lowv (lcv n e) = true.
Proof.
  induction e using expr_ind'; intros n Hd; cbn [lcv lowv]; try reflexivity.
  - now rewrite has_upper_lower.
  - cbn [vdepth] in Hd. apply forallb_F, Forall_map_iff. apply maxl_le, Forall_map_iff in Hd.
    eapply Forall_mp; [|exact Hd]. eapply Forall_impl; [|exact H]. intros a Ha Hb. now apply Ha.
  - cbn [vdepth] in Hd. apply forallb_F, Forall_map_iff. apply maxl_le, Forall_map_iff in Hd.
    eapply Forall_mp; [|exact Hd]. eapply Forall_impl; [|exact H]. intros a Ha Hb. now apply Ha.
  - cbn [vdepth] in Hd. rewrite IHe1, IHe2 by lia. reflexivity.
  - cbn [vdepth] in Hd. rewrite IHe1, IHe2 by lia. reflexivity.
  - cbn [vdepth] in Hd. rewrite IHe1, IHe2 by lia. reflexivity.
  - cbn [vdepth] in Hd. apply forallb_F, Forall_map_iff. apply maxl_le, Forall_map_iff in Hd.
    eapply Forall_mp; [|exact Hd]. eapply Forall_impl; [|exact H]. intros a Ha Hb. now apply Ha.
  - cbn [vdepth] in Hd. apply forallb_F, Forall_map_iff. apply maxl_le, Forall_map_iff in Hd.
    eapply Forall_mp; [|exact Hd]. eapply Forall_impl; [|exact H]. intros a Ha Hb. now apply Ha.
  - cbn [vdepth] in Hd. now apply IHe.
  - cbn [vdepth] in Hd. destruct (is_intr_ci f) eqn:Ei.
    + cbn [lowv]. rewrite Ei. cbn [orb andb]. apply forallb_F, Forall_map_iff. apply maxl_le, Forall_map_iff in Hd.
      eapply Forall_mp; [|exact Hd]. eapply Forall_impl; [|exact H]. intros a Ha Hb. now apply Ha.
    + assert (Hd' : (maxl (map vdepth args) <= n)%nat) by lia. apply maxl_le, Forall_map_iff in Hd'.
      destruct (has_upper f) eqn:Eu.
      * destruct n as [|m].
        -- cbn [lowv]. rewrite is_intr_ci_lower, Ei, has_upper_lower. cbn [orb negb andb].
           apply forallb_F. eapply Forall_impl; [|exact Hd']. intros a Ha. cbn beta in Ha. apply vdepth0_lowv. lia.
        -- cbn [lowv]. rewrite is_intr_ci_lower, Ei, has_upper_lower. cbn [orb negb andb].
           apply forallb_F, Forall_map_iff. eapply Forall_mp; [|exact Hd']. eapply Forall_impl; [|exact H]. intros a Ha Hb. now apply Ha.
      * cbn [lowv]. rewrite Ei, Eu. cbn [orb negb andb].
        apply forallb_F, Forall_map_iff. eapply Forall_mp; [|exact Hd']. eapply Forall_impl; [|exact H].
        intros a Ha Hb. cbn beta in Hb. apply Ha. lia.
Qed.

Lemma idepth0_lowi : forall e, idepth e = 0%nat -> lowi e = true.
Proof.
  induction e using expr_ind'; intros Hd; cbn [lowi]; try reflexivity.
  - cbn [idepth] in Hd. apply forallb_F. assert (L : (maxl (map idepth cs) <= 0)%nat) by lia.
    apply maxl_le, Forall_map_iff in L. eapply Forall_mp; [|exact L]. eapply Forall_impl; [|exact H]. intros a Ha Hb. cbn beta in Hb. apply Ha. lia.
  - cbn [idepth] in Hd. apply forallb_F. assert (L : (maxl (map idepth cs) <= 0)%nat) by lia.
    apply maxl_le, Forall_map_iff in L. eapply Forall_mp; [|exact L]. eapply Forall_impl; [|exact H]. intros a Ha Hb. cbn beta in Hb. apply Ha. lia.
  - cbn [idepth] in Hd. rewrite IHe1, IHe2 by lia. reflexivity.
  - cbn [idepth] in Hd. rewrite IHe1, IHe2 by lia. reflexivity.
  - cbn [idepth] in Hd. rewrite IHe1, IHe2 by lia. reflexivity.
  - cbn [idepth] in Hd. apply forallb_F. assert (L : (maxl (map idepth cs) <= 0)%nat) by lia.
    apply maxl_le, Forall_map_iff in L. eapply Forall_mp; [|exact L]. eapply Forall_impl; [|exact H]. intros a Ha Hb. cbn beta in Hb. apply Ha. lia.
  - cbn [idepth] in Hd. apply forallb_F. assert (L : (maxl (map idepth cs) <= 0)%nat) by lia.
    apply maxl_le, Forall_map_iff in L. eapply Forall_mp; [|exact L]. eapply Forall_impl; [|exact H]. intros a Ha Hb. cbn beta in Hb. apply Ha. lia.
  - cbn [idepth] in Hd. now apply IHe.
  - cbn [idepth] in Hd. destruct (is_intr_ci f) eqn:Ei; [discriminate|]. cbn [negb orb andb].
    apply forallb_F. assert (L : (maxl (map idepth args) <= 0)%nat) by lia.
    apply maxl_le, Forall_map_iff in L. eapply Forall_mp; [|exact L]. eapply Forall_impl; [|exact H]. intros a Ha Hb. cbn beta in Hb. apply Ha. lia.
Qed.

Lemma lcc_reaches : forall e n, (idepth e <= S n)%nat -> lowi (lcc n e) = true.
Proof.
  induction e using expr_ind'; intros n Hd; cbn [lcc lowi]; try reflexivity.
  - cbn [idepth] in Hd. apply forallb_F, Forall_map_iff. apply maxl_le, Forall_map_iff in Hd.
    eapply Forall_mp; [|exact Hd]. eapply Forall_impl; [|exact H]. intros a Ha Hb. now apply Ha.
  - cbn [idepth] in Hd. apply forallb_F, Forall_map_iff. apply maxl_le, Forall_map_iff in Hd.
    eapply Forall_mp; [|exact Hd]. eapply Forall_impl; [|exact H]. intros a Ha Hb. now apply Ha.
  - cbn [idepth] in Hd. rewrite IHe1, IHe2 by lia. reflexivity.
  - cbn [idepth] in Hd. rewrite IHe1, IHe2 by lia. reflexivity.
  - cbn [idepth] in Hd. rewrite IHe1, IHe2 by lia. reflexivity.
  - cbn [idepth] in Hd. apply forallb_F, Forall_map_iff. apply maxl_le, Forall_map_iff in Hd.
    eapply Forall_mp; [|exact Hd]. eapply Forall_impl; [|exact H]. intros a Ha Hb. now apply Ha.
  - cbn [idepth] in Hd. apply forallb_F, Forall_map_iff. apply maxl_le, Forall_map_iff in Hd.
    eapply Forall_mp; [|exact Hd]. eapply Forall_impl; [|exact H]. intros a Ha Hb. now apply Ha.
  - cbn [idepth] in Hd. now apply IHe.
  - cbn [idepth] in Hd. destruct (is_intr_ci f) eqn:Ei.
    + assert (Hd' : (maxl (map idepth args) <= n)%nat) by lia. apply maxl_le, Forall_map_iff in Hd'.
      destruct (has_upper f) eqn:Eu.
      * destruct n as [|m].
        -- cbn [lowi]. rewrite is_intr_ci_lower, Ei, has_upper_lower. cbn [orb negb andb].
           apply forallb_F. eapply Forall_impl; [|exact Hd']. intros a Ha. cbn beta in Ha. apply idepth0_lowi. lia.
        -- cbn [lowi]. rewrite is_intr_ci_lower, Ei, has_upper_lower. cbn [orb negb andb].
           apply forallb_F, Forall_map_iff. eapply Forall_mp; [|exact Hd']. eapply Forall_impl; [|exact H]. intros a Ha Hb. now apply Ha.
      * cbn [lowi]. rewrite Ei, Eu. cbn [orb negb andb].
        apply forallb_F, Forall_map_iff. eapply Forall_mp; [|exact Hd']. eapply Forall_impl; [|exact H].
        intros a Ha Hb. cbn beta in Hb. apply Ha. lia.
    + cbn [lowi]. rewrite Ei. cbn [negb orb andb]. apply forallb_F, Forall_map_iff. apply maxl_le, Forall_map_iff in Hd.
      eapply Forall_mp; [|exact Hd]. eapply Forall_impl; [|exact H]. intros a Ha Hb. now apply Ha.
Qed.

(** * the two phases do not disturb each other *)
Lemma lcv_idepth : forall e n, idepth (lcv n e) = idepth e.
Proof.
  induction e using expr_ind'; intros n; cbn [lcv idepth]; try reflexivity.
  - f_equal. rewrite map_map. apply map_ext_F. eapply Forall_impl; [|exact H]. intros a Ha. apply Ha.
  - f_equal. rewrite map_map. apply map_ext_F. eapply Forall_impl; [|exact H]. intros a Ha. apply Ha.
  - now rewrite IHe1, IHe2.
  - now rewrite IHe1, IHe2.
  - now rewrite IHe1, IHe2.
  - f_equal. rewrite map_map. apply map_ext_F. eapply Forall_impl; [|exact H]. intros a Ha. apply Ha.
  - f_equal. rewrite map_map. apply map_ext_F. eapply Forall_impl; [|exact H]. intros a Ha. apply Ha.
  - apply IHe.
  - assert (M : forall k, map idepth (map (lcv k) args) = map idepth args).
    { intros k. rewrite map_map. apply map_ext_F. eapply Forall_impl; [|exact H]. intros a Ha. apply Ha. }
    destruct (is_intr_ci f) eqn:Ei.
    + cbn [idepth]. now rewrite Ei, M.
    + destruct (has_upper f); [destruct n|]; cbn [idepth]; rewrite ?is_intr_ci_lower, Ei, ?M; reflexivity.
Qed.

Lemma lcc_lowv : forall e n, lowv (lcc n e) = lowv e.
Proof.
  induction e using expr_ind'; intros n; cbn [lcc lowv]; try reflexivity.
  - rewrite forallb_map. apply forallb_ext_F. eapply Forall_impl; [|exact H]. intros a Ha. apply Ha.
  - rewrite forallb_map. apply forallb_ext_F. eapply Forall_impl; [|exact H]. intros a Ha. apply Ha.
  - now rewrite IHe1, IHe2.
  - now rewrite IHe1, IHe2.
  - now rewrite IHe1, IHe2.
  - rewrite forallb_map. apply forallb_ext_F. eapply Forall_impl; [|exact H]. intros a Ha. apply Ha.
  - rewrite forallb_map. apply forallb_ext_F. eapply Forall_impl; [|exact H]. intros a Ha. apply Ha.
  - apply IHe.
  - assert (M : forall k, forallb lowv (map (lcc k) args) = forallb lowv args).
    { intros k. rewrite forallb_map. apply forallb_ext_F. eapply Forall_impl; [|exact H]. intros a Ha. apply Ha. }
    destruct (is_intr_ci f) eqn:Ei.
    + destruct (has_upper f); [destruct n|]; cbn [lowv]; rewrite ?is_intr_ci_lower, Ei, ?M; reflexivity.
    + cbn [lowv]. now rewrite Ei, M.
Qed.

(** * expressions: one application in the class gives a lower-case expression, on which both phases are the identity *)
Definition lc_e (n : nat) (e : expr) : expr := lcc n (lcv n e).

Lemma lc_e_low e n : shallow_e n e = true -> low_e (lc_e n e) = true.
Proof.
  unfold shallow_e, low_e, lc_e. intros H. apply andb_true_iff in H. destruct H as [H1 H2].
  apply Nat.leb_le in H1. apply Nat.leb_le in H2. apply andb_true_iff. split.
  - rewrite lcc_lowv. now apply lcv_reaches.
  - apply lcc_reaches. now rewrite lcv_idepth.
Qed.

Lemma lc_e_fix e n : low_e e = true -> lc_e n e = e.
Proof.
  unfold low_e, lc_e. intros H. apply andb_true_iff in H. destruct H as [H1 H2].
  now rewrite (lcv_fix e n H1), (lcc_fix e n H2).
Qed.
